//go:build verif

package crypto

import (
	"context"
	"crypto"
	"crypto/ecdsa"
	"crypto/ed25519"
	"crypto/rsa"
	"errors"
	"io"

	"github.com/lestrrat-go/jwx/v2/jwa"
	"github.com/lestrrat-go/jwx/v2/jwk"
	"github.com/lestrrat-go/jwx/v2/jws"
	"github.com/nuts-foundation/nuts-node/audit"
	"github.com/sirupsen/logrus"
)

//verif:stub github.com/lestrrat-go/jwx/v2/jws.NewHeaders => h3NewHeaders
//verif:stub github.com/lestrrat-go/jwx/v2/jws.Sign => h3Sign
//verif:stub github.com/nuts-foundation/nuts-node/crypto.SignatureAlgorithm => h3SigAlg
//verif:stub github.com/nuts-foundation/nuts-node/audit.Log => h3AuditLog

func h3AuditLog(ctx context.Context, logger *logrus.Entry, eventName string) *logrus.Entry { return logger }

func h3SigAlg(key crypto.PublicKey) (jwa.SignatureAlgorithm, error) { return jwa.ES256, nil }

// h3Headers is a jws.Headers value object for the members SignJWS touches (jwx contract: Set stores the
// value under the name, JWK() returns the value of "jwk" when it is a jwk.Key, Remove deletes a member).
type h3Headers struct {
	jws.Headers
	m map[string]interface{}
}

func h3NewHeaders() jws.Headers { return &h3Headers{m: map[string]interface{}{}} }

func (h *h3Headers) Set(name string, v interface{}) error {
	if name == jws.JWKKey {
		if _, ok := v.(jwk.Key); !ok {
			return errors.New("invalid value for jwk key")
		}
	}
	h.m[name] = v
	return nil
}
func (h *h3Headers) JWK() jwk.Key {
	k, _ := h.m[jws.JWKKey].(jwk.Key)
	return k
}
func (h *h3Headers) Remove(name string) error { delete(h.m, name); return nil }
func (h *h3Headers) Get(name string) (interface{}, bool) {
	v, ok := h.m[name]
	return v, ok
}

var h3Signed []*h3Headers

// h3Sign records that a JWS was produced with the given protected headers (read back from the jwx options).
func h3Sign(payload []byte, options ...jws.SignOption) ([]byte, error) {
	for _, o := range options {
		if w, ok := o.Value().(interface{ Protected(jws.Headers) jws.Headers }); ok {
			if hh, ok := w.Protected(nil).(*h3Headers); ok {
				h3Signed = append(h3Signed, hh)
			}
		}
	}
	return []byte("jws"), nil
}

// jwk.Key value objects of every key family, following jwx's contract for Raw(): the raw key is assigned
// to the target if it is assignable, else an error. A raw private key is a crypto.Signer; a public key is not.
type h3ECPub struct{ jwk.ECDSAPublicKey }
type h3ECPriv struct{ jwk.ECDSAPrivateKey }
type h3RSAPub struct{ jwk.RSAPublicKey }
type h3RSAPriv struct{ jwk.RSAPrivateKey }
type h3OKPPub struct{ jwk.OKPPublicKey }
type h3OKPPriv struct{ jwk.OKPPrivateKey }
type h3Sym struct{ jwk.SymmetricKey }

var errH3Raw = errors.New("harness: raw key is not assignable to the target")

func rawInto(v interface{}, raw interface{}) error {
	switch t := v.(type) {
	case *crypto.Signer:
		if s, ok := raw.(crypto.Signer); ok {
			*t = s
			return nil
		}
		return errH3Raw
	case *interface{}:
		*t = raw
		return nil
	}
	return errH3Raw
}

func (h3ECPub) Raw(v interface{}) error   { return rawInto(v, &ecdsa.PublicKey{}) }
func (h3ECPriv) Raw(v interface{}) error  { return rawInto(v, &ecdsa.PrivateKey{}) }
func (h3RSAPub) Raw(v interface{}) error  { return rawInto(v, &rsa.PublicKey{}) }
func (h3RSAPriv) Raw(v interface{}) error { return rawInto(v, &rsa.PrivateKey{}) }
func (h3OKPPub) Raw(v interface{}) error  { return rawInto(v, ed25519.PublicKey{}) }
func (h3OKPPriv) Raw(v interface{}) error { return rawInto(v, ed25519.PrivateKey{}) }
func (h3Sym) Raw(v interface{}) error     { return rawInto(v, []byte("secret")) }

type h3Signer struct{}

func (h3Signer) Public() crypto.PublicKey { return &ecdsa.PublicKey{} }
func (h3Signer) Sign(rand io.Reader, digest []byte, opts crypto.SignerOpts) ([]byte, error) {
	return nil, nil
}

// H03c: SignJWS with a caller-supplied jwk header of every key family: a JWS is produced only if the
// header key is NOT private key material; with a jwk header the kid header is dropped.
func H03c() {
	h3Signed = nil
	headers := map[string]interface{}{"kid": "k1", "typ": "x"}
	private, present := false, vBool()
	if present {
		switch vChoice(7) {
		case 0:
			headers["jwk"] = h3ECPub{}
		case 1:
			headers["jwk"], private = h3ECPriv{}, true
		case 2:
			headers["jwk"] = h3RSAPub{}
		case 3:
			headers["jwk"], private = h3RSAPriv{}, true
		case 4:
			headers["jwk"] = h3OKPPub{}
		case 5:
			headers["jwk"], private = h3OKPPriv{}, true
		case 6:
			headers["jwk"] = h3Sym{} // symmetric secret: not a crypto.Signer; jwx would serialise it - see registry note
		}
	}
	out, err := SignJWS(audit.TestContext(), []byte("p"), headers, h3Signer{}, vBool())
	if err == nil {
		vCover("signed")
		vAssert(len(h3Signed) == 1 && out == "jws", "H03c.signed_once: success without exactly one signing operation")
		vAssert(!private, "H03c.no_private_key_in_jwk_header: a JWS was produced with private key material in its jwk header")
		if present {
			_, hasKid := h3Signed[0].Get("kid")
			vAssert(!hasKid, "H03c.kid_dropped_with_jwk: kid header kept next to an embedded jwk")
		}
	} else {
		vCover("refused")
		vAssert(len(h3Signed) == 0, "H03c.refused_not_signed: an error was returned although a JWS was produced")
		vAssert(private, "H03c.public_jwk_signed: signing with a public key in the jwk header was refused")
	}
}

func H03c_twin() {
	h3Signed = nil
	headers := map[string]interface{}{"kid": "k1"}
	if vBool() {
		headers["jwk"] = h3ECPub{}
	}
	if _, err := SignJWS(audit.TestContext(), []byte("p"), headers, h3Signer{}, false); err == nil && len(h3Signed) == 1 {
		vAssert(false, "H03c_twin.reach: reachable")
	}
}
