//go:build verif

package jwx

import (
	"github.com/lestrrat-go/jwx/v2/jwa"
)

// hAsymmetricJWA is the reference set, written down independently of the code under test: every
// digital-signature (asymmetric) "alg" value registered for JWS - RFC 7518 section 3.1 (RS*, ES*, PS*),
// RFC 8037 (EdDSA), RFC 8812 (ES256K). Everything else - in particular "none", the HMAC family HS256/
// HS384/HS512, and every string that merely resembles a member (case, padding) - is outside.
func hAsymmetricJWA(s string) bool {
	switch s {
	case "RS256", "RS384", "RS512",
		"ES256", "ES384", "ES512", "ES256K",
		"PS256", "PS384", "PS512",
		"EdDSA":
		return true
	}
	return false
}

// hForbiddenLookalike: s equals none/HS256/HS384/HS512 after ASCII case folding and removal of
// spaces, tabs, CR, LF and NUL bytes (the case/space variants named by the property).
func hForbiddenLookalike(s string) bool {
	var folded []byte
	for i := 0; i < len(s); i++ {
		c := s[i]
		if c == ' ' || c == '\t' || c == '\r' || c == '\n' || c == 0 {
			continue
		}
		if c >= 'A' && c <= 'Z' {
			c += 'a' - 'A'
		}
		folded = append(folded, c)
	}
	switch string(folded) {
	case "none", "hs256", "hs384", "hs512":
		return true
	}
	return false
}

// H17a_jwx: jwx.IsAlgorithmSupported for ALL strings up to `algbytes` bytes, in the default build and
// in the production build (tag jwx_es256k, whose only effect is AddSupportedAlgorithm(ES256K) at init).
func H17a_jwx() {
	if vBool() {
		vCover("build-jwx_es256k")
		AddSupportedAlgorithm(jwa.ES256K)
	}
	n := vLen(0, vParam("algbytes", 6))
	vTag("alg")
	s := vString(n)
	ok := IsAlgorithmSupported(jwa.SignatureAlgorithm(s))
	if ok {
		vCover("accepted")
		vAssert(hAsymmetricJWA(s), "H17a_jwx.accepted_is_asymmetric: IsAlgorithmSupported accepts an algorithm outside the asymmetric reference set")
		vAssert(!hForbiddenLookalike(s), "H17a_jwx.none_mac_rejected: IsAlgorithmSupported accepts none/HS* or a case/space variant")
	} else {
		vCover("rejected")
	}
	// the list and the predicate agree (SupportedAlgorithmsAsStrings is what is advertised in metadata)
	listed := false
	for _, a := range SupportedAlgorithmsAsStrings() {
		if a == s {
			listed = true
		}
	}
	vAssert(listed == ok, "H17a_jwx.advertised_equals_supported: advertised algorithm list and IsAlgorithmSupported disagree")
	if listed {
		vAssert(hAsymmetricJWA(s), "H17a_jwx.advertised_is_asymmetric: an advertised algorithm is outside the asymmetric reference set")
	}
}

func H17a_jwx_twin() {
	s := vString(5)
	if IsAlgorithmSupported(jwa.SignatureAlgorithm(s)) && s[0] == 'P' {
		vAssert(false, "H17a_jwx_twin.reach: reachable")
	}
}
