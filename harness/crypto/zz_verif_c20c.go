//go:build verif

package crypto

// C20 / H20c_crypto: crypto.Configure. With the whole config symbolic and the four back-end set-ups stubbed (recording),
// strict mode refuses an implicit (empty) crypto.storage before any back-end is set up; with strict mode off the same
// setting passes the guard (file system back-end); explicit settings are accepted in either mode.

import (
	"github.com/nuts-foundation/nuts-node/core"
	"github.com/nuts-foundation/nuts-node/storage"
	"gorm.io/gorm"
)

//verif:stub (*github.com/nuts-foundation/nuts-node/crypto.Crypto).setupFSBackend => hSetupFS
//verif:stub (*github.com/nuts-foundation/nuts-node/crypto.Crypto).setupVaultBackend => hSetupVault
//verif:stub (*github.com/nuts-foundation/nuts-node/crypto.Crypto).setupAzureKeyVaultBackend => hSetupAzure
//verif:stub (*github.com/nuts-foundation/nuts-node/crypto.Crypto).setupStorageAPIBackend => hSetupExternal

var hSetups []string

func hSetupFS(c *Crypto, config core.ServerConfig) error {
	hSetups = append(hSetups, "fs")
	return nil
}
func hSetupVault(c *Crypto, config core.ServerConfig) error {
	hSetups = append(hSetups, "vaultkv")
	return nil
}
func hSetupAzure(c *Crypto, config core.ServerConfig) error {
	hSetups = append(hSetups, "azure-keyvault")
	return nil
}
func hSetupExternal(c *Crypto) error {
	hSetups = append(hSetups, "external")
	return nil
}

type hStorageEngine struct {
	storage.Engine
}

func (hStorageEngine) GetSQLDatabase() *gorm.DB { return nil }

func H20c_crypto() {
	vTag("storage")
	st := vString(vLen(0, vParam("len", 14)))
	strict := vBool()
	c := NewCryptoInstance(hStorageEngine{})
	c.config.Storage = st
	c.config.Vault.Address = vString(1)
	c.config.External.Address = vString(1)
	err := c.Configure(core.ServerConfig{Strictmode: strict, Datadir: vString(1)})
	explicit := st == "fs" || st == "vaultkv" || st == "azure-keyvault" || st == "external"
	switch {
	case st == "" && strict:
		vCover("strict:implicit")
		vAssert(err != nil, "H20c_crypto.strict_implicit_refused: strict mode accepted an implicit key storage back-end")
		vAssert(len(hSetups) == 0, "H20c_crypto.strict_refused_before_setup: a key storage back-end was set up although strict mode refuses the configuration")
	case st == "":
		vCover("lenient:implicit")
		vAssert(err == nil && len(hSetups) == 1 && hSetups[0] == "fs", "H20c_crypto.lenient_implicit_passes: non-strict mode did not fall back to the file system back-end")
	case explicit:
		vCover("explicit")
		vAssert(err == nil && len(hSetups) == 1 && hSetups[0] == st, "H20c_crypto.explicit_accepted: an explicitly configured back-end was not set up (strict or not)")
	default:
		vCover("unknown")
		vAssert(err != nil && len(hSetups) == 0, "H20c_crypto.unknown_refused: an unknown back-end name was not refused")
	}
}

func H20c_crypto_twin() {
	c := NewCryptoInstance(hStorageEngine{})
	c.config.Storage = vString(2)
	if c.Configure(core.ServerConfig{Strictmode: true}) == nil && len(hSetups) == 1 {
		vAssert(false, "H20c_crypto_twin.reach: reachable")
	}
}
