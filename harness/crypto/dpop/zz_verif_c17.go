//go:build verif

package dpop

import (
	"crypto/ecdsa"
	"crypto/ed25519"
	"crypto/rsa"
	"errors"
	"fmt"
	"strings"
	"time"

	"github.com/lestrrat-go/jwx/v2/jwa"
	"github.com/lestrrat-go/jwx/v2/jwk"
	"github.com/lestrrat-go/jwx/v2/jws"
	"github.com/lestrrat-go/jwx/v2/jwt"
	"github.com/nuts-foundation/nuts-node/crypto/jwx"
)

// hAsymmetricJWA is the reference set, written down independently of the code under test: every
// digital-signature (asymmetric) "alg" value registered for JWS - RFC 7518 section 3.1 (RS*, ES*, PS*),
// RFC 8037 (EdDSA), RFC 8812 (ES256K).
func hAsymmetricJWA(s string) bool {
	switch s {
	case "RS256", "RS384", "RS512",
		"ES256", "ES384", "ES512", "ES256K",
		"PS256", "PS384", "PS512",
		"EdDSA":
		return true
	}
	return false
}

// hForbiddenLookalike: s equals none/HS256/HS384/HS512 after ASCII case folding and removal of
// spaces, tabs, CR, LF and NUL bytes (the case/space variants named by the property).
func hForbiddenLookalike(s string) bool {
	var folded []byte
	for i := 0; i < len(s); i++ {
		c := s[i]
		if c == ' ' || c == '\t' || c == '\r' || c == '\n' || c == 0 {
			continue
		}
		if c >= 'A' && c <= 'Z' {
			c += 'a' - 'A'
		}
		folded = append(folded, c)
	}
	switch string(folded) {
	case "none", "hs256", "hs384", "hs512":
		return true
	}
	return false
}

// ---------------------------------------------------------------------------------------------
// jwx stand-ins. jws.ParseString contract (jws/message.go): signatures in serialisation order, every
// signature has non-nil protected headers, registered header parameters are typed. jwk.Key.Raw(&v)
// contract: succeeds iff v's type is the raw key type of the JWK (rsa.PrivateKey for an RSA private JWK,
// ecdsa.PrivateKey for an EC private JWK, ed25519.PrivateKey for an OKP/Ed25519 private JWK, the
// corresponding PublicKey types for public JWKs). jwt.ParseString(s, jwt.WithKey(alg, key)) contract:
// succeeds iff a signature of s verifies with `key` under `alg`; claims are those of the payload.

//verif:stub github.com/lestrrat-go/jwx/v2/jws.ParseString => hJWSParseString
//verif:stub github.com/lestrrat-go/jwx/v2/jwt.ParseString => hJWTParseString

const (
	hPublic = iota
	hRSAPrivate
	hECPrivate
	hEdPrivate
)

type hKey struct {
	jwk.Key
	kind int
}

func (k *hKey) Raw(v interface{}) error {
	switch v.(type) {
	case *rsa.PrivateKey:
		if k.kind == hRSAPrivate {
			return nil
		}
	case *ecdsa.PrivateKey:
		if k.kind == hECPrivate {
			return nil
		}
	case *ed25519.PrivateKey:
		if k.kind == hEdPrivate {
			return nil
		}
	}
	return errors.New("harness: raw key type mismatch")
}

type hHeaders struct {
	jws.Headers
	alg, typ       string
	hasTyp, hasKey bool
	key            *hKey
}

func (h *hHeaders) Algorithm() jwa.SignatureAlgorithm { return jwa.SignatureAlgorithm(h.alg) }
func (h *hHeaders) Type() string {
	if h.hasTyp {
		return h.typ
	}
	return ""
}
func (h *hHeaders) JWK() jwk.Key {
	if h.hasKey {
		return h.key
	}
	return nil
}

func hDPoPHeaders(alg string, kind int) *hHeaders {
	return &hHeaders{alg: alg, typ: DPopType, hasTyp: true, hasKey: true, key: &hKey{kind: kind}}
}

var hJWSFail bool
var hJWSSigs []*hHeaders
var hJWSArgs []string

func hJWSParseString(src string) (*jws.Message, error) {
	hJWSArgs = append(hJWSArgs, src)
	if hJWSFail {
		return nil, errors.New("harness: not a JWS")
	}
	m := jws.NewMessage()
	for _, h := range hJWSSigs {
		m.AppendSignature(jws.NewSignature().SetProtectedHeaders(h))
	}
	return m, nil
}

// DPoP proof claims: iat typed time.Time, jti typed string, htu/htm private claims (arbitrary JSON:
// string, number or absent here).
type hToken struct {
	jwt.Token
	hasIat         bool
	jti            string
	htu, htm       interface{}
	hasHTU, hasHTM bool
}

func (t *hToken) IssuedAt() time.Time {
	if t.hasIat {
		return time.Unix(1000, 0).UTC()
	}
	return time.Time{}
}
func (t *hToken) JwtID() string { return t.jti }
func (t *hToken) Get(name string) (interface{}, bool) {
	switch name {
	case HTUKey:
		return t.htu, t.hasHTU
	case HTMKey:
		return t.htm, t.hasHTM
	}
	return nil, false
}

var hVerifies bool
var hTheToken *hToken

type hParseCall struct {
	s   string
	alg string
	key interface{}
}

var hJWTParseCalls []hParseCall

func hJWTParseString(s string, options ...jwt.ParseOption) (jwt.Token, error) {
	call := hParseCall{s: s}
	for _, o := range options {
		// (the engine prints %T with the full package path, Go with the package name: accept both)
		if strings.HasSuffix(fmt.Sprintf("%T", o.Ident()), "jwt.identKey") {
			if a, ok := vGetField(o.Value(), "alg").(jwa.SignatureAlgorithm); ok {
				call.alg = string(a)
			}
			call.key = vGetField(o.Value(), "key")
		}
	}
	hJWTParseCalls = append(hJWTParseCalls, call)
	if hVerifies {
		if hTheToken == nil {
			// the claims are drawn when the code first gets to see them (keeps refused-earlier paths cheap)
			hTheToken = hSymProofToken()
		}
		return hTheToken, nil
	}
	return nil, errors.New("harness: could not verify message using any of the signatures or keys")
}

func hSymClaim() (interface{}, bool) {
	switch vChoice(4) {
	case 0:
		return nil, false
	case 1:
		return "", true
	case 2:
		return "x", true
	}
	return float64(1), true
}

func hSymProofToken() *hToken {
	t := &hToken{}
	vTag("hasIat")
	t.hasIat = vBool()
	t.jti = vString(vLen(0, 1))
	t.htu, t.hasHTU = hSymClaim()
	t.htm, t.hasHTM = hSymClaim()
	return t
}

func hGoodToken() *hToken {
	return &hToken{hasIat: true, jti: "j", htu: "u", hasHTU: true, htm: "m", hasHTM: true}
}

// H17a_dpop: the inline allow-list of dpop.Parse for ALL alg strings up to `algbytes` bytes, in the
// default build and in the production build (tag jwx_es256k = AddSupportedAlgorithm(ES256K) at init).
func H17a_dpop() {
	if vBool() {
		vCover("build-jwx_es256k")
		jwx.AddSupportedAlgorithm(jwa.ES256K)
	}
	n := vLen(0, vParam("algbytes", 6))
	vTag("alg")
	alg := vString(n)
	hJWSSigs = []*hHeaders{hDPoPHeaders(alg, hPublic)}
	hVerifies = true
	hTheToken = hGoodToken()
	d, err := Parse("proof")
	if err == nil {
		vCover("accepted")
		vAssert(d != nil, "H17a_dpop.result: Parse returned neither proof nor error")
		vAssert(hAsymmetricJWA(alg), "H17a_dpop.accepted_is_asymmetric: dpop.Parse accepts a proof whose alg is outside the asymmetric reference set")
		vAssert(!hForbiddenLookalike(alg), "H17a_dpop.none_mac_rejected: dpop.Parse accepts alg none/HS* or a case/space variant")
		vAssert(len(hJWTParseCalls) == 1 && hJWTParseCalls[0].alg == alg, "H17a_dpop.verified_with_header_alg: proof was not verified under the algorithm that passed the allow-list")
	} else {
		vCover("rejected")
		vAssert(d == nil, "H17a_dpop.no_result_on_error: Parse returned a proof together with an error")
	}
}

func H17a_dpop_twin() {
	alg := vString(5)
	hJWSSigs = []*hHeaders{hDPoPHeaders(alg, hPublic)}
	hVerifies = true
	hTheToken = hGoodToken()
	if _, err := Parse("proof"); err == nil && alg[0] == 'P' {
		vAssert(false, "H17a_dpop_twin.reach: reachable")
	}
}

// hSymDPoPHeaders: alg an arbitrary 5-byte string (ES256, HS256, PS512, ...; other lengths: H17a_dpop),
// typ absent or an arbitrary 8-byte string, jwk absent or a key of any kind (public / RSA, EC, Ed25519
// private). Nothing forks here; the paths split where the code looks.
func hSymDPoPHeaders() *hHeaders {
	h := &hHeaders{}
	vTag("alg")
	h.alg = vString(5)
	vTag("hasTyp")
	h.hasTyp = vBool()
	vTag("typ")
	h.typ = vString(8)
	vTag("hasJWK")
	h.hasKey = vBool()
	vTag("keyKind")
	h.key = &hKey{kind: vRange(hPublic, hEdPrivate)}
	return h
}

// H17b_dpop + H17c_dpop: dpop.Parse on a parse result with n = 0..maxsigs signatures.
// accepted => exactly one signature; its typ is dpop+jwt; it embeds a jwk; that jwk is not a private
// key; the proof was verified over the received string with exactly that embedded key.
func H17b_dpop() {
	vTag("parseFails")
	hJWSFail = vBool()
	n := vLen(0, vParam("maxsigs", 3))
	for i := 0; i < n; i++ {
		hJWSSigs = append(hJWSSigs, hSymDPoPHeaders())
	}
	vTag("verifies")
	hVerifies = vBool()
	d, err := Parse("proof")
	vAssert(len(hJWSArgs) == 1 && hJWSArgs[0] == "proof", "H17b_dpop.parses_received_bytes: Parse did not parse exactly the string it was given")
	if err != nil {
		vCover("rejected")
		vAssert(errors.Is(err, ErrInvalidDPoP), "H17b_dpop.error_kind: rejection is not ErrInvalidDPoP")
		if !hJWSFail && n == 1 && hVerifies {
			h, t := hJWSSigs[0], hTheToken
			clean := h.alg == "ES256" && h.hasTyp && h.typ == DPopType && h.hasKey && h.key.kind == hPublic
			if t == nil {
				vAssert(!clean, "H17b_dpop.clean_proof_verified: rejected a well-formed single-signature ES256 proof before verifying it")
			} else {
				vAssert(!(clean && t.hasIat && t.jti != "" && t.hasHTU && t.htu != "" && t.hasHTM && t.htm != ""), "H17b_dpop.clean_proof_accepted: rejected a well-formed single-signature ES256 proof")
			}
		}
		return
	}
	vCover("accepted")
	vAssert(d != nil && !hJWSFail, "H17b_dpop.unparsable_rejected: accepted a proof that is not a JWS")
	if n >= 2 {
		vClass("JSON-serialised JWS with more than one signature")
	}
	vAssert(n == 1, "H17b_dpop.exactly_one_signature: dpop.Parse accepts a JWS that does not carry exactly one signature")
	h := hJWSSigs[0]
	vAssert(hAsymmetricJWA(h.alg), "H17b_dpop.alg_asymmetric: accepted a proof whose alg is outside the asymmetric reference set")
	vAssert(h.hasTyp && h.typ == "dpop+jwt", "H17c_dpop.typ: accepted a proof whose typ is not dpop+jwt")
	vAssert(h.hasKey, "H17c_dpop.jwk_mandatory: accepted a proof without embedded jwk")
	vAssert(h.key.kind == hPublic, "H17c_dpop.private_jwk_refused: accepted a proof embedding a private key")
	vAssert(hVerifies && len(hJWTParseCalls) == 1, "H17c_dpop.verified: accepted a proof whose signature was not verified")
	c := hJWTParseCalls[0]
	vAssert(c.s == "proof", "H17c_dpop.verify_received_bytes: verification ran on something else than the received string")
	vAssert(c.key == interface{}(jwk.Key(h.key)), "H17c_dpop.verified_with_embedded_key: proof verified with a key other than its embedded jwk")
	vAssert(c.alg == h.alg, "H17c_dpop.verified_with_header_alg: proof verified under another algorithm than its alg header")
	vAssert(hTheToken != nil && d.Headers == jws.Headers(h) && d.Token == jwt.Token(hTheToken) && d.raw == "proof", "H17c_dpop.result_is_verified_proof: returned DPoP does not carry the verified headers/claims/raw string")
	t := hTheToken
	vAssert(t.hasIat && t.jti != "" && t.hasHTU && t.hasHTM, "H17c_dpop.claims_present: accepted a proof lacking iat/jti/htu/htm")
}

func H17b_dpop_twin() {
	h := hSymDPoPHeaders()
	hJWSSigs = []*hHeaders{h}
	hVerifies = true
	if d, err := Parse("proof"); err == nil && d.Token.JwtID() != "" && h.alg[0] == 'P' {
		vAssert(false, "H17b_dpop_twin.reach: reachable")
	}
}
