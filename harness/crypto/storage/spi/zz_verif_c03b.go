//go:build verif

package spi

import (
	"context"
	"crypto"
)

// hBackend records which operations reached the wrapped key store.
type hBackend struct {
	Storage
	calls []string
}

func (b *hBackend) GetPrivateKey(ctx context.Context, keyName string, version string) (crypto.Signer, error) {
	b.calls = append(b.calls, keyName)
	return nil, ErrNotFound
}
func (b *hBackend) PrivateKeyExists(ctx context.Context, keyName string, version string) (bool, error) {
	b.calls = append(b.calls, keyName)
	return false, nil
}
func (b *hBackend) SavePrivateKey(ctx context.Context, kid string, key crypto.PrivateKey) error {
	b.calls = append(b.calls, kid)
	return nil
}
func (b *hBackend) DeletePrivateKey(ctx context.Context, keyName string) error {
	b.calls = append(b.calls, keyName)
	return nil
}

// H03b: every wrapper operation that receives a key name from a caller reaches the back end only
// after the name matched the kid pattern; a refused name yields an error and no back-end call.
func H03b() {
	n := vLen(0, vParam("kidlen", 2))
	kid := vString(n)
	for i := 0; i < n; i++ {
		vAssume(kid[i] < 0x80)
	}
	b := &hBackend{}
	w := NewValidatedKIDBackendWrapper(b, KidPattern)
	ctx := context.Background()
	var err error
	switch vChoice(4) {
	case 0:
		_, err = w.GetPrivateKey(ctx, kid, "1")
		if err == ErrNotFound {
			err = nil
		}
	case 1:
		_, err = w.PrivateKeyExists(ctx, kid, "1")
	case 2:
		err = w.SavePrivateKey(ctx, kid, nil)
	case 3:
		err = w.DeletePrivateKey(ctx, kid)
	}
	ok := KidPattern.MatchString(kid)
	if ok {
		vCover("accepted")
		vAssert(err == nil && len(b.calls) == 1 && b.calls[0] == kid, "H03b.valid_forwarded: valid key name was not forwarded unchanged")
	} else {
		vCover("refused")
		vAssert(err != nil, "H03b.invalid_refused: invalid key name not refused")
		vAssert(len(b.calls) == 0, "H03b.invalid_never_reaches_backend: invalid key name reached the key store back end")
	}
}

func H03b_twin() {
	b := &hBackend{}
	w := NewValidatedKIDBackendWrapper(b, KidPattern)
	_ = w.DeletePrivateKey(context.Background(), vString(1))
	if len(b.calls) == 1 {
		vAssert(false, "H03b_twin.reach: reachable")
	}
}
