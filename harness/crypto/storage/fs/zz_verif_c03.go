//go:build verif

package fs

import (
	"path/filepath"
	"strings"

	"github.com/nuts-foundation/nuts-node/crypto/storage/spi"
)

// H03a: namespace confinement of the file-system key store. For every key name the validating wrapper
// accepts (the real spi.KidPattern, Go regexp matcher interpreted), the path the back end opens lies
// directly inside the key directory and is a *_private.pem entry.
func H03a() { hH03a(vParam("kidlen", 3), true) }

// H03au: the same for names containing arbitrary (also non-ASCII / invalid UTF-8) bytes, shorter bound.
func H03au() { hH03a(vParam("kidlenu", 1), false) }

func hH03a(maxlen int, ascii bool) {
	n := vLen(0, maxlen)
	kid := vString(n)
	if ascii {
		for i := 0; i < n; i++ {
			vAssume(kid[i] < 0x80)
		}
	}
	if !spi.KidPattern.MatchString(kid) {
		vCover("rejected")
		// everything with a path separator, NUL or a lone '%' must be rejected (reference reading of the pattern)
		return
	}
	vCover("accepted")
	vAssert(n > 0, "H03a.empty_rejected: empty key name accepted")
	vAssert(!strings.ContainsAny(kid, "/\\\x00"), "H03a.no_separator: accepted key name contains a path separator or NUL")
	fsc := fileSystemBackend{fspath: "/data/keys"}
	p := fsc.getEntryPath(kid, privateKeyEntry)
	vAssert(filepath.Dir(p) == "/data/keys", "H03a.confined: accepted key name addresses a file outside the key directory")
	vAssert(strings.HasSuffix(filepath.Base(p), "_"+string(privateKeyEntry)), "H03a.entry_suffix: path is not a private key entry")
	vAssert(filepath.Base(p) == kid+"_"+string(privateKeyEntry), "H03a.injective: file name is not the key name plus the entry suffix")
}

func H03a_twin() {
	kid := vString(2)
	if spi.KidPattern.MatchString(kid) && kid[0] == '.' {
		vAssert(false, "H03a_twin.reach: reachable")
	}
}
