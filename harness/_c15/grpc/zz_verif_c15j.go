//go:build verif

package grpc

import (
	"context"

	"github.com/nuts-foundation/go-did/did"
	"github.com/nuts-foundation/nuts-node/network/transport"
)

//verif:stub github.com/nuts-foundation/nuts-node/network/transport/grpc.file_transport_grpc_testprotocol_proto_init => noop

// ---------------------------------------------------------------------------------------------
// H15j the real connectionList (Get, AllMatching) with the real predicates ByConnected, ByNodeDID, ByAuthenticated
// over real connection objects - the selection handlePrivateTxRetry (network/transport/v2) relies on when it
// chooses whom to ask for the payload of a private transaction.
// ---------------------------------------------------------------------------------------------
//
// The list is built with the real getOrRegister from the empty list (0..ncon inbound connections of distinct peer
// ids); a connection gets its verified peer the way the connection manager does it (setPeer after authentication)
// and is connected iff it has a stream. Every connection: no DID or did:nuts:<any byte>, authenticated or not (an
// unauthenticated peer claims whatever DID it likes), connected or not. The wanted DID is did:nuts:<any byte>.

func hJDID() did.DID {
	id := vString(1)
	return did.DID{Method: "nuts", ID: id, DecodedID: id}
}

type hJAttr struct {
	hasDID        bool
	id            string
	authenticated bool
	connected     bool
}

func hJList(n int) (*connectionList, []Connection, []hJAttr) {
	cl := &connectionList{}
	var conns []Connection
	var attrs []hJAttr
	for i := 0; i < n; i++ {
		peer := transport.Peer{ID: transport.PeerID(string(rune('p' + i))), Address: "addr" + string(rune('0'+i))}
		a := hJAttr{}
		if vChoice(2) == 1 {
			d := hJDID()
			peer.NodeDID = d
			a.hasDID, a.id = true, d.ID
		}
		c, created := cl.getOrRegister(context.Background(), peer, false)
		vAssert(created, "H15j.registered: a connection of a new peer id was not registered")
		vTag("authenticated")
		a.authenticated = vBool()
		// grpc authenticator contract (transport.Peer doc): Authenticated is true only when NodeDID is set
		vAssume(!a.authenticated || a.hasDID)
		peer.Authenticated = a.authenticated
		c.setPeer(peer)
		vTag("connected")
		a.connected = vBool()
		if a.connected {
			c.(*conn).streams["v2"] = nil // IsConnected: has a stream (registerStream would start goroutines)
		}
		conns = append(conns, c)
		attrs = append(attrs, a)
	}
	return cl, conns, attrs
}

func H15j() {
	n := vLen(0, vParam("ncon", 3))
	cl, conns, attrs := hJList(n)
	vTag("wanted")
	want := hJDID()

	got := cl.Get(ByConnected(), ByNodeDID(want), ByAuthenticated())
	all := cl.AllMatching(ByConnected(), ByNodeDID(want), ByAuthenticated())

	// reference: index of the first connection that is connected, authenticated and carries exactly the wanted DID
	first := -1
	cnt := 0
	for i := n - 1; i >= 0; i-- {
		a := attrs[i]
		if a.connected && a.authenticated && a.hasDID && a.id == want.ID {
			first = i
			cnt++
		}
	}
	if got != nil {
		vCover("selected")
		gi := -1
		for i, c := range conns {
			if c == got {
				gi = i
			}
		}
		vAssert(gi >= 0, "H15j.selected_is_listed: Get returned a connection that is not in the list")
		if gi >= 0 {
			a := attrs[gi]
			vAssert(a.authenticated, "H15j.selected_is_authenticated: ByAuthenticated selected an unauthenticated connection")
			vAssert(a.hasDID && a.id == want.ID, "H15j.selected_has_wanted_did: ByNodeDID selected a connection with another (or no) node DID")
			vAssert(a.connected, "H15j.selected_is_connected: ByConnected selected a connection that is not connected")
			vAssert(gi == first, "H15j.selected_is_first_match: Get did not return the first matching connection")
			p := got.Peer()
			vAssert(p.Authenticated && p.NodeDID.ID == want.ID && got.IsAuthenticated() && got.IsConnected(), "H15j.selected_peer_consistent: the selected connection reports other attributes than it was given")
		}
	} else {
		vCover("none")
		vAssert(first == -1, "H15j.match_is_found: a connected authenticated connection of the wanted DID exists but Get returned none")
	}
	// AllMatching: exactly the matching connections, in list order
	vAssert(len(all) == cnt, "H15j.all_matching_exact: AllMatching did not return exactly the matching connections")
	if len(all) == cnt {
		j := 0
		for i, c := range conns {
			a := attrs[i]
			if a.connected && a.authenticated && a.hasDID && a.id == want.ID {
				vAssert(all[j] == c, "H15j.all_matching_order: AllMatching result is not the matching connections in list order")
				j++
			}
		}
	}
	if cnt > 1 {
		vCover("several-match")
	}
	if first > 0 {
		vCover("first-match-not-head")
	}
	// no predicate: never 'the first random connection'
	vAssert(cl.Get() == nil, "H15j.no_predicate_no_connection: Get without predicates returned a connection")
}

func H15j_twin() {
	cl, conns, _ := hJList(2)
	got := cl.Get(ByConnected(), ByNodeDID(did.DID{Method: "nuts", ID: "x", DecodedID: "x"}), ByAuthenticated())
	if got != nil && got == conns[1] {
		vAssert(false, "H15j_twin.reach: reachable")
	}
}
