//go:build verif

package v2

import (
	"context"
	"errors"
	"strings"

	"github.com/nuts-foundation/go-did/did"
	"github.com/nuts-foundation/nuts-node/crypto"
	"github.com/nuts-foundation/nuts-node/crypto/hash"
	"github.com/nuts-foundation/nuts-node/network/dag"
	"github.com/nuts-foundation/nuts-node/network/transport"
	"github.com/nuts-foundation/nuts-node/network/transport/grpc"
	"github.com/nuts-foundation/nuts-node/vdr/resolver"
)

// The protobuf runtime registration of the generated message types (reflection, unsafe) is not needed by the
// handlers: the message structs are used as plain Go values.
//verif:stub github.com/nuts-foundation/nuts-node/network/transport/v2.file_transport_v2_protocol_proto_init => noop
//verif:stub github.com/nuts-foundation/nuts-node/network/transport/grpc.file_transport_grpc_testprotocol_proto_init => noop

// ---------------------------------------------------------------------------------------------
// Fakes of the C15 requester-side harnesses (H15i..H15l). Copied from harness/network/transport/v2/zz_verif_c15.go
// and extended with: IsPayloadPresent, a payload store that WritePayload really fills, connection attributes
// (connected / authenticated) and a ConnectionList that evaluates the REAL grpc predicates.
// ---------------------------------------------------------------------------------------------

// hTx is a dag.Transaction value object (the handlers only use Ref, PAL, PayloadHash, Data, Clock).
type hTx struct {
	dag.Transaction
	ref         hash.SHA256Hash
	payloadHash hash.SHA256Hash
	clock       uint32
	pal         [][]byte
	data        []byte
}

func (t *hTx) Ref() hash.SHA256Hash         { return t.ref }
func (t *hTx) PayloadHash() hash.SHA256Hash { return t.payloadHash }
func (t *hTx) Clock() uint32                { return t.clock }
func (t *hTx) PAL() [][]byte                { return t.pal }
func (t *hTx) Data() []byte                 { return t.data }

type hPayload struct {
	hash hash.SHA256Hash
	data []byte
}

type hWrite struct {
	tx   dag.Transaction
	hash hash.SHA256Hash
	data []byte
}

// hState is a dag.State that answers from value lists and records what the handlers do with it.
type hState struct {
	dag.State
	txs      []*hTx
	payloads []hPayload
	// faults: when set, the corresponding read fails with a storage error (not the not-found sentinel)
	readFails, presentFails bool
	// records
	writes []hWrite
}

var errHStorage = errors.New("harness: storage failure")

func (s *hState) GetTransaction(_ context.Context, ref hash.SHA256Hash) (dag.Transaction, error) {
	for _, t := range s.txs {
		if t.ref == ref {
			return t, nil
		}
	}
	return nil, dag.ErrTransactionNotFound
}

func (s *hState) IsPayloadPresent(_ context.Context, h hash.SHA256Hash) (bool, error) {
	if s.presentFails {
		return false, errHStorage
	}
	for _, p := range s.payloads {
		if p.hash == h {
			return true, nil
		}
	}
	return false, nil
}

func (s *hState) ReadPayload(_ context.Context, h hash.SHA256Hash) ([]byte, error) {
	if s.readFails {
		return nil, errHStorage
	}
	for _, p := range s.payloads {
		if p.hash == h {
			return p.data, nil
		}
	}
	return nil, dag.ErrPayloadNotFound
}

// WritePayload records the call and puts the payload into the store (so that a history of messages sees it).
func (s *hState) WritePayload(_ context.Context, tx dag.Transaction, h hash.SHA256Hash, data []byte) error {
	s.writes = append(s.writes, hWrite{tx: tx, hash: h, data: data})
	s.payloads = append(s.payloads, hPayload{hash: h, data: data})
	return nil
}

func (s *hState) FindBetweenLC(_ context.Context, start, end uint32) ([]dag.Transaction, error) {
	// contract of dag.State.FindBetweenLC: the transactions with start <= clock < end, ordered by clock
	var sel []*hTx
	for _, t := range s.txs {
		if t.clock >= start && t.clock < end {
			i := len(sel)
			sel = append(sel, t)
			for i > 0 && sel[i-1].clock > t.clock {
				sel[i] = sel[i-1]
				i--
			}
			sel[i] = t
		}
	}
	var out []dag.Transaction
	for _, t := range sel {
		out = append(out, t)
	}
	return out, nil
}

// hConn is a grpc.Connection (interface with unexported methods: embedded nil interface) that records sends.
// IsAuthenticated is Peer().Authenticated, as in the real grpc.conn.
type hConn struct {
	grpc.Connection
	peer      transport.Peer
	connected bool
	sent      []*Envelope
	softFlag  []bool
	sendFails bool // symbolic: decided only when Send is called
}

func (c *hConn) Peer() transport.Peer  { return c.peer }
func (c *hConn) IsConnected() bool     { return c.connected }
func (c *hConn) IsAuthenticated() bool { return c.peer.Authenticated }
func (c *hConn) Send(_ grpc.Protocol, envelope interface{}, ignoreSoftLimit bool) error {
	if c.sendFails {
		// contract of grpc.Connection.Send: on error the message is dropped
		return errors.New("harness: outbox full / protocol not connected")
	}
	c.sent = append(c.sent, envelope.(*Envelope))
	c.softFlag = append(c.softFlag, ignoreSoftLimit)
	return nil
}

// hConnList is a grpc.ConnectionList over a fixed list. Contract (connection_list.go): Get returns the first
// connection matching ALL predicates, nil if there is none or no predicate is given. The predicates themselves
// are the real ones of network/transport/grpc (ByConnected, ByNodeDID, ByAuthenticated), evaluated by Match.
// (The real connectionList.Get with the real predicates is checked in harness/_c15/grpc, H15j.)
type hConnList struct {
	grpc.ConnectionList
	list []grpc.Connection
	gets int
}

func (l *hConnList) Get(query ...grpc.Predicate) grpc.Connection {
	l.gets++
	if len(query) == 0 {
		return nil
	}
	for _, c := range l.list {
		ok := true
		for _, q := range query {
			if !q.Match(c) {
				ok = false
				break
			}
		}
		if ok {
			return c
		}
	}
	return nil
}

// hNotifier is the private payload job queue: only Finished is used by the handlers.
type hNotifier struct {
	dag.Notifier
	finished []hash.SHA256Hash
}

func (n *hNotifier) Finished(ref hash.SHA256Hash) error {
	n.finished = append(n.finished, ref)
	return nil
}

func hHash(k int) hash.SHA256Hash {
	var h hash.SHA256Hash
	b := vBytes(k)
	for i := 0; i < k; i++ {
		h[i] = b[i]
	}
	return h
}

// ---------------------------------------------------------------------------------------------
// PAL model (as in the H15a harness)
// ---------------------------------------------------------------------------------------------

// Participant pool: did:nuts:a, did:nuts:b, did:nuts:c. Peer and node DIDs are did:nuts:<one symbolic byte>,
// so they range over the pool members and over every DID outside the pool.
func hPoolID(i int) string { return "did:nuts:" + string(rune('a'+i)) }

func hDID(i int) did.DID {
	return did.DID{Method: "nuts", ID: string(rune('a' + i)), DecodedID: string(rune('a' + i))}
}

func hSymDID() did.DID {
	id := vString(1)
	return did.DID{Method: "nuts", ID: id, DecodedID: id}
}

// hResolver resolves only the node DID, to a document with the configured key agreement key ids.
type hResolver struct {
	resolver.DIDResolver
	node  did.DID
	kids  []string
	fails bool
	calls int
}

func (r *hResolver) Resolve(id did.DID, _ *resolver.ResolveMetadata) (*did.Document, *resolver.DocumentMetadata, error) {
	r.calls++
	if r.fails || !id.Equals(r.node) {
		return nil, nil, resolver.ErrNotFound
	}
	doc := &did.Document{ID: r.node}
	for _, kid := range r.kids {
		u := did.DIDURL{DID: r.node, Fragment: kid}
		doc.KeyAgreement = append(doc.KeyAgreement, did.VerificationRelationship{VerificationMethod: &did.VerificationMethod{ID: u, Controller: r.node}})
	}
	return doc, &resolver.DocumentMetadata{}, nil
}

// Outcomes of one decryption attempt (ciphertext i, key j).
const (
	hDecWrongKey   = 0 // ECIES failure: ciphertext is not for this key
	hDecKeyMissing = 1 // the private key is not in the key store (crypto.ErrPrivateKeyNotFound)
	hDecOK         = 2 // plaintext
)

// hDecrypter is the key store. The outcome of decrypting ciphertext i (identified by its first byte) with
// key j (identified by the fragment of the key id) is the harness-chosen matrix cell m[i][j]; a successful
// attempt returns the plaintext. Contract of crypto.Decrypter: an error comes with no plaintext.
type hDecrypter struct {
	crypto.Decrypter
	m         [][]int
	plaintext []byte
	kids      []string // key ids tried
}

func (d *hDecrypter) Decrypt(_ context.Context, kid string, ct []byte) ([]byte, error) {
	d.kids = append(d.kids, kid)
	j := 0
	if strings.HasSuffix(kid, "#k2") {
		j = 1
	} else if strings.HasSuffix(kid, "#k3") {
		j = 2
	}
	switch d.m[int(ct[0])][j] {
	case hDecKeyMissing:
		return nil, crypto.ErrPrivateKeyNotFound
	case hDecOK:
		return d.plaintext, nil
	}
	return nil, errors.New("harness: ecies: invalid message")
}

// hDecMatrix draws the outcome matrix (symbolic cells) and returns it with the two order-independent facts
// the oracle uses: some own key decrypts some ciphertext / some attempted key may be missing.
func hDecMatrix(npal, nkids int) (m [][]int, couldDecrypt, anyMissing bool) {
	for i := 0; i < npal; i++ {
		row := make([]int, nkids)
		for j := 0; j < nkids; j++ {
			row[j] = vRange(0, 2)
			couldDecrypt = couldDecrypt || row[j] == hDecOK
			anyMissing = anyMissing || row[j] == hDecKeyMissing
		}
		m = append(m, row)
	}
	return
}

// hPlaintext draws the participant list the author of the transaction encrypted: any non-empty subset of the
// first `pool` pool members in pool order (the author is untrusted: the list need not contain the node that can
// decrypt it), or a plaintext that is not a list of DIDs, or an empty plaintext.
func hPlaintext(pool int) (list []did.DID, plaintext []byte, wellFormed bool) {
	switch vChoice(3) {
	case 1:
		return nil, []byte("did:nuts:a\nnot a did"), false
	case 2:
		return nil, []byte{}, false
	}
	var parts []string
	for i := 0; i < pool; i++ {
		if vChoice(2) == 1 {
			list = append(list, hDID(i))
			parts = append(parts, hPoolID(i))
		}
	}
	if len(parts) == 0 {
		// an empty list encrypts to the empty plaintext
		return nil, []byte{}, false
	}
	return list, []byte(strings.Join(parts, "\n")), true
}

func hListContains(list []did.DID, d did.DID) bool {
	for _, x := range list {
		if x.Method == d.Method && x.ID == d.ID {
			return true
		}
	}
	return false
}

// hPeer draws the peer of the connection: did:nuts:<any byte> or no DID, with the authenticated flag arbitrary
// (an unauthenticated peer may claim any DID - that is the point).
func hPeer(id string) transport.Peer {
	p := transport.Peer{ID: transport.PeerID(id), Address: "addr-" + id}
	if vChoice(2) == 1 {
		vTag("peerDID")
		p.NodeDID = hSymDID()
	}
	vTag("authenticated")
	p.Authenticated = vBool()
	// grpc authenticator contract (transport.Peer doc): Authenticated is true only when NodeDID is set
	vAssume(!p.Authenticated || !p.NodeDID.Empty())
	return p
}

var hKidNames = []string{"k1", "k2", "k3"}
