//go:build verif

package v2

import (
	"context"

	"github.com/nuts-foundation/go-did/did"
	"github.com/nuts-foundation/nuts-node/network/dag"
	"github.com/nuts-foundation/nuts-node/network/transport"
	"github.com/nuts-foundation/nuts-node/network/transport/grpc"
)

// ---------------------------------------------------------------------------------------------
// H15i handlePrivateTxRetry: the requester side - whom does a node ask for the payload of a private transaction
// ---------------------------------------------------------------------------------------------
//
// One private transaction whose payload is (not) in the payload store; the participant list is whatever the
// untrusted author encrypted (hPlaintext), the key store answers every (ciphertext, own key) pair arbitrarily
// (hDecMatrix), the node DID is unset or did:nuts:<any byte>. The connection list holds 0..ncon connections, each
// connected or not, with no DID or did:nuts:<any byte>, authenticated or not (an unauthenticated peer claims
// whatever DID it likes), whose Send succeeds or fails.
func H15i() {
	ctx := context.Background()
	tx := &hTx{ref: hHash(1), payloadHash: hHash(1)}
	st := &hState{txs: []*hTx{tx}}

	// Two scenario families keep the product of concretised choices small:
	// conns - 0..ncon connections with arbitrary attributes; one ciphertext, one own key (outcome arbitrary)
	// keys  - everything about keys, node DID, payload store varies; one connection with arbitrary attributes
	famConns := vChoice(2) == 1
	var npal, nkids, ncon int
	nodeSet := true
	if famConns {
		vCover("family-conns")
		npal, nkids = 1, 1
		ncon = vLen(0, vParam("ncon", 2))
	} else {
		vCover("family-keys")
		npal = vLen(1, vParam("npal", 2))
		nkids = vLen(0, vParam("nkids", 2))
		nodeSet = vChoice(2) == 1
		ncon = 1
	}
	for i := 0; i < npal; i++ {
		tx.pal = append(tx.pal, []byte{byte(i), vU8()})
	}
	nodeDID := did.DID{}
	if nodeSet {
		vTag("nodeDID")
		nodeDID = hSymDID()
	}
	list, plaintext, wellFormed := hPlaintext(vParam("pool", 2))
	payloadPresent := false
	res := &hResolver{node: nodeDID, kids: hKidNames[:nkids]}
	if !famConns {
		vTag("payloadPresent")
		payloadPresent = vBool()
		if payloadPresent {
			st.payloads = []hPayload{{hash: tx.payloadHash, data: []byte{vU8(), 7}}}
		}
		vTag("presentFails")
		st.presentFails = vBool()
		vTag("resolveFails")
		res.fails = vBool()
	}
	m, couldDecrypt, anyMissing := hDecMatrix(npal, nkids)
	dec := &hDecrypter{plaintext: plaintext, m: m}

	cl := &hConnList{}
	var conns []*hConn
	for i := 0; i < ncon; i++ {
		c := &hConn{peer: hPeer(string(rune('p' + i)))}
		vTag("connected")
		c.connected = vBool()
		vTag("sendFails")
		c.sendFails = vBool()
		conns = append(conns, c)
		cl.list = append(cl.list, c)
	}
	p := &protocol{state: st, nodeDID: nodeDID, didResolver: res, decrypter: dec, ctx: ctx, connectionList: cl}

	finished, err := p.handlePrivateTxRetry(ctx, dag.Event{Type: dag.TransactionEventType, Hash: tx.ref, Transaction: tx})

	// --- reference predicates (independent of the order in which the code tries things) ---
	ownDecrypt := nodeSet && !res.fails && couldDecrypt
	// 'not for us': the node has keys to try, none of them opens any ciphertext (or the list is empty)
	notForUs := nodeSet && !res.fails && !anyMissing && (!couldDecrypt || len(plaintext) == 0)
	// the only ways to find the list 'not for us': no key opens a ciphertext, or what it opens is empty
	mayBeNotForUs := nodeSet && !res.fails && (!couldDecrypt || len(plaintext) == 0)

	anySent := false
	for _, c := range conns {
		vAssert(len(c.sent) <= 1, "H15i.at_most_one_query_per_connection: a connection was asked more than once in one attempt")
		for _, e := range c.sent {
			anySent = true
			vCover("query-sent")
			q := e.GetTransactionPayloadQuery()
			vAssert(q != nil, "H15i.message_is_payload_query: the retry job sent something else than a TransactionPayloadQuery")
			if q != nil {
				vAssert(string(q.TransactionRef) == string(tx.ref.Slice()), "H15i.query_for_this_tx: the payload query is not for the transaction of the job")
			}
			vAssert(c.peer.Authenticated, "H15i.query_needs_authenticated_peer: payload query for a private transaction sent over an unauthenticated connection")
			vAssert(wellFormed && hListContains(list, c.peer.NodeDID), "H15i.query_needs_listed_peer: payload query for a private transaction sent to a peer whose node DID is not on the decrypted participant list")
			vAssert(ownDecrypt, "H15i.query_needs_own_decryption: payload query sent by a node that cannot decrypt the participant list with a key agreement key of its own node DID")
			vAssert(!payloadPresent && !st.presentFails, "H15i.no_query_when_present: payload queried although it is (or may be) in the payload store")
			if nodeSet && c.peer.NodeDID.ID == nodeDID.ID {
				// NOT asserted: the property text does not forbid it (a query carries no payload; nodes of one
				// cluster share a node DID). Recorded so that it is visible that the code does this.
				vCover("query-to-own-did")
			}
		}
	}
	for _, k := range dec.kids {
		own := false
		for _, n := range hKidNames[:nkids] {
			own = own || k == nodeDID.String()+"#"+n
		}
		vAssert(own, "H15i.only_own_keys_tried: decryption attempted with a key that is not a key agreement key of the node DID")
	}

	// the job ends (finished, no error) only when the payload is there or the list is not for this node; then nothing is sent
	if finished {
		vCover("job-ended")
		vAssert(err == nil, "H15i.finished_without_error: job reported finished together with an error")
		vAssert(!anySent, "H15i.finished_sends_nothing: job ended although a query was sent")
		vAssert(!st.presentFails && (payloadPresent || mayBeNotForUs), "H15i.job_ends_only_when_done: job ended although the payload is missing and the participant list was not found undecryptable")
	}
	if !anySent {
		vCover("nothing-sent")
	}
	// (the guards below are written as assertions of implications so that the oracle itself does not fork)
	isNotForUs := !st.presentFails && !payloadPresent && notForUs
	vAssert(!isNotForUs || !anySent, "H15i.not_for_us_sends_nothing: a node that cannot decrypt the participant list sent a payload query")
	vAssert(!isNotForUs || (finished && err == nil), "H15i.not_for_us_job_ends: the job of a node that cannot decrypt the participant list did not end")
	isPresent := !st.presentFails && payloadPresent
	vAssert(!isPresent || (finished && err == nil && !anySent), "H15i.present_job_ends: payload already present but the job did not simply end")
	vAssert(nodeSet || !anySent, "H15i.no_node_did_sends_nothing: a node without node DID sent a payload query")

	// converse (no over-blocking): a decryptable well-formed list => every listed participant with an eligible
	// connection is asked. The code asks, per participant, the FIRST connection that is connected, authenticated and
	// carries that DID; if its Send fails it does not try another one.
	decrypted := !st.presentFails && !payloadPresent && ownDecrypt && !anyMissing && wellFormed
	vAssert(!decrypted || !finished, "H15i.job_continues: payload still missing but the job ended")
	anyAsked := false
	for _, d := range list {
		earlier := false
		for _, c := range conns {
			match := c.connected && c.peer.Authenticated && c.peer.NodeDID.Method == d.Method && c.peer.NodeDID.ID == d.ID
			first := match && !earlier
			earlier = earlier || match
			asked := first && !c.sendFails
			anyAsked = anyAsked || asked
			vAssert(!(decrypted && asked) || len(c.sent) == 1, "H15i.eligible_participant_asked: a listed participant with an authenticated connection was not asked for the payload")
		}
	}
	// (whether an attempt that could ask nobody reports an error or not only affects logging / back-off: not asserted)
	vAssert(!(decrypted && !anyAsked) || !anySent, "H15i.nobody_eligible_nothing_sent: no participant has an eligible connection but a query was sent")
	if anySent && err == nil && len(list) == 2 {
		vCover("two-participants")
	}
	if err != nil && !anySent && !finished {
		vCover("retry-later")
	}
	_ = grpc.ErrNoConnection
	_ = transport.Peer{}
}

func H15i_twin() {
	ctx := context.Background()
	tx := &hTx{ref: hHash(1), payloadHash: hHash(1), pal: [][]byte{{0, vU8()}}}
	st := &hState{txs: []*hTx{tx}}
	node := hDID(0)
	m, _, _ := hDecMatrix(1, 1)
	dec := &hDecrypter{plaintext: []byte("did:nuts:a\ndid:nuts:b"), m: m}
	c := &hConn{peer: transport.Peer{ID: "p", NodeDID: hDID(1), Authenticated: vBool()}, connected: true}
	p := &protocol{state: st, nodeDID: node, didResolver: &hResolver{node: node, kids: []string{"k1"}}, decrypter: dec, ctx: ctx,
		connectionList: &hConnList{list: []grpc.Connection{c}}}
	_, _ = p.handlePrivateTxRetry(ctx, dag.Event{Type: dag.TransactionEventType, Hash: tx.ref, Transaction: tx})
	if len(c.sent) == 1 && c.sent[0].GetTransactionPayloadQuery() != nil {
		vAssert(false, "H15i_twin.reach: reachable")
	}
}
