//go:build verif

package v2

import (
	"context"

	"github.com/nuts-foundation/nuts-node/crypto/hash"
	"github.com/nuts-foundation/nuts-node/network/dag"
)

// ---------------------------------------------------------------------------------------------
// H15l handleTransactionPayload, a HISTORY of messages on one node with real SHA-256 on concrete payload bytes
// ---------------------------------------------------------------------------------------------
//
// H15c checks one message with symbolic bytes (sha256 uninterpreted). Here the payload bytes are concrete (drawn
// by vChoice), so the comparison with the payload hash is the real one, and the node receives msgs15l messages in a
// row: for transaction A (in the DAG from the start), for transaction B (in the DAG from the start, or added to
// the DAG between the first and the second message, or never), for an unknown reference or without reference; each
// carrying the payload of A, the payload of B, a third payload, or nothing.

var hCand = [][]byte{{1, 2, 3}, {4, 5}, {9}}

func hRefN(n byte) hash.SHA256Hash {
	var h hash.SHA256Hash
	h[0], h[31] = 0x77, n
	return h
}

func H15l() {
	ctx := context.Background()
	nmsg := vParam("msgs15l", 2)
	// which candidate payload A commits to; B commits to the next one
	a := vChoice(2)
	txA := &hTx{ref: hRefN(1), payloadHash: hash.SHA256Sum(hCand[a]), data: []byte{0}}
	txB := &hTx{ref: hRefN(2), payloadHash: hash.SHA256Sum(hCand[a+1]), data: []byte{1}, pal: [][]byte{{1}}}
	st := &hState{txs: []*hTx{txA}}
	// B: 0 = in the DAG from the start, 1 = arrives after the first message, 2 = never
	bMode := vChoice(3)
	if bMode == 0 {
		st.txs = append(st.txs, txB)
	}
	jobs := &hNotifier{}
	p := &protocol{state: st, ctx: ctx, privatePayloadReceiver: jobs, nodeDID: hDID(0)}
	conn := &hConn{peer: hPeer("p"), connected: true}

	refs := [][]byte{txA.ref.Slice(), txB.ref.Slice(), hRefN(3).Slice(), nil}
	expectedWrites := 0
	writesA, writesB := 0, 0
	wrongThenRight := false
	prevWrongForA := false
	for k := 0; k < nmsg; k++ {
		if k == 1 && bMode == 1 {
			vCover("tx-arrives-between")
			st.txs = append(st.txs, txB)
		}
		r := vChoice(4)
		d := vChoice(4)
		var data []byte
		if d < 3 {
			data = hCand[d]
		}
		msg := &TransactionPayload{ConversationID: []byte{byte(k)}, TransactionRef: refs[r], Data: data}
		before := len(st.writes)
		finishedBefore := len(jobs.finished)
		err := p.handleTransactionPayload(ctx, conn, &Envelope{Message: &Envelope_TransactionPayload{TransactionPayload: msg}})

		// reference: is the referenced transaction in the DAG NOW, and does the data hash to its payload hash
		var target *hTx
		if r == 0 {
			target = txA
		} else if r == 1 && (bMode == 0 || (bMode == 1 && k >= 1)) {
			target = txB
		}
		right := target != nil && len(data) > 0 && hash.SHA256Sum(data) == target.payloadHash
		if right {
			vCover("right-payload")
			expectedWrites++
			vAssert(err == nil, "H15l.right_accepted: the payload of a transaction in the DAG was rejected")
			vAssert(len(st.writes) == before+1, "H15l.right_stored_once: a matching payload for a transaction in the DAG was not stored exactly once")
			if len(st.writes) == before+1 {
				w := st.writes[before]
				vAssert(w.tx == dag.Transaction(target) && w.hash == target.payloadHash && string(w.data) == string(data), "H15l.stored_as_received: payload stored for another transaction, under another hash or with other bytes")
			}
			vAssert(len(jobs.finished) == finishedBefore+1 && jobs.finished[finishedBefore] == target.ref, "H15l.job_finished: payload job of the transaction was not marked finished")
			if target == txA {
				writesA++
				if prevWrongForA {
					wrongThenRight = true
				}
			} else {
				writesB++
			}
		} else {
			if target == nil && r != 3 {
				vCover("unknown-tx")
			}
			if target != nil && len(data) > 0 {
				vCover("wrong-payload")
				if target == txA {
					prevWrongForA = true
				}
			}
			if r == 1 && bMode == 1 && k == 0 && len(data) > 0 && hash.SHA256Sum(data) == txB.payloadHash {
				vCover("right-payload-too-early")
			}
			vAssert(err != nil, "H15l.wrong_rejected: a payload for an unknown transaction / with the wrong hash / without reference or data was not rejected")
			vAssert(len(st.writes) == before, "H15l.wrong_never_stored: a payload was written to the payload store although the transaction is not in the DAG or the payload does not hash to its payload hash")
			vAssert(len(jobs.finished) == finishedBefore, "H15l.job_kept: payload job finished although nothing was stored")
		}
		vAssert(len(conn.sent) == 0, "H15l.no_answer: a received payload was answered with a message")
	}

	// end state of the payload store: exactly the accepted payloads; every entry hashes (real SHA-256) to its key and
	// that key is the payload hash of a transaction in the DAG
	vAssert(len(st.payloads) == expectedWrites, "H15l.store_holds_only_accepted: the payload store holds something else than the accepted payloads")
	for _, e := range st.payloads {
		vAssert(hash.SHA256Sum(e.data) == e.hash, "H15l.store_entry_hashes_to_key: a stored payload does not hash to the hash it is stored under")
		inDAG := false
		for _, t := range st.txs {
			inDAG = inDAG || t.payloadHash == e.hash
		}
		vAssert(inDAG, "H15l.store_entry_has_tx: a stored payload belongs to no transaction in the DAG")
	}
	if wrongThenRight {
		vCover("wrong-then-right")
		vAssert(writesA == 1 || nmsg > 2, "H15l.wrong_then_right_once: after a wrong and then the right payload the right one was not stored exactly once")
	}
	if bMode == 1 && writesB > 0 {
		vCover("late-tx-stored")
	}
}

func H15l_twin() {
	ctx := context.Background()
	txA := &hTx{ref: hRefN(1), payloadHash: hash.SHA256Sum(hCand[0])}
	st := &hState{txs: []*hTx{txA}}
	jobs := &hNotifier{}
	p := &protocol{state: st, ctx: ctx, privatePayloadReceiver: jobs}
	conn := &hConn{}
	e1 := p.handleTransactionPayload(ctx, conn, &Envelope{Message: &Envelope_TransactionPayload{TransactionPayload: &TransactionPayload{TransactionRef: txA.ref.Slice(), Data: hCand[vChoice(3)]}}})
	e2 := p.handleTransactionPayload(ctx, conn, &Envelope{Message: &Envelope_TransactionPayload{TransactionPayload: &TransactionPayload{TransactionRef: txA.ref.Slice(), Data: hCand[0]}}})
	if e1 != nil && e2 == nil && len(st.writes) == 1 && len(jobs.finished) == 1 {
		vAssert(false, "H15l_twin.reach: reachable")
	}
}
