//go:build verif

package v2

import (
	"context"

	"github.com/nuts-foundation/nuts-node/crypto/hash"
	"github.com/nuts-foundation/nuts-node/network/transport/grpc"
)

// ---------------------------------------------------------------------------------------------
// H15k transaction lists that need more than one message: handleTransactionListQuery / handleTransactionRangeQuery
// with the real collectTransactionList, sendTransactionList and chunkTransactionList
// ---------------------------------------------------------------------------------------------
//
// H15b (harness/network/transport/v2) checks mixed lists whose answer fits in one message. Here the message size
// limit (grpc.MaxMessageSizeInBytes, a configuration variable) is lowered so that payloads of 1, 8 and 20 bytes make
// the answer span 1..n messages, with chunk borders before / after private and public elements.

// hPayloadSizes: 2+9+size = 12, 19, 31 bytes per public element, 11 per private element; limit 40.
var hPayloadSizes = []int{1, 8, 20}

const hChunkLimit = 40

func hChunkTxs(st *hState, n int) {
	for i := 0; i < n; i++ {
		tx := &hTx{payloadHash: hash.SHA256Hash{byte(i + 1), 0xEE}, data: []byte{byte(i), vU8()}, clock: uint32(i)}
		tx.ref[0] = vU8()
		tx.ref[31] = byte(i + 1) // distinct transactions have distinct references
		if vChoice(2) == 1 {
			tx.pal = [][]byte{{byte(i), vU8()}}
		}
		// the payload IS in the payload store, for private transactions too (this node is a participant)
		pl := vBytes(hPayloadSizes[vChoice(len(hPayloadSizes))])
		vAssume(pl[0] != 0) // recognisable: never equal to an absent payload
		st.payloads = append(st.payloads, hPayload{hash: tx.payloadHash, data: pl})
		st.txs = append(st.txs, tx)
	}
}

func H15k() {
	ctx := context.Background()
	grpc.MaxMessageSizeInBytes = transactionListMessageOverhead + hChunkLimit
	n := vLen(1, vParam("n15k", 3))
	st := &hState{}
	hChunkTxs(st, n)
	conn := &hConn{peer: hPeer("p"), connected: true}
	p := &protocol{state: st, ctx: ctx, cMan: newConversationManager(maxValidity)}
	p.sender = p

	var err error
	var want []*hTx // the stored transactions the answer is about, in clock order
	if vChoice(2) == 1 {
		vCover("list-query")
		// the peer asks for all stored transactions, newest first (the handler sorts by clock)
		var refs [][]byte
		for i := n - 1; i >= 0; i-- {
			refs = append(refs, st.txs[i].ref.Slice())
		}
		want = st.txs
		msg := &TransactionListQuery{ConversationID: vBytes(1), Refs: refs}
		err = p.handleTransactionListQuery(ctx, conn, &Envelope{Message: &Envelope_TransactionListQuery{TransactionListQuery: msg}})
	} else {
		vCover("range-query")
		start := vLen(0, 1)
		end := vLen(n-1, n)
		if start >= end {
			return
		}
		want = st.txs[start:end]
		msg := &TransactionRangeQuery{ConversationID: vBytes(1), Start: uint32(start), End: uint32(end)}
		err = p.handleTransactionRangeQuery(ctx, conn, &Envelope{Message: &Envelope_TransactionRangeQuery{TransactionRangeQuery: msg}})
	}
	vAssert(err == nil, "H15k.answered: a list / range query over readable transactions failed")

	var elements []*Transaction
	for i, e := range conn.sent {
		l := e.GetTransactionList()
		vAssert(l != nil, "H15k.response_type: answer is not a TransactionList")
		if l == nil {
			return
		}
		vAssert(int(l.TotalMessages) == len(conn.sent) && int(l.MessageNumber) == i+1, "H15k.message_numbering: TotalMessages / MessageNumber do not describe the messages sent")
		elements = append(elements, l.Transactions...)
	}
	if len(conn.sent) > 1 {
		vCover("multi-message")
	}
	if len(conn.sent) > 2 {
		vCover("three-messages")
	}
	// the messages together are exactly the requested transactions in clock order ...
	vAssert(len(elements) == len(want), "H15k.complete: the messages together do not contain exactly the requested transactions")
	if len(elements) != len(want) {
		return
	}
	sawPrivate, sawPublic := false, false
	for i, e := range elements {
		tx := want[i]
		vAssert(string(e.Data) == string(tx.data), "H15k.element_order: element differs from the stored transaction at this clock position")
		stored := st.payloads[int(tx.data[0])].data
		if len(tx.pal) > 0 {
			sawPrivate = true
			// ... and no element of a transaction with a participant list carries a payload, in whichever message it
			// travels, whoever the peer is
			vAssert(len(e.Payload) == 0, "H15k.private_payload_not_listed: a transaction list element with a participant list carries a payload")
		} else {
			sawPublic = true
			vAssert(string(e.Payload) == string(stored), "H15k.public_payload_listed: public transaction listed without its stored payload")
		}
	}
	if sawPrivate && sawPublic {
		vCover("mixed")
		if len(conn.sent) > 1 {
			vCover("mixed-multi-message")
		}
	}
}

func H15k_twin() {
	ctx := context.Background()
	grpc.MaxMessageSizeInBytes = transactionListMessageOverhead + hChunkLimit
	st := &hState{}
	hChunkTxs(st, 3)
	conn := &hConn{peer: hPeer("p"), connected: true}
	p := &protocol{state: st, ctx: ctx, cMan: newConversationManager(maxValidity)}
	p.sender = p
	msg := &TransactionRangeQuery{ConversationID: vBytes(1), Start: 0, End: 3}
	_ = p.handleTransactionRangeQuery(ctx, conn, &Envelope{Message: &Envelope_TransactionRangeQuery{TransactionRangeQuery: msg}})
	if len(conn.sent) == 2 && len(conn.sent[1].GetTransactionList().Transactions) == 2 &&
		len(conn.sent[1].GetTransactionList().Transactions[0].Payload) == 0 && len(conn.sent[1].GetTransactionList().Transactions[1].Payload) == 8 {
		vAssert(false, "H15k_twin.reach: reachable")
	}
}
