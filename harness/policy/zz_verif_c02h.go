//go:build verif

package policy

import (
	"context"
	"errors"

	"github.com/nuts-foundation/nuts-node/vcr/pe"
)

// H02h: LocalPDP.PresentationDefinitions. Two configured scopes with arbitrary names (<= scopelen bytes),
// one with an organization definition, one with organization + user definitions; an arbitrary requested scope.
// Found => the requested scope EQUALS a configured scope and exactly that scope's definitions are returned
// (as a copy); otherwise ErrNotFound.
func H02h() {
	n := vParam("scopelen", 2)
	vTag("scopeA")
	a := vString(vLen(0, n))
	vTag("scopeB")
	b := vString(vLen(0, n))
	vAssume(a != b)
	vTag("requested")
	q := vString(vLen(0, n+1))
	backend := &LocalPDP{mapping: map[string]validatingWalletOwnerMapping{
		a: {pe.WalletOwnerOrganization: pe.PresentationDefinition{Id: "a-org"}},
		b: {pe.WalletOwnerOrganization: pe.PresentationDefinition{Id: "b-org"}, pe.WalletOwnerUser: pe.PresentationDefinition{Id: "b-user"}},
	}}
	got, err := backend.PresentationDefinitions(context.Background(), q)
	if err == nil {
		vCover("found")
		vAssert(q == a || q == b, "H02h.scope_equals_configured: definitions returned for a scope that is not configured")
		if q == a {
			vCover("found-a")
			vAssert(len(got) == 1 && got[pe.WalletOwnerOrganization].Id == "a-org", "H02h.definitions_of_scope: returned definitions are not those configured for the scope")
		} else {
			vCover("found-b")
			vAssert(len(got) == 2 && got[pe.WalletOwnerOrganization].Id == "b-org" && got[pe.WalletOwnerUser].Id == "b-user", "H02h.definitions_of_scope: returned definitions are not those configured for the scope")
		}
		// the result is the caller's to modify (PEXConsumer keeps it)
		delete(got, pe.WalletOwnerOrganization)
		again, err2 := backend.PresentationDefinitions(context.Background(), q)
		_, still := again[pe.WalletOwnerOrganization]
		vAssert(err2 == nil && still, "H02h.result_is_copy: modifying the result changed the policy")
	} else {
		vCover("not-found")
		vAssert(errors.Is(err, ErrNotFound), "H02h.not_found_error: unknown scope not reported as ErrNotFound")
		vAssert(got == nil, "H02h.not_found_nil: definitions returned together with an error")
		vAssert(q != a && q != b, "H02h.configured_scope_found: configured scope reported as not found")
	}
}

func H02h_twin() {
	a := vString(1)
	backend := &LocalPDP{mapping: map[string]validatingWalletOwnerMapping{a: {pe.WalletOwnerOrganization: pe.PresentationDefinition{Id: "x"}}}}
	got, err := backend.PresentationDefinitions(context.Background(), vString(1))
	if err == nil && len(got) == 1 {
		vAssert(false, "H02h_twin.reach: reachable")
	}
}
