//go:build verif

package st

// Engine self-test: small programs exercising Go semantics. Each is run natively and in the
// interpreter (pinned, seeded) and all observations must agree (see `check selftest`).

import (
	"encoding/binary"
	"errors"
	"fmt"
	"sort"
	"strconv"
	"strings"
	"sync"
	"time"
	"unicode/utf8"
)

func T01_intarith() {
	a, b := vI64(), vI64()
	vObserve("add", a+b)
	vObserve("sub", a-b)
	vObserve("mul", a*b)
	if b != 0 {
		vObserve("div", a/b)
		vObserve("rem", a%b)
	}
	c, d := vI8(), vI8()
	vObserve("i8add", c+d)
	vObserve("i8mul", c*d)
	if d != 0 && !(c == -128 && d == -1) {
		vObserve("i8div", c/d)
		vObserve("i8rem", c%d)
	}
	if d == -1 {
		vObserve("i8divm1", c/d)
	}
	u, v := vU32(), vU32()
	vObserve("u32sub", u-v)
	if v != 0 {
		vObserve("u32div", u/v)
		vObserve("u32rem", u%v)
	}
	vObserve("neg", -a)
	vObserve("not", ^u)
	vObserve("andnot", u&^v)
	vObserve("cmp", a < b)
	vObserve("ucmp", u < v)
	vObserve("i8cmp", c <= d)
}

func T02_shifts() {
	x := vI32()
	u := vU16()
	s := vU8() % 70
	vObserve("shl", x<<s)
	vObserve("shr", x>>s)
	vObserve("ushl", u<<s)
	vObserve("ushr", u>>s)
	var big uint64 = vU64()
	vObserve("shlbig", x<<(big%100))
	k := vI8()
	if k >= 0 {
		vObserve("shrsigned", uint64(big)>>uint(k))
	}
}

func T03_conv() {
	a := vI64()
	vObserve("i8", int8(a))
	vObserve("u8", uint8(a))
	vObserve("i16", int16(a))
	vObserve("u32", uint32(a))
	vObserve("f", float64(int32(a)))
	b := vI8()
	vObserve("sext", int64(b))
	vObserve("zext", uint64(uint8(b)))
	vObserve("u16s", uint16(b))
	f := vF64()
	if f > -1e15 && f < 1e15 {
		vObserve("f2i", int64(f))
		vObserve("f2i32", int32(int64(f)))
	}
	vObserve("fcmp", f < 3.5)
	vObserve("fadd", f+1.25)
	r := rune(vU32() % 0x11000)
	vObserve("rune2str", string(r))
}

func T04_strings() {
	n := vLen(0, 6)
	s := vString(n)
	vObserve("len", len(s))
	vObserve("upper", strings.ToUpper(s))
	vObserve("lower", strings.ToLower(s))
	vObserve("idx", strings.Index(s, "a"))
	vObserve("idxb", strings.IndexByte(s, 'b'))
	vObserve("split", strings.Split(s, "/"))
	vObserve("trim", strings.Trim(s, "/ "))
	vObserve("trimsp", strings.TrimSpace(s))
	vObserve("hasp", strings.HasPrefix(s, "ab"))
	vObserve("cmp", s < "m")
	vObserve("eq", s == "abc")
	vObserve("contains", strings.Contains(s, "bc"))
	vObserve("repl", strings.ReplaceAll(s, "a", "xy"))
	vObserve("fields", strings.Fields(s))
	vObserve("runes", []rune(s))
	vObserve("valid", utf8.ValidString(s))
	cnt := 0
	for i, r := range s {
		cnt += i + int(r)
	}
	vObserve("range", cnt)
	vObserve("bytes", []byte(s))
	vObserve("cut", fmt.Sprint(strings.Cut(s, ":")))
	vObserve("last", strings.LastIndex(s, "a"))
	vObserve("title", strings.EqualFold(s, "ABC"))
}

func T05_strconv() {
	n := vLen(0, 4)
	s := vString(n)
	i, err := strconv.Atoi(s)
	vObserve("atoi", i)
	vObserve("atoierr", err != nil)
	u, err2 := strconv.ParseUint(s, 16, 32)
	vObserve("hex", u)
	vObserve("hexerr", err2 != nil)
	vObserve("itoa", strconv.Itoa(int(vI32())))
	vObserve("quote", strconv.Quote(s))
	b, err3 := strconv.ParseBool(s)
	vObserve("bool", b)
	vObserve("boolerr", err3 != nil)
	vObserve("fmt", fmt.Sprintf("%d-%s-%v-%q-%x", vI16(), s, vBool(), s, vU8()))
}

type shape interface {
	area() int
}
type sq struct{ s int }
type rect struct{ w, h int }

func (s sq) area() int    { return s.s * s.s }
func (r *rect) area() int { return r.w * r.h }

func T06_ifaces_structs() {
	var shapes []shape
	k := vLen(0, 3)
	for i := 0; i < k; i++ {
		if vBool() {
			shapes = append(shapes, sq{int(vI8())})
		} else {
			shapes = append(shapes, &rect{int(vI8()), int(vI8())})
		}
	}
	tot := 0
	for _, s := range shapes {
		tot += s.area()
		switch v := s.(type) {
		case sq:
			tot += v.s
		case *rect:
			v.w++
			tot -= v.h
		}
	}
	vObserve("tot", tot)
	type pair struct {
		a [3]int8
		b string
	}
	p := pair{[3]int8{vI8(), vI8(), vI8()}, vString(vLen(0, 2))}
	q := p
	q.a[1] = 7
	vObserve("copy", p.a[1] == q.a[1])
	vObserve("eq", p == q)
	m := map[pair]int{p: 1}
	m[q]++
	vObserve("maplen", len(m))
	var np *rect
	func() {
		defer func() { vObserve("recovered", recover() != nil) }()
		if vBool() {
			_ = np.w
		}
	}()
}

func T07_slices_maps() {
	n := vLen(0, 5)
	xs := make([]int, 0, 2)
	for i := 0; i < n; i++ {
		xs = append(xs, int(vI8()))
	}
	ys := append([]int(nil), xs...)
	sort.Ints(ys)
	vObserve("sorted", ys)
	sort.Slice(xs, func(i, j int) bool { return xs[i] > xs[j] })
	vObserve("desc", xs)
	if n >= 2 {
		copy(xs[1:], xs[:n-1])
		vObserve("shift", xs)
		zs := xs[1:2]
		zs = append(zs, 99)
		vObserve("alias", xs)
	}
	m := map[string][]int{}
	for i := 0; i < n; i++ {
		k := string([]byte{'a' + byte(vU8()%3)})
		m[k] = append(m[k], i)
	}
	keys := make([]string, 0)
	for k := range m {
		keys = append(keys, k)
	}
	sort.Strings(keys)
	vObserve("keys", keys)
	vObserve("ma", m["a"])
	delete(m, "b")
	_, ok := m["b"]
	vObserve("deleted", ok)
	idx := int(vI8())
	func() {
		defer func() { vObserve("oob", recover() != nil) }()
		vObserve("elem", xs[idx])
	}()
	var arr [4]uint16
	for i := range arr {
		arr[i] = vU16()
	}
	sl := arr[1:3]
	sl[0] = 5
	vObserve("arr", arr)
	vObserve("cap", cap(sl))
}

var errSentinel = errors.New("sentinel")

type myErr struct{ code int }

func (e myErr) Error() string { return "myerr " + strconv.Itoa(e.code) }

func T08_errors_defer() {
	mk := func(k int) error {
		switch k {
		case 0:
			return nil
		case 1:
			return errSentinel
		case 2:
			return fmt.Errorf("wrapped: %w", errSentinel)
		case 3:
			return myErr{int(vI8())}
		}
		return errors.Join(myErr{1}, fmt.Errorf("x %w", errSentinel))
	}
	e := mk(vChoice(5))
	vObserve("is", errors.Is(e, errSentinel))
	var me myErr
	vObserve("as", errors.As(e, &me))
	vObserve("code", me.code)
	if e != nil {
		vObserve("msg", e.Error())
	}
	order := ""
	func() {
		defer func() { order += "a" }()
		defer func() {
			if r := recover(); r != nil {
				order += "r"
			}
		}()
		defer func() { order += "b" }()
		if vBool() {
			panic("boom")
		}
		order += "n"
	}()
	vObserve("order", order)
	res := func() (x int) {
		defer func() { x *= 2 }()
		return int(vI8())
	}()
	vObserve("named", res)
}

func T09_time_binary() {
	sec := int64(vRange(0, 1<<34))
	nsec := int64(vRange(0, 999999999))
	t := time.Unix(sec, nsec)
	d := time.Duration(vRange(-1<<40, 1<<40))
	u := t.Add(d)
	vObserve("before", u.Before(t))
	vObserve("after", u.After(t))
	vObserve("equal", u.Equal(t))
	vObserve("sub", int64(u.Sub(t)))
	vObserve("unix", u.Unix())
	vObserve("zero", time.Time{}.IsZero())
	vObserve("trunc", int64(d.Truncate(time.Second)))
	var buf [8]byte
	binary.BigEndian.PutUint32(buf[:], vU32())
	binary.LittleEndian.PutUint16(buf[4:], vU16())
	vObserve("buf", buf)
	vObserve("be64", binary.BigEndian.Uint64(buf[:]))
	vObserve("le32", binary.LittleEndian.Uint32(buf[2:]))
}

type node struct {
	v    int
	next *node
}

func T10_pointers_closures() {
	var head *node
	n := vLen(0, 4)
	for i := 0; i < n; i++ {
		head = &node{int(vI8()), head}
	}
	sum := 0
	for p := head; p != nil; p = p.next {
		sum = sum*3 + p.v
	}
	vObserve("sum", sum)
	counter := 0
	inc := func(k int) func() int {
		return func() int { counter += k; return counter }
	}
	a, b := inc(int(vI8())), inc(2)
	a()
	b()
	vObserve("closure", a()+b())
	arr := [3]int{1, 2, 3}
	pa := &arr
	pa[int(vU8()%3)] = 9
	vObserve("arrp", arr)
	type T struct{ x, y int }
	ts := []T{{1, 2}, {3, 4}}
	for _, t := range ts {
		t.x = 100
	}
	for i := range ts {
		ts[i].y += int(vI8())
	}
	vObserve("ts", ts)
	var sb strings.Builder
	for i := 0; i < n; i++ {
		sb.WriteString(strconv.Itoa(i))
		sb.WriteByte(vU8()%26 + 'a')
	}
	vObserve("sb", sb.String())
	x := min(int(vI8()), 5, int(vI8()))
	vObserve("min", x)
	vObserve("max", max(x, -3))
}

func T11_generics_switch() {
	vObserve("sum", sumOf([]int8{vI8(), vI8()}))
	vObserve("idx", indexOf([]string{"a", vString(1), "c"}, "c"))
	x := vU8()
	r := 0
	switch {
	case x < 10:
		r = 1
		fallthrough
	case x < 100:
		r += 2
	case x == 200:
		r = 9
	default:
		r = -1
	}
	vObserve("sw", r)
	lbl := 0
outer:
	for i := 0; i < 4; i++ {
		for j := 0; j < 4; j++ {
			if uint8(i*4+j) == x%20 {
				break outer
			}
			if j == 2 {
				continue outer
			}
			lbl++
		}
	}
	vObserve("lbl", lbl)
}

func sumOf[T int8 | int](xs []T) T {
	var s T
	for _, x := range xs {
		s += x
	}
	return s
}

func indexOf[T comparable](xs []T, v T) int {
	for i, x := range xs {
		if x == v {
			return i
		}
	}
	return -1
}


var t12global sync.Map

// sync.Map (engine model x_syncmap.go against the real implementation): a seeded sequence of operations on a
// local and a package-level map, every result observed.
func T12_syncmap() {
	var local sync.Map
	for i := 0; i < 10; i++ {
		m := &local
		if vU8()%2 == 1 {
			m = &t12global
		}
		k := strconv.Itoa(int(vU8() % 3))
		v := int(vU8() % 4)
		switch vU8() % 8 {
		case 0:
			x, ok := m.Load(k)
			vObserve("load", fmt.Sprint(x, ok))
		case 1:
			m.Store(k, v)
		case 2:
			x, loaded := m.LoadOrStore(k, v)
			vObserve("loadorstore", fmt.Sprint(x, loaded))
		case 3:
			x, loaded := m.LoadAndDelete(k)
			vObserve("loadanddelete", fmt.Sprint(x, loaded))
		case 4:
			m.Delete(k)
		case 5:
			x, loaded := m.Swap(k, v)
			vObserve("swap", fmt.Sprint(x, loaded))
		case 6:
			vObserve("cas", m.CompareAndSwap(k, v, v+1))
		case 7:
			vObserve("cad", m.CompareAndDelete(k, v))
		}
	}
	for _, m := range []*sync.Map{&local, &t12global} {
		var keys []string
		m.Range(func(k, v any) bool {
			keys = append(keys, k.(string)+"="+strconv.Itoa(v.(int)))
			return true
		})
		sort.Strings(keys)
		vObserve("final", strings.Join(keys, ","))
	}
	t12global.Clear()
}
