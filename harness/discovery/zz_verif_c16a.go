//go:build verif

package discovery

import (
	"errors"
	"time"

	"github.com/lestrrat-go/jwx/v2/jwa"
	"github.com/lestrrat-go/jwx/v2/jwt"
	ssi "github.com/nuts-foundation/go-did"
	"github.com/nuts-foundation/go-did/vc"
	"github.com/nuts-foundation/nuts-node/vcr"
	"github.com/nuts-foundation/nuts-node/vcr/pe"
	"github.com/nuts-foundation/nuts-node/vcr/verifier"
)

// C16, first sentence: "A discovery server lists a presentation only if it is a verifiable JWT presentation
// addressed to that service, within the service's maximum validity and not outliving its credentials, signed by
// a DID of an allowed method, whose credentials all and only fulfil the service's presentation definition; ...
// and accepts a retraction only from the signer of an existing entry."
//
// The harnesses run the real Module.verifyRegistration (+ validateAudience, validateRegistration,
// validateRetraction, credential.PresentationSigner, did.ParseDIDURL, vc.VerifiablePresentation accessors,
// time.Until) on a presentation value object:
//   H16a  composition of all checks, every input symbolic, small bounds on credentials / Match / store
//   H16c  registration rules in depth (credentials' expirations, Match results) behind a fixed valid front
//   H16d  retraction rules in depth (credentials, retract_jti of any JSON type, store rows) behind the same front
//   H16b  the validity window in exact arithmetic, both directions, incl. saturation of time.Sub (integer encoding)

// The package init() compiles the service-definition JSON schema (embed + jsonschema): not needed here.
//verif:stub github.com/nuts-foundation/nuts-node/discovery.init#1 => noop

// discovery/test.go (a non-test file) has an init() that generates ECDSA test keys and signs test presentations.
//verif:stub github.com/nuts-foundation/nuts-node/discovery.init#2 => noop

// JWS header parsing (jwx) is replaced by a lookup of the harness-chosen kid.
//verif:stub github.com/nuts-foundation/nuts-node/crypto.JWTKidAlg => hJWTKidAlg

// SQL (gorm) store: existence is answered from a small explicit list of entries.
//verif:stub (*github.com/nuts-foundation/nuts-node/discovery.sqlStore).exists => hStoreExists

// Presentation Exchange matching (vcr/pe, property C12) is a symbolic verdict, see hMatch.
//verif:stub (github.com/nuts-foundation/nuts-node/vcr/pe.PresentationDefinition).Match => hMatch

// time.Time.Sub on wall-clock instants, see hTimeSub.
//verif:stub (time.Time).Sub => hTimeSub

// Duration formatting is only used for the text of the "valid for too long" error (a digit loop per path).
//verif:stub (time.Duration).String => hDurationString

func hDurationString(d time.Duration) string { return "<duration>" }

const hRaw = "<compact JWS of the presentation>"
const hOwnID = "urn:uuid:0e7a3b9e"

// ---------------------------------------------------------------------------------------------
// scenario shared between the harness and its stubs/fakes

type hEntry struct{ service, subject, id string }

type hInstant struct {
	present   bool
	sec, nsec int // since the Unix epoch
	t         time.Time
}

type hScenario struct {
	serviceID string

	// clock: readings handed out so far; the first reading can be fixed in advance (H16a)
	clockSec, clockNsec []int
	now0Set             bool
	now0Sec, now0Nsec   int

	// H16a: the token's exp is (first clock reading) + remSec s + remNsec ns, see hDrawExpRelative
	relative        bool
	remSec, remNsec int
	exp             hInstant

	// signer: index into hSigners, drawn when the code asks for the kid of the token (-1: not yet)
	signer int

	// store content and fault (drawn on first use)
	storeDrawn bool
	jtiLen     int
	maxEntries int
	entries    []hEntry
	storeErr   bool

	// Match
	matchFixed bool // H16b: Match succeeds with an empty selection
	maxMatched int
	matchCalls int
	matchErr   bool
	matchIdx   []int // indices (into the presentation's credentials) of the returned credentials

	// VerifyVP
	verifyCalls    int
	verifyVCs      bool
	verifyValidAt  bool // a validAt instant was passed (then taken as "now" by the fake)
	verifyNowSec   int
	sigFixed       bool // H16b: signatures are fine
	sigOK          bool
	verifyAccepted bool
}

var hS *hScenario

// signer pool: kid header of the JWS -> ground truth
type hSigner struct {
	kid     string // kid header ("" = absent)
	jwsErr  bool   // token is not a parseable single-signature JWS
	isDID   bool   // kid is a DID URL with a non-empty DID
	method  string // its method
	subject string // the DID (without fragment)
}

var hSigners = []hSigner{
	{kid: "did:web:example.com#k1", isDID: true, method: "web", subject: "did:web:example.com"},
	{kid: "#k1"}, // relative DID URL: go-did parses it, the DID is empty
	{kid: "did:nuts:abc#k1", isDID: true, method: "nuts", subject: "did:nuts:abc"},
	{kid: ""},
	{kid: "did:abc:x:y?versionId=1#k2", isDID: true, method: "abc", subject: "did:abc:x:y"},
	{kid: "key1"}, // not a DID URL
	{jwsErr: true},
}

func hJWTKidAlg(tokenString string) (string, jwa.SignatureAlgorithm, error) {
	vAssert(tokenString == hRaw, "H16.kid_of_presentation: signer is not taken from the presentation's own JWS")
	if hS.signer < 0 {
		vTag("signer")
		hS.signer = vChoice(vParam("signers", len(hSigners)))
	}
	s := hSigners[hS.signer]
	if s.jwsErr {
		return "", "", errors.New("harness: not a JWS")
	}
	return s.kid, jwa.ES256, nil
}

// hDrawStore: up to `entries` rows (service, subject, presentation id). Service is the service under test or
// another one; subject is the signer's DID or somebody else's; the id is an arbitrary string of jtilen bytes or the id
// of the presentation under test.
func hDrawStore() {
	if hS.storeDrawn {
		return
	}
	hS.storeDrawn = true
	vTag("store.err")
	hS.storeErr = vBool()
	if hS.storeErr {
		return
	}
	vTag("store.n")
	n := vLen(0, hS.maxEntries)
	for i := 0; i < n; i++ {
		e := hEntry{service: "another-service", subject: "did:web:somebody.else"}
		vTag("entry.sameService")
		if vBool() {
			e.service = hS.serviceID
		}
		vTag("entry.sameSubject")
		if vBool() && hS.signer >= 0 {
			e.subject = hSigners[hS.signer].subject
		}
		vTag("entry.ownID")
		if vBool() {
			e.id = hOwnID // the id of the presentation under test itself
		} else {
			vTag("entry.id")
			e.id = vString(hS.jtiLen)
		}
		hS.entries = append(hS.entries, e)
	}
}

// hStoreExists: sqlStore.exists queries with a gorm struct condition, and gorm leaves zero-valued struct fields out
// of the WHERE clause - so an empty argument matches every row (the model keeps that behaviour).
func hStoreExists(s *sqlStore, serviceID string, credentialSubjectID string, presentationID string) (bool, error) {
	hDrawStore()
	if hS.storeErr {
		return false, errors.New("harness: database error")
	}
	for _, e := range hS.entries {
		if (serviceID == "" || e.service == serviceID) && (credentialSubjectID == "" || e.subject == credentialSubjectID) && (presentationID == "" || e.id == presentationID) {
			return true, nil
		}
	}
	return false, nil
}

// hMatch follows the contract of pe.PresentationDefinition.Match as implemented by matchBasic /
// matchSubmissionRequirements: on success it returns credentials taken from its input - one per input
// descriptor (matchBasic: for every descriptor the first credential that satisfies it, so one credential can be
// returned for several descriptors) or a de-duplicated selection (submission requirements); otherwise an error.
func hMatch(pd pe.PresentationDefinition, vcs []vc.VerifiableCredential) ([]vc.VerifiableCredential, []pe.InputDescriptorMappingObject, error) {
	hS.matchCalls++
	if hS.matchFixed {
		return nil, nil, nil
	}
	vTag("match.err")
	hS.matchErr = vBool()
	if hS.matchErr {
		return nil, nil, pe.ErrNoCredentials
	}
	vTag("match.n")
	n := vLen(0, hS.maxMatched)
	if n > 0 && len(vcs) == 0 {
		// a descriptor without any candidate credential cannot be matched
		hS.matchErr = true
		return nil, nil, pe.ErrNoCredentials
	}
	var out []vc.VerifiableCredential
	var maps []pe.InputDescriptorMappingObject
	for i := 0; i < n; i++ {
		vTag("match.idx")
		k := vChoice(len(vcs))
		hS.matchIdx = append(hS.matchIdx, k)
		out = append(out, vcs[k])
		maps = append(maps, pe.InputDescriptorMappingObject{Id: "d"})
	}
	return out, maps, nil
}

// ---------------------------------------------------------------------------------------------
// time

const hUnixToInternal = (1969*365 + 1969/4 - 1969/100 + 1969/400) * 86400

// hWallTime builds the time.Time for (sec, nsec) since the Unix epoch in UTC without monotonic reading, exactly
// what time.Unix(sec, nsec).UTC() yields for 0 <= nsec < 1e9 - the form jwx / encoding/json produce for
// NumericDate and RFC 3339 values (written field by field because setLoc/stripMono test `wall & hasMonotonic`,
// which the engine's integer encoding cannot express for a symbolic wall word).
func hWallTime(sec, nsec int) time.Time {
	var t time.Time
	vSetField(&t, "wall", uint64(nsec))
	vSetField(&t, "ext", int64(sec)+hUnixToInternal)
	return t
}

// clock: monotone, symbolic seconds and nanoseconds; every reading is recorded for the oracle.
func vhNow() time.Time {
	var sec, nsec int
	if len(hS.clockSec) == 0 && hS.now0Set {
		sec, nsec = hS.now0Sec, hS.now0Nsec
	} else {
		vTag("now.sec")
		sec = vRange(0, 1<<36)
		vTag("now.nsec")
		nsec = vRange(0, 999999999)
	}
	if n := len(hS.clockSec); n > 0 {
		vAssume(sec > hS.clockSec[n-1] || (sec == hS.clockSec[n-1] && nsec >= hS.clockNsec[n-1]))
	}
	hS.clockSec = append(hS.clockSec, sec)
	hS.clockNsec = append(hS.clockNsec, nsec)
	return hWallTime(sec, nsec)
}

// hTimeSub models time.Time.Sub for instants without a monotonic clock reading (everything decoded from a
// JWT/JSON, and the harness clock; asserted below): the exact difference t-u in nanoseconds, saturated to
// [minDuration, maxDuration]. That is what the real Sub computes (it forms d with wrap-around, returns d if
// u.Add(d).Equal(t) and otherwise saturates in the direction of t.Before(u)); the model was compared with the
// real Sub natively on 5 million boundary and random instant pairs (see registry). Reason for the model: the real
// Sub calls u.Add(d) with a symbolic d, which rewrites the wall word with bit operations (`wall&^nsecMask | nsec`,
// `wall&hasMonotonic`) that the engine's integer encoding cannot express, and the 64-bit bit-vector encoding of
// the *1e9 and /1e9 in Sub is not decided by z3.
//
// In H16a the token's exp is constructed as (first clock reading) + remSec s + remNsec ns, |remSec| <= 2^33
// (no saturation); then the difference is known by construction and returned in that form after checking that
// Sub is applied to exactly these two instants (the solver does not decide the equivalence of the two forms in
// the bit-vector encoding in time; H16b covers the general form).
func hTimeSub(t, u time.Time) time.Duration {
	const nsecMask = 1<<30 - 1
	const minDuration, maxDuration = time.Duration(-1 << 63), time.Duration(1<<63 - 1)
	tw, uw := vGetField(&t, "wall").(uint64), vGetField(&u, "wall").(uint64)
	ts, us := vGetField(&t, "ext").(int64), vGetField(&u, "ext").(int64) // sec()
	if hS.relative {
		vAssert(hS.exp.present && len(hS.clockSec) == 1, "H16.until_exp_now: time difference taken for other instants than the token's exp and the current time")
		vAssert(tw == uint64(hS.exp.nsec) && ts == int64(hS.exp.sec)+hUnixToInternal, "H16.until_exp: time difference taken from another instant than the token's exp")
		vAssert(uw == uint64(hS.clockNsec[0]) && us == int64(hS.clockSec[0])+hUnixToInternal, "H16.until_now: time difference taken to another instant than the current time")
		return time.Duration(hS.remSec*1000000000 + hS.remNsec)
	}
	vAssert(tw < 1<<63 && uw < 1<<63, "H16.time_model: instant with monotonic clock reading reached the Sub model")
	vAssert(ts > -(1<<61) && ts < 1<<61 && us > -(1<<61) && us < 1<<61, "H16.time_model_range: instant outside the range of the Sub model")
	tn, un := int64(tw&nsecMask), int64(uw&nsecMask) // nsec()
	ds, dn := ts-us, tn-un                           // exact difference = ds*1e9 + dn, -1e9 < dn < 1e9
	// maxDuration = 9223372036*1e9 + 854775807, minDuration = -(9223372036*1e9 + 854775808)
	// ds*1e9+dn > maxDuration  <=>  ds-9223372036 =: hi > 1 || hi == 1 && dn > 854775807-1e9 || hi == 0 && dn > 854775807
	// ds*1e9+dn < minDuration  <=>  ds+9223372036 =: lo < -1 || lo == -1 && dn < 1e9-854775808 || lo == 0 && dn < -854775808
	hi, lo := ds-9223372036, ds+9223372036
	if hi > 1 || (hi == 1 && dn > -145224193) || (hi == 0 && dn > 854775807) {
		return maxDuration
	}
	if lo < -1 || (lo == -1 && dn < 145224192) || (lo == 0 && dn < -854775808) {
		return minDuration
	}
	return time.Duration(ds*1000000000 + dn)
}

// hFracs: nanosecond parts of instants decoded from the presentation in the integer encoding. A JWT NumericDate
// has whole seconds (jwx default precision); RFC 3339 values (a credential's expirationDate, or an `exp` given as
// RFC 3339 string, which jwx tolerates) can carry a fraction. Concretised choice among boundary values (the
// first `fracs` of them) because the integer encoding cannot express time's `wall & hasMonotonic` tests on a
// symbolic wall word; the seconds stay symbolic, the clock's nanoseconds are fully symbolic.
var hFracs = []int{0, 999999999, 1}

// hDrawInstant: an instant with symbolic seconds in +-2^40 around the Unix epoch (years -32873..36812, well
// beyond the saturation range of time.Sub) and symbolic nanoseconds (concrete: a choice from hFracs).
func hDrawInstant(name string, concreteFrac bool) hInstant {
	vTag(name + ".sec")
	s := vRange(-(1 << 40), 1<<40)
	vTag(name + ".nsec")
	var n int
	if concreteFrac {
		n = hFracs[vChoice(vParam("fracs", 1))]
	} else {
		n = vRange(0, 999999999)
	}
	return hInstant{present: true, sec: s, nsec: n, t: hWallTime(s, n)}
}

// hDrawExpRelative fixes the first clock reading now0 and draws exp = now0 + remSec s + remNsec ns with
// -2^33 <= remSec <= 2^33 (+-272 years), 0 <= remNsec < 1e9. Every pair (now0, exp) within that distance has
// exactly one such representation.
func hDrawExpRelative() hInstant {
	vTag("now0.sec")
	hS.now0Sec = vRange(0, 1<<36)
	vTag("now0.nsec")
	hS.now0Nsec = vRange(0, 999999999)
	hS.now0Set = true
	hS.relative = true
	vTag("exp-now0.sec")
	hS.remSec = vRange(-(1 << 33), 1<<33)
	vTag("exp-now0.nsec")
	hS.remNsec = vRange(0, 999999999)
	sum := hS.now0Nsec + hS.remNsec
	carry := sum >= 1000000000
	nsec := vIte(carry, sum-1000000000, sum)
	sec := hS.now0Sec + hS.remSec + vIte(carry, 1, 0)
	return hInstant{present: true, sec: sec, nsec: nsec, t: hWallTime(sec, nsec)}
}

// hAfter: a is a later instant than b (reference predicate on the decomposition).
func hAfter(a, b hInstant) bool {
	return a.sec > b.sec || (a.sec == b.sec && a.nsec > b.nsec)
}

// ---------------------------------------------------------------------------------------------
// the JWT of the presentation (claims only). Claims are drawn when the code first asks for them.

type hToken struct {
	jwt.Token
	audDrawn bool
	aud      []string
	expDrawn bool
	jtiDrawn bool
	jtiKind  int
	jti      interface{}
	jtiSet   bool
}

func (t *hToken) Audience() []string {
	if !t.audDrawn {
		t.audDrawn = true
		idlen := len(hS.serviceID)
		vTag("aud.n")
		n := vLen(0, vParam("auds", 2))
		for i := 0; i < n; i++ {
			vTag("aud.samelen")
			if vBool() {
				vTag("aud.value")
				t.aud = append(t.aud, vString(idlen))
			} else {
				vTag("aud.value")
				t.aud = append(t.aud, vString(idlen+1))
			}
		}
	}
	return t.aud
}

func (t *hToken) Expiration() time.Time {
	if !t.expDrawn {
		t.expDrawn = true
		vTag("exp.present")
		if vBool() {
			hS.exp = hDrawExpRelative()
		}
	}
	if !hS.exp.present {
		return time.Time{}.UTC() // jwx: absent claim
	}
	return hS.exp.t
}

const (
	hJtiString = iota
	hJtiAbsent
	hJtiNull
	hJtiEmptyString
	hJtiNumber
	hJtiBool
	hJtiArray
	hJtiObject
	hJtiKinds
)

// Get: private claims hold whatever encoding/json decodes into interface{}:
// nil, bool, float64, string, []interface{}, map[string]interface{}.
func (t *hToken) Get(name string) (interface{}, bool) {
	if name != "retract_jti" {
		return nil, false
	}
	if !t.jtiDrawn {
		t.jtiDrawn = true
		vTag("retract_jti.kind")
		t.jtiKind = vChoice(vParam("jtikinds", hJtiKinds))
		t.jtiSet = true
		switch t.jtiKind {
		case hJtiAbsent:
			t.jtiSet = false
		case hJtiNull:
			t.jti = nil
		case hJtiBool:
			t.jti = vBool()
		case hJtiNumber:
			t.jti = vF64()
		case hJtiEmptyString:
			t.jti = ""
		case hJtiString:
			vTag("retract_jti")
			t.jti = vString(hS.jtiLen)
		case hJtiArray:
			t.jti = []interface{}{"a"}
		case hJtiObject:
			t.jti = map[string]interface{}{"a": "b"}
		}
	}
	return t.jti, t.jtiSet
}

func (t *hToken) Clone() (jwt.Token, error) { return t, nil }

// ---------------------------------------------------------------------------------------------
// VCR / verifier fakes

type hVCR struct{ vcr.VCR }

func (hVCR) Verifier() verifier.Verifier { return hVerifier{} }

type hVerifier struct{ verifier.Verifier }

// VerifyVP: symbolic signature verdict. Contract taken from the real verifier (signatureVerifier.jwtSignature ->
// crypto.ParseJWT -> jwx validation with the given clock, 1 s truncation, no skew): fails if the token is expired
// at validAt (or now if nil); fails if the signing key cannot be resolved, which is the case for an empty signer DID.
func (hVerifier) VerifyVP(presentation vc.VerifiablePresentation, verifyVCs bool, allowUntrustedVCs bool, validAt *time.Time) ([]vc.VerifiableCredential, error) {
	hS.verifyCalls++
	hS.verifyVCs = verifyVCs
	if hS.sigFixed {
		hS.sigOK = true
	} else {
		vTag("signatures.ok")
		hS.sigOK = vBool()
	}
	if validAt != nil {
		hS.verifyValidAt = true
		hS.verifyNowSec = int(validAt.Unix())
	} else {
		time.Now()
		hS.verifyNowSec = hS.clockSec[len(hS.clockSec)-1]
	}
	presentation.JWT().Expiration()
	if hS.exp.present && hS.verifyNowSec >= hS.exp.sec {
		return nil, errors.New("harness: token is expired")
	}
	if hS.signer < 0 || !hSigners[hS.signer].isDID {
		return nil, errors.New("harness: unable to resolve signing key")
	}
	if !hS.sigOK {
		return nil, errors.New("harness: invalid signature")
	}
	hS.verifyAccepted = true
	return presentation.VerifiableCredential, nil
}

// ---------------------------------------------------------------------------------------------

func hURI(s string) ssi.URI { return ssi.MustParseURI(s) }

var hTypes = [][]string{
	{"VerifiablePresentation"},
	{"VerifiablePresentation", "RetractedVerifiablePresentation"},
	{"RetractedVerifiablePresentation"},
	{},
}

type hCase struct {
	m        *Module
	def      ServiceDefinition
	vp       vc.VerifiablePresentation
	tok      *hToken
	format   string
	hasID    bool
	retract  bool // ground truth: the presentation carries the retraction type
	credExp  []hInstant
	maxValid int
	methods  []string
}

func (c *hCase) finish() {
	c.def = ServiceDefinition{ID: hS.serviceID, DIDMethods: c.methods, Endpoint: "https://example.com/discovery", PresentationMaxValidity: c.maxValid}
	if c.hasID {
		id := hURI(hOwnID)
		c.vp.ID = &id
	}
	vSetField(&c.vp, "format", c.format)
	vSetField(&c.vp, "raw", hRaw)
	if c.tok != nil {
		vSetField(&c.vp, "token", jwt.Token(c.tok))
	}
}

// drawCredentials: up to max credentials, each with an optional expirationDate. A retraction gets at most one,
// without expiration: the retraction rule only looks at the number of credentials.
func (c *hCase) drawCredentials(max int) {
	if c.retract && max > 1 {
		max = 1
	}
	vTag("vp.credentials")
	nc := vLen(0, max)
	for i := 0; i < nc; i++ {
		vTag("credential.expirationDate.present")
		c.addCredential(!c.retract && vBool())
	}
}

var hCredIDs = []string{"urn:credential:0", "urn:credential:1", "urn:credential:2", "urn:credential:3"}

func (c *hCase) addCredential(withExpiration bool) {
	var cred vc.VerifiableCredential
	id := hURI(hCredIDs[len(c.credExp)]) // distinct credentials have distinct ids
	cred.ID = &id
	var e hInstant
	if withExpiration {
		e = hDrawInstant("credential.expirationDate", false)
		t := e.t
		cred.ExpirationDate = &t
	}
	c.credExp = append(c.credExp, e)
	c.vp.VerifiableCredential = append(c.vp.VerifiableCredential, cred)
}

func hNewCase() *hCase {
	c := &hCase{}
	hS = &hScenario{signer: -1, jtiLen: vParam("jtilen", 2), maxEntries: vParam("entries", 1), maxMatched: vParam("matched", 2)}
	c.m = &Module{vcrInstance: hVCR{}, store: &sqlStore{}}
	c.tok = &hToken{}

	// the service (operator configuration, JSON schema: id non-empty, presentation_max_validity >= 1)
	vTag("service.id")
	hS.serviceID = vString(vParam("idlen", 2))
	vTag("service.max_validity")
	c.maxValid = vRange(1, 1<<32)
	vTag("service.did_methods.n")
	nm := vLen(0, vParam("methods", 2))
	for i := 0; i < nm; i++ {
		vTag("service.did_method")
		c.methods = append(c.methods, vString(3))
	}

	// the presentation
	// as produced by vc.ParseVerifiablePresentation: format jwt_vp with the parsed token, or another format
	// ("ldp_vp" or anything else of that length) without token
	vTag("vp.isJWT")
	if vBool() {
		c.format = vc.JWTPresentationProofFormat
	} else {
		vTag("vp.format")
		c.format = vString(6)
		vAssume(c.format != vc.JWTPresentationProofFormat)
		c.tok = nil
	}
	vTag("vp.hasID")
	c.hasID = vBool()
	vTag("vp.type")
	types := hTypes[vChoice(vParam("types", len(hTypes)))]
	for _, t := range types {
		c.vp.Type = append(c.vp.Type, hURI(t))
		if t == "RetractedVerifiablePresentation" {
			c.retract = true
		}
	}
	c.drawCredentials(vParam("creds", 2))
	c.finish()
	return c
}

func H16a() {
	c := hNewCase()
	err := c.m.verifyRegistration(c.def, c.vp)
	hCheckVerdict("H16a", c, err)
}

// hCheckVerdict: accepted => every clause of the property's first sentence (and the retraction clause).
func hCheckVerdict(id string, c *hCase, err error) {
	tok := c.tok
	if err != nil {
		vCover("rejected")
		return
	}
	vCover("accepted")
	// a verifiable JWT presentation ...
	vAssert(c.format == vc.JWTPresentationProofFormat && tok != nil, id+".jwt_format: accepted a presentation that is not in JWT format")
	if tok == nil {
		return
	}
	vAssert(c.hasID, id+".has_id: accepted a presentation without id")
	vAssert(hS.verifyCalls > 0 && hS.verifyAccepted, id+".vp_verified: accepted a presentation whose signature verification did not succeed")
	vAssert(hS.verifyCalls > 0 && hS.verifyVCs, id+".credentials_verified: accepted a presentation without verifying its credentials")
	// ... addressed to that service ...
	addressed := false
	if tok.audDrawn {
		for _, a := range tok.aud {
			if len(a) == len(hS.serviceID) {
				same := true
				for i := 0; i < len(a); i++ {
					if a[i] != hS.serviceID[i] {
						same = false
					}
				}
				if same {
					addressed = true
				}
			}
		}
	}
	vAssert(addressed, id+".audience: accepted a presentation whose audience does not contain the service id")
	// ... within the service's maximum validity ...
	vAssert(tok.expDrawn && hS.exp.present, id+".has_expiration: accepted a presentation without expiration")
	vAssert(len(hS.clockSec) > 0, id+".clock_read: accepted without reading the clock")
	// exp - now0 = remSec s + remNsec ns by construction; |remSec| <= 2^33 and max <= 2^32, so both sides fit in 63 bits
	vAssert(hS.remSec*1000000000+hS.remNsec <= c.maxValid*1000000000, id+".max_validity: accepted a presentation that is valid longer than the service's maximum validity")
	vAssert(hS.remSec > 0 || (hS.remSec == 0 && hS.remNsec > 0), id+".not_expired: accepted a presentation that is already expired")
	vAssert(!hS.verifyValidAt, id+".verified_now: presentation was verified for another instant than now")
	// ... signed by a DID of an allowed method ...
	vAssert(hS.signer >= 0 && hSigners[hS.signer].isDID, id+".signer_is_did: accepted a presentation whose signer is not a DID")
	if len(c.methods) > 0 {
		allowed := false
		for _, m := range c.methods {
			if m == hSigners[hS.signer].method {
				allowed = true
			}
		}
		vAssert(allowed, id+".did_method_allowed: accepted a presentation signed by a DID of a method the service does not allow")
		vCover("accepted-method-listed")
	} else {
		vCover("accepted-any-method")
	}
	if !c.retract {
		vCover("accepted-registration")
		// ... not outliving its credentials ...
		for _, e := range c.credExp {
			if e.present {
				vCover("accepted-credential-with-expiration")
				vAssert(!hAfter(hS.exp, e), id+".not_outliving_credentials: accepted a presentation that is valid longer than one of its credentials")
			}
		}
		// ... whose credentials all and only fulfil the presentation definition
		vAssert(hS.matchCalls == 1 && !hS.matchErr, id+".definition_matched: accepted a registration that does not fulfil the presentation definition")
		dup := false
		for a := 0; a < len(hS.matchIdx); a++ {
			for b := a + 1; b < len(hS.matchIdx); b++ {
				if hS.matchIdx[a] == hS.matchIdx[b] {
					dup = true
				}
			}
		}
		for i := range c.credExp {
			matched := false
			for _, k := range hS.matchIdx {
				if k == i {
					matched = true
				}
			}
			if !matched && dup {
				vClass("one credential selected for several input descriptors")
			}
			vAssert(matched, id+".all_credentials_matched: accepted a registration with a credential that the presentation definition did not select")
		}
		if len(c.credExp) >= 2 {
			vCover("accepted-two-credentials")
		}
		vAssert(!tok.jtiDrawn && !hS.storeDrawn, id+".registration_path: a registration consulted retraction data")
	} else {
		vCover("accepted-retraction")
		vAssert(len(c.credExp) == 0, id+".retraction_without_credentials: accepted a retraction that contains credentials")
		vAssert(tok.jtiDrawn && tok.jtiSet, id+".retraction_has_jti: accepted a retraction without retract_jti claim")
		jti, isString := tok.jti.(string)
		vAssert(isString && jti != "", id+".retraction_jti_string: accepted a retraction whose retract_jti is not a non-empty string")
		found := false
		if hS.storeDrawn && !hS.storeErr {
			for _, e := range hS.entries {
				if e.service == hS.serviceID && e.subject == hSigners[hS.signer].subject && e.id == jti {
					found = true
				}
			}
		}
		vAssert(found, id+".retraction_of_own_entry: accepted a retraction that does not refer to an existing entry of its signer on this service")
		vAssert(hS.matchCalls == 0, id+".retraction_path: a retraction was matched against the presentation definition")
	}
}

// hFixedCase: a valid presentation for service "svc" signed by did:web:example.com (signer 0), no credentials,
// Match and signatures fine; the caller sets type, claims and clock.
func hFixedCase(types []string) *hCase {
	c := &hCase{}
	hS = &hScenario{signer: 0, serviceID: "svc", jtiLen: vParam("jtilen", 2), maxEntries: vParam("entries4", 2), maxMatched: vParam("matched3", 2)}
	c.m = &Module{vcrInstance: hVCR{}, store: &sqlStore{}}
	c.tok = &hToken{audDrawn: true, aud: []string{"other", "svc"}}
	c.format = vc.JWTPresentationProofFormat
	c.hasID = true
	c.maxValid = 3600
	for _, t := range types {
		c.vp.Type = append(c.vp.Type, hURI(t))
		if t == "RetractedVerifiablePresentation" {
			c.retract = true
		}
	}
	return c
}

// H16c: the registration rules in depth. Addressing, format, id and signer are fixed and valid; symbolic: exp and
// the clock, the maximum validity, up to `creds3` credentials with optional expiration, the Match result (error, or up
// to `matched3` selected credentials, repetitions included) and the signature verdict.
func H16c() {
	c := hFixedCase(hTypes[0])
	vTag("service.max_validity")
	c.maxValid = vRange(1, 1<<32)
	c.drawCredentials(vParam("creds3", 2))
	c.finish()
	err := c.m.verifyRegistration(c.def, c.vp)
	hCheckVerdict("H16c", c, err)
}

func H16c_twin() {
	c := hFixedCase(hTypes[0])
	c.addCredential(true)
	c.finish()
	if c.m.verifyRegistration(c.def, c.vp) == nil && len(hS.matchIdx) == 1 && hS.remSec == 3600 {
		vAssert(false, "H16c_twin.reach: reachable")
	}
}

// H16d: the retraction rules in depth. Addressing, format, id, signer and exp handling as in H16c; symbolic: 0-1
// credentials, retract_jti of every JSON type, up to `entries4` store rows (this/another service, this/another
// signer, arbitrary id), a store fault, and the signature verdict.
func H16d() {
	c := hFixedCase(hTypes[1+vChoice(2)])
	c.drawCredentials(1)
	c.finish()
	err := c.m.verifyRegistration(c.def, c.vp)
	hCheckVerdict("H16d", c, err)
	if err != nil && c.tok.jtiDrawn {
		switch c.tok.jtiKind {
		case hJtiAbsent, hJtiNull, hJtiBool, hJtiNumber, hJtiArray, hJtiObject:
			vCover("rejected-retract_jti-not-a-string")
		}
	}
}

func H16d_twin() {
	c := hFixedCase(hTypes[2])
	hS.maxEntries, hS.jtiLen = 2, 2
	c.tok.jtiDrawn, c.tok.jtiSet, c.tok.jtiKind, c.tok.jti = true, true, hJtiString, vString(2)
	c.finish()
	if c.m.verifyRegistration(c.def, c.vp) == nil && len(hS.entries) == 2 && hS.entries[0].service != "svc" {
		vAssert(false, "H16d_twin.reach: reachable")
	}
}

// H16a_twin: a retraction of an existing entry gets through the real code.
func H16a_twin() {
	c := hFixedCase(hTypes[1])
	hS.maxEntries, hS.jtiLen = 1, 2
	c.tok.jtiDrawn, c.tok.jtiSet, c.tok.jtiKind, c.tok.jti = true, true, hJtiString, vString(2)
	c.finish()
	if c.m.verifyRegistration(c.def, c.vp) == nil && len(hS.entries) == 1 && hS.remSec == 60 {
		vAssert(false, "H16a_twin.reach: reachable")
	}
}

// hWithinMaxValidity: exp - now <= max seconds, in exact arithmetic (seconds first, no overflow: |ds| < 2^42).
func hWithinMaxValidity(exp hInstant, nowSec, nowNsec, max int) bool {
	ds := exp.sec - nowSec
	dn := exp.nsec - nowNsec // -1e9 < dn < 1e9
	if ds < max {
		return true
	}
	return ds == max && dn <= 0
}

// H16b: the validity window in exact arithmetic. Everything but exp, the clock and the maximum validity is fixed
// and valid; exp is any instant within +-2^40 s of the epoch (or absent), independent of the clock, so that the
// saturation of time.Sub is included. accepted <=> exp present and non-zero, exp - now <= max (exactly, with now =
// the instant read by the check) and - VerifyVP contract - whole seconds of exp > whole seconds of now at
// verification.
func H16b() {
	c := hFixedCase(hTypes[0])
	hS.matchFixed, hS.sigFixed = true, true
	vTag("service.max_validity")
	c.maxValid = vRange(1, 1<<32)
	c.tok.expDrawn = true
	vTag("exp.present")
	if vBool() {
		hS.exp = hDrawInstant("exp", true)
	}
	c.finish()
	err := c.m.verifyRegistration(c.def, c.vp)
	exp := hS.exp
	if err == nil {
		vCover("accepted")
		vAssert(exp.present, "H16b.has_expiration: accepted a presentation without expiration")
		vAssert(len(hS.clockSec) == 2, "H16b.clock_reads: expected one clock reading by the validity check and one by the verifier")
		vAssert(hWithinMaxValidity(exp, hS.clockSec[0], hS.clockNsec[0], c.maxValid), "H16b.max_validity: accepted a presentation that is valid longer than the service's maximum validity")
		vAssert(exp.sec > hS.clockSec[0], "H16b.not_expired: accepted a presentation that is already expired")
		if exp.sec-hS.clockSec[0] == c.maxValid {
			vCover("accepted-at-maximum")
		}
	} else {
		vCover("rejected")
		if !exp.present {
			vCover("rejected-no-expiration")
			return
		}
		zero := exp.sec == -62135596800 && exp.nsec == 0 // 0001-01-01T00:00:00Z is jwx's "absent"
		tooLong := len(hS.clockSec) >= 1 && !hWithinMaxValidity(exp, hS.clockSec[0], hS.clockNsec[0], c.maxValid)
		expired := len(hS.clockSec) >= 2 && hS.clockSec[1] >= exp.sec
		if tooLong {
			vCover("rejected-too-long")
			if exp.sec-hS.clockSec[0] > 9223372037 {
				vCover("rejected-too-long-saturated")
			}
		}
		if expired {
			vCover("rejected-expired")
		}
		// conversely: within the window (and verifiable) => accepted
		vAssert(zero || tooLong || expired, "H16b.window_is_accepted: a presentation within the validity window was rejected")
	}
}

func H16b_twin() {
	c := hFixedCase(hTypes[0])
	hS.matchFixed, hS.sigFixed = true, true
	c.tok.expDrawn = true
	hS.exp = hDrawInstant("exp", true)
	c.finish()
	if c.m.verifyRegistration(c.def, c.vp) == nil && hS.exp.sec-hS.clockSec[0] == 3600 {
		vAssert(false, "H16b_twin.reach: reachable")
	}
}
