//go:build verif

package discovery

import (
	"errors"
	"time"

	"github.com/lestrrat-go/jwx/v2/jwa"
	"github.com/lestrrat-go/jwx/v2/jwt"
	ssi "github.com/nuts-foundation/go-did"
	"github.com/nuts-foundation/go-did/vc"
	"github.com/nuts-foundation/nuts-node/vcr"
	"github.com/nuts-foundation/nuts-node/vcr/pe"
	"github.com/nuts-foundation/nuts-node/vcr/verifier"
)

// The package init() compiles the service-definition JSON schema (embed + jsonschema): not needed here.
//verif:stub github.com/nuts-foundation/nuts-node/discovery.init#1 => noop

// discovery/test.go (a non-test file) has an init() that generates ECDSA test keys and signs test presentations.
//verif:stub github.com/nuts-foundation/nuts-node/discovery.init#2 => noop

// JWS header parsing (jwx) is replaced by a lookup of the harness-chosen kid.
//verif:stub github.com/nuts-foundation/nuts-node/crypto.JWTKidAlg => hJWTKidAlg

// SQL (gorm) store: existence is answered from a small explicit list of entries.
//verif:stub (*github.com/nuts-foundation/nuts-node/discovery.sqlStore).exists => hStoreExists

// Presentation Exchange matching (vcr/pe, property C12) is a symbolic verdict, see hMatch.
//verif:stub (github.com/nuts-foundation/nuts-node/vcr/pe.PresentationDefinition).Match => hMatch

const hRaw = "<compact JWS of the presentation>"

// ---------------------------------------------------------------------------------------------
// scenario shared between the harness and its stubs/fakes

type hEntry struct{ service, subject, id string }

type hScenario struct {
	// clock readings handed out so far (seconds, nanoseconds since the Unix epoch)
	clockSec, clockNsec []int

	// signer: index into hSigners, drawn when the code asks for the kid of the token
	signer int

	// store content and fault
	entries  []hEntry
	storeErr bool

	// Match
	matchCalls int
	matchErr   bool
	matchIdx   []int // indices (into the presentation's credentials) of the returned credentials

	// VerifyVP
	verifyCalls    int
	verifyVCs      bool
	verifyValidAt  bool // a validAt instant was passed (then taken as "now" by the fake)
	verifyNowSec   int
	sigOK          bool
	verifyAccepted bool
}

var hS *hScenario

// signer pool: kid header of the JWS -> ground truth
type hSigner struct {
	kid     string // kid header ("" = absent)
	jwsErr  bool   // token is not a parseable single-signature JWS
	isDID   bool   // kid is a DID URL with a non-empty DID
	method  string // its method
	subject string // the DID (without fragment)
}

var hSigners = []hSigner{
	{kid: "did:web:example.com#k1", isDID: true, method: "web", subject: "did:web:example.com"},
	{kid: "did:nuts:abc#k1", isDID: true, method: "nuts", subject: "did:nuts:abc"},
	{kid: "did:web:example.com:u:1#k2", isDID: true, method: "web", subject: "did:web:example.com:u:1"},
	{kid: ""},
	{kid: "#k1"},  // relative DID URL: parses, DID is empty
	{kid: "key1"}, // not a DID URL
	{jwsErr: true},
}

func hJWTKidAlg(tokenString string) (string, jwa.SignatureAlgorithm, error) {
	vAssert(tokenString == hRaw, "H16.kid_of_presentation: signer is not taken from the presentation's own JWS")
	if hS.signer < 0 {
		hS.signer = vChoice(len(hSigners))
	}
	s := hSigners[hS.signer]
	if s.jwsErr {
		return "", "", errors.New("harness: not a JWS")
	}
	return s.kid, jwa.ES256, nil
}

func hStoreExists(s *sqlStore, serviceID string, credentialSubjectID string, presentationID string) (bool, error) {
	if hS.storeErr {
		return false, errors.New("harness: database error")
	}
	for _, e := range hS.entries {
		if e.service == serviceID && e.subject == credentialSubjectID && e.id == presentationID {
			return true, nil
		}
	}
	return false, nil
}

// hMatch follows the contract of pe.PresentationDefinition.Match as implemented by matchBasic /
// matchSubmissionRequirements: on success it returns credentials taken from its input - one per input
// descriptor (matchBasic: the first credential that matches the descriptor, so the same credential can be
// returned for several descriptors) or a de-duplicated selection (submission requirements); otherwise an error.
func hMatch(pd pe.PresentationDefinition, vcs []vc.VerifiableCredential) ([]vc.VerifiableCredential, []pe.InputDescriptorMappingObject, error) {
	hS.matchCalls++
	hS.matchErr = vBool()
	if hS.matchErr {
		return nil, nil, errors.Join(pe.ErrNoCredentials, errors.New("harness: constraints not matched"))
	}
	n := vLen(0, vParam("matched", 2))
	if n > 0 && len(vcs) == 0 {
		// a descriptor without any candidate credential cannot be matched
		hS.matchErr = true
		return nil, nil, errors.Join(pe.ErrNoCredentials, errors.New("harness: constraints not matched"))
	}
	var out []vc.VerifiableCredential
	var maps []pe.InputDescriptorMappingObject
	for i := 0; i < n; i++ {
		k := vChoice(len(vcs))
		hS.matchIdx = append(hS.matchIdx, k)
		out = append(out, vcs[k])
		maps = append(maps, pe.InputDescriptorMappingObject{Id: "d"})
	}
	return out, maps, nil
}

// clock: monotone, symbolic; every reading is recorded
func vhNow() time.Time {
	sec := vRange(0, 1<<36)
	nsec := vRange(0, 999999999)
	if n := len(hS.clockSec); n > 0 {
		vAssume(sec > hS.clockSec[n-1] || (sec == hS.clockSec[n-1] && nsec >= hS.clockNsec[n-1]))
	}
	hS.clockSec = append(hS.clockSec, sec)
	hS.clockNsec = append(hS.clockNsec, nsec)
	return time.Unix(int64(sec), int64(nsec)).UTC()
}

// hToken is the parsed JWT of the presentation (claims only).
type hToken struct {
	jwt.Token
	aud     []string
	exp     time.Time
	private map[string]interface{}
}

func (t *hToken) Audience() []string    { return t.aud }
func (t *hToken) Expiration() time.Time { return t.exp }
func (t *hToken) Get(name string) (interface{}, bool) {
	v, ok := t.private[name]
	return v, ok
}
func (t *hToken) Clone() (jwt.Token, error) { return t, nil }

type hVCR struct{ vcr.VCR }

func (hVCR) Verifier() verifier.Verifier { return hVerifier{} }

type hVerifier struct{ verifier.Verifier }

// VerifyVP: symbolic signature verdict. Contract taken from the real verifier (jwtSignature -> crypto.ParseJWT ->
// jwx validation with the given clock, 1 s truncation, no skew): fails if the token is expired at validAt (or now),
// and fails if the signing key cannot be resolved, which is the case for an empty signer DID.
func (hVerifier) VerifyVP(presentation vc.VerifiablePresentation, verifyVCs bool, allowUntrustedVCs bool, validAt *time.Time) ([]vc.VerifiableCredential, error) {
	hS.verifyCalls++
	hS.verifyVCs = verifyVCs
	hS.sigOK = vBool()
	var now time.Time
	if validAt != nil {
		hS.verifyValidAt = true
		now = *validAt
	} else {
		now = time.Now()
	}
	hS.verifyNowSec = int(now.Unix())
	exp := presentation.JWT().Expiration()
	if !exp.IsZero() && !now.Truncate(time.Second).Before(exp.Truncate(time.Second)) {
		return nil, errors.New("harness: token is expired")
	}
	if hS.signer < 0 || !hSigners[hS.signer].isDID {
		return nil, errors.New("harness: unable to resolve signing key")
	}
	if !hS.sigOK {
		return nil, errors.New("harness: invalid signature")
	}
	hS.verifyAccepted = true
	return presentation.VerifiableCredential, nil
}

func hURI(s string) ssi.URI { return ssi.MustParseURI(s) }

func H16probe() {
	hS = &hScenario{signer: -1}
	m := &Module{vcrInstance: hVCR{}, store: &sqlStore{}}
	def := ServiceDefinition{ID: "svc", PresentationMaxValidity: vRange(1, 1<<32)}
	vp := vc.VerifiablePresentation{}
	id := hURI("urn:x")
	vp.ID = &id
	vp.Type = []ssi.URI{hURI("VerifiablePresentation")}
	es := vRange(-(1 << 40), 1<<40)
	tok := &hToken{aud: []string{"svc"}, exp: time.Unix(int64(es), 0).UTC()}
	vSetField(&vp, "format", vc.JWTPresentationProofFormat)
	vSetField(&vp, "raw", hRaw)
	vSetField(&vp, "token", jwt.Token(tok))
	err := m.verifyRegistration(def, vp)
	if err == nil {
		vCover("accepted")
		vAssert(es-hS.clockSec[0] <= def.PresentationMaxValidity, "H16probe.max: too long")
		vAssert(es > hS.clockSec[0], "H16probe.future: expired")
	}
}
