//go:build verif

package iam

import (
	"context"
	"net/url"
	"time"

	ssi "github.com/nuts-foundation/go-did"
	"github.com/nuts-foundation/nuts-node/vcr/pe"
	"github.com/nuts-foundation/nuts-node/vcr/signature/proof"
)

// H19i: the OpenID4VP authorization-response endpoint (handleAuthorizeResponseSubmission), fed by an
// untrusted wallet: vp_token / state absent or present, vp_token unparsable or an envelope with 0..2
// presentations whose challenge is absent, equal or different, state referencing a live session or not.
// Never panics; a nonce is honoured at most once (burned by the attempt); the request never gets past
// the nonce stage unless every presentation carries the one nonce that belongs to the state.
// (The request carries no presentation_submission, so a request that passes the nonce stage ends with
// "missing presentation_submission" - the later stages are the subject of C02.)
func H19i() {
	hC02Clock = time.Unix(1700000000, 0)
	publicURL, _ := url.Parse("https://n")
	db := newHC02DB()
	r := Wrapper{storageEngine: hC02Engine{db: db}, auth: hC02Auth{publicURL: publicURL}}

	// a live session "st" of subject "s" with nonce "n1"
	own := "s"
	vAssert(r.oauthClientStateStore().Put("st", OAuthSession{OwnSubject: &own, RedirectURI: "https://c/cb"}) == nil, "H19i.setup: cannot store session")
	vAssert(r.oauthNonceStore().Put("n1", "st") == nil, "H19i.setup: cannot store nonce")

	body := &HandleAuthorizeResponseFormdataRequestBody{}
	if vBool() {
		st := "st"
		if vBool() {
			st = "xx"
		}
		body.State = &st
	}
	n := 0
	allRightNonce := true
	if vBool() {
		tok := "vp_token"
		body.VpToken = &tok
		hC02Envelope = nil
		if vBool() {
			n = vLen(0, vParam("i_vps", 2))
			env := &pe.Envelope{}
			for i := 0; i < n; i++ {
				var p proof.LDProof
				p.VerificationMethod = ssi.MustParseURI("did:web:a#k")
				switch vChoice(3) {
				case 0: // no challenge
					allRightNonce = false
				case 1:
					c := "n1"
					p.Challenge = &c
				case 2:
					c := "n2"
					p.Challenge = &c
					allRightNonce = false
				}
				env.Presentations = append(env.Presentations, hC02LdVP(p))
			}
			hC02Envelope = env
			if n == 0 {
				vCover("empty-envelope")
			}
		}
	}
	subject := "s"
	if vBool() {
		subject = "t"
	}
	resp, err := r.handleAuthorizeResponseSubmission(context.Background(), HandleAuthorizeResponseRequestObject{SubjectID: subject, Body: body})
	vAssert(resp == nil && err != nil, "H19i.rejected: a request without presentation_submission was answered with success")
	passedNonceStage := false
	if oe, ok := err.(interface{ Error() string }); ok && oe != nil {
		passedNonceStage = containsStr(err.Error(), "missing presentation_submission")
	}
	if passedNonceStage {
		vCover("passed-nonce-stage")
		vAssert(body.State != nil && *body.State == "st" && subject == "s", "H19i.state_and_tenant: nonce stage passed for a wrong state or tenant")
		vAssert(n >= 1 && allRightNonce, "H19i.every_presentation_has_the_nonce: nonce stage passed although not every presentation carries the session's nonce")
		vAssert(!r.oauthNonceStore().Exists("n1"), "H19i.nonce_burned: nonce still redeemable after it was honoured")
	} else {
		vCover("refused")
	}
}

func containsStr(s, sub string) bool {
	for i := 0; i+len(sub) <= len(s); i++ {
		if s[i:i+len(sub)] == sub {
			return true
		}
	}
	return false
}

func H19i_twin() {
	hC02Clock = time.Unix(1700000000, 0)
	publicURL, _ := url.Parse("https://n")
	db := newHC02DB()
	r := Wrapper{storageEngine: hC02Engine{db: db}, auth: hC02Auth{publicURL: publicURL}}
	own := "s"
	_ = r.oauthClientStateStore().Put("st", OAuthSession{OwnSubject: &own})
	_ = r.oauthNonceStore().Put("n1", "st")
	var p proof.LDProof
	c := "n" + string([]byte{'0' + vU8()%3})
	p.Challenge = &c
	hC02Envelope = &pe.Envelope{Presentations: nil}
	hC02Envelope.Presentations = append(hC02Envelope.Presentations, hC02LdVP(p))
	st, tok := "st", "t"
	_, err := r.handleAuthorizeResponseSubmission(context.Background(), HandleAuthorizeResponseRequestObject{SubjectID: "s", Body: &HandleAuthorizeResponseFormdataRequestBody{State: &st, VpToken: &tok}})
	if err != nil && containsStr(err.Error(), "missing presentation_submission") {
		vAssert(false, "H19i_twin.reach: reachable")
	}
}
