//go:build verif

package iam

import (
	"crypto"
	"errors"
	"net/url"
	"strings"
	"time"

	"github.com/nuts-foundation/nuts-node/auth"
	"github.com/nuts-foundation/nuts-node/jsonld"
	"github.com/nuts-foundation/nuts-node/storage"
	"github.com/nuts-foundation/nuts-node/vcr"
	"github.com/nuts-foundation/nuts-node/vcr/verifier"
	"github.com/nuts-foundation/nuts-node/vdr/resolver"
	"github.com/piprate/json-gold/ld"
)

// ---------------------------------------------------------------------------------------------
// Clock. time.Now() in the code under test reads hC02Clock (the engine calls vhNow for time.Now).

var hC02Clock time.Time

func vhNow() time.Time { return hC02Clock }

// ---------------------------------------------------------------------------------------------
// Session database fake: an in-memory store per key prefix whose entries live for exactly the TTL
// that the caller of GetStore passed (entry put at instant p with TTL d is readable at instant n
// iff n <= p+d: the most generous reading of "time to live", which favours the code under test).

type hC02Entry struct {
	key      string
	val      interface{}
	deadline time.Time
}

type hC02Put struct {
	store string
	key   string
	ttl   time.Duration
}

type hC02DB struct {
	storage.SessionDatabase
	data    map[string][]hC02Entry
	puts    []hC02Put
	deletes []hC02Put
	failPut map[string]bool // store name -> Put fails
	// lag: how long after its deadline an entry is still handed out ("can happen between token
	// expiration and pruning of database", api.go). Zero unless a harness sets it.
	lag time.Duration
}

func newHC02DB() *hC02DB { return &hC02DB{data: map[string][]hC02Entry{}, failPut: map[string]bool{}} }

func (d *hC02DB) GetStore(ttl time.Duration, keys ...string) storage.SessionStore {
	return &hC02Store{db: d, name: strings.Join(keys, "/"), ttl: ttl}
}
func (d *hC02DB) Close() {}

// live returns the index of the live entry for key at the current clock, or -1.
func (d *hC02DB) live(store, key string) int {
	es := d.data[store]
	for i := len(es) - 1; i >= 0; i-- {
		if es[i].key == key {
			if hC02Clock.After(es[i].deadline.Add(d.lag)) {
				return -1
			}
			return i
		}
	}
	return -1
}

func (d *hC02DB) putCount(store string) int {
	n := 0
	for _, p := range d.puts {
		if p.store == store {
			n++
		}
	}
	return n
}

type hC02Store struct {
	db   *hC02DB
	name string
	ttl  time.Duration
}

func (s *hC02Store) Delete(key string) error {
	s.db.deletes = append(s.db.deletes, hC02Put{store: s.name, key: key})
	es := s.db.data[s.name]
	var out []hC02Entry
	for _, e := range es {
		if e.key != key {
			out = append(out, e)
		}
	}
	s.db.data[s.name] = out
	return nil
}

func (s *hC02Store) Exists(key string) bool { return s.db.live(s.name, key) >= 0 }

func (s *hC02Store) Get(key string, target interface{}) error {
	i := s.db.live(s.name, key)
	if i < 0 {
		return storage.ErrNotFound
	}
	v := s.db.data[s.name][i].val
	// the JSON round trip of the real store, for the value types this slice stores
	switch t := target.(type) {
	case *bool:
		*t = v.(bool)
	case *string:
		*t = v.(string)
	case *AccessToken:
		*t = v.(AccessToken)
	case *OAuthSession:
		*t = v.(OAuthSession)
	default:
		panic("hC02Store.Get: target type not modelled")
	}
	return nil
}

func (s *hC02Store) Put(key string, value interface{}, options ...storage.SessionOption) error {
	ttl := s.ttl
	for _, o := range options {
		// the only option is storage.WithTTL(ttl): a closure over the duration (its parameter type is unexported)
		ttl = vFreeVar(o, 0).(time.Duration)
	}
	if s.db.failPut[s.name] {
		return errors.New("harness: store unavailable")
	}
	s.db.puts = append(s.db.puts, hC02Put{store: s.name, key: key, ttl: ttl})
	if ttl <= 0 {
		// as the real store: nothing is stored for a non-positive TTL
		return nil
	}
	var out []hC02Entry
	for _, e := range s.db.data[s.name] {
		if e.key != key {
			out = append(out, e)
		}
	}
	s.db.data[s.name] = append(out, hC02Entry{key: key, val: value, deadline: hC02Clock.Add(ttl)})
	return nil
}

func (s *hC02Store) GetAndDelete(key string, target interface{}) error {
	if err := s.Get(key, target); err != nil {
		return err
	}
	return s.Delete(key)
}

type hC02Engine struct {
	storage.Engine
	db *hC02DB
}

func (e hC02Engine) GetSessionDatabase() storage.SessionDatabase { return e.db }

// ---------------------------------------------------------------------------------------------
// Other collaborators of Wrapper.

type hC02Auth struct {
	auth.AuthenticationServices
	publicURL *url.URL
}

func (a hC02Auth) PublicURL() *url.URL { return a.publicURL }

type hC02VCR struct {
	vcr.VCR
	v verifier.Verifier
}

func (v hC02VCR) Verifier() verifier.Verifier { return v.v }

type hC02KeyResolver struct {
	resolver.KeyResolver
	calls int
}

type hC02Key struct{}

func (k *hC02KeyResolver) ResolveKeyByID(keyID string, metadata *resolver.ResolveMetadata, relationType resolver.RelationType) (crypto.PublicKey, error) {
	k.calls++
	return hC02Key{}, nil
}

type hC02JSONLD struct{ jsonld.JSONLD }

func (hC02JSONLD) DocumentLoader() ld.DocumentLoader { return nil }


// ---------------------------------------------------------------------------------------------
// Random values. crypto.GenerateNonce (256 random bits, base64url) is replaced by distinct, concrete values: real
// nonces are unique with overwhelming probability, and symbolic random bytes that pass through base64 tables and
// then serve as store keys make every later solver query very slow.
//verif:stub github.com/nuts-foundation/nuts-node/crypto.GenerateNonce => hC02GenerateNonce

var hC02NonceCount int

func hC02GenerateNonce() string {
	hC02NonceCount++
	return "random-" + string(rune('A'+hC02NonceCount/26)) + string(rune('a'+hC02NonceCount%26))
}
