//go:build verif

package iam

import (
	"errors"

	ssi "github.com/nuts-foundation/go-did"
	"github.com/nuts-foundation/go-did/did"
	"github.com/nuts-foundation/go-did/vc"
	"github.com/nuts-foundation/nuts-node/vcr/signature/proof"
)

//verif:stub (github.com/nuts-foundation/go-did/vc.VerifiableCredential).SubjectDID => hC02SubjectDID

// hC02CredSubject is how the harness stores a credentialSubject (go-did decodes the JSON member `id`).
type hC02CredSubject struct{ ID did.DID }

// hC02SubjectDID follows the documented contract of go-did's VerifiableCredential.SubjectDID (which decodes
// credentialSubject through encoding/json into a function-local type): error when there is no subject,
// when the subjects' ids differ, or when the id is empty; else the common id.
func hC02SubjectDID(c vc.VerifiableCredential) (*did.DID, error) {
	if len(c.CredentialSubject) < 1 {
		return nil, errors.New("unable to get subject DID from VC: there must be at least 1 credentialSubject")
	}
	subjectID := c.CredentialSubject[0].(hC02CredSubject).ID
	for _, s := range c.CredentialSubject {
		if !subjectID.Equals(s.(hC02CredSubject).ID) {
			return nil, errors.New("unable to get subject DID from VC: credential subjects have the same ID")
		}
	}
	if subjectID.Empty() {
		return nil, errors.New("unable to get subject DID from VC: credential subjects have no ID")
	}
	return &subjectID, nil
}

// hC02SignerPool: verification methods a presentation may be signed with ("" = proof without one).
// Concrete strings, because go-did parses them with a regular expression.
var hC02SignerPool = []string{"did:web:a#k", "did:web:b#k", ""}

func hC02SignerDID(vm string) string {
	if vm == "" {
		return ""
	}
	return vm[:len(vm)-2]
}

type hC02PresSpec struct {
	signer   string   // DID of the signer, "" if none
	subjects []string // subject DID of each credential, "" if the credential has no subject id
}

// hC02SymPresentation draws a JSON-LD presentation: signer from the pool; 0..maxCreds credentials, each with
// one credentialSubject whose id is did:web:<one arbitrary byte> or absent.
func hC02SymPresentation(maxCreds int) (vc.VerifiablePresentation, hC02PresSpec) {
	var spec hC02PresSpec
	vm := hC02SignerPool[vChoice(len(hC02SignerPool))]
	spec.signer = hC02SignerDID(vm)
	var p proof.LDProof
	if vm != "" {
		p.VerificationMethod = ssi.MustParseURI(vm)
	}
	vp := hC02LdVP(p)
	n := vLen(0, maxCreds)
	for i := 0; i < n; i++ {
		var id did.DID
		if vBool() {
			vTag("subject")
			id = did.DID{Method: "web", ID: vString(1)}
		}
		spec.subjects = append(spec.subjects, id.String())
		vp.VerifiableCredential = append(vp.VerifiableCredential, vc.VerifiableCredential{CredentialSubject: []interface{}{hC02CredSubject{ID: id}}})
	}
	return vp, spec
}

// H02c: the signer/subject loop of handleS2SAccessTokenRequest over 1..vps presentations.
func H02c() {
	n := vLen(1, vParam("c_vps", 2))
	var specs []hC02PresSpec
	var vps []vc.VerifiablePresentation
	for i := 0; i < n; i++ {
		vp, spec := hC02SymPresentation(vParam("c_creds", 2))
		vps = append(vps, vp)
		specs = append(specs, spec)
	}
	// the loop of handleS2SAccessTokenRequest / handleAuthorizeResponseSubmission
	accepted := true
	var credentialSubjectID did.DID
	for _, presentation := range vps {
		subjectDID, err := validatePresentationSigner(presentation, credentialSubjectID)
		if err != nil {
			accepted = false
			break
		}
		vAssert(subjectDID != nil, "H02c.nil_subject_without_error: neither a subject nor an error")
		credentialSubjectID = *subjectDID
	}

	// reference predicates over the drawn data
	allSigned, signerIsSubject, commonSubject, commonSigner := true, true, true, true
	firstSubject, haveSubject := "", false
	anyCredential := false
	for _, s := range specs {
		if s.signer == "" {
			allSigned = false
		}
		if s.signer != specs[0].signer {
			commonSigner = false
		}
		for _, sub := range s.subjects {
			anyCredential = true
			if sub == "" || sub != s.signer {
				signerIsSubject = false
			}
			if !haveSubject {
				firstSubject, haveSubject = sub, true
			} else if sub != firstSubject {
				commonSubject = false
			}
		}
	}
	if accepted {
		vCover("accepted")
		vAssert(allSigned, "H02c.signer_known: accepted a presentation whose signer cannot be determined")
		vAssert(signerIsSubject, "H02c.signer_is_subject: accepted a presentation not signed by the subject of its credentials")
		if !commonSubject {
			vClass("mixed subjects separated by a credential-less presentation")
		}
		vAssert(commonSubject, "H02c.common_subject: accepted presentations whose credentials have different subjects")
		if anyCredential {
			vCover("accepted-with-credentials")
			if !commonSigner {
				vClass("credential-less presentation signed by another DID")
			}
			vAssert(commonSigner, "H02c.every_presentation_signed_by_subject: accepted a presentation that is not signed by the subject of the presented credentials")
		}
		if n >= 2 {
			vCover("accepted-multi")
		}
	} else {
		vCover("rejected")
		vAssert(!(allSigned && signerIsSubject && commonSubject && commonSigner), "H02c.valid_rejected: rejected presentations all signed by the one subject of all credentials")
	}
}

func H02c_twin() {
	vp1, s1 := hC02SymPresentation(1)
	vp2, s2 := hC02SymPresentation(1)
	d1, err := validatePresentationSigner(vp1, did.DID{})
	if err != nil {
		return
	}
	_, err = validatePresentationSigner(vp2, *d1)
	if err == nil && len(s1.subjects) == 1 && len(s2.subjects) == 1 && s1.signer == "did:web:b" {
		vAssert(false, "H02c_twin.reach: reachable")
	}
}
