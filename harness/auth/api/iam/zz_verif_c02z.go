//go:build verif

package iam

import "encoding/base64"

// H02z: self-test of the engine's model of (*encoding/base64.Encoding).Encode (engine/symgo/x_C02_base64.go),
// which the PKCE, token and key-binding harnesses rely on: RFC 4648 section 10 test vectors for the four
// standard encodings, and for arbitrary input of 1..z_bytes bytes agreement with the independently written
// reference encoder hC02B64URL (unpadded URL alphabet) including the length.
func H02z() {
	vec := []struct{ in, std string }{
		{"", ""}, {"f", "Zg=="}, {"fo", "Zm8="}, {"foo", "Zm9v"}, {"foob", "Zm9vYg=="}, {"fooba", "Zm9vYmE="}, {"foobar", "Zm9vYmFy"},
	}
	for _, v := range vec {
		raw := v.std
		for len(raw) > 0 && raw[len(raw)-1] == '=' {
			raw = raw[:len(raw)-1]
		}
		vAssert(base64.StdEncoding.EncodeToString([]byte(v.in)) == v.std, "H02z.rfc4648_std: StdEncoding differs from RFC 4648 test vector")
		vAssert(base64.URLEncoding.EncodeToString([]byte(v.in)) == v.std, "H02z.rfc4648_url: URLEncoding differs from RFC 4648 test vector")
		vAssert(base64.RawStdEncoding.EncodeToString([]byte(v.in)) == raw, "H02z.rfc4648_rawstd: RawStdEncoding differs from RFC 4648 test vector")
		vAssert(base64.RawURLEncoding.EncodeToString([]byte(v.in)) == raw, "H02z.rfc4648_rawurl: RawURLEncoding differs from RFC 4648 test vector")
	}
	hi := []byte{0xfb, 0xff, 0xbe}
	vAssert(base64.StdEncoding.EncodeToString(hi) == "+/++" && base64.URLEncoding.EncodeToString(hi) == "-_--", "H02z.alphabet_62_63: symbols 62/63 wrong")

	n := vLen(1, vParam("z_bytes", 4))
	in := vBytes(n)
	got := base64.RawURLEncoding.EncodeToString(in)
	want := hC02B64URL(in)
	vAssert(len(got) == len(want) && got == want, "H02z.symbolic_matches_reference: engine model and reference encoder differ")
	// padded variant: same symbols, then '=' up to a multiple of four
	padded := base64.URLEncoding.EncodeToString(in)
	vAssert(len(padded) == (n+2)/3*4 && padded[:len(want)] == want, "H02z.symbolic_padded_prefix: padded encoding does not extend the unpadded one")
	for i := len(want); i < len(padded); i++ {
		vAssert(padded[i] == '=', "H02z.symbolic_padding: padding is not '='")
	}
	if n >= 4 {
		vCover("more-than-one-group")
	}
}

func H02z_twin() {
	in := vBytes(2)
	if base64.RawURLEncoding.EncodeToString(in) == "-_8" {
		vAssert(false, "H02z_twin.reach: reachable")
	}
}
