//go:build verif

package iam

import (
	"context"
	"crypto/sha256"
	"errors"
	"net/http"
	"net/url"
	"time"

	"github.com/lestrrat-go/jwx/v2/jwt"
	"github.com/nuts-foundation/nuts-node/crypto/dpop"
)

//verif:stub github.com/nuts-foundation/nuts-node/crypto/dpop.Parse => hC02DPoPParse

// hC02DPoPOK is the verdict of DPoP proof parsing/validation (jwx; out of scope): harness-chosen.
var hC02DPoPOK bool

func hC02DPoPParse(s string) (*dpop.DPoP, error) {
	if !hC02DPoPOK {
		return nil, errors.Join(dpop.ErrInvalidDPoP, errors.New("harness: invalid proof"))
	}
	// contract of dpop.Parse: a successfully parsed proof always carries its token, and the token has a jti
	// (dpop.Parse refuses a proof without one)
	return &dpop.DPoP{Kid: "kid", Token: hC02DPoPToken{}}, nil
}

// hC02DPoPToken: the parsed proof's claims as far as the token endpoint reads them (the proof id).
type hC02DPoPToken struct{ jwt.Token }

func (hC02DPoPToken) JwtID() string { return "proof-1" }

// hC02B64Sym maps a six-bit group to its symbol in the URL-safe alphabet of RFC 4648 section 5 (Table 2),
// by ranges (no table lookup: a symbolic table index would fork).
func hC02B64Sym(v uint) byte {
	c := byte('_')
	if v < 26 {
		c = 'A' + byte(v)
	} else if v < 52 {
		c = 'a' + byte(v-26)
	} else if v < 62 {
		c = '0' + byte(v-52)
	} else if v == 62 {
		c = '-'
	}
	return c
}

// hC02B64URL is an independently written unpadded base64url encoder (RFC 4648 section 5).
func hC02B64URL(in []byte) string {
	var out []byte
	acc, bits := uint(0), 0
	for _, b := range in {
		acc = (acc<<8 | uint(b)) & 0xffff
		bits += 8
		for bits >= 6 {
			bits -= 6
			out = append(out, hC02B64Sym((acc>>uint(bits))&63))
		}
	}
	if bits > 0 {
		out = append(out, hC02B64Sym((acc<<uint(6-bits))&63))
	}
	return string(out)
}

// hC02PKCERef is the reference PKCE predicate of RFC 7636 as profiled by the property: only S256, and
// challenge = BASE64URL(SHA256(verifier)). (sha256 of symbolic input is an uninterpreted function: the
// real code and this reference agree on it by congruence only.)
func hC02PKCERef(method, challenge, verifier string) bool {
	if method != "S256" {
		return false
	}
	h := sha256.Sum256([]byte(verifier))
	return challenge == hC02B64URL(h[:])
}

// hC02SymMethod: a code_challenge_method. `classes` selects how many of the classes are explored:
// "S256", "plain", any 4-byte string, "", any string of 1..5 bytes.
func hC02SymMethod(classes int) (string, int) {
	class := vChoice(classes)
	switch class {
	case 0:
		return "S256", class
	case 1:
		return "plain", class
	case 2:
		vTag("method")
		return vString(4), class
	case 3:
		return "", class
	}
	vTag("method")
	return vString(vLen(1, 5)), class
}

// H02fk: validatePKCEParams accepts exactly when the reference predicate holds.
func H02fk() {
	method, _ := hC02SymMethod(vParam("k_methods", 5))
	vTag("verifier")
	verifier := vString(vLen(0, vParam("k_verifier", 2)))
	// challenge lengths: around the 43 symbols of an S256 challenge, and the verifier's own length (what a
	// "plain" comparison would need)
	clen := 43 + vLen(0, 3) - 1
	if clen == 45 {
		clen = len(verifier)
	}
	vTag("challenge")
	challenge := vString(clen)
	got := validatePKCEParams(PKCEParams{Challenge: challenge, ChallengeMethod: method, Verifier: verifier})
	want := hC02PKCERef(method, challenge, verifier)
	if got {
		vCover("accepted")
		vAssert(method == "S256", "H02fk.only_s256: accepted a challenge method other than S256")
		vAssert(want, "H02fk.challenge_is_hash_of_verifier: accepted a verifier whose SHA-256 is not the challenge")
	} else {
		vCover("rejected")
		vAssert(!want, "H02fk.valid_verifier_rejected: rejected a verifier matching an S256 challenge")
	}
}

func H02fk_twin() {
	verifier := vString(1)
	challenge := vString(43)
	if validatePKCEParams(PKCEParams{Challenge: challenge, ChallengeMethod: "S256", Verifier: verifier}) && verifier == "a" {
		vAssert(false, "H02fk_twin.reach: reachable")
	}
}

func hC02OptString(name string, n int) *string {
	if !vBool() {
		return nil
	}
	vTag(name)
	s := vString(n)
	return &s
}

func hC02Ctx(dpopHeader bool) context.Context {
	req := &http.Request{Header: http.Header{}}
	if dpopHeader {
		req.Header["Dpop"] = []string{"proof"}
	}
	return context.WithValue(context.Background(), httpRequestContextKey{}, req)
}

// H02f: authorization-code grant. Pre-state: optionally one OAuthSession stored (through the real
// oauthCodeStore().Put) under a code at instant t0; the token request arrives at t1 >= t0.
func H02f() {
	publicURL, _ := url.Parse("https://n")
	db := newHC02DB()
	r := Wrapper{storageEngine: hC02Engine{db: db}, auth: hC02Auth{publicURL: publicURL}}

	t0 := hC02SymTime("t0", 0, 1<<33, vParam("f_nsecs", 1))
	t1 := hC02SymTime("t1", 0, 1<<33, vParam("f_nsecs", 1))
	vAssume(t0.sec < t1.sec || (t0.sec == t1.sec && t0.nsec <= t1.nsec))

	subject := "s"
	vTag("session.client_id")
	sessClient := vString(vLen(0, 1))
	vTag("session.scope")
	sessScope := vString(1)
	method, mclass := hC02SymMethod(vParam("f_methods", 3))
	vfLen := vLen(0, vParam("f_verifier", 1))
	clen := 43
	if mclass != 0 && vBool() {
		clen = vfLen // what a "plain" comparison would need
	}
	vTag("session.challenge")
	challenge := vString(clen)
	vTag("storedcode")
	storedCode := vString(1)
	stored := vBool()
	hC02Clock = t0.t
	if stored {
		session := OAuthSession{
			ClientID:          sessClient,
			Scope:             sessScope,
			OwnSubject:        &subject,
			OpenID4VPVerifier: newPEXConsumer(nil),
			PKCEParams:        PKCEParams{Challenge: challenge, ChallengeMethod: method},
		}
		vAssert(r.oauthCodeStore().Put(storedCode, session) == nil, "H02f.setup: cannot store session")
	}

	req := HandleTokenRequestFormdataRequestBody{
		Code:         hC02OptString("code", 1),
		CodeVerifier: hC02OptString("verifier", vfLen),
		ClientId:     hC02OptString("client_id", vLen(0, 1)),
	}
	dpopHeader := vBool()
	hC02DPoPOK = true
	if dpopHeader {
		hC02DPoPOK = vBool()
	}
	hC02Clock = t1.t
	codeLive := false
	if req.Code != nil {
		codeLive = db.live("oauth/code", *req.Code) >= 0
	}
	putsBefore := db.putCount("serveraccesstoken")
	resp, err := r.handleAccessTokenRequest(hC02Ctx(dpopHeader), req)

	// reference verdict
	want := req.Code != nil && req.CodeVerifier != nil && req.ClientId != nil && codeLive
	if want {
		want = sessClient == *req.ClientId && hC02PKCERef(method, challenge, *req.CodeVerifier) && (!dpopHeader || hC02DPoPOK)
	}

	if req.Code != nil {
		vAssert(db.live("oauth/code", *req.Code) < 0, "H02f.code_burned: authorization code still redeemable after a token request presented it")
	}
	if err == nil {
		vCover("issued")
		ok200, is200 := resp.(HandleTokenRequest200JSONResponse)
		vAssert(is200, "H02f.response_type: success without a 200 token response")
		vAssert(req.Code != nil && stored && *req.Code == storedCode && codeLive, "H02f.code_existed: token issued for a code that is not stored (unknown, expired or already used)")
		vAssert(req.ClientId != nil && *req.ClientId == sessClient, "H02f.client_id_matches: token issued to a client other than the one the code was issued to")
		vAssert(req.CodeVerifier != nil && hC02PKCERef(method, challenge, *req.CodeVerifier), "H02f.pkce_verified: token issued without a code_verifier matching the S256 challenge")
		vAssert(!dpopHeader || hC02DPoPOK, "H02f.dpop_valid: token issued although the DPoP header was invalid")
		vAssert(want, "H02f.issued_only_if_all_checks: token issued although a check failed")
		// the stored token
		vAssert(db.putCount("serveraccesstoken") == putsBefore+1, "H02f.token_stored_once: access token not stored exactly once")
		var tok AccessToken
		vAssert(r.accessTokenServerStore().Get(ok200.AccessToken, &tok) == nil, "H02f.token_retrievable: returned access token is not in the token store")
		vAssert(tok.Token == ok200.AccessToken, "H02f.token_key: stored token differs from returned token")
		vAssert(tok.Issuer == "https://n/oauth2/"+subject, "H02f.token_issuer: issuer is not this authorization server's URL")
		vAssert(tok.ClientId == sessClient, "H02f.token_client: client of the token is not the client of the session")
		vAssert(tok.Scope == sessScope && ok200.Scope != nil && *ok200.Scope == sessScope, "H02f.token_scope: scope of the token is not the scope of the session")
		vAssert(tok.IssuedAt.Equal(t1.t) && tok.Expiration.Equal(t1.t.Add(15*time.Minute)), "H02f.token_lifetime: token is not valid from now for 15 minutes")
		vAssert(ok200.ExpiresIn != nil && *ok200.ExpiresIn == 900, "H02f.expires_in: expires_in is not 900 s")
		vAssert((tok.DPoP != nil) == dpopHeader, "H02f.token_key_binding: key binding of the token does not follow the DPoP header")
		if dpopHeader {
			vCover("issued-dpop")
			vAssert(ok200.TokenType == "DPoP", "H02f.token_type_dpop: token type is not DPoP")
		} else {
			vAssert(ok200.TokenType == "Bearer", "H02f.token_type_bearer: token type is not Bearer")
		}
	} else {
		vCover("refused")
		vAssert(resp == nil, "H02f.error_without_response: error together with a response")
		vAssert(db.putCount("serveraccesstoken") == putsBefore, "H02f.no_token_on_failure: access token stored although the request was refused")
		vAssert(!want, "H02f.valid_request_refused: a request passing every check was refused")
		if stored && req.Code != nil && *req.Code == storedCode && !codeLive {
			vCover("code-expired")
		}
		if codeLive && req.ClientId != nil && *req.ClientId != sessClient {
			vCover("wrong-client")
		}
	}
}

func H02f_twin() {
	publicURL, _ := url.Parse("https://n")
	db := newHC02DB()
	r := Wrapper{storageEngine: hC02Engine{db: db}, auth: hC02Auth{publicURL: publicURL}}
	hC02Clock = time.Unix(1700000000, 0)
	subject := "s"
	challenge := vString(43)
	session := OAuthSession{ClientID: "c", Scope: "x", OwnSubject: &subject, OpenID4VPVerifier: newPEXConsumer(nil),
		PKCEParams: PKCEParams{Challenge: challenge, ChallengeMethod: "S256"}}
	_ = r.oauthCodeStore().Put("k", session)
	code, ver, cl := "k", vString(1), "c"
	resp, err := r.handleAccessTokenRequest(hC02Ctx(false), HandleTokenRequestFormdataRequestBody{Code: &code, CodeVerifier: &ver, ClientId: &cl})
	if err == nil && resp != nil && db.putCount("serveraccesstoken") == 1 {
		vAssert(false, "H02f_twin.reach: reachable")
	}
}
