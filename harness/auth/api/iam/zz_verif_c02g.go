//go:build verif

package iam

import (
	"context"
	"crypto"
	"encoding/json"
	"net/http"
	"net/url"
	"time"

	"github.com/lestrrat-go/jwx/v2/jwk"
	"github.com/lestrrat-go/jwx/v2/jws"
	"github.com/nuts-foundation/nuts-node/crypto/dpop"
)

type hC02JWK struct {
	jwk.Key
	thumb []byte
}

func (k hC02JWK) Thumbprint(crypto.Hash) ([]byte, error) { return k.thumb, nil }

type hC02Headers struct {
	jws.Headers
	key jwk.Key
}

func (h hC02Headers) JWK() jwk.Key { return h.key }

// hC02StandardMembers: the members of the token introspection response defined by the API (generated
// ExtendedTokenIntrospectionResponse; RFC 7662 names).
var hC02StandardMembers = []string{"active", "aud", "client_id", "cnf", "exp", "iat", "iss", "scope", "vps", "presentation_definitions", "presentation_submissions"}

func hC02IsStandardMember(k string) bool {
	for _, m := range hC02StandardMembers {
		if k == m {
			return true
		}
	}
	return false
}

func hC02IntrospectCtx() context.Context {
	req := &http.Request{Header: http.Header{"Content-Type": []string{"application/x-www-form-urlencoded"}}}
	return context.WithValue(context.Background(), httpRequestContextKey{}, req)
}

// hC02ClaimKey: a credential-derived claim name (id of a constraint field in the presentation definition).
func hC02ClaimKey() string {
	named := []string{"cnf", "aud", "vps", "presentation_definitions", "presentation_submissions", "active", "iss", "sub", "exp", "iat", "client_id", "scope", "family_name"}
	c := vChoice(len(named) + 1)
	if c < len(named) {
		return named[c]
	}
	vTag("claimkey")
	return vString(vLen(1, vParam("g_keylen", 3)))
}

// H02g: issue (real createAccessToken at t0) / introspect (real IntrospectAccessToken at t1 >= t0, real
// generated MarshalJSON of the response).
func H02g() {
	publicURL, _ := url.Parse("https://n")
	db := newHC02DB()
	r := Wrapper{storageEngine: hC02Engine{db: db}, auth: hC02Auth{publicURL: publicURL}}
	t0 := hC02SymTime("t0", 0, 1<<33, vParam("g_nsecs", 1))
	t1 := hC02SymTime("t1", 0, 1<<33, vParam("g_nsecs", 1))
	vAssume(t0.sec < t1.sec || (t0.sec == t1.sec && t0.nsec <= t1.nsec))
	if vBool() {
		db.lag = time.Minute
	}

	// issuance
	vTag("issuer")
	issuer := vString(1)
	vTag("client")
	client := vString(1)
	vTag("scope")
	scope := vString(1)
	var proofOfPossession *dpop.DPoP
	var thumb []byte
	if vBool() {
		vTag("thumbprint")
		thumb = vBytes(vParam("g_thumb", 2))
		proofOfPossession = &dpop.DPoP{Kid: "kid", Headers: hC02Headers{key: hC02JWK{thumb: thumb}}}
	}
	hC02Clock = t0.t
	issued, err := r.createAccessToken(issuer, client, time.Now(), scope, *newPEXConsumer(nil), proofOfPossession)
	vAssert(err == nil && issued != nil, "H02g.setup_issue: cannot issue token")
	// credential-derived claims: what resolveInputDescriptorValues would have produced for a presentation
	// definition with one constraint field id (PEX itself: C12)
	nclaims := vLen(0, 1)
	var claimKey string
	claimVal := "credential value"
	if nclaims == 1 {
		claimKey = hC02ClaimKey()
		var tok AccessToken
		vAssert(r.accessTokenServerStore().Get(issued.AccessToken, &tok) == nil, "H02g.setup_get: issued token not stored")
		tok.InputDescriptorConstraintIdMap = map[string]any{claimKey: claimVal}
		vAssert(r.accessTokenServerStore().Put(issued.AccessToken, tok) == nil, "H02g.setup_put: cannot store token")
	}

	// introspection
	var input string
	switch vChoice(3) {
	case 0:
		input = issued.AccessToken
	case 1:
		vTag("othertoken")
		input = vString(len(issued.AccessToken))
	case 2:
		input = ""
	}
	hC02Clock = t1.t
	resp, err := r.IntrospectAccessToken(hC02IntrospectCtx(), IntrospectAccessTokenRequestObject{Body: &IntrospectAccessTokenFormdataRequestBody{Token: input}})

	known := input == issued.AccessToken
	// reference: expiry instant = t0 + 900 s. The property does not say whether the token is still valid AT
	// that instant (the code says yes, RFC 7519 says no), so that single instant is accepted either way:
	// "active => t1 <= expiry" and "t1 < expiry => active".
	notExpired := t1.sec < t0.sec+900 || (t1.sec == t0.sec+900 && t1.nsec <= t0.nsec)
	beforeExpiry := t1.sec < t0.sec+900 || (t1.sec == t0.sec+900 && t1.nsec < t0.nsec)
	if err != nil {
		vCover("error")
		vAssert(known && notExpired && nclaims == 1 && hC02IsStandardMember(claimKey) || claimKey == "sub", "H02g.error_only_for_reserved_claim: introspection failed for another reason than a claim named like a standard member")
		return
	}
	r200, is200 := resp.(IntrospectAccessToken200JSONResponse)
	vAssert(is200, "H02g.response_type: introspection did not answer 200")
	if !r200.Active {
		vCover("inactive")
		vAssert(!(known && beforeExpiry), "H02g.valid_token_inactive: an unexpired token issued by this node is reported inactive")
		vAssert(r200.Iss == nil && r200.ClientId == nil && r200.Scope == nil && r200.Cnf == nil && r200.Exp == nil && r200.Iat == nil && len(r200.AdditionalProperties) == 0,
			"H02g.inactive_discloses_nothing: inactive response carries token details")
		if known {
			vCover("inactive-expired")
		}
		return
	}
	vCover("active")
	vAssert(known, "H02g.active_only_if_issued: token not issued by this node reported active")
	vAssert(notExpired, "H02g.active_only_if_unexpired: expired token reported active")
	vAssert(r200.Iss != nil && *r200.Iss == issuer, "H02g.iss: issuer differs from issuance")
	vAssert(r200.ClientId != nil && *r200.ClientId == client, "H02g.client_id: client differs from issuance")
	vAssert(r200.Scope != nil && *r200.Scope == scope, "H02g.scope: scope differs from issuance")
	vAssert(r200.Iat != nil && int64(*r200.Iat) == t0.sec, "H02g.iat: iat differs from issuance time")
	vAssert(r200.Exp != nil && int64(*r200.Exp) == t0.sec+900, "H02g.exp: exp differs from issuance time + 15 min")
	if proofOfPossession != nil {
		vCover("active-dpop")
		vAssert(r200.Cnf != nil && r200.Cnf.Jkt == hC02B64URL(thumb), "H02g.cnf: key binding differs from the key bound at issuance")
	} else {
		vAssert(r200.Cnf == nil, "H02g.cnf_absent: key binding reported for a token issued without one")
	}
	vAssert(r200.Aud == nil && r200.Vps == nil && r200.PresentationDefinitions == nil && r200.PresentationSubmissions == nil, "H02g.plain_members: non-extended response carries extended members")
	if nclaims == 1 {
		v, has := r200.AdditionalProperties[claimKey]
		vAssert(has && len(r200.AdditionalProperties) == 1 && v == any(claimVal), "H02g.claims: claim values differ from issuance")
	} else {
		vAssert(len(r200.AdditionalProperties) == 0, "H02g.claims: claim values differ from issuance")
	}

	// the JSON document: the real generated MarshalJSON (IntrospectAccessToken200JSONResponse.MarshalJSON
	// delegates to it, codegen_sillyness.go)
	raw, merr := TokenIntrospectionResponse(r200).MarshalJSON()
	vAssert(merr == nil, "H02g.marshal: MarshalJSON failed")
	var object map[string]json.RawMessage
	vAssert(json.Unmarshal(raw, &object) == nil, "H02g.marshal: cannot decode JSON object")
	member := func(name string) (any, bool) {
		rm, ok := object[name]
		if !ok {
			return nil, false
		}
		var got any
		vAssert(json.Unmarshal(rm, &got) == nil, "H02g.marshal: cannot decode JSON member")
		return got, true
	}
	okStr := func(name string, want string) bool {
		got, has := member(name)
		s, is := got.(*string)
		return has && is && s != nil && *s == want
	}
	okInt := func(name string, want int64) bool {
		got, has := member(name)
		s, is := got.(*int)
		return has && is && s != nil && int64(*s) == want
	}
	gotActive, hasActive := member("active")
	vAssert(hasActive && gotActive == any(true), "H02g.json_active: a claim overrides member 'active'")
	vAssert(okStr("iss", issuer), "H02g.json_iss: a claim overrides member 'iss'")
	vAssert(okStr("client_id", client), "H02g.json_client_id: a claim overrides member 'client_id'")
	vAssert(okStr("scope", scope), "H02g.json_scope: a claim overrides member 'scope'")
	vAssert(okInt("iat", t0.sec), "H02g.json_iat: a claim overrides member 'iat'")
	vAssert(okInt("exp", t0.sec+900), "H02g.json_exp: a claim overrides member 'exp'")
	gotCnf, hasCnf := member("cnf")
	if proofOfPossession != nil {
		c, is := gotCnf.(*Cnf)
		okCnf := hasCnf && is && c != nil && c.Jkt == hC02B64URL(thumb)
		if !okCnf {
			vClass("claim named cnf replaces the key binding")
		}
		vAssert(okCnf, "H02g.json_cnf_not_overridden: a credential-derived claim overrides member 'cnf' (key binding)")
	} else {
		if hasCnf {
			vClass("claim named cnf on a token without key binding")
		}
		vAssert(!hasCnf, "H02g.json_no_forged_standard_member: a credential-derived claim is emitted as a standard member the token does not have")
	}
	for _, m := range []string{"aud", "vps", "presentation_definitions", "presentation_submissions"} {
		_, has := object[m]
		if has {
			vClass("claim named " + m)
		}
		vAssert(!has, "H02g.json_no_forged_standard_member: a credential-derived claim is emitted as a standard member the token does not have")
	}
}

func H02g_twin() {
	publicURL, _ := url.Parse("https://n")
	db := newHC02DB()
	r := Wrapper{storageEngine: hC02Engine{db: db}, auth: hC02Auth{publicURL: publicURL}}
	t0 := hC02SymTime("t0", 1700000000, 1700000100, 1)
	hC02Clock = t0.t
	issued, err := r.createAccessToken("i", "c", time.Now(), "s", *newPEXConsumer(nil), nil)
	if err != nil {
		return
	}
	hC02Clock = t0.t.Add(time.Duration(vRange(0, 2000)) * time.Second)
	resp, err := r.IntrospectAccessToken(hC02IntrospectCtx(), IntrospectAccessTokenRequestObject{Body: &IntrospectAccessTokenFormdataRequestBody{Token: issued.AccessToken}})
	if err == nil && resp.(IntrospectAccessToken200JSONResponse).Active {
		raw, _ := TokenIntrospectionResponse(resp.(IntrospectAccessToken200JSONResponse)).MarshalJSON()
		var object map[string]json.RawMessage
		if json.Unmarshal(raw, &object) == nil && len(object) == 6 {
			vAssert(false, "H02g_twin.reach: reachable")
		}
	}
}
