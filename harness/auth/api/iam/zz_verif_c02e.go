//go:build verif

package iam

import (
	"context"
	"errors"
	"net/url"
	"time"

	ssi "github.com/nuts-foundation/go-did"
	"github.com/nuts-foundation/go-did/did"
	"github.com/nuts-foundation/go-did/vc"
	"github.com/nuts-foundation/nuts-node/policy"
	"github.com/nuts-foundation/nuts-node/vcr/pe"
	"github.com/nuts-foundation/nuts-node/vcr/signature/proof"
	"github.com/nuts-foundation/nuts-node/vcr/verifier"
)

//verif:stub github.com/nuts-foundation/nuts-node/vcr/pe.ParseEnvelope => hC02ParseEnvelope
//verif:stub github.com/nuts-foundation/nuts-node/vcr/pe.ParsePresentationSubmission => hC02ParseSubmission
//verif:stub (github.com/nuts-foundation/nuts-node/vcr/pe.PresentationSubmission).Validate => hC02SubmissionValidate
//verif:stub (github.com/nuts-foundation/nuts-node/vcr/pe.PresentationSubmission).Resolve => hC02SubmissionResolve

// Parsing of the assertion / presentation_submission parameters and the PEX engine (C12) are replaced by
// harness-chosen outcomes.
var (
	hC02Envelope       *pe.Envelope // nil: ParseEnvelope fails
	hC02Submission     *pe.PresentationSubmission
	hC02PEXVerdict     bool
	hC02ValidatedDefs  []string // definition ids Validate was called with
	hC02ValidatedCalls int
)

func hC02ParseEnvelope(b []byte) (*pe.Envelope, error) {
	if hC02Envelope == nil {
		return nil, errors.New("harness: unparsable envelope")
	}
	return hC02Envelope, nil
}

func hC02ParseSubmission(b []byte) (*pe.PresentationSubmission, error) {
	if hC02Submission == nil {
		return nil, errors.New("harness: unparsable submission")
	}
	return hC02Submission, nil
}

func hC02SubmissionValidate(s pe.PresentationSubmission, envelope pe.Envelope, definition pe.PresentationDefinition) (map[string]vc.VerifiableCredential, error) {
	hC02ValidatedCalls++
	hC02ValidatedDefs = append(hC02ValidatedDefs, definition.Id)
	if !hC02PEXVerdict {
		return nil, errors.New("harness: submission does not match definition")
	}
	return map[string]vc.VerifiableCredential{}, nil
}

func hC02SubmissionResolve(s pe.PresentationSubmission, envelope pe.Envelope) (map[string]vc.VerifiableCredential, error) {
	return map[string]vc.VerifiableCredential{}, nil
}

type hC02Policy struct {
	policy.PDPBackend
	scope   string
	mapping pe.WalletOwnerMapping
	fail    bool
}

func (p hC02Policy) PresentationDefinitions(_ context.Context, scope string) (pe.WalletOwnerMapping, error) {
	if p.fail {
		return nil, errors.New("harness: policy backend unavailable")
	}
	if scope != p.scope {
		return nil, policy.ErrNotFound
	}
	out := pe.WalletOwnerMapping{}
	for k, v := range p.mapping {
		out[k] = v
	}
	return out, nil
}

type hC02VerifyCall struct {
	id                      string
	verifyVCs, allowUntrust bool
	validAtNil              bool
}

type hC02Verifier struct {
	verifier.Verifier
	verdict map[string]bool
	calls   []hC02VerifyCall
}

func (v *hC02Verifier) VerifyVP(presentation vc.VerifiablePresentation, verifyVCs bool, allowUntrustedVCs bool, validAt *time.Time) ([]vc.VerifiableCredential, error) {
	id := presentation.ID.String()
	v.calls = append(v.calls, hC02VerifyCall{id: id, verifyVCs: verifyVCs, allowUntrust: allowUntrustedVCs, validAtNil: validAt == nil})
	if !v.verdict[id] {
		return nil, errors.New("harness: presentation or credential invalid")
	}
	return presentation.VerifiableCredential, nil
}

type hC02EPres struct {
	id          string
	validitySec int64  // expires - created in seconds
	subjectID   string // id part of the credential subject DID did:web:<id>; signer is did:web:a
	domain      string
	nonce       *string
	verdict     bool
}

// H02e: handleS2SAccessTokenRequest with 0..vps JSON-LD presentations. Every check has a symbolic outcome.
func H02e() {
	const serverURL = "https://n/oauth2/s"
	now := time.Unix(1700000000, 0)
	hC02Clock = now
	publicURL, _ := url.Parse("https://n")
	db := newHC02DB()
	ver := &hC02Verifier{verdict: map[string]bool{}}

	// policy: scope "r" requires an organization definition "o" and optionally a user definition "u"
	mapping := pe.WalletOwnerMapping{pe.WalletOwnerOrganization: pe.PresentationDefinition{Id: "o"}}
	userDef := vBool()
	if userDef {
		mapping[pe.WalletOwnerUser] = pe.PresentationDefinition{Id: "u"}
	}
	pol := hC02Policy{scope: "r", mapping: mapping, fail: vBool()}
	r := Wrapper{storageEngine: hC02Engine{db: db}, auth: hC02Auth{publicURL: publicURL}, vcr: hC02VCR{v: ver}, policyBackend: pol}

	// a nonce that was used before
	// (through the session database, not through Wrapper.s2sNonceStore: unexported helpers may change shape)
	vAssert(db.GetStore(time.Hour, "s2s", "nonce").Put("x", true) == nil, "H02e.setup: cannot store nonce")

	n := vLen(0, vParam("e_vps", 2))
	var specs []hC02EPres
	env := &pe.Envelope{}
	for i := 0; i < n; i++ {
		s := hC02EPres{id: "urn:vp:" + string(rune('0'+i))}
		s.validitySec = int64(vRange(4, 7))
		vTag("subject")
		s.subjectID = vString(1)
		vTag("domain")
		s.domain = "https://n/oauth2/" + vString(1)
		if vBool() {
			vTag("nonce")
			nonce := vString(1)
			s.nonce = &nonce
		}
		s.verdict = vBool()
		ver.verdict[s.id] = s.verdict

		var p proof.LDProof
		p.Created = now
		exp := time.Unix(1700000000+s.validitySec, 0)
		p.Expires = &exp
		p.Domain = &s.domain
		p.Nonce = s.nonce
		p.VerificationMethod = ssi.MustParseURI("did:web:a#k")
		vp := hC02LdVP(p)
		id := ssi.MustParseURI(s.id)
		vp.ID = &id
		vp.VerifiableCredential = []vc.VerifiableCredential{{CredentialSubject: []interface{}{hC02CredSubject{ID: did.DID{Method: "web", ID: s.subjectID}}}}}
		env.Presentations = append(env.Presentations, vp)
		specs = append(specs, s)
	}
	envelopeOK, submissionOK := vBool(), vBool()
	hC02Envelope, hC02Submission = nil, nil
	if envelopeOK {
		hC02Envelope = env
	}
	vTag("definition_id")
	defID := vString(1)
	if submissionOK {
		hC02Submission = &pe.PresentationSubmission{Id: "sub", DefinitionId: defID}
	}
	hC02PEXVerdict = vBool()
	hC02ValidatedDefs, hC02ValidatedCalls = nil, 0
	vTag("scope")
	scope := vString(1)
	vTag("client")
	clientID := vString(1)
	dpopHeader := vBool()
	hC02DPoPOK = true
	if dpopHeader {
		hC02DPoPOK = vBool()
	}

	resp, err := r.handleS2SAccessTokenRequest(hC02Ctx(dpopHeader), clientID, "s", scope, "submission", "assertion")

	// reference verdict, written from the property
	allOK := envelopeOK && submissionOK
	for i, s := range specs {
		fresh := s.nonce != nil && *s.nonce != "x"
		for j := 0; j < i; j++ {
			if s.nonce != nil && specs[j].nonce != nil && *s.nonce == *specs[j].nonce {
				fresh = false
			}
		}
		allOK = allOK && s.validitySec <= 5 && s.subjectID == "a" && s.domain == serverURL && fresh && s.verdict
	}
	allOK = allOK && !pol.fail && scope == "r" && (defID == "o" || (userDef && defID == "u")) && hC02PEXVerdict && (!dpopHeader || hC02DPoPOK)

	stored := db.putCount("serveraccesstoken")
	if err != nil {
		vCover("refused")
		vAssert(resp == nil, "H02e.error_without_response: error together with a response")
		vAssert(stored == 0, "H02e.no_token_on_failure: an access token was stored although the request was refused")
		vAssert(!allOK, "H02e.valid_request_refused: a request passing every check was refused")
		return
	}
	vCover("issued")
	if userDef {
		// observation (not asserted): the policy requires an organization AND a user definition for the scope,
		// the s2s handler issues the token after the submission fulfilled one of them
		vCover("issued-with-one-of-two-required-definitions")
	}
	if n == 2 {
		vCover("issued-2-presentations")
	}
	ok200, is200 := resp.(HandleTokenRequest200JSONResponse)
	vAssert(is200 && stored == 1, "H02e.token_stored_once: success without exactly one stored access token")
	vAssert(envelopeOK && submissionOK, "H02e.parameters_parsed: token issued for unparsable assertion or submission")
	for _, s := range specs {
		vAssert(s.validitySec <= 5, "H02e.max_validity_checked: token issued for a presentation valid for more than 5 s")
		vAssert(s.subjectID == "a", "H02e.signer_checked: token issued for a presentation not signed by the credential subject")
		vAssert(s.domain == serverURL, "H02e.audience_checked: token issued for a presentation addressed to another audience")
		vAssert(s.nonce != nil && *s.nonce != "x", "H02e.nonce_checked: token issued for a presentation with a missing or used nonce")
		vAssert(db.live("s2s/nonce", *s.nonce) >= 0, "H02e.nonce_recorded: nonce of an accepted presentation was not recorded")
		vAssert(s.verdict, "H02e.presentation_verified: token issued for a presentation that does not verify")
		found := false
		for _, c := range ver.calls {
			if c.id == s.id && c.verifyVCs && c.allowUntrust && c.validAtNil {
				found = true
			}
		}
		vAssert(found, "H02e.verify_called_for_every_presentation: VerifyVP(p, true, true, nil) was not called for a presentation")
	}
	if n == 2 {
		vAssert(*specs[0].nonce != *specs[1].nonce, "H02e.nonce_unique_in_request: token issued for two presentations sharing a nonce")
	}
	vAssert(!pol.fail && scope == "r", "H02e.scope_known: token issued for a scope without policy")
	vAssert(hC02ValidatedCalls == 1 && hC02PEXVerdict, "H02e.pex_fulfilled: token issued without a successful submission validation")
	vAssert(defID == "o" || (userDef && defID == "u"), "H02e.pex_definition_required: submission names a definition the policy does not require for the scope")
	vAssert(len(hC02ValidatedDefs) == 1 && hC02ValidatedDefs[0] == defID, "H02e.pex_validated_against_named_definition: submission validated against another definition than the one it names")
	vAssert(!dpopHeader || hC02DPoPOK, "H02e.dpop_valid: token issued although the DPoP header was invalid")
	vAssert(allOK, "H02e.issued_only_if_all_checks: token issued although a check failed")
	// the token
	var tok AccessToken
	vAssert(r.accessTokenServerStore().Get(ok200.AccessToken, &tok) == nil, "H02e.token_retrievable: returned access token is not in the token store")
	vAssert(tok.Issuer == serverURL && tok.ClientId == clientID && tok.Scope == scope, "H02e.token_fields: issuer/client/scope of the token differ from the request")
	vAssert(tok.IssuedAt.Equal(now) && tok.Expiration.Equal(now.Add(15*time.Minute)), "H02e.token_lifetime: token is not valid from now for 15 minutes")
	vAssert(len(tok.VPToken) == n, "H02e.token_presentations: token does not record the presentations")
	vAssert((tok.DPoP != nil) == dpopHeader, "H02e.token_key_binding: key binding of the token does not follow the DPoP header")
}

func H02e_twin() {
	now := time.Unix(1700000000, 0)
	hC02Clock = now
	publicURL, _ := url.Parse("https://n")
	db := newHC02DB()
	ver := &hC02Verifier{verdict: map[string]bool{"urn:vp:0": true}}
	pol := hC02Policy{scope: "r", mapping: pe.WalletOwnerMapping{pe.WalletOwnerOrganization: pe.PresentationDefinition{Id: "o"}}}
	r := Wrapper{storageEngine: hC02Engine{db: db}, auth: hC02Auth{publicURL: publicURL}, vcr: hC02VCR{v: ver}, policyBackend: pol}
	var p proof.LDProof
	p.Created = now
	exp := now.Add(time.Duration(vRange(0, 10)) * time.Second)
	p.Expires = &exp
	dom := "https://n/oauth2/s"
	p.Domain = &dom
	nonce := vString(1)
	p.Nonce = &nonce
	p.VerificationMethod = ssi.MustParseURI("did:web:a#k")
	vp := hC02LdVP(p)
	id := ssi.MustParseURI("urn:vp:0")
	vp.ID = &id
	vp.VerifiableCredential = []vc.VerifiableCredential{{CredentialSubject: []interface{}{hC02CredSubject{ID: did.DID{Method: "web", ID: "a"}}}}}
	hC02Envelope = &pe.Envelope{Presentations: []vc.VerifiablePresentation{vp}}
	hC02Submission = &pe.PresentationSubmission{DefinitionId: "o"}
	hC02PEXVerdict = true
	hC02DPoPOK = true
	_, err := r.handleS2SAccessTokenRequest(hC02Ctx(false), "c", "s", "r", "submission", "assertion")
	if err == nil && db.putCount("serveraccesstoken") == 1 && len(ver.calls) == 1 {
		vAssert(false, "H02e_twin.reach: reachable")
	}
}
