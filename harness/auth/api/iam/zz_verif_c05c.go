//go:build verif

package iam

import (
	"context"
	"crypto/sha256"
	"encoding/base64"
	"net/url"
	"time"

	"github.com/eko/gocache/lib/v4/cache"
	"github.com/eko/gocache/lib/v4/store"
	"github.com/nuts-foundation/nuts-node/storage"
)

// hC05Back is a cache back end (store.StoreInterface) whose Get/Set/Delete are atomic steps and scheduling points
// (what a cache back end guarantees per operation, and nothing more). Delete of a missing key succeeds.
type hC05Back struct {
	store.StoreInterface
	entries []hC05BackEntry
}

type hC05BackEntry struct {
	key string
	val any
}

func (s *hC05Back) Get(ctx context.Context, key any) (any, error) {
	vYield()
	vAtomicBegin()
	defer vAtomicEnd()
	for _, e := range s.entries {
		if e.key == key.(string) {
			return e.val, nil
		}
	}
	return nil, store.NotFoundWithCause(nil)
}

func (s *hC05Back) Set(ctx context.Context, key any, value any, options ...store.Option) error {
	vYield()
	vAtomicBegin()
	defer vAtomicEnd()
	for i := range s.entries {
		if s.entries[i].key == key.(string) {
			s.entries[i].val = value
			return nil
		}
	}
	s.entries = append(s.entries, hC05BackEntry{key.(string), value})
	return nil
}

func (s *hC05Back) Delete(ctx context.Context, key any) error {
	vYield()
	vAtomicBegin()
	defer vAtomicEnd()
	for i := range s.entries {
		if s.entries[i].key == key.(string) {
			s.entries = append(s.entries[:i:i], s.entries[i+1:]...)
			return nil
		}
	}
	return nil
}

func (s *hC05Back) GetType() string { return "harness" }

type hC05cEngine struct {
	storage.Engine
	db storage.SessionDatabase
}

func (e hC05cEngine) GetSessionDatabase() storage.SessionDatabase { return e.db }

func hC05cWrapper() (Wrapper, *hC05Back) {
	hC02Clock = time.Unix(1700000000, 0)
	publicURL, _ := url.Parse("https://n")
	back := &hC05Back{}
	// the real in-memory session database (real SessionStoreImpl: key prefixes, JSON, GetAndDelete) over the back end
	db := &storage.InMemorySessionDatabase{}
	vSetField(db, "underlying", cache.New[[]byte](back))
	return Wrapper{storageEngine: hC05cEngine{db: db}, auth: hC02Auth{publicURL: publicURL}}, back
}

// H05c: one authorization code redeemed by n concurrent, otherwise valid token requests through the real
// handleAccessTokenRequest over the real session store implementation: at most one of them is answered with an
// access token, under every schedule of the store operations (within the preemption bound); exactly one when
// nothing else is wrong; afterwards the code is dead.
func H05c() {
	r, _ := hC05cWrapper()
	subject := "s"
	verifier := "verifier"
	sha := sha256.Sum256([]byte(verifier))
	session := OAuthSession{
		ClientID:          "c",
		Scope:             "scope",
		OwnSubject:        &subject,
		OpenID4VPVerifier: newPEXConsumer(nil),
		PKCEParams:        PKCEParams{Challenge: base64.RawURLEncoding.EncodeToString(sha[:]), ChallengeMethod: "S256"},
	}
	vAssert(r.oauthCodeStore().Put("code", session) == nil, "H05c.setup: cannot store session")
	code, client := "code", "c"
	hC02DPoPOK = true

	n := vParam("threads", 2)
	ok := make([]bool, n)
	for i := 0; i < n; i++ {
		i := i
		vGo(func() {
			req := HandleTokenRequestFormdataRequestBody{Code: &code, CodeVerifier: &verifier, ClientId: &client}
			resp, err := r.handleAccessTokenRequest(hC02Ctx(false), req)
			if _, is200 := resp.(HandleTokenRequest200JSONResponse); err == nil && is200 {
				ok[i] = true
			}
		})
	}
	vWait()
	successes := 0
	for _, b := range ok {
		if b {
			successes++
		}
	}
	vClass("authorization code redeemed concurrently")
	vAssert(successes <= 1, "H05c.code_at_most_once: two concurrent token requests presenting one authorization code were both answered with an access token")
	vAssert(successes >= 1, "H05c.code_at_least_once: a valid authorization code was refused for every request")
	req := HandleTokenRequestFormdataRequestBody{Code: &code, CodeVerifier: &verifier, ClientId: &client}
	_, err := r.handleAccessTokenRequest(hC02Ctx(false), req)
	vAssert(err != nil, "H05c.sequential_replay: a redeemed authorization code was honoured again")
	vCover("done")
}

func H05c_twin() {
	r, _ := hC05cWrapper()
	subject := "s"
	verifier := "verifier"
	sha := sha256.Sum256([]byte(verifier))
	session := OAuthSession{ClientID: "c", Scope: "scope", OwnSubject: &subject, OpenID4VPVerifier: newPEXConsumer(nil),
		PKCEParams: PKCEParams{Challenge: base64.RawURLEncoding.EncodeToString(sha[:]), ChallengeMethod: "S256"}}
	_ = r.oauthCodeStore().Put("code", session)
	code, client := "code", "c"
	hC02DPoPOK = true
	n := 0
	vGo(func() {
		req := HandleTokenRequestFormdataRequestBody{Code: &code, CodeVerifier: &verifier, ClientId: &client}
		if _, err := r.handleAccessTokenRequest(hC02Ctx(false), req); err == nil {
			n++
		}
	})
	vWait()
	if n == 1 {
		vAssert(false, "H05c_twin.reach: reachable")
	}
}
