//go:build verif

package iam

import (
	"crypto"
	"errors"
	"net/url"
	"time"

	ssi "github.com/nuts-foundation/go-did"
	"github.com/nuts-foundation/go-did/vc"
	"github.com/nuts-foundation/nuts-node/storage"
	"github.com/nuts-foundation/nuts-node/vcr/pe"
	"github.com/nuts-foundation/nuts-node/vcr/revocation"
	"github.com/nuts-foundation/nuts-node/vcr/signature"
	"github.com/nuts-foundation/nuts-node/vcr/signature/proof"
	"github.com/nuts-foundation/nuts-node/vcr/verifier"
)

//verif:stub github.com/nuts-foundation/nuts-node/vcr/signature/proof.NewSignedDocument => hC02NewSignedDocument
//verif:stub (github.com/nuts-foundation/nuts-node/vcr/signature/proof.SignedDocument).UnmarshalProofValue => hC02SignedDocUnmarshalProofValue
//verif:stub (github.com/nuts-foundation/nuts-node/vcr/signature/proof.LDProof).Verify => hC02LDProofVerify

// hC02NewSignedDocument replaces the json.Marshal/Unmarshal(map) round trip: the generic document of a
// presentation, reduced to the one member the verifier reads ("proof": a single proof is written as an
// object, several proofs as an array - go-did's marshal.Unplural).
func hC02NewSignedDocument(source interface{}) (proof.SignedDocument, error) {
	vp, ok := source.(vc.VerifiablePresentation)
	if !ok {
		panic("hC02NewSignedDocument: source type not modelled")
	}
	doc := proof.SignedDocument{}
	if len(vp.Proof) == 1 {
		doc["proof"] = vp.Proof[0]
	} else if len(vp.Proof) > 1 {
		doc["proof"] = vp.Proof
	}
	return doc, nil
}

func hC02SignedDocUnmarshalProofValue(d proof.SignedDocument, target interface{}) error {
	t, ok := target.(*proof.LDProof)
	if !ok {
		panic("hC02SignedDocUnmarshalProofValue: target type not modelled")
	}
	switch p := d["proof"].(type) {
	case nil:
		return nil // JSON null leaves the target untouched
	case proof.LDProof:
		*t = p
		return nil
	}
	return errors.New("json: cannot unmarshal array into Go value of type proof.LDProof")
}

// hC02SigVerdict is the verdict of the cryptographic signature check (JsonWebSignature2020 over the
// canonicalised document): not modelled, a harness-chosen verdict.
var hC02SigVerdict error

func hC02LDProofVerify(p proof.LDProof, document proof.Document, suite signature.Suite, key crypto.PublicKey) error {
	return hC02SigVerdict
}

// hC02RealVerifier is the real vcr/verifier.verifier over a key resolver that knows every key.
func hC02RealVerifier() verifier.Verifier {
	return verifier.NewVerifier(nil, nil, &hC02KeyResolver{}, hC02JSONLD{}, nil, &revocation.StatusList2021{})
}

// hC02Offer submits one (credential-less, JSON-LD) presentation through the real handleS2SAccessTokenRequest;
// everything that does not concern time and nonce is in order (envelope and submission parse, the submission
// fulfils the scope's definition, no DPoP header), the signature verdict is hC02SigVerdict, the validity period
// is checked by the real verifier (VerifyVP -> signatureVerifier.jsonldProof -> ProofOptions.ValidAt(now, maxSkew)).
// It reports whether an access token was issued.
func hC02Offer(r Wrapper, vp vc.VerifiablePresentation, clientID string) bool {
	hC02Envelope = &pe.Envelope{Presentations: []vc.VerifiablePresentation{vp}}
	hC02Submission = &pe.PresentationSubmission{Id: "sub", DefinitionId: "o"}
	hC02PEXVerdict = true
	hC02DPoPOK = true
	resp, err := r.handleS2SAccessTokenRequest(hC02Ctx(false), clientID, "s", "r", "submission", "assertion")
	_, is200 := resp.(HandleTokenRequest200JSONResponse)
	return err == nil && is200
}

// hC02OfferWrapper: a Wrapper for hC02Offer over the given session database.
func hC02OfferWrapper(db storage.SessionDatabase) Wrapper {
	publicURL, _ := url.Parse("https://n")
	pol := hC02Policy{scope: "r", mapping: pe.WalletOwnerMapping{pe.WalletOwnerOrganization: pe.PresentationDefinition{Id: "o"}}}
	return Wrapper{storageEngine: hC02OfferEngine{db: db}, auth: hC02Auth{publicURL: publicURL}, vcr: hC02VCR{v: hC02RealVerifier()}, policyBackend: pol}
}

type hC02OfferEngine struct {
	storage.Engine
	db storage.SessionDatabase
}

func (e hC02OfferEngine) GetSessionDatabase() storage.SessionDatabase { return e.db }

const hC02OfferDomain = "https://n/oauth2/s"

// H02b: replay window. One validly signed JSON-LD presentation (created, expires, nonce) is offered at
// two clock readings t1 <= t2. Property: a nonce is accepted at most once ("carry a nonce not seen before").
func H02b() {
	lo, hi := int64(vParam("b_minunix", hC02MinUnix)), int64(hC02MaxUnix)
	ns, tns := vParam("b_nsecs", 1), vParam("b_tnsecs", 1)
	created := hC02SymTime("created", lo, hi, ns)
	expires := hC02SymTime("expires", lo, hi, ns)
	t1 := hC02SymTime("t1", lo, hi, tns)
	t2 := hC02SymTime("t2", lo, hi, tns)
	vAssume(t1.sec < t2.sec || (t1.sec == t2.sec && t1.nsec <= t2.nsec))

	nonce := "n"
	var p proof.LDProof
	p.Created = created.t
	p.Expires = &expires.t
	p.Nonce = &nonce
	dom := hC02OfferDomain
	p.Domain = &dom
	p.VerificationMethod = ssi.MustParseURI("did:web:a#k")
	vp := hC02LdVP(p)

	db := newHC02DB()
	r := hC02OfferWrapper(db)
	// client_id is an unauthenticated form parameter: the replay may name another client
	// (drawn concretely: code that hashes or encodes the client id must not meet symbolic bytes)
	vTag("client1")
	client1 := []string{"a", "b"}[vChoice(2)]
	vTag("client2")
	client2 := []string{"a", "b"}[vChoice(2)]

	hC02Clock = t1.t
	acc1 := hC02Offer(r, vp, client1)
	hC02Clock = t2.t
	remembered := db.live("s2s/nonce", nonce) >= 0
	acc2 := hC02Offer(r, vp, client2)

	if acc1 {
		vCover("first-accepted")
		vAssert(db.putCount("s2s/nonce") >= 1, "H02b.nonce_recorded: accepted presentation's nonce was not recorded")
		if remembered {
			vCover("replay-while-remembered")
			vAssert(!acc2, "H02b.replay_while_remembered: nonce accepted again while the nonce store still remembers it")
		}
	}
	if acc1 && acc2 {
		if client1 != client2 && remembered {
			vClass("replay under another client_id")
		} else {
			vClass("replay after nonce forgotten")
		}
	}
	vAssert(!(acc1 && acc2), "H02b.nonce_single_use: the same presentation (same nonce) was accepted twice")
	if !acc1 && acc2 {
		vCover("only-second-accepted")
	}
}

func H02b_twin() {
	created := hC02SymTime("created", 1700000000, 1700000100, 1)
	expires := hC02SymTime("expires", 1700000000, 1700000100, 1)
	t1 := hC02SymTime("t1", 1700000000, 1700000100, 1)
	nonce := "n"
	var p proof.LDProof
	p.Created = created.t
	p.Expires = &expires.t
	p.Nonce = &nonce
	dom := hC02OfferDomain
	p.Domain = &dom
	p.VerificationMethod = ssi.MustParseURI("did:web:a#k")
	db := newHC02DB()
	r := hC02OfferWrapper(db)
	hC02Clock = t1.t
	if hC02Offer(r, hC02LdVP(p), "c") && db.live("s2s/nonce", nonce) >= 0 {
		vAssert(false, "H02b_twin.reach: reachable")
	}
}

// H02r: replay with another presentation in between. Presentation P1 (created at t1, valid for 4 s, nonce n) is
// offered at t1 and accepted; then P2 - another presentation carrying the same nonce with its own (attacker-chosen)
// validity period, expiring anywhere from 10 s before to 20 s after t1 - is offered at t2; then P1 again at t3
// (t1 <= t2 <= t3, each step 0..12 s). Whatever P2 is and whatever happens to it: P1 is not accepted twice.
// (A refused request must not shorten the time the nonce of an accepted one is remembered.)
func H02r() {
	const base = int64(1700000000)
	at := func(sec int64) time.Time { return time.Unix(sec, 0) }
	nonce := "n"
	dom := hC02OfferDomain
	mk := func(created, expires time.Time) vc.VerifiablePresentation {
		var p proof.LDProof
		p.Created = created
		p.Expires = &expires
		p.Nonce = &nonce
		p.Domain = &dom
		p.VerificationMethod = ssi.MustParseURI("did:web:a#k")
		return hC02LdVP(p)
	}
	vTag("expires2")
	e2 := base + int64(vRange(-10, 20))
	vTag("validity2")
	c2 := e2 - int64(vRange(0, 5))
	vTag("dt2")
	t2 := base + int64(vRange(0, 12))
	vTag("dt3")
	t3 := t2 + int64(vRange(0, 12))
	vp1, vp2 := mk(at(base), at(base+4)), mk(at(c2), at(e2))
	db := newHC02DB()
	r := hC02OfferWrapper(db)
	hC02SigVerdict = nil

	hC02Clock = at(base)
	acc1 := hC02Offer(r, vp1, "a")
	vAssert(acc1, "H02r.first_accepted: a fresh, valid presentation was refused")
	hC02Clock = at(t2)
	acc2 := hC02Offer(r, vp2, "a")
	hC02Clock = at(t3)
	acc3 := hC02Offer(r, vp1, "a")
	if !acc2 {
		vCover("second-refused")
	}
	if acc3 {
		vClass("replay after another presentation with the same nonce was offered")
	}
	vAssert(!acc3, "H02r.nonce_single_use_across_requests: a presentation was accepted twice after another presentation with the same nonce had been offered in between")
	vAssert(!acc2, "H02r.nonce_single_use: two presentations with the same nonce were both accepted")
}

func H02r_twin() {
	created := hC02SymTime("created", 1700000000, 1700000100, 1)
	expires := hC02SymTime("expires", 1700000000, 1700000100, 1)
	t1 := hC02SymTime("t1", 1700000000, 1700000100, 1)
	nonce := "n"
	dom := hC02OfferDomain
	var p proof.LDProof
	p.Created = created.t
	p.Expires = &expires.t
	p.Nonce = &nonce
	p.Domain = &dom
	p.VerificationMethod = ssi.MustParseURI("did:web:a#k")
	r := hC02OfferWrapper(newHC02DB())
	hC02SigVerdict = nil
	hC02Clock = t1.t
	if hC02Offer(r, hC02LdVP(p), "a") && !hC02Offer(r, hC02LdVP(p), "a") {
		vAssert(false, "H02r_twin.reach: reachable")
	}
}
