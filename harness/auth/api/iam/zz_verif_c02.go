//go:build verif

package iam

import (
	"time"

	ssi "github.com/nuts-foundation/go-did"
	"github.com/nuts-foundation/go-did/vc"
	"github.com/nuts-foundation/nuts-node/vcr/signature/proof"
)

//verif:stub (github.com/nuts-foundation/go-did/vc.VerifiablePresentation).UnmarshalProofValue => hC02UnmarshalProofValue

// hC02UnmarshalProofValue replaces go-did's json.Marshal(vp.Proof)+json.Unmarshal(target) round trip.
// The harness stores the proofs of a JSON-LD presentation already typed (proof.LDProof) in vp.Proof,
// so decoding into *[]proof.LDProof is the identity on those elements.
func hC02UnmarshalProofValue(vp vc.VerifiablePresentation, target interface{}) error {
	switch t := target.(type) {
	case *[]proof.LDProof:
		out := make([]proof.LDProof, 0, len(vp.Proof))
		for _, p := range vp.Proof {
			out = append(out, p.(proof.LDProof))
		}
		*t = out
		return nil
	}
	panic("hC02UnmarshalProofValue: target type not modelled")
}

//verif:stub (time.Time).Sub => hC02TimeSub

// hC02TimeSub models time.Time.Sub for instants without a monotonic clock reading (everything decoded
// from JSON or built with time.Unix; asserted below): the exact difference in nanoseconds, saturated to
// the range of time.Duration - which is what the real Sub documents and computes (it forms the wrapped
// difference d, and keeps it iff u.Add(d).Equal(t), i.e. iff the exact difference fits).
// Reason for the model: the real Sub calls u.Add(d) with a symbolic d, which rewrites the wall word with
// bit operations (`wall&^nsecMask | nsec`, `wall&hasMonotonic`) that the engine's integer encoding cannot
// express, and the 64-bit bit-vector encoding of *1e9, /1e9 in Sub/Add is not decided by z3.
// The model was compared natively with the real time.Time.Sub on all boundary combinations
// (see registry assumptions).
func hC02TimeSub(t, u time.Time) time.Duration {
	const nsecMask = 1<<30 - 1
	const minDuration, maxDuration = time.Duration(-1 << 63), time.Duration(1<<63 - 1)
	const maxS, maxN = 9223372036, 854775807 // maxDuration = maxS s + maxN ns; minDuration = -(maxS s + (maxN+1) ns)
	tw, uw := vGetField(&t, "wall").(uint64), vGetField(&u, "wall").(uint64)
	ts, us := vGetField(&t, "ext").(int64), vGetField(&u, "ext").(int64) // sec()
	vAssert(tw < 1<<63 && uw < 1<<63, "H02.time_model_no_monotonic: instant with monotonic clock reading reached the Sub model")
	vAssert(ts > -(1<<40) && ts < 1<<40 && us > -(1<<40) && us < 1<<40, "H02.time_model_range: instant outside +-2^40 s reached the Sub model")
	ds := ts - us
	dn := int64(int32(tw&nsecMask)) - int64(int32(uw&nsecMask)) // nsec() difference, in (-1e9, 1e9)
	switch {
	case ds > maxS+1 || (ds == maxS+1 && dn > maxN-1000000000) || (ds == maxS && dn > maxN):
		return maxDuration
	case ds < -(maxS+1) || (ds == -(maxS+1) && dn < 1000000000-(maxN+1)) || (ds == -maxS && dn < -(maxN+1)):
		return minDuration
	}
	// Within +-8 s the result is exact (the second difference is concretised, so no symbolic product is
	// formed). Beyond that the model OVER-APPROXIMATES: an arbitrary duration of the right sign and of more
	// than 8 s (the exact value is ds*1e9+dn, |dn| < 1e9). Reason: z3 (incremental mode) does not reliably
	// decide queries over ds*1e9 in the integer encoding. Every caller in this slice only compares the
	// result with constants of at most 5 s, so nothing is lost; an over-approximation can only add alarms.
	if ds >= -8 && ds <= 8 {
		k := int64(vConc(int(ds)))
		return time.Duration(k*1000000000 + dn)
	}
	vTag("sub.far")
	r := vI64()
	if ds > 0 {
		vAssume(r > 8000000000)
	} else {
		vAssume(r < -8000000000)
	}
	return time.Duration(r)
}

// Years 0000..9999 are what RFC3339 (time.Time.UnmarshalJSON) can express.
const (
	hC02MinUnix = -62167219200 // 0000-01-01T00:00:00Z
	hC02MaxUnix = 253402300799 // 9999-12-31T23:59:59Z
)

// hC02Time is a symbolic instant together with its (seconds, nanoseconds) decomposition for oracles.
type hC02Time struct {
	t    time.Time
	sec  int64
	nsec int64
}

// hC02Nsecs are the nanosecond parts a symbolic instant may take. The engine's integer encoding (needed
// for time.Sub) cannot express time's `wall & hasMonotonic` tests on a symbolic wall word, so the
// nanoseconds are a concretised choice among boundary values while the seconds stay fully symbolic.
var hC02Nsecs = []int64{0, 1, 999999999, 500000000}

func hC02SymTime(name string, lo, hi int64, nsecs int) hC02Time {
	vTag(name + ".sec")
	s := vI64()
	vAssume(s >= lo && s <= hi)
	vTag(name + ".nsec")
	n := hC02Nsecs[vChoice(nsecs)]
	return hC02Time{t: time.Unix(s, n), sec: s, nsec: n}
}

// hC02LdVP builds a JSON-LD presentation (as produced by vc.ParseVerifiablePresentation for a "{...}"
// document) carrying exactly the given proofs.
func hC02LdVP(proofs ...proof.LDProof) vc.VerifiablePresentation {
	vp := vc.VerifiablePresentation{
		Type: []ssi.URI{vc.VerifiablePresentationTypeV1URI()},
	}
	for _, p := range proofs {
		vp.Proof = append(vp.Proof, p)
	}
	vSetField(&vp, "format", vc.JSONLDPresentationProofFormat)
	return vp
}

// hC02DiffLE5s is the reference predicate "b - a <= 5 s" in exact arithmetic (no overflow: seconds first).
func hC02DiffLE5s(a, b hC02Time) bool {
	ds := b.sec - a.sec // |ds| < 2^39
	if ds > 6 {
		return false
	}
	if ds < 0 {
		return true // b.nsec - a.nsec < 1 s
	}
	return ds*1000000000+b.nsec <= 5000000000+a.nsec
}

// H02a: validateS2SPresentationMaxValidity on a JSON-LD presentation with created/expires arbitrary
// instants in years 0..9999 (or absent). ok => both present and expires - created <= 5 s (exact
// arithmetic, i.e. including the saturation of time.Sub), and conversely.
func H02a() {
	var p proof.LDProof
	hasCreated, hasExpires := vBool(), vBool()
	var created, expires hC02Time
	if hasCreated {
		created = hC02SymTime("created", int64(vParam("a_minunix", hC02MinUnix)), hC02MaxUnix, vParam("a_nsecs", 3))
		p.Created = created.t
	}
	if hasExpires {
		expires = hC02SymTime("expires", int64(vParam("a_minunix", hC02MinUnix)), hC02MaxUnix, vParam("a_nsecs", 3))
		p.Expires = &expires.t
	}
	nproofs := vLen(0, 2)
	var proofs []proof.LDProof
	for i := 0; i < nproofs; i++ {
		proofs = append(proofs, p)
	}
	err := validateS2SPresentationMaxValidity(hC02LdVP(proofs...))
	if err == nil {
		vCover("accepted")
		vAssert(nproofs == 1, "H02a.exactly_one_proof: accepted a presentation without exactly one proof")
		vAssert(hasCreated && hasExpires, "H02a.dates_present: accepted a presentation without created or expires")
		vAssert(!created.t.IsZero() && !expires.t.IsZero(), "H02a.dates_nonzero: accepted a zero created or expires instant")
		vAssert(hC02DiffLE5s(created, expires), "H02a.max_validity_5s: accepted a presentation valid for more than 5 s")
	} else {
		vCover("rejected")
		if nproofs == 1 && hasCreated && hasExpires && !created.t.IsZero() && !expires.t.IsZero() {
			vCover("rejected-too-long")
			vAssert(!hC02DiffLE5s(created, expires), "H02a.short_validity_accepted: rejected a presentation valid for at most 5 s")
		}
	}
}

func H02a_twin() {
	var p proof.LDProof
	created := hC02SymTime("created", 1700000000, 1700000100, 1)
	expires := hC02SymTime("expires", 1700000000, 1700000100, 1)
	p.Created = created.t
	p.Expires = &expires.t
	if validateS2SPresentationMaxValidity(hC02LdVP(p)) == nil && expires.sec == created.sec+5 {
		vAssert(false, "H02a_twin.reach: reachable")
	}
}
