//go:build verif

package iam

import (
	"time"

	ssi "github.com/nuts-foundation/go-did"
	"github.com/nuts-foundation/go-did/vc"
	"github.com/nuts-foundation/nuts-node/vcr/signature/proof"
)

//verif:stub (github.com/nuts-foundation/go-did/vc.VerifiablePresentation).UnmarshalProofValue => hC02UnmarshalProofValue

// hC02UnmarshalProofValue replaces go-did's json.Marshal(vp.Proof)+json.Unmarshal(target) round trip.
// The harness stores the proofs of a JSON-LD presentation already typed (proof.LDProof) in vp.Proof,
// so decoding into *[]proof.LDProof is the identity on those elements.
func hC02UnmarshalProofValue(vp vc.VerifiablePresentation, target interface{}) error {
	switch t := target.(type) {
	case *[]proof.LDProof:
		out := make([]proof.LDProof, 0, len(vp.Proof))
		for _, p := range vp.Proof {
			out = append(out, p.(proof.LDProof))
		}
		*t = out
		return nil
	}
	panic("hC02UnmarshalProofValue: target type not modelled")
}

//verif:stub (time.Time).Sub => hC02TimeSub

// hC02TimeSub is time.Time.Sub (go1.23 source, line by line) specialised to instants without a
// monotonic clock reading (everything decoded from JSON or built with time.Unix; asserted below).
// Reason: the real Sub calls u.Add(d) with a symbolic d, which rewrites the wall word with bit
// operations (`wall&^nsecMask | nsec`, `wall&hasMonotonic`) that the engine's integer encoding
// cannot express; 64-bit bit-vector encoding of the *1e9 and /1e9 in Sub is not decided by z3.
func hC02TimeSub(t, u time.Time) time.Duration {
	const nsecMask = 1<<30 - 1
	const minDuration, maxDuration = time.Duration(-1 << 63), time.Duration(1<<63 - 1)
	tw, uw := vGetField(&t, "wall").(uint64), vGetField(&u, "wall").(uint64)
	vAssert(tw < 1<<63 && uw < 1<<63, "H02.time_model: instant with monotonic clock reading reached the Sub model")
	ts, us := vGetField(&t, "ext").(int64), vGetField(&u, "ext").(int64) // sec()
	tn, un := int32(tw&nsecMask), int32(uw&nsecMask)                       // nsec()
	d := time.Duration(ts-us)*time.Second + time.Duration(tn-un)
	// u.Add(d)
	dsec := int64(d / 1e9)
	nsec := un + int32(d%1e9)
	if nsec >= 1e9 {
		dsec++
		nsec -= 1e9
	} else if nsec < 0 {
		dsec--
		nsec += 1e9
	}
	// addSec(dsec)
	var asec int64
	sum := us + dsec
	if (sum > us) == (dsec > 0) {
		asec = sum
	} else if dsec > 0 {
		asec = 1<<63 - 1
	} else {
		asec = -(1<<63 - 1)
	}
	switch {
	case asec == ts && nsec == tn: // u.Add(d).Equal(t)
		return d
	case ts < us || ts == us && tn < un: // t.Before(u)
		return minDuration
	default:
		return maxDuration
	}
}

// Years 0000..9999 are what RFC3339 (time.Time.UnmarshalJSON) can express.
const (
	hC02MinUnix = -62167219200 // 0000-01-01T00:00:00Z
	hC02MaxUnix = 253402300799 // 9999-12-31T23:59:59Z
)

// hC02Time is a symbolic instant together with its (seconds, nanoseconds) decomposition for oracles.
type hC02Time struct {
	t    time.Time
	sec  int64
	nsec int64
}

// hC02Nsecs are the nanosecond parts a symbolic instant may take. The engine's integer encoding (needed
// for time.Sub) cannot express time's `wall & hasMonotonic` tests on a symbolic wall word, so the
// nanoseconds are a concretised choice among boundary values while the seconds stay fully symbolic.
var hC02Nsecs = []int64{0, 1, 999999999, 500000000}

func hC02SymTime(name string, lo, hi int64) hC02Time {
	vTag(name + ".sec")
	s := vI64()
	vAssume(s >= lo && s <= hi)
	vTag(name + ".nsec")
	n := hC02Nsecs[vChoice(vParam("nsecs", 3))]
	return hC02Time{t: time.Unix(s, n), sec: s, nsec: n}
}

// hC02LdVP builds a JSON-LD presentation (as produced by vc.ParseVerifiablePresentation for a "{...}"
// document) carrying exactly the given proofs.
func hC02LdVP(proofs ...proof.LDProof) vc.VerifiablePresentation {
	vp := vc.VerifiablePresentation{
		Type: []ssi.URI{vc.VerifiablePresentationTypeV1URI()},
	}
	for _, p := range proofs {
		vp.Proof = append(vp.Proof, p)
	}
	vSetField(&vp, "format", vc.JSONLDPresentationProofFormat)
	return vp
}

// hC02DiffLE5s is the reference predicate "b - a <= 5 s" in exact arithmetic (no overflow: seconds first).
func hC02DiffLE5s(a, b hC02Time) bool {
	ds := b.sec - a.sec // |ds| < 2^39
	if ds > 6 {
		return false
	}
	if ds < -1 {
		return true
	}
	return ds*1000000000+(b.nsec-a.nsec) <= 5000000000
}

// H02a: validateS2SPresentationMaxValidity on a JSON-LD presentation with created/expires arbitrary
// instants in years 0..9999 (or absent). ok => both present and expires - created <= 5 s (exact
// arithmetic, i.e. including the saturation of time.Sub), and conversely.
func H02a() {
	var p proof.LDProof
	hasCreated, hasExpires := vBool(), vBool()
	var created, expires hC02Time
	if hasCreated {
		created = hC02SymTime("created", hC02MinUnix, hC02MaxUnix)
		p.Created = created.t
	}
	if hasExpires {
		expires = hC02SymTime("expires", hC02MinUnix, hC02MaxUnix)
		p.Expires = &expires.t
	}
	nproofs := vLen(0, 2)
	var proofs []proof.LDProof
	for i := 0; i < nproofs; i++ {
		proofs = append(proofs, p)
	}
	err := validateS2SPresentationMaxValidity(hC02LdVP(proofs...))
	if err == nil {
		vCover("accepted")
		vAssert(nproofs == 1, "H02a.exactly_one_proof: accepted a presentation without exactly one proof")
		vAssert(hasCreated && hasExpires, "H02a.dates_present: accepted a presentation without created or expires")
		vAssert(!created.t.IsZero() && !expires.t.IsZero(), "H02a.dates_nonzero: accepted a zero created or expires instant")
		vAssert(hC02DiffLE5s(created, expires), "H02a.max_validity_5s: accepted a presentation valid for more than 5 s")
	} else {
		vCover("rejected")
		if nproofs == 1 && hasCreated && hasExpires && !created.t.IsZero() && !expires.t.IsZero() {
			vCover("rejected-too-long")
			vAssert(!hC02DiffLE5s(created, expires), "H02a.short_validity_accepted: rejected a presentation valid for at most 5 s")
		}
	}
}

func H02a_twin() {
	var p proof.LDProof
	created := hC02SymTime("created", 1700000000, 1700000100)
	expires := hC02SymTime("expires", 1700000000, 1700000100)
	p.Created = created.t
	p.Expires = &expires.t
	if validateS2SPresentationMaxValidity(hC02LdVP(p)) == nil && expires.sec == created.sec+5 {
		vAssert(false, "H02a_twin.reach: reachable")
	}
}
