//go:build verif

package iam

import (
	"net/url"

	"github.com/lestrrat-go/jwx/v2/jwt"
	"github.com/nuts-foundation/go-did/vc"
	"github.com/nuts-foundation/nuts-node/vcr/signature/proof"
)

// hC02JwtVP builds a JWT presentation (as produced by vc.ParseVerifiablePresentation for a compact JWS)
// around the given (real jwx) token.
func hC02JwtVP(token jwt.Token, raw string) vc.VerifiablePresentation {
	var vp vc.VerifiablePresentation
	vSetField(&vp, "format", vc.JWTPresentationProofFormat)
	vSetField(&vp, "raw", raw)
	vSetField(&vp, "token", token)
	return vp
}

func hC02SubjectByte(b byte) bool {
	return (b >= 'a' && b <= 'z') || (b >= 'A' && b <= 'Z') || (b >= '0' && b <= '9') || b == '-' || b == '_'
}

// H02d: validatePresentationAudience. accepted => some audience (JWT aud claim / JSON-LD proof domain)
// EQUALS this authorization server's URL <public URL>/oauth2/<subject>, byte for byte; and conversely.
// The audiences are arbitrary byte strings whose length differs by at most `slack` from the URL's.
func H02d() {
	base := "https://n"
	publicURL, _ := url.Parse(base)
	vTag("subject")
	subject := vString(vLen(1, vParam("d_subjlen", 2)))
	for i := 0; i < len(subject); i++ {
		vAssume(hC02SubjectByte(subject[i]))
	}
	serverURL := base + "/oauth2/" + subject // reference, written independently of url.JoinPath
	slack := vParam("d_slack", 1)

	naud := vLen(0, vParam("d_auds", 2))
	var auds []string
	for i := 0; i < naud; i++ {
		vTag("aud")
		auds = append(auds, vString(len(serverURL)+vLen(0, 2*slack)-slack))
	}
	var vp vc.VerifiablePresentation
	if vBool() {
		vCover("jwt")
		token := jwt.New()
		if naud > 0 {
			if err := token.Set(jwt.AudienceKey, auds); err != nil {
				vCut("jwx refuses audience")
			}
		}
		vp = hC02JwtVP(token, "")
	} else {
		vCover("jsonld")
		if naud > 1 {
			return // a JSON-LD proof has at most one domain
		}
		var p proof.LDProof
		if naud == 1 {
			p.Domain = &auds[0]
		}
		nproofs := vLen(0, 2)
		var proofs []proof.LDProof
		for i := 0; i < nproofs; i++ {
			proofs = append(proofs, p)
		}
		vp = hC02LdVP(proofs...)
		if nproofs != 1 {
			vAssert((Wrapper{auth: hC02Auth{publicURL: publicURL}}).validatePresentationAudience(vp, subject) != nil,
				"H02d.exactly_one_proof: accepted a JSON-LD presentation without exactly one proof")
			return
		}
	}
	r := Wrapper{auth: hC02Auth{publicURL: publicURL}}
	err := r.validatePresentationAudience(vp, subject)

	match := false
	for _, a := range auds {
		if a == serverURL {
			match = true
		}
	}
	if err == nil {
		vCover("accepted")
		vAssert(match, "H02d.audience_equals_server_url: accepted a presentation none of whose audiences equals the server URL")
	} else {
		vCover("rejected")
		vAssert(!match, "H02d.matching_audience_accepted: rejected a presentation addressed to this server")
	}
}

func H02d_twin() {
	publicURL, _ := url.Parse("https://n")
	d := vString(18)
	var p proof.LDProof
	p.Domain = &d
	r := Wrapper{auth: hC02Auth{publicURL: publicURL}}
	if r.validatePresentationAudience(hC02LdVP(p), "s") == nil && d[17] == 's' {
		vAssert(false, "H02d_twin.reach: reachable")
	}
}
