//go:build verif

package iam

import (
	"time"

	ssi "github.com/nuts-foundation/go-did"
	"github.com/nuts-foundation/nuts-node/storage"
	"github.com/nuts-foundation/nuts-node/vcr/signature/proof"
)

// hC05DB wraps the session database fake so that every store operation is one atomic step and a
// scheduling point (what a cache back end guarantees per operation, and nothing more).
type hC05DB struct {
	*hC02DB
}

func (d hC05DB) GetStore(ttl time.Duration, keys ...string) storage.SessionStore {
	return hC05Store{inner: d.hC02DB.GetStore(ttl, keys...)}
}

type hC05Store struct{ inner storage.SessionStore }

func (s hC05Store) step(f func()) {
	vYield()
	vAtomicBegin()
	defer vAtomicEnd()
	f()
}
func (s hC05Store) Delete(key string) (err error) {
	s.step(func() { err = s.inner.Delete(key) })
	return
}
func (s hC05Store) Exists(key string) (ok bool) {
	s.step(func() { ok = s.inner.Exists(key) })
	return
}
func (s hC05Store) Get(key string, target interface{}) (err error) {
	s.step(func() { err = s.inner.Get(key, target) })
	return
}
func (s hC05Store) Put(key string, value interface{}, options ...storage.SessionOption) (err error) {
	s.step(func() { err = s.inner.Put(key, value, options...) })
	return
}
func (s hC05Store) GetAndDelete(key string, target interface{}) error {
	// as the real implementation: two operations
	if err := s.Get(key, target); err != nil {
		return err
	}
	return s.Delete(key)
}

type hC05Engine struct {
	storage.Engine
	db hC05DB
}

func (e hC05Engine) GetSessionDatabase() storage.SessionDatabase { return e.db }

// H05b: the same service-to-service presentation (same nonce) offered by n concurrent, otherwise valid token
// requests through the real handleS2SAccessTokenRequest: at most one of them is answered with an access token,
// under every schedule of the store operations (and exactly one when nothing else is wrong); a sequential replay
// afterwards is refused - also under another client_id (an unauthenticated form parameter).
func H05b() {
	hC02Clock = time.Unix(1700000000, 0)
	hC02SigVerdict = nil
	r := hC02OfferWrapper(hC05DB{newHC02DB()})
	var p proof.LDProof
	nonce := "x"
	p.Nonce = &nonce
	dom := hC02OfferDomain
	p.Domain = &dom
	p.Created = hC02Clock
	exp := hC02Clock.Add(4 * time.Second)
	p.Expires = &exp
	p.VerificationMethod = ssi.MustParseURI("did:web:a#k")
	vp := hC02LdVP(p)

	n := vParam("threads", 2)
	ok := make([]bool, n)
	for i := 0; i < n; i++ {
		i := i
		vGo(func() {
			if hC02Offer(r, vp, "c"+string(rune('0'+i))) {
				ok[i] = true
			}
		})
	}
	vWait()
	successes := 0
	for _, b := range ok {
		if b {
			successes++
		}
	}
	vClass("s2s nonce Get||Get before Put")
	vAssert(successes <= 1, "H05b.nonce_at_most_once: two concurrent requests presenting the same nonce were both accepted")
	vAssert(successes >= 1, "H05b.nonce_at_least_once: a fresh nonce was refused for every request")
	vAssert(!hC02Offer(r, vp, "other"), "H05b.sequential_replay: a used nonce was accepted again")
	vCover("done")
}

func H05b_twin() {
	hC02Clock = time.Unix(1700000000, 0)
	hC02SigVerdict = nil
	r := hC02OfferWrapper(hC05DB{newHC02DB()})
	var p proof.LDProof
	nonce := "x"
	p.Nonce = &nonce
	dom := hC02OfferDomain
	p.Domain = &dom
	p.Created = hC02Clock
	exp := hC02Clock.Add(4 * time.Second)
	p.Expires = &exp
	p.VerificationMethod = ssi.MustParseURI("did:web:a#k")
	vp := hC02LdVP(p)
	n := 0
	vGo(func() {
		if hC02Offer(r, vp, "c") {
			n++
		}
	})
	vWait()
	if n == 1 {
		vAssert(false, "H05b_twin.reach: reachable")
	}
}
