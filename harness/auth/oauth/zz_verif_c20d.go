//go:build verif

package oauth

// C20 / H20d: oauth.IssuerIdToWellKnown(issuer, wellKnown, strict) - the metadata URL the IAM client fetches for an OAuth2
// issuer a remote party names. In strict mode an issuer that is plain http, an IP address or a reserved host is refused;
// the same issuer passes in non-strict mode; and the derived URL stays on the guarded scheme and host (the well-known
// segment is inserted at the root of the path, nothing else changes).

func H20d() {
	letter := string([]byte{'a' + byte(vRange(0, 25))})
	scheme := []string{"https", "http"}[vChoice(2)]
	hk := vChoice(6)
	host := []string{letter + ".nl", "localhost", "10.0.0.1", "[::1]", letter + ".test:8443", "www.example.com"}[hk]
	var path string
	switch vChoice(4) {
	case 0:
	case 1:
		path = "/"
	case 2:
		n := vLen(1, vParam("seg", 2))
		b := make([]byte, n)
		for i := range b {
			c := vU8()
			vAssume(c >= 'a' && c <= 'z' || c == ':') // no dot segments: RFC 3986 resolution removes them
			b[i] = c
		}
		path = "/" + string(b)
	case 3:
		path = "/iam/" + letter
	}
	wk := []string{AuthzServerWellKnown, OpenIdCredIssuerWellKnown, OpenIdConfigurationWellKnown}[vChoice(3)]
	strict := vBool()
	issuer := scheme + "://" + host + path
	u, err := IssuerIdToWellKnown(issuer, wk, strict)
	vAssert((u == nil) != (err == nil), "H20d.result_xor_error: both or neither of URL and error")
	secure := scheme == "https" && hk == 0
	if strict {
		if !secure {
			vCover("strict:insecure")
			vAssert(err != nil, "H20d.strict_insecure_refused: strict mode derived a metadata URL for an issuer that is plain http, an IP address or a reserved host")
			return
		}
		vCover("strict:secure")
	} else {
		vCover("lenient")
	}
	vAssert(err == nil, "H20d.accepted: an issuer URL the mode allows was refused")
	if err == nil {
		vAssert(u.Scheme == scheme && u.Host == host, "H20d.same_origin: the derived metadata URL is on another scheme or host than the guarded issuer")
		want := wk + path
		vAssert(u.Path == want, "H20d.well_known_at_root: the well-known segment is not inserted at the root of the issuer path")
		vAssert(u.RawQuery == "" && u.Fragment == "" && u.User == nil, "H20d.nothing_added: the derived URL carries a query, fragment or user info")
	}
}

func H20d_twin() {
	u, err := IssuerIdToWellKnown("https://nuts.nl/"+string([]byte{'a' + byte(vRange(0, 25))}), AuthzServerWellKnown, true)
	if err == nil && u.Path != "" {
		vAssert(false, "H20d_twin.reach: reachable")
	}
}
