//go:build verif

package irma

// C20 / H20f: "non-production identity schemes" at verification time. The IRMA verifier made by NewSignerAndVerifier for
// a strict-mode node (irma.Config.Production = strict, as notary.Configure passes it) must not accept a signed contract
// whose disclosed attributes come from another scheme manager than pbdf (e.g. irma-demo, whose issuer keys are public):
// such attributes do not count, so the contract's required signer attributes are missing and the presentation is not
// VALID. With strict mode off the same presentation is VALID, and pbdf attributes are VALID in either mode.
// Stubbed: getIrmaConfig / getIrmaServer (scheme download, IRMA server), vc.VerifiablePresentation.UnmarshalProofValue
// and the JSON inside ParseIrmaContract (identity codec), irmago SignedMessage.Verify (the cryptography: answers "valid
// signature" with the harness' attributes), contract.ParseContractString (regexp) and Contract.VerifyForGivenTime (time
// zones): the contract is taken to be a known, currently valid one.

import (
	"encoding/base64"
	"encoding/json"
	"time"

	"github.com/nuts-foundation/go-did/vc"
	"github.com/nuts-foundation/nuts-node/auth/contract"
	irmago "github.com/privacybydesign/irmago"
	"github.com/privacybydesign/irmago/server/irmaserver"
)

//verif:initskip github.com/privacybydesign/irmago
//verif:stub github.com/nuts-foundation/nuts-node/auth/services/irma.getIrmaConfig => hGetIrmaConfig
//verif:stub github.com/nuts-foundation/nuts-node/auth/services/irma.getIrmaServer => hGetIrmaServer
//verif:stub (github.com/nuts-foundation/go-did/vc.VerifiablePresentation).UnmarshalProofValue => hUnmarshalProofValue
//verif:stub (*github.com/privacybydesign/irmago.SignedMessage).Verify => hSignedMessageVerify
//verif:stub github.com/nuts-foundation/nuts-node/auth/contract.ParseContractString => hParseContractString
//verif:stub (github.com/nuts-foundation/nuts-node/auth/contract.Contract).VerifyForGivenTime => hVerifyForGivenTime

var (
	hProduction []bool
	hProofValue string
	hAttrs      [][]*irmago.DisclosedAttribute
)

func hGetIrmaConfig(cfg Config) (*irmago.Configuration, error) {
	return &irmago.Configuration{}, nil
}

func hGetIrmaServer(cfg Config, irmaConfig *irmago.Configuration) (*irmaserver.Server, error) {
	hProduction = append(hProduction, cfg.Production)
	return nil, nil
}

func hUnmarshalProofValue(vp vc.VerifiablePresentation, target interface{}) error {
	*(target.(*[]VPProof)) = []VPProof{{Type: "NutsIrmaSignedContract", ProofValue: hProofValue}}
	return nil
}

func hSignedMessageVerify(sm *irmago.SignedMessage, configuration *irmago.Configuration, request *irmago.SignatureRequest) ([][]*irmago.DisclosedAttribute, irmago.ProofStatus, error) {
	return hAttrs, irmago.ProofStatusValid, nil
}

var hRequired = []string{".gemeente.personalData.initials", ".gemeente.personalData.familyname"}

func hParseContractString(rawContractText string, contractTemplates contract.TemplateStore) (*contract.Contract, error) {
	return &contract.Contract{
		RawContractText: rawContractText,
		Template:        &contract.Template{Type: "BehandelaarLogin", Language: "NL", Version: "v3", SignerAttributes: hRequired},
		Params:          map[string]string{"legal_entity": "Zorg", "valid_from": "x", "valid_to": "y"},
	}, nil
}

func hVerifyForGivenTime(sc contract.Contract, checkTime time.Time) error { return nil }

func hAttr(root, name, value string) *irmago.DisclosedAttribute {
	v := value
	return &irmago.DisclosedAttribute{RawValue: &v, Identifier: irmago.NewAttributeTypeIdentifier(root + name), Status: irmago.AttributeProofStatusPresent}
}

func H20f() {
	strict := vBool()
	signer, verifier, err := NewSignerAndVerifier(Config{PublicURL: "https://nuts.nl", IrmaConfigPath: "/data/irma", IrmaSchemeManager: "pbdf", Production: strict})
	vAssert(err == nil && signer != nil && verifier != nil, "H20f.setup: signer and verifier were not made")
	vAssert(len(hProduction) == 1 && hProduction[0] == strict, "H20f.server_production_iff_strict: the IRMA server's production mode differs from strict mode")

	// a signed contract whose two required attributes are disclosed from symbolic scheme managers
	roots := []string{"pbdf", "irma-demo", "pbdf-staging"}
	r1 := roots[vChoice(3)]
	r2 := roots[vChoice(3)]
	hAttrs = [][]*irmago.DisclosedAttribute{{hAttr(r1, ".gemeente.personalData.initials", "T"), hAttr(r2, ".gemeente.personalData.familyname", "Tester")}}
	blob, merr := json.Marshal(irmago.SignedMessage{Message: "NL:BehandelaarLogin:v3 contract text"})
	vAssert(merr == nil, "H20f.codec: marshal")
	hProofValue = base64.StdEncoding.EncodeToString(blob)

	res, verr := verifier.VerifyVP(vc.VerifiablePresentation{}, nil)
	allProduction := r1 == "pbdf" && r2 == "pbdf"
	if strict && !allProduction {
		vCover("strict:non-production-scheme")
		vClass("attributes of a non-pbdf scheme manager")
		vAssert(verr != nil || res.Validity() != contract.Valid, "H20f.strict_production_scheme_only: a strict-mode node accepted an IRMA-signed contract whose required signer attributes come from a non-production scheme manager")
		if verr == nil {
			for k := range res.DisclosedAttributes() {
				vAssert(k == "gemeente.personalData.initials" && r1 == "pbdf" || k == "gemeente.personalData.familyname" && r2 == "pbdf", "H20f.strict_no_demo_attributes: an attribute of a non-production scheme manager is reported as disclosed in strict mode")
			}
		}
		return
	}
	if strict {
		vCover("strict:pbdf")
	} else {
		vCover("lenient")
	}
	vAssert(verr == nil && res != nil && res.Validity() == contract.Valid, "H20f.accepted: a validly signed contract with all required attributes was not accepted although the mode allows its scheme managers")
	if verr == nil && res != nil {
		da := res.DisclosedAttributes()
		vAssert(len(da) == 2 && da["gemeente.personalData.initials"] == "T" && da["gemeente.personalData.familyname"] == "Tester", "H20f.attributes_reported: disclosed attributes are not reported")
	}
}

func H20f_twin() {
	_, verifier, err := NewSignerAndVerifier(Config{Production: vBool()})
	if err != nil {
		return
	}
	hAttrs = [][]*irmago.DisclosedAttribute{{hAttr("pbdf", ".gemeente.personalData.initials", "T"), hAttr("pbdf", ".gemeente.personalData.familyname", "Tester")}}
	blob, _ := json.Marshal(irmago.SignedMessage{Message: "m"})
	hProofValue = base64.StdEncoding.EncodeToString(blob)
	res, verr := verifier.VerifyVP(vc.VerifiablePresentation{}, nil)
	if verr == nil && res.Validity() == contract.Valid {
		vAssert(false, "H20f_twin.reach: reachable")
	}
}
