//go:build verif

package oauth

// C20 / H20e: relyingParty.RequestRFC003AccessToken (auth v1, "plain-HTTP outbound endpoints"): a relying party made in
// strict mode sends nothing to an authorization server endpoint whose scheme is not https - whether or not the HTTP
// client's own strict flag is (already) set; made in non-strict mode it sends the request.
// Stubbed: (*net/http.Client).Do => recording fake wire that fails; (*net/http.Transport).Clone; the http/client package
// initialiser is tolerated as failed (http.DefaultTransport is not available in the engine).

import (
	"context"
	"errors"
	"net/http"
	"net/url"
	"time"

	strictHttp "github.com/nuts-foundation/nuts-node/http/client"
)

//verif:initok github.com/nuts-foundation/nuts-node/http/client
//verif:stub (*net/http.Client).Do => hHTTPDo
//verif:stub (*net/http.Transport).Clone => hClone

var hWire []string

func hHTTPDo(c *http.Client, req *http.Request) (*http.Response, error) {
	hWire = append(hWire, req.URL.Scheme+"://"+req.URL.Host)
	return nil, errors.New("harness: no network")
}

func hClone(t *http.Transport) *http.Transport { return &http.Transport{} }

func H20e() {
	strict := vBool()
	strictHttp.StrictMode = vBool()
	// concrete spellings: the refusal formats the endpoint with url.URL.String(), which forks on every symbolic byte
	scheme := []string{"https", "HTTPS", "Https", "http", "HTTP", "", "ftp", "httpss", "ttps", "https ", "ws"}[vChoice(11)]
	lower := []byte(scheme)
	for i := range lower {
		if lower[i] >= 'A' && lower[i] <= 'Z' {
			lower[i] += 32
		}
	}
	isHTTPS := string(lower) == "https"
	rp := NewRelyingParty(nil, nil, nil, nil, 5*time.Second, nil, strict)
	endpoint := url.URL{Scheme: scheme, Host: "as.nuts.nl", Path: "/n2n/auth/v1/accesstoken"}
	resp, err := rp.RequestRFC003AccessToken(context.Background(), "grant", endpoint)
	vAssert(resp == nil && err != nil, "H20e.no_network: the faked wire answered")
	if strict && !isHTTPS {
		vCover("strict:not-https")
		vAssert(len(hWire) == 0, "H20e.strict_endpoint_https_only: a strict-mode relying party sent a token request to an endpoint that is not https")
		return
	}
	if !strictHttp.StrictMode {
		vCover("request-sent")
		vAssert(len(hWire) == 1 && hWire[0] == scheme+"://as.nuts.nl", "H20e.request_sent: the token request was not sent to the given endpoint although neither guard forbids it")
	} else if scheme == "https" {
		vCover("request-sent:https")
		vAssert(len(hWire) == 1, "H20e.https_request_sent: an https token request was not sent")
	} else {
		vAssert(len(hWire) == 0, "H20e.client_guard: the strict HTTP client sent a request that is not https")
	}
}

func H20e_twin() {
	rp := NewRelyingParty(nil, nil, nil, nil, 5*time.Second, nil, true)
	rp.RequestRFC003AccessToken(context.Background(), "grant", url.URL{Scheme: []string{"https", "http"}[vChoice(2)], Host: "as.nuts.nl"})
	if len(hWire) == 1 {
		vAssert(false, "H20e_twin.reach: reachable")
	}
}
