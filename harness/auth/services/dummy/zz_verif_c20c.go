//go:build verif

package dummy

// C20 / H20c_dummy: the test-only "dummy" signing means. With InStrictMode set, every operation (start a session, poll a
// session, verify a presentation) is refused and leaves the session state untouched, whatever sessions exist; with it
// off, a started session is stored and polled through created -> in-progress -> completed.

import (
	"context"
	"errors"
	"io"

	"crypto/rand"

	"github.com/nuts-foundation/go-did/vc"
	"github.com/nuts-foundation/nuts-node/auth/contract"
)

// hRand replaces crypto/rand.Reader (the engine does not run crypto/rand's initialiser): fresh symbolic bytes.
type hRand struct{}

func (hRand) Read(p []byte) (int, error) {
	b := vBytes(len(p))
	copy(p, b)
	return len(p), nil
}

var _ io.Reader = hRand{}

func H20c_dummy() {
	rand.Reader = hRand{}
	strict := vBool()
	d := Dummy{InStrictMode: strict, Sessions: map[string]string{}, Status: map[string]string{}}
	// pre-state: optionally one session that was started while the means was enabled, in an arbitrary state
	existing := vBool()
	if existing {
		d.Sessions["s1"] = "contract"
		d.Status["s1"] = []string{SessionCreated, SessionInProgress, SessionCompleted}[vChoice(3)]
	}
	statusBefore := d.Status["s1"]
	ctx := context.Background()
	switch vChoice(3) {
	case 0:
		vCover("op:start")
		ptr, err := d.StartSigningSession(contract.Contract{RawContractText: "text"}, nil)
		if strict {
			vAssert(ptr == nil && errors.Is(err, errNotEnabled), "H20c_dummy.strict_start_refused: the dummy means started a signing session in strict mode")
		} else {
			vAssert(err == nil && ptr != nil, "H20c_dummy.lenient_start: the dummy means did not start a session in non-strict mode")
			vAssert(d.Sessions[ptr.SessionID()] == "text" && d.Status[ptr.SessionID()] == SessionCreated, "H20c_dummy.lenient_start_stored: the started session is not stored as created")
		}
	case 1:
		vCover("op:status")
		id := []string{"s1", "other"}[vChoice(2)]
		res, err := d.SigningSessionStatus(ctx, id)
		if strict {
			vAssert(res == nil && errors.Is(err, errNotEnabled), "H20c_dummy.strict_status_refused: the dummy means reported a session status in strict mode")
		} else if existing && id == "s1" {
			vAssert(err == nil && res != nil && res.Status() == statusBefore, "H20c_dummy.lenient_status: an existing session was not reported in non-strict mode")
			vp, verr := res.VerifiablePresentation()
			vAssert(verr == nil && (vp != nil) == (statusBefore == SessionCompleted), "H20c_dummy.lenient_vp_when_completed: a presentation is issued exactly for a completed session")
		} else {
			vAssert(res == nil && err != nil, "H20c_dummy.lenient_unknown_session: an unknown session was reported")
		}
	case 2:
		vCover("op:verify")
		if strict {
			res, err := d.VerifyVP(vc.VerifiablePresentation{}, nil)
			vAssert(res == nil && errors.Is(err, errNotEnabled), "H20c_dummy.strict_verify_refused: the dummy means verified a presentation in strict mode")
		}
	}
	if strict {
		vCover("strict")
		n := 0
		if existing {
			n = 1
		}
		vAssert(len(d.Sessions) == n && len(d.Status) == n && d.Status["s1"] == statusBefore, "H20c_dummy.strict_state_untouched: an operation refused in strict mode changed the session state")
	}
}

func H20c_dummy_twin() {
	rand.Reader = hRand{}
	d := Dummy{InStrictMode: vBool(), Sessions: map[string]string{}, Status: map[string]string{}}
	ptr, err := d.StartSigningSession(contract.Contract{RawContractText: "text"}, nil)
	if err == nil && ptr != nil {
		vAssert(false, "H20c_dummy_twin.reach: reachable")
	}
}
