//go:build verif

package auth

// C20 / H20c_auth: auth.Configure with the real notary.Configure, authzServer.Configure and core.ParsePublicURL below it.
// Strict mode refuses a non-production IRMA scheme manager and an insecure public URL before any set-up (TLS
// material, IRMA server) happens; with strict mode off the same settings pass. When Configure succeeds: the IRMA
// server runs in production mode iff strict, the test-only "dummy" signing means is never available in strict mode
// (whatever auth.contractvalidators says) and is available in non-strict mode when listed, and the access token life
// span is 60 s in strict mode.
// Stubbed: irma.NewSignerAndVerifier (downloads schemes, starts the IRMA server), pki.Provider.CreateTLSConfig (reads
// key material), contract.ParseContractString (regexp; only used to observe that a signing means was found).

import (
	"context"
	"crypto/tls"
	"errors"
	"net/http"
	"time"

	"github.com/nuts-foundation/nuts-node/auth/contract"
	"github.com/nuts-foundation/nuts-node/auth/services"
	"github.com/nuts-foundation/nuts-node/auth/services/irma"
	"github.com/nuts-foundation/nuts-node/auth/services/notary"
	"github.com/nuts-foundation/nuts-node/core"
	httpclient "github.com/nuts-foundation/nuts-node/http/client"
	"github.com/nuts-foundation/nuts-node/jsonld"
	"github.com/nuts-foundation/nuts-node/pki"
	"github.com/nuts-foundation/nuts-node/vcr"
	"github.com/nuts-foundation/nuts-node/vcr/holder"
	"github.com/nuts-foundation/nuts-node/vcr/verifier"
	"github.com/nuts-foundation/nuts-node/vdr"
	"github.com/nuts-foundation/nuts-node/vdr/resolver"
	"github.com/piprate/json-gold/ld"
)

//verif:stub github.com/nuts-foundation/nuts-node/auth/services/irma.NewSignerAndVerifier => hIrmaNew
//verif:stub (*net/http.Client).Do => hHTTPDo
//verif:initok github.com/nuts-foundation/nuts-node/http/client
//verif:stub github.com/nuts-foundation/nuts-node/auth/contract.ParseContractString => hParseContract

var (
	hEvents  []string
	hIrmaCfg irma.Config
)

var hErrMeansFound = errors.New("harness: signing means found")

// hHTTPDo: the wire. Records the host and fails (no response is modelled).
var hRequests []string

func hHTTPDo(c *http.Client, req *http.Request) (*http.Response, error) {
	hRequests = append(hRequests, req.URL.Scheme+"://"+req.URL.Host)
	return nil, errors.New("harness: no network")
}

type hJSONLD struct{ jsonld.JSONLD }

func (hJSONLD) DocumentLoader() ld.DocumentLoader { return nil }

func hIrmaNew(cfg irma.Config) (*irma.Signer, *irma.Verifier, error) {
	hEvents = append(hEvents, "irma")
	hIrmaCfg = cfg
	return &irma.Signer{}, &irma.Verifier{}, nil
}

func hParseContract(rawContractText string, contractTemplates contract.TemplateStore) (*contract.Contract, error) {
	return nil, hErrMeansFound
}

type hVCR struct{ vcr.VCR }

func (hVCR) Wallet() holder.Wallet       { return nil }
func (hVCR) Verifier() verifier.Verifier { return nil }

type hVDR struct{ vdr.VDR }

func (hVDR) Resolver() resolver.DIDResolver { return nil }

type hPKI struct{ pki.Provider }

func (hPKI) CreateTLSConfig(cfg core.TLSConfig) (*tls.Config, error) {
	hEvents = append(hEvents, "tls")
	return nil, nil
}

func hHas(ev string) bool {
	for _, e := range hEvents {
		if e == ev {
			return true
		}
	}
	return false
}

func hLower(s string) string {
	b := []byte(s)
	for i := range b {
		if b[i] >= 'A' && b[i] <= 'Z' {
			b[i] += 32
		}
	}
	return string(b)
}

func H20c_auth() {
	cfg := DefaultConfig()
	vTag("schememanager")
	sm := vString(vLen(0, vParam("sm", 4)))
	cfg.Irma.SchemeManager = sm
	cfg.AccessTokenLifeSpan = vRange(0, 100000)
	cfg.HTTPTimeout = vRange(-1, 100)
	// auth.contractvalidators
	cfg.ContractValidators = nil
	listsDummy, listsIrma := false, false
	nv := vLen(0, vParam("validators", 2))
	for i := 0; i < nv; i++ {
		v := []string{"irma", "dummy", "Dummy", "DUMMY", "employeeid", "IRMA", "uzi"}[vChoice(7)]
		cfg.ContractValidators = append(cfg.ContractValidators, v)
		listsDummy = listsDummy || hLower(v) == "dummy"
		listsIrma = listsIrma || hLower(v) == "irma"
	}
	// the public URL: representatives (the guard itself is H20a's subject)
	letter := string([]byte{'a' + byte(vRange(0, 25))})
	urlChoice := vChoice(7)
	url := []string{"", "https://" + letter + ".nl", "http://" + letter + ".nl", "https://localhost", "https://10.0.0.1:8443", "https://" + letter + ".test/x", "ftp://" + letter + ".nl"}[urlChoice]
	urlSecure := urlChoice == 1
	urlUsable := urlChoice >= 1 && urlChoice <= 5
	strict := vBool()

	a := NewAuthInstance(cfg, hVDR{}, nil, hVCR{}, nil, nil, hJSONLD{}, hPKI{})
	httpclient.StrictMode = strict // http engine: configureClient
	err := a.Configure(core.ServerConfig{Strictmode: strict, URL: url, Datadir: "/data", HTTPClient: core.HTTPClientConfig{Timeout: 30 * time.Second}})

	if strict {
		if sm != "pbdf" || !urlSecure {
			vCover("strict:insecure")
			if sm != "pbdf" {
				vCover("strict:insecure-schememanager")
			} else {
				vCover("strict:insecure-url")
			}
			vAssert(err != nil, "H20c_auth.strict_insecure_refused: strict mode accepted a non-production IRMA scheme manager or an insecure public URL")
			vAssert(len(hEvents) == 0, "H20c_auth.strict_refused_before_setup: set-up ran although strict mode refuses the configuration")
			return
		}
		vCover("strict:secure")
		vAssert(err == nil, "H20c_auth.strict_secure_accepted: strict mode refused pbdf with a public https URL")
	} else {
		if sm == "" || !urlUsable {
			vCover("lenient:invalid")
			vAssert(err != nil && len(hEvents) == 0, "H20c_auth.invalid_refused: a configuration without scheme manager or usable URL was accepted")
			return
		}
		vCover("lenient:passes")
		vAssert(err == nil && hHas("tls"), "H20c_auth.lenient_passes: non-strict mode refused a setting that only strict mode forbids")
	}
	// configured: what was set up
	if listsIrma {
		vCover("irma-configured")
		vAssert(hHas("irma") && hIrmaCfg.Production == strict, "H20c_auth.irma_production_iff_strict: the IRMA server's production mode differs from strict mode")
		vAssert(hIrmaCfg.IrmaSchemeManager == sm, "H20c_auth.irma_schememanager_passed: another scheme manager than the configured one is used")
	} else {
		vAssert(!hHas("irma"), "H20c_auth.irma_only_if_listed: IRMA was set up although not listed")
	}
	_, serr := a.ContractNotary().CreateSigningSession(services.CreateSessionRequest{SigningMeans: "dummy", Message: "x"})
	found := errors.Is(serr, hErrMeansFound)
	vAssert(found || errors.Is(serr, notary.ErrUnknownSigningMeans), "H20c_auth.probe_means: unexpected outcome of the signing means probe")
	if strict {
		if listsDummy {
			vCover("strict:dummy-listed")
		}
		vAssert(!found, "H20c_auth.strict_no_dummy_means: the test-only dummy signing means is available in strict mode")
		span := vGetField(a.authzServer, "accessTokenLifeSpan").(time.Duration)
		vAssert(span == 60*time.Second, "H20c_auth.strict_token_lifespan_60s: access token life span is not 60 s in strict mode")
	} else if listsDummy {
		vCover("lenient:dummy-listed")
		vAssert(found, "H20c_auth.lenient_dummy_means: the dummy signing means is listed but not available in non-strict mode")
	} else {
		vAssert(!found, "H20c_auth.dummy_only_if_listed: the dummy signing means is available although not listed")
	}
	// the IAM (OAuth2 / OpenID4VP) client handed out by the configured engine applies the public-URL guard to the
	// endpoints remote parties supply
	ep := vChoice(4)
	endpoint := []string{"https://10.0.0.1/meta", "https://localhost/meta", "https://" + letter + ".test/meta", "http://" + letter + ".nl/meta"}[ep]
	vClass([]string{"IP address endpoint", "reserved host endpoint", "reserved host endpoint", "plain http endpoint"}[ep])
	_, cerr := a.IAMClient().ClientMetadata(context.Background(), endpoint)
	vAssert(cerr != nil, "H20c_auth.no_network: the faked wire answered")
	if strict {
		vAssert(len(hRequests) == 0, "H20c_auth.strict_iam_client_guarded: in strict mode the IAM client sent a request to an endpoint that is plain http, an IP address or a reserved host")
	} else {
		vCover("lenient:iam-request-sent")
		vAssert(len(hRequests) == 1, "H20c_auth.lenient_iam_client_passes: in non-strict mode the IAM client refused an endpoint that only strict mode forbids")
	}
}

func H20c_auth_twin() {
	cfg := DefaultConfig()
	cfg.Irma.SchemeManager = vString(4)
	a := NewAuthInstance(cfg, hVDR{}, nil, hVCR{}, nil, nil, nil, hPKI{})
	if a.Configure(core.ServerConfig{Strictmode: true, URL: "https://nuts.nl"}) == nil && hHas("irma") && hHas("tls") {
		vAssert(false, "H20c_auth_twin.reach: reachable")
	}
}
