//go:build verif

package pe

import (
	"errors"
	"net/url"

	ssi "github.com/nuts-foundation/go-did"
	"github.com/nuts-foundation/go-did/vc"
)

// hVC builds a credential that is recognisably non-empty and carries its identity (tag) in the id.
func hVC(tag string) vc.VerifiableCredential {
	return vc.VerifiableCredential{ID: &ssi.URI{URL: url.URL{Scheme: "urn", Opaque: tag}}}
}

func hTag(c vc.VerifiableCredential) string {
	if c.ID == nil {
		return ""
	}
	return c.ID.Opaque
}

// hOptInt is an optional JSON integer member: absent, or any int.
func hOptInt(name string) *int {
	vTag("has_" + name)
	if !vBool() {
		return nil
	}
	vTag(name)
	x := vInt()
	return &x
}

// hRuleNumbersSchemaValid: what the JSON schema of a submission requirement demands of the numbers
// (count >= 1, min >= 0, max >= 0).
func hRuleNumbersSchemaValid(r SubmissionRequirement) bool {
	return (r.Count == nil || *r.Count >= 1) && (r.Min == nil || *r.Min >= 0) && (r.Max == nil || *r.Max >= 0)
}

// hCheckApply is the reference reading of the submission requirement rules (PEX v2 §5.2):
//   all  : every member of the group is submitted, otherwise no selection exists
//   pick : count => exactly count members; otherwise at least min (default 0) and at most max (default: no limit)
//          members; no selection exists iff fewer members are available than required.
// members[i] are the credentials of member i (nil = member not available). The result must consist of complete
// members only (no partial member, nothing foreign, nothing twice).
func hCheckApply(id string, r SubmissionRequirement, members [][]string, result []vc.VerifiableCredential, err error) {
	available := 0
	for _, m := range members {
		if len(m) > 0 {
			available++
		}
	}
	if err != nil {
		vCover("no-selection")
		vAssert(errors.Is(err, ErrNoCredentials), id+".error_is_no_credentials: a missing selection is not reported as ErrNoCredentials")
		vAssert(result == nil, id+".error_has_no_partial_result: an error is accompanied by a partial selection")
	} else {
		vCover("selection")
	}
	// which members were selected
	selected, used := 0, 0
	for _, m := range members {
		hits := 0
		for _, tag := range m {
			for _, c := range result {
				if hTag(c) == tag {
					hits++
				}
			}
		}
		vAssert(hits == 0 || hits == len(m), id+".whole_members: a member of the group is selected partially or twice")
		if hits > 0 {
			selected++
			used += hits
		}
	}
	vAssert(used == len(result), id+".only_members: the selection contains something that is not an available member")

	if !hRuleNumbersSchemaValid(r) {
		vCover("numbers-outside-schema") // only panic freedom and the structural assertions above are claimed
		return
	}
	switch {
	case r.Rule == "all":
		vCover("all")
		if available == len(members) {
			vAssert(err == nil && selected == len(members), id+".all_selects_all: rule all with every member available does not select every member")
		} else {
			vAssert(err != nil, id+".all_incomplete_is_error: rule all with a missing member yields a (partial) selection")
		}
	case r.Count != nil:
		vCover("pick-count")
		if available < *r.Count {
			vAssert(err != nil, id+".count_short_is_error: fewer members than count available but a selection is returned")
		} else {
			vAssert(err == nil && selected == *r.Count, id+".count_exact: pick with count does not select exactly count members")
		}
	default:
		vCover("pick-minmax")
		min := 0
		if r.Min != nil {
			min = *r.Min
		}
		if r.Max != nil && min > *r.Max {
			vAssert(err != nil, id+".minmax_unsat_is_error: pick with min > max returns a selection (no selection can satisfy it)")
			return
		}
		if available < min {
			vAssert(err != nil, id+".min_short_is_error: fewer members than min available but a selection is returned")
		} else {
			vAssert(err == nil, id+".min_met_is_selection: at least min members available but no selection is returned")
			vAssert(selected >= min, id+".min_respected: pick selects fewer than min members")
			vAssert(r.Max == nil || selected <= *r.Max, id+".max_respected: pick selects more than max members")
		}
	}
}

func hRequirement() SubmissionRequirement {
	r := SubmissionRequirement{Name: "r", From: "A"}
	vTag("rule_all")
	if vBool() {
		r.Rule = "all"
	} else {
		r.Rule = "pick"
	}
	r.Count = hOptInt("count")
	r.Min = hOptInt("min")
	r.Max = hOptInt("max")
	// one witness class per path (root causes of the findings on the unchanged tree)
	switch {
	case r.Rule == "pick" && r.Count == nil && r.Max == nil:
		vClass("pick without count and max")
	case !hRuleNumbersSchemaValid(r):
		vClass("numbers outside schema") // only panic freedom and the structural assertions are claimed
	case r.Rule == "pick" && r.Count == nil && r.Min != nil && *r.Min > *r.Max:
		vClass("pick min>max (unsatisfiable)")
	case r.Rule == "pick" && r.Count == nil && *r.Max == 0:
		vClass("pick max=0")
	}
	return r
}

// H12a: apply[S,E] on a group of n members (instantiation 1: one optional credential per member, as built
// by SubmissionRequirement.from; instantiation 2: a list of 0..2 credentials per member, as built by fromNested).
func H12a() {
	n := vLen(0, vParam("n", 3))
	r := hRequirement()
	tags := []string{"a", "b", "c", "d", "e", "f", "g", "h", "i", "j"}
	members := make([][]string, n)
	vTag("single_credentials")
	if vBool() {
		vCover("from")
		list := make([]selectableVC, n)
		for i := 0; i < n; i++ {
			vTag("member_available")
			if vBool() {
				list[i] = selectableVC(hVC(tags[2*i]))
				members[i] = []string{tags[2*i]}
			}
		}
		result, err := apply(list, r)
		hCheckApply("H12a", r, members, result, err)
	} else {
		vCover("from_nested")
		list := make([]selectableVCList, n)
		for i := 0; i < n; i++ {
			vTag("member_size")
			for j, k := 0, vLen(0, 2); j < k; j++ {
				list[i] = append(list[i], hVC(tags[2*i+j]))
				members[i] = append(members[i], tags[2*i+j])
			}
		}
		result, err := apply(list, r)
		hCheckApply("H12a", r, members, result, err)
	}
}

func H12a_twin() {
	r := SubmissionRequirement{Rule: "pick", From: "A"}
	c := vRange(1, 2)
	r.Count = &c
	list := []selectableVC{selectableVC(hVC("a")), {}, selectableVC(hVC("c"))}
	result, err := apply(list, r)
	if err == nil && len(result) == 2 {
		vAssert(false, "H12a_twin.reach: reachable")
	}
}
