//go:build verif

package pe

import (
	"github.com/nuts-foundation/go-did/vc"
)

// H12g: ResolveConstraintsFields (feeds the claims reported by token introspection and discovery search). A
// definition with two input descriptors d0 (field id "name", path p0) and d1 (field id "role", path p1); a
// credential map that holds, each present or not, d0 -> c0, d1 -> c1 and a key that is NOT an input descriptor of
// this definition -> c2 (the merged map of the organization + user wallet flow has such keys); per (credential,
// path) the lookup finds that credential's own value or nothing; Go's map iteration order is arbitrary.
// Every reported value is the value found in the credential mapped to the descriptor that declares the field;
// a key that is not a descriptor of this definition contributes nothing.
func H12g() {
	hLookups = map[string]hLookup{}
	hRemarshalErr = false
	name, role := "name", "role"
	d0 := &InputDescriptor{Id: "d0", Constraints: &Constraints{Fields: []Field{{Id: &name, Path: []string{"p0"}}}}}
	d1 := &InputDescriptor{Id: "d1", Constraints: &Constraints{Fields: []Field{{Id: &role, Path: []string{"p1"}}}}}
	def := PresentationDefinition{InputDescriptors: []*InputDescriptor{d0, d1}}
	creds := []vc.VerifiableCredential{hCred(0, false), hCred(1, false), hCred(2, false)}
	found := map[string]bool{}
	for _, c := range creds {
		for _, p := range []string{"p0", "p1"} {
			k := hTag(c) + "|" + p
			vTag("found_" + hTag(c) + "_" + p)
			if vBool() {
				found[k] = true
				hLookups[k] = hLookup{kind: 2, value: "value-of-" + k}
			} else {
				hLookups[k] = hLookup{kind: 0}
			}
		}
	}
	credMap := map[string]vc.VerifiableCredential{}
	keys := []string{"d0", "d1", "other-definition"}
	var present [3]bool
	for i, k := range keys {
		vTag("mapped_" + k)
		if vBool() {
			present[i] = true
			credMap[k] = creds[i]
		}
	}
	if present[2] {
		vCover("foreign-key")
	}
	vMapOrder(true)
	res, err := def.ResolveConstraintsFields(credMap)
	vMapOrder(false)
	vAssert(err == nil, "H12g.no_error: resolving fields of found/not found values failed")
	if err != nil {
		return
	}
	// reference
	wantName := present[0] && found["c0|p0"]
	wantRole := present[1] && found["c1|p1"]
	gotName, hasName := res["name"]
	gotRole, hasRole := res["role"]
	if hasName {
		vCover("name-reported")
		vAssert(present[0], "H12g.value_needs_mapping: a field value is reported although no credential is mapped to its input descriptor")
		vAssert(gotName == interface{}("value-of-c0|p0"), "H12g.value_from_mapped_credential: a reported field value does not come from the credential mapped to the field's input descriptor")
	}
	if hasRole {
		vAssert(present[1], "H12g.value_needs_mapping: a field value is reported although no credential is mapped to its input descriptor")
		vAssert(gotRole == interface{}("value-of-c1|p1"), "H12g.value_from_mapped_credential: a reported field value does not come from the credential mapped to the field's input descriptor")
	}
	vAssert(hasName == wantName, "H12g.name_reported_iff_found: field of d0 reported iff the mapped credential has it")
	vAssert(hasRole == wantRole, "H12g.role_reported_iff_found: field of d1 reported iff the mapped credential has it")
	vAssert(len(res) == hB2I(hasName)+hB2I(hasRole), "H12g.no_other_members: result has members that no input descriptor declares")
}

func hB2I(b bool) int {
	if b {
		return 1
	}
	return 0
}

func H12g_twin() {
	hLookups = map[string]hLookup{"c0|p0": {kind: 2, value: "v"}}
	hRemarshalErr = false
	name := "name"
	d0 := &InputDescriptor{Id: "d0", Constraints: &Constraints{Fields: []Field{{Id: &name, Path: []string{"p0"}}}}}
	def := PresentationDefinition{InputDescriptors: []*InputDescriptor{d0}}
	res, err := def.ResolveConstraintsFields(map[string]vc.VerifiableCredential{"d0": hCred(0, vBool())})
	if err == nil && len(res) == 1 {
		vAssert(false, "H12g_twin.reach: reachable")
	}
}
