//go:build verif

package pe

import (
	"errors"

	"github.com/nuts-foundation/go-did/vc"
)

//verif:stub github.com/nuts-foundation/nuts-node/vcr/pe.getValueAtPath => hGetValueAtPath
//verif:stub github.com/nuts-foundation/nuts-node/vcr/pe.remarshalToMap => hRemarshalToMap

// ---- JSON path lookup as a table ---------------------------------------------------------------
// jsonpath evaluation and the JSON re-marshalling of the credential are out of scope: a credential is the
// table "path expression -> lookup result" (not found | lookup error | value). The path expressions are
// the concrete names "f<field>p<path>" so that every (field, path) has its own, independent result.

type hLookup struct {
	kind  int // 0 not found, 1 error, 2 value
	value interface{}
}

var (
	hLookups     map[string]hLookup
	hLookupCalls int
	hRemarshalErr bool
)

func hGetValueAtPath(path string, vcAsInterface interface{}) (interface{}, error) {
	hLookupCalls++
	// a result registered for this credential ("<credential tag>|<path>", see H12g) takes precedence over the
	// credential-independent one
	if m, isMap := vcAsInterface.(map[string]interface{}); isMap {
		if tag, has := m["hTag"].(string); has {
			if l, ok := hLookups[tag+"|"+path]; ok {
				if l.kind == 0 {
					return nil, nil
				}
				if l.kind == 1 {
					return nil, errors.New("harness: invalid JSON path")
				}
				return l.value, nil
			}
		}
	}
	l, ok := hLookups[path]
	if !ok || l.kind == 0 {
		return nil, nil
	}
	if l.kind == 1 {
		return nil, errors.New("harness: invalid JSON path")
	}
	return l.value, nil
}

func hRemarshalToMap(v interface{}) (map[string]interface{}, error) {
	if hRemarshalErr {
		return nil, errors.New("harness: cannot marshal credential")
	}
	if c, isVC := v.(vc.VerifiableCredential); isVC {
		return map[string]interface{}{"hTag": hTag(c)}, nil
	}
	return map[string]interface{}{}, nil
}

func hPathName(field, path int) string {
	return "f" + string(rune('0'+field)) + "p" + string(rune('0'+path))
}

type hFieldModel struct {
	field   Field
	lookups []hLookup
}

// hField: a constraint field with 0..maxPaths paths, optional flag absent/true/false, no filter or a
// {type:string, const} filter (all other filter shapes: H12b), and a lookup result per path.
func hField(idx, maxPaths int) hFieldModel {
	m := hFieldModel{}
	np := vLen(0, maxPaths)
	vTag("optional")
	switch vChoice(3) {
	case 1:
		t := true
		m.field.Optional = &t
	case 2:
		f := false
		m.field.Optional = &f
	}
	vTag("has_filter")
	if vBool() {
		c := hStr("const")
		m.field.Filter = &Filter{Type: "string", Const: &c}
	}
	for p := 0; p < np; p++ {
		name := hPathName(idx, p)
		m.field.Path = append(m.field.Path, name)
		vTag("lookup") // 0 not found, 1 lookup error, 2.. found: string | number | array of two strings | object
		l := hLookup{}
		switch vChoice(6) {
		case 0:
		case 1:
			l.kind = 1
		case 2:
			l.kind, l.value = 2, hStr("found")
		case 3:
			l.kind, l.value = 2, hJSONScalar(hKFloat, "found")
		case 4:
			l.kind, l.value = 2, []interface{}{hStr("found0"), hStr("found1")}
		default:
			l.kind, l.value = 2, map[string]interface{}{} // objects: only without filter supported
		}
		m.lookups = append(m.lookups, l)
		hLookups[name] = l
	}
	return m
}

type hFieldRef struct {
	match, isError bool
	value          interface{}
}

// hRefField - reference reading of PEX 5.1 input evaluation for one field: the paths are tried in order; a path
// that selects nothing is skipped; the first selected value that passes the filter (or any value if there is
// no filter) satisfies the field and is the field's value. A field that is not satisfied is acceptable only
// if it is optional and no path selected anything. A failing lookup or filter evaluation is an error.
func hRefField(m hFieldModel) hFieldRef {
	selectedSomething := false
	for _, l := range m.lookups {
		switch l.kind {
		case 0:
			continue
		case 1:
			return hFieldRef{isError: true}
		}
		selectedSomething = true
		if m.field.Filter == nil {
			return hFieldRef{match: true, value: l.value}
		}
		switch v := l.value.(type) {
		case string:
			if v == *m.field.Filter.Const {
				return hFieldRef{match: true, value: l.value}
			}
		case []interface{}:
			for _, e := range v {
				if e == *m.field.Filter.Const {
					return hFieldRef{match: true, value: l.value}
				}
			}
		case map[string]interface{}:
			return hFieldRef{isError: true} // unsupported by the filter
		}
	}
	if m.field.Optional != nil && *m.field.Optional && !selectedSomething {
		return hFieldRef{match: true, value: nil}
	}
	return hFieldRef{}
}

func hSameValue(a, b interface{}) bool {
	switch bv := b.(type) {
	case []interface{}:
		return hSameSlice(a, bv)
	case map[string]interface{}:
		am, ok := a.(map[string]interface{})
		return ok && len(am) == len(bv)
	}
	switch a.(type) {
	case []interface{}, map[string]interface{}:
		return false
	}
	return a == b
}

// H12c: matchConstraint/matchField (real) over the lookup table: optional / multi-path rule, and the
// values reported for named fields.
func H12c() {
	hLookups = map[string]hLookup{}
	nf := vLen(0, vParam("fields", 2))
	// a single field has up to `paths` paths; with several fields each has at most `paths2`
	maxPaths := vParam("paths", 2)
	if nf > 1 {
		maxPaths = vParam("paths2", 1)
	}
	fields := make([]hFieldModel, nf)
	c := &Constraints{}
	ids := []string{"id0", "id1", "id2"}
	for i := range fields {
		fields[i] = hField(i, maxPaths)
		vTag("has_id")
		if vBool() {
			fields[i].field.Id = &ids[i]
		}
		c.Fields = append(c.Fields, fields[i].field)
	}
	if nf == 0 {
		vTag("remarshal_fails")
		hRemarshalErr = vBool()
	}
	cred := vc.VerifiableCredential{}
	match, values, err := matchConstraint(c, cred)

	// reference: all fields must be satisfied, in order; the first failing evaluation is the error
	refMatch, refErr := true, false
	if hRemarshalErr {
		refMatch, refErr = false, true
	}
	refs := make([]hFieldRef, nf)
	for i := range fields {
		if !refMatch {
			break
		}
		refs[i] = hRefField(fields[i])
		if refs[i].isError {
			refMatch, refErr = false, true
		} else if !refs[i].match {
			refMatch = false
		}
	}
	vAssert(!(match && err != nil), "H12c.match_xor_error: match reported together with an error")
	vAssert((err != nil) == refErr, "H12c.error_iff_evaluation_fails: error without failing lookup/filter, or failing lookup/filter without error")
	vAssert(match == refMatch, "H12c.constraint_agrees: constraint verdict differs from the field rules (all fields; first path with a passing value; optional only if nothing selected)")
	if !match {
		vCover("no-match")
		vAssert(values == nil, "H12c.no_match_no_values: field values are reported without a match")
		return
	}
	vCover("match")
	named := 0
	for i, f := range fields {
		if f.field.Id == nil {
			continue
		}
		named++
		got, present := values[*f.field.Id]
		vAssert(present, "H12c.named_field_reported: a named field has no entry in the resolved values")
		vAssert(hSameValue(got, refs[i].value), "H12c.named_field_value: value of a named field is not the value present in the credential at the first satisfying path")
		if refs[i].value == nil {
			vCover("optional-absent")
		}
		if len(f.lookups) == 2 && f.lookups[0].kind == 2 && f.lookups[1].kind == 2 {
			vCover("second-path-after-filter-miss-or-first")
		}
	}
	vAssert(len(values) == named, "H12c.only_named_fields: resolved values contain entries that are not named fields")
}

func H12c_twin() {
	hLookups = map[string]hLookup{}
	m := hField(0, 2)
	id := "id0"
	m.field.Id = &id
	match, values, err := matchConstraint(&Constraints{Fields: []Field{m.field}}, vc.VerifiableCredential{})
	if err == nil && match && hLookupCalls == 2 && values["id0"] != nil {
		vAssert(false, "H12c_twin.reach: reachable")
	}
}
