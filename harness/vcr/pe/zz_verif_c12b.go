//go:build verif

package pe

import (
	"errors"

	"github.com/dlclark/regexp2"
)

//verif:stub github.com/dlclark/regexp2.Compile => hReCompile
//verif:stub (*github.com/dlclark/regexp2.Regexp).FindStringMatch => hReFind

// ---- regexp2 as a symbolic oracle ------------------------------------------------------------
// The pattern language is out of scope. The stub answers every (pattern, input) question with a
// nondeterministic but *functional* verdict (same input string => same verdict):
//   compile: error | ok
//   find   : error | no match | match with 1 group (no capture group) | 2 groups (one capture group) | 3 groups
// The text of the whole match is the marker "W", of capture group 1 "G", of group 2 "H" (their relation to
// the input - being substrings of it - is not modelled; no assertion depends on it).

const (
	hReNoMatch = iota
	hReWhole   // match, pattern without capture group
	hReOneGroup
	hReTwoGroups
	hReError
)

type hReEntry struct {
	s    string
	kind int
}

var (
	hReTable       []hReEntry
	hReCompileDone bool
	hReCompileErr  bool
	hReFindCalls   int
)

func hReCompileFails() bool {
	if !hReCompileDone {
		hReCompileDone = true
		vTag("regex_compile_fails")
		hReCompileErr = vBool()
	}
	return hReCompileErr
}

// hReKind is the oracle: the verdict of the (single) pattern on input s.
func hReKind(s string) int {
	for _, e := range hReTable {
		if e.s == s {
			return e.kind
		}
	}
	vTag("regex_verdict")
	k := vChoice(5)
	hReTable = append(hReTable, hReEntry{s, k})
	return k
}

func hReCompile(expr string, opt regexp2.RegexOptions) (*regexp2.Regexp, error) {
	if hReCompileFails() {
		return nil, errors.New("harness: pattern does not compile")
	}
	return &regexp2.Regexp{}, nil
}

func hReGroup(text string) regexp2.Group {
	g := regexp2.Group{}
	g.Index, g.Length = 0, len(text)
	vSetField(&g.Capture, "text", []rune(text))
	return g
}

func hReFind(re *regexp2.Regexp, s string) (*regexp2.Match, error) {
	hReFindCalls++
	switch hReKind(s) {
	case hReError:
		return nil, errors.New("harness: match timeout")
	case hReNoMatch:
		return nil, nil
	case hReWhole:
		m := &regexp2.Match{Group: hReGroup("W")}
		vSetField(m, "otherGroups", []regexp2.Group{})
		return m, nil
	case hReOneGroup:
		m := &regexp2.Match{Group: hReGroup("W")}
		vSetField(m, "otherGroups", []regexp2.Group{hReGroup("G")})
		return m, nil
	default:
		m := &regexp2.Match{Group: hReGroup("W")}
		vSetField(m, "otherGroups", []regexp2.Group{hReGroup("G"), hReGroup("H")})
		return m, nil
	}
}

// ---- JSON values ------------------------------------------------------------------------------

const (
	hKString = iota
	hKFloat
	hKBool
	hKInt
	hKNull
	hKObject
	hKArray
)

func hStr(name string) string {
	vTag(name)
	return vString(vParam("slen", 1))
}

// hJSONScalar: a JSON value that is not an array, of the Go types jsonpath hands out.
func hJSONScalar(kind int, name string) interface{} {
	switch kind {
	case hKString:
		return hStr(name)
	case hKFloat:
		vTag(name)
		f := vF64()
		vAssume(f == f) // JSON has no NaN
		return f
	case hKBool:
		vTag(name)
		return vBool()
	case hKInt:
		vTag(name)
		return vInt()
	case hKNull:
		return nil
	default:
		return map[string]interface{}{}
	}
}

func hKindName(k int) string {
	return []string{"string", "float", "bool", "int", "null", "object", "array"}[k]
}

// ---- reference reading of the filter (JSON-schema subset) ---------------------------------------

type hRefVerdict struct {
	match   bool
	isError bool        // evaluating the pattern fails (compile error, match error, more than one capture group)
	value   interface{} // value the match yields: the value present, or the single capture
}

func hTypeOK(f Filter, x interface{}) bool {
	switch x.(type) {
	case string:
		return f.Type == "string"
	case float64, int:
		return f.Type == "number"
	case bool:
		return f.Type == "boolean"
	}
	return false
}

// hRefScalar: does scalar x validate against filter f (type AND const AND enum AND pattern; const, enum
// and pattern apply to strings: a non-string never equals a string const/enum member, pattern only
// constrains strings).
func hRefScalar(f Filter, x interface{}) hRefVerdict {
	s, isStr := x.(string)
	if !hTypeOK(f, x) {
		return hRefVerdict{}
	}
	if f.Enum != nil {
		in := false
		for _, e := range f.Enum {
			if isStr && s == e {
				in = true
			}
		}
		if !in {
			return hRefVerdict{}
		}
	}
	if f.Const != nil && !(isStr && s == *f.Const) {
		return hRefVerdict{}
	}
	if f.Pattern != nil && isStr {
		if hReCompileFails() {
			return hRefVerdict{isError: true}
		}
		switch hReKind(s) {
		case hReError, hReTwoGroups:
			return hRefVerdict{isError: true}
		case hReNoMatch:
			return hRefVerdict{}
		case hReWhole:
			return hRefVerdict{match: true, value: "W"}
		default:
			return hRefVerdict{match: true, value: "G"}
		}
	}
	return hRefVerdict{match: true, value: x}
}

func hSameSlice(a interface{}, b []interface{}) bool {
	s, ok := a.([]interface{})
	if !ok || len(s) != len(b) {
		return false
	}
	return len(b) == 0 || &s[0] == &b[0]
}

func hFilter() Filter {
	f := Filter{}
	vTag("filter_type")
	switch vChoice(5) {
	case 0:
		f.Type = "string"
	case 1:
		f.Type = "number"
	case 2:
		f.Type = "boolean"
	case 3:
		f.Type = "array"
	default:
		f.Type = "" // no type keyword (or any other word)
	}
	if vBool() {
		c := hStr("const")
		f.Const = &c
	}
	vTag("enum_len")
	switch vChoice(vParam("enum", 2) + 2) {
	case 0:
	case 1:
		f.Enum = []string{}
	case 2:
		f.Enum = []string{hStr("enum0")}
	default:
		f.Enum = []string{hStr("enum0"), hStr("enum1")}
	}
	if vBool() {
		p := "pattern"
		f.Pattern = &p
	}
	return f
}

// H12b: matchFilter against the reference for every filter shape and every JSON value of depth <= 2.
func H12b() {
	f := hFilter()
	supported := f.Type == "string" || f.Type == "number" || f.Type == "boolean"
	enumMixed := f.Enum != nil && (f.Const != nil || f.Pattern != nil || f.Type != "string")
	vTag("value_kind")
	kind := vChoice(7)
	if kind != hKArray {
		vCover("scalar")
		x := hJSONScalar(kind, "value")
		match, result, err := matchFilter(f, x)
		vAssert(!(match && err != nil), "H12b.match_xor_error: match reported together with an error")
		ref := hRefScalar(f, x)
		if kind == hKNull || kind == hKObject {
			vCover("null-or-object")
			vAssert(!match, "H12b.unsupported_value_no_match: null or object value matches a filter")
			return
		}
		if !supported {
			vCover("other-type")
			vAssert(!match, "H12b.other_type_scalar_no_match: a filter whose type is not string/number/boolean matches a scalar")
			return
		}
		if enumMixed {
			// enum together with other keywords: every keyword has to hold (JSON schema); we only demand
			// that nothing is accepted that the schema rejects
			vCover("enum-mixed")
			vClass("enum combined with const/pattern/non-string type")
			vAssert(!match || ref.match, "H12b.enum_mixed_sound: value matches although a keyword next to enum does not hold")
			return
		}
		if ref.isError {
			vCover("regex-error")
			vAssert(err != nil && !match, "H12b.regex_error_reported: failing pattern evaluation (compile/match error, several capture groups) is not reported as error")
			return
		}
		vAssert(err == nil, "H12b.scalar_no_error: error for a supported scalar value")
		vAssert(match == ref.match, "H12b.scalar_agrees: verdict on a scalar differs from the JSON-schema reading of the filter")
		if match {
			vCover("scalar-match")
			if f.Pattern != nil && kind == hKString && f.Enum == nil {
				vCover("capture")
			}
			vAssert(result == ref.value, "H12b.scalar_value: matched value is neither the value present nor the single capture")
		} else {
			vAssert(result == nil, "H12b.no_match_no_value: a value is returned without a match")
		}
		return
	}

	// array of 0..2 elements
	vCover("array")
	n := vLen(0, vParam("alen", 2))
	arr := make([]interface{}, n)
	nested := false
	for i := range arr {
		vTag("elem_kind")
		ek := vChoice(7)
		if ek == hKArray {
			arr[i] = []interface{}{}
			nested = true
		} else {
			arr[i] = hJSONScalar(ek, "elem")
		}
	}
	// reference: an array matches iff some element matches
	anyMatch, anyError, anyUnsupported, anyOfType := false, false, false, false
	refs := make([]hRefVerdict, n)
	if supported {
		for i, e := range arr {
			switch e.(type) {
			case nil, map[string]interface{}, []interface{}:
				anyUnsupported = true
				continue
			}
			refs[i] = hRefScalar(f, e)
			anyMatch = anyMatch || refs[i].match
			anyError = anyError || refs[i].isError
			anyOfType = anyOfType || hTypeOK(f, e)
		}
	}
	if f.Pattern != nil && f.Type == "string" && f.Enum == nil && !anyMatch {
		vClass("array and pattern, no matching element")
	} else if !anyOfType {
		vClass("array without element of the filter's type")
	}
	match, result, err := matchFilter(f, arr)
	vAssert(!(match && err != nil), "H12b.match_xor_error: match reported together with an error")
	if !supported {
		vCover("other-type-array")
		// the only reading under which such a filter can accept an array is {type: array}
		vAssert(!match || f.Type == "array" && f.Const == nil && f.Enum == nil, "H12b.other_type_array: a filter whose type is neither string/number/boolean nor array matches an array")
		return
	}
	if enumMixed {
		vCover("enum-mixed")
		vClass("enum combined with const/pattern/non-string type")
		vAssert(!match || anyMatch, "H12b.enum_mixed_sound: value matches although a keyword next to enum does not hold")
		return
	}
	if match {
		vCover("array-match")
		vAssert(anyMatch, "H12b.array_match_needs_element: an array matches although no element matches the filter")
		ok := hSameSlice(result, arr)
		for i, e := range arr {
			if refs[i].match && !nested {
				if _, isArr := result.([]interface{}); !isArr && (result == e || result == refs[i].value) {
					ok = true
				}
			}
		}
		vAssert(ok, "H12b.array_value: matched value is neither the array, a matching element nor its capture")
		return
	}
	vAssert(result == nil, "H12b.no_match_no_value: a value is returned without a match")
	if err != nil {
		vCover("array-error")
		vAssert(anyError || anyUnsupported, "H12b.array_error_has_cause: error although no element is unsupported and no pattern evaluation fails")
		return
	}
	vCover("array-no-match")
	vAssert(!anyMatch, "H12b.array_element_match_found: an element matches the filter but the array does not")
	vAssert(!anyError, "H12b.array_regex_error_reported: failing pattern evaluation on an element is not reported as error")
}

func H12b_twin() {
	p := "pattern"
	f := Filter{Type: "string", Pattern: &p}
	match, v, err := matchFilter(f, []interface{}{hStr("e0"), hStr("e1")})
	if err == nil && match && hReFindCalls == 2 && v != nil {
		vAssert(false, "H12b_twin.reach: reachable")
	}
}
