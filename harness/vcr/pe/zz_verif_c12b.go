//go:build verif

package pe

import (
	"errors"

	"github.com/dlclark/regexp2"
)

//verif:stub github.com/dlclark/regexp2.Compile => hReCompile
//verif:stub (*github.com/dlclark/regexp2.Regexp).FindStringMatch => hReFind

// ---- regexp2 as a symbolic oracle ------------------------------------------------------------
// The pattern language is out of scope. The stub answers every (pattern, input) question with a
// nondeterministic but *functional* verdict (same input string => same verdict):
//   compile: error | ok
//   find   : error | no match | match with 1 group (no capture group) | 2 groups (one capture group) | 3 groups
// The text of the whole match is the marker "W", of capture group 1 "G", of group 2 "H" (their relation to
// the input - being substrings of it - is not modelled; no assertion depends on it).

const (
	hReNoMatch = iota
	hReWhole   // match, pattern without capture group
	hReOneGroup
	hReTwoGroups
	hReError
)

type hReEntry struct {
	s    string
	kind int
}

var (
	hReTable       []hReEntry
	hReCompileDone bool
	hReCompileErr  bool
	hReFindCalls   int
)

func hReCompileFails() bool {
	if !hReCompileDone {
		hReCompileDone = true
		vTag("regex_compile_fails")
		hReCompileErr = vBool()
	}
	return hReCompileErr
}

// hReKind is the oracle: the verdict of the (single) pattern on input s.
func hReKind(s string) int {
	for _, e := range hReTable {
		if e.s == s {
			return e.kind
		}
	}
	vTag("regex_verdict")
	k := vChoice(5)
	hReTable = append(hReTable, hReEntry{s, k})
	return k
}

func hReCompile(expr string, opt regexp2.RegexOptions) (*regexp2.Regexp, error) {
	if hReCompileFails() {
		return nil, errors.New("harness: pattern does not compile")
	}
	return &regexp2.Regexp{}, nil
}

func hReGroup(text string) regexp2.Group {
	g := regexp2.Group{}
	g.Index, g.Length = 0, len(text)
	vSetField(&g.Capture, "text", []rune(text))
	return g
}

func hReFind(re *regexp2.Regexp, s string) (*regexp2.Match, error) {
	hReFindCalls++
	switch hReKind(s) {
	case hReError:
		return nil, errors.New("harness: match timeout")
	case hReNoMatch:
		return nil, nil
	case hReWhole:
		m := &regexp2.Match{Group: hReGroup("W")}
		vSetField(m, "otherGroups", []regexp2.Group{})
		return m, nil
	case hReOneGroup:
		m := &regexp2.Match{Group: hReGroup("W")}
		vSetField(m, "otherGroups", []regexp2.Group{hReGroup("G")})
		return m, nil
	default:
		m := &regexp2.Match{Group: hReGroup("W")}
		vSetField(m, "otherGroups", []regexp2.Group{hReGroup("G"), hReGroup("H")})
		return m, nil
	}
}

// ---- JSON values ------------------------------------------------------------------------------

const (
	hKString = iota
	hKFloat
	hKBool
	hKInt
	hKNull
	hKObject
	hKArray
)

func hStr(name string) string {
	vTag(name)
	return vString(vParam("slen", 1))
}

// hJSONScalar: a JSON value that is not an array, of the Go types jsonpath hands out.
func hJSONScalar(kind int, name string) interface{} {
	switch kind {
	case hKString:
		return hStr(name)
	case hKFloat:
		vTag(name)
		f := vF64()
		vAssume(f == f) // JSON has no NaN
		return f
	case hKBool:
		vTag(name)
		return vBool()
	case hKInt:
		vTag(name)
		return vInt()
	case hKNull:
		return nil
	default:
		return map[string]interface{}{}
	}
}

func hKindName(k int) string {
	return []string{"string", "float", "bool", "int", "null", "object", "array"}[k]
}

// ---- reference reading of the filter (JSON-schema subset) ---------------------------------------

type hRefVerdict struct {
	match   bool
	isError bool        // evaluating the pattern fails (compile error, match error, more than one capture group)
	value   interface{} // value the match yields: the value present, or the single capture
}

// hTypeOK: the type keyword on a scalar. No type keyword ("") admits every scalar; words other than
// string/number/boolean (array, object, ...) admit no scalar.
func hTypeOK(f Filter, x interface{}) bool {
	switch x.(type) {
	case string:
		return f.Type == "string" || f.Type == ""
	case float64, int:
		return f.Type == "number" || f.Type == ""
	case bool:
		return f.Type == "boolean" || f.Type == ""
	}
	return false
}

// hRefScalar: does scalar x validate against filter f: type AND const AND enum AND pattern. Const, enum and
// pattern are string valued: a non-string never equals a const/enum member, pattern only constrains strings.
func hRefScalar(f Filter, x interface{}) hRefVerdict {
	s, isStr := x.(string)
	if !hTypeOK(f, x) {
		return hRefVerdict{}
	}
	if f.Enum != nil {
		in := false
		for _, e := range f.Enum {
			if isStr && s == e {
				in = true
			}
		}
		if !in {
			return hRefVerdict{}
		}
	}
	if f.Const != nil && !(isStr && s == *f.Const) {
		return hRefVerdict{}
	}
	if f.Pattern != nil && isStr {
		if hReCompileFails() {
			return hRefVerdict{isError: true}
		}
		switch hReKind(s) {
		case hReError, hReTwoGroups:
			return hRefVerdict{isError: true}
		case hReNoMatch:
			return hRefVerdict{}
		case hReWhole:
			return hRefVerdict{match: true, value: "W"}
		default:
			return hRefVerdict{match: true, value: "G"}
		}
	}
	return hRefVerdict{match: true, value: x}
}

func hSameSlice(a interface{}, b []interface{}) bool {
	s, ok := a.([]interface{})
	if !ok || len(s) != len(b) {
		return false
	}
	return len(b) == 0 || &s[0] == &b[0]
}

func hFilter() Filter {
	f := Filter{}
	vTag("filter_type")
	switch vChoice(6) {
	case 0:
		f.Type = "string"
	case 1:
		f.Type = "number"
	case 2:
		f.Type = "boolean"
	case 3:
		f.Type = "array"
	case 4:
		f.Type = "" // no type keyword
	default:
		f.Type = "object" // any other word
	}
	vTag("has_const")
	if vBool() {
		c := hStr("const")
		f.Const = &c
	}
	vTag("enum_len")
	switch vChoice(vParam("enum", 2) + 2) {
	case 0:
	case 1:
		f.Enum = []string{}
	case 2:
		f.Enum = []string{hStr("enum0")}
	default:
		f.Enum = []string{hStr("enum0"), hStr("enum1")}
	}
	vTag("has_pattern")
	if vBool() {
		p := "pattern"
		f.Pattern = &p
	}
	return f
}

// H12b: matchFilter against the reference for every filter shape and every JSON value of depth <= 2.
//   soundness    (all shapes): match => the value validates against the filter; an array matches only if some
//                 element does ({type: array} is the only filter an array itself validates against)
//   completeness (type string/number/boolean or none with at most enum; no null/object inside): validates => match
//   value        : the value returned is the value present, or the single capture of the pattern
//   errors       : failing pattern evaluation is an error, never a verdict; no error without a cause
func H12b() {
	f := hFilter()
	supported := f.Type == "string" || f.Type == "number" || f.Type == "boolean"
	enumMixed := f.Enum != nil && (f.Const != nil || f.Pattern != nil || !(f.Type == "string" || f.Type == ""))
	patternApplies := f.Pattern != nil && f.Type == "string" && f.Enum == nil
	vTag("value_kind")
	kind := vChoice(7)
	if kind != hKArray {
		vCover("scalar")
		x := hJSONScalar(kind, "value")
		ref := hRefScalar(f, x)
		if enumMixed {
			vClass("enum combined with const/pattern/non-string type")
		}
		match, result, err := matchFilter(f, x)
		vAssert(!(match && err != nil), "H12b.match_xor_error: match reported together with an error")
		vAssert(match || result == nil, "H12b.no_match_no_value: a value is returned without a match")
		vAssert(!match || ref.match, "H12b.scalar_sound: a scalar matches although it does not validate against the filter")
		if kind == hKNull || kind == hKObject {
			vCover("null-or-object")
			return
		}
		if !supported || enumMixed {
			vCover("soundness-only")
			return
		}
		if ref.isError {
			vCover("regex-error")
			vAssert(err != nil, "H12b.regex_error_reported: failing pattern evaluation (compile/match error, several capture groups) is not reported as error")
			return
		}
		vAssert(err == nil, "H12b.scalar_no_error: error for a supported scalar value")
		vAssert(match == ref.match, "H12b.scalar_complete: a scalar that validates against the filter does not match")
		if match {
			vCover("scalar-match")
			if patternApplies {
				vCover("capture")
			}
			vAssert(result == ref.value, "H12b.scalar_value: matched value is neither the value present nor the single capture")
		}
		return
	}

	// array of 0..alen elements (scalars, null, object, empty nested array)
	vCover("array")
	n := vLen(0, vParam("alen", 2))
	arr := make([]interface{}, n)
	nested := false
	for i := range arr {
		vTag("elem_kind")
		ek := vChoice(7)
		if ek == hKArray {
			arr[i] = []interface{}{}
			nested = true
		} else {
			arr[i] = hJSONScalar(ek, "elem")
		}
	}
	// reference: an array matches iff some element matches
	anyMatch, anyError, anyUnsupported := false, false, false
	refs := make([]hRefVerdict, n)
	for i, e := range arr {
		switch e.(type) {
		case nil, map[string]interface{}, []interface{}:
			anyUnsupported = true
			continue
		}
		refs[i] = hRefScalar(f, e)
		anyMatch = anyMatch || refs[i].match
		anyError = anyError || refs[i].isError
	}
	arrayItself := f.Type == "array" && f.Const == nil && f.Enum == nil // {type: array}: the array itself validates
	switch {
	case enumMixed:
		vClass("enum combined with const/pattern/non-string type")
	case patternApplies && (!anyMatch || nested):
		vClass("array and pattern, no matching element")
	case f.Enum == nil && !arrayItself && (!anyMatch || nested):
		vClass("array without element of the filter's type")
	}
	match, result, err := matchFilter(f, arr)
	vAssert(!(match && err != nil), "H12b.match_xor_error: match reported together with an error")
	vAssert(match || result == nil, "H12b.no_match_no_value: a value is returned without a match")
	vAssert(!match || anyMatch || arrayItself, "H12b.array_sound: an array matches although no element validates against the filter")
	if match {
		vCover("array-match")
		ok := hSameSlice(result, arr)
		if _, isArr := result.([]interface{}); !isArr {
			for i, e := range arr {
				if refs[i].match && (result == e || result == refs[i].value) {
					ok = true
				}
			}
		}
		vAssert(ok, "H12b.array_value: matched value is neither the array, a matching element nor its capture")
	}
	if !supported || enumMixed || anyUnsupported {
		vCover("soundness-only")
		return
	}
	if err != nil {
		vCover("array-error")
		vAssert(anyError || patternApplies && hReCompileFails(), "H12b.array_error_has_cause: error although no pattern evaluation fails")
		return
	}
	if !match {
		vCover("array-no-match")
		vAssert(!anyMatch, "H12b.array_complete: an element validates against the filter but the array does not match")
		vAssert(!anyError, "H12b.array_regex_error_reported: failing pattern evaluation on an element is not reported as error")
	}
}

func H12b_twin() {
	p := "pattern"
	f := Filter{Type: "string", Pattern: &p}
	match, v, err := matchFilter(f, hStr("value"))
	if err == nil && match && hReFindCalls == 1 && v == "G" {
		vAssert(false, "H12b_twin.reach: reachable")
	}
}
