//go:build verif

package pe

import (
	"github.com/nuts-foundation/go-did/vc"
)

//verif:stub github.com/nuts-foundation/nuts-node/vcr/pe.matchProofType => hMatchProofType

// hMatchProofType: whether the credential carries a proof of the given type (vc.Proofs() decodes JSON) is a
// functional verdict per proof type.
func hMatchProofType(proofType string, credential vc.VerifiableCredential) bool {
	return hVerdict("proof-type-"+proofType, hTag(credential)) == hYes
}

func hAnyInt(name string) *int {
	vTag(name)
	x := vInt()
	return &x
}

// hLooseRequirement: a submission requirement as json.Unmarshal (without schema validation) can deliver it:
// any rule word, numbers present or not with any value, from / from_nested present or not.
func hLooseRequirement(name string, depth int) *SubmissionRequirement {
	r := &SubmissionRequirement{Name: name}
	rules, numbers := 4, 8
	if depth == 0 && vParam("loosechild", 0) == 0 {
		rules, numbers = 2, 2 // nested requirement: all | pick, no number | count
	}
	vTag("rule")
	r.Rule = []string{"all", "pick", "", "other"}[vChoice(rules)]
	vTag("numbers") // bit 0: count, bit 1: min, bit 2: max
	n := vChoice(numbers)
	if n&1 != 0 {
		r.Count = hAnyInt("count")
	}
	if n&2 != 0 {
		r.Min = hAnyInt("min")
	}
	if n&4 != 0 {
		r.Max = hAnyInt("max")
	}
	vTag("from")
	if vBool() {
		r.From = "A"
	}
	if depth > 0 {
		vTag("from_nested")
		if vBool() {
			r.FromNested = []*SubmissionRequirement{hLooseRequirement(name+".0", depth-1)}
		}
	}
	return r
}

func hLooseClass(r *SubmissionRequirement) (picksWithoutMax, outsideSchema bool) {
	if r.Rule == "pick" && r.Count == nil && r.Max == nil {
		picksWithoutMax = true
	}
	outsideSchema = !hRuleNumbersSchemaValid(*r)
	for _, c := range r.FromNested {
		p, o := hLooseClass(c)
		picksWithoutMax = picksWithoutMax || p
		outsideSchema = outsideSchema || o
	}
	return
}

// H12f (PEX part of C19): definitions that reach Match/CredentialsRequired without schema validation
// (presentation_definition request parameter, presentation definition endpoint of a remote server are decoded
// with plain json.Unmarshal), and the real matchFormat for JSON-LD credentials.
//   mode 0: a definition with exactly one JSON null where an object is expected (input descriptor,
//           submission requirement, nested requirement), otherwise well-formed
//   mode 1: requirements with any rule word / numbers / from+from_nested combination
//   mode 2: matchFormat(format designation, JSON-LD or holder credential) against its documented rule
func H12f() {
	hVerdicts = map[string]int{}
	hVerdictErrs = 0
	wallet := []vc.VerifiableCredential{hCred(0, false)}
	vTag("mode")
	switch vChoice(3) {
	case 0:
		vCover("null-member")
		d0 := &InputDescriptor{Id: "d0", Group: []string{"A"}, Constraints: &Constraints{}}
		def := PresentationDefinition{InputDescriptors: []*InputDescriptor{d0}}
		vTag("null_at")
		switch vChoice(3) {
		case 0:
			def.InputDescriptors = append(def.InputDescriptors, nil)
		case 1:
			def.SubmissionRequirements = []*SubmissionRequirement{nil, {Rule: "all", From: "A"}}
		default:
			def.SubmissionRequirements = []*SubmissionRequirement{{Rule: "all", FromNested: []*SubmissionRequirement{{Rule: "all", From: "A"}, nil}}}
		}
		vClass("null member in a definition that was not schema-validated")
		// the decoder (PresentationDefinition.UnmarshalJSON) runs this check on every decoded definition and refuses
		// the ones it rejects; only what passes it can reach the matching code. encoding/json itself is not modelled.
		if def.checkNoNullMembers() != nil {
			vCover("null-member-refused-by-decoder")
			return
		}
		vTag("entry")
		if vBool() {
			def.CredentialsRequired()
		} else {
			vcs, mappings, err := def.Match(wallet)
			vAssert(err == nil || vcs == nil && mappings == nil, "H12f.error_has_no_partial_result: an error is accompanied by a (partial) selection")
		}
	case 1:
		vCover("loose-requirement")
		d0 := &InputDescriptor{Id: "d0", Group: []string{"A"}}
		vTag("constraints_present")
		if vBool() {
			d0.Constraints = &Constraints{}
		}
		def := PresentationDefinition{InputDescriptors: []*InputDescriptor{d0}}
		r := hLooseRequirement("r", 1)
		def.SubmissionRequirements = []*SubmissionRequirement{r}
		switch p, o := hLooseClass(r); {
		case p:
			vClass("pick without count and max")
		case o:
			vClass("numbers outside schema")
		}
		required := def.CredentialsRequired()
		vcs, mappings, err := def.Match(wallet)
		vAssert(err == nil || vcs == nil && mappings == nil, "H12f.error_has_no_partial_result: an error is accompanied by a (partial) selection")
		if err == nil {
			vCover("loose-selection")
			vAssert(len(vcs) == len(mappings), "H12f.one_mapping_per_credential: number of selected credentials differs from the number of mappings")
			if len(vcs) > 0 {
				_ = required
			}
		}
	default:
		vCover("format")
		var format *PresentationDefinitionClaimFormatDesignations
		ldpEntry := false
		var proofTypes []string
		vTag("format_shape")
		switch vChoice(8) {
		case 0:
		case 1:
			format = &PresentationDefinitionClaimFormatDesignations{}
		case 2:
			format = &PresentationDefinitionClaimFormatDesignations{"ldp_vc": nil}
		case 3:
			format = &PresentationDefinitionClaimFormatDesignations{"ldp_vc": {}}
			ldpEntry = true
		case 4:
			format = &PresentationDefinitionClaimFormatDesignations{"ldp_vc": {"proof_type": {}}}
			ldpEntry = true
		case 5:
			proofTypes = []string{"t0"}
			format = &PresentationDefinitionClaimFormatDesignations{"ldp_vc": {"proof_type": proofTypes}}
			ldpEntry = true
		case 6:
			proofTypes = []string{"t0", "t1"}
			format = &PresentationDefinitionClaimFormatDesignations{"ldp_vc": {"proof_type": proofTypes}, "jwt_vc": {"alg": {"ES256"}}}
			ldpEntry = true
		default:
			format = &PresentationDefinitionClaimFormatDesignations{"jwt_vc": {"alg": {"ES256"}}}
		}
		c := hCred(0, false)
		holderCredential, withProof := false, false
		vTag("credential_shape")
		switch vChoice(3) {
		case 0:
			vSetField(&c, "format", "")
			holderCredential = true
		case 1:
		default:
			c.Proof = []interface{}{map[string]interface{}{}}
			withProof = true
		}
		got := matchFormat(format, c)
		// documented rule: no designation => every credential; a holder credential (no format) always; a
		// JSON-LD credential needs an ldp_vc designation and - if it has a proof - a designated proof type
		want := format == nil || len(*format) == 0 || holderCredential
		if !want && ldpEntry {
			if !withProof {
				want = true
			}
			for _, t := range proofTypes {
				if withProof && hVerdict("proof-type-"+t, hTag(c)) == hYes {
					want = true
				}
			}
		}
		if want {
			vCover("format-ok")
		}
		vAssert(got == want, "H12f.format_rule: matchFormat differs from the documented rule for JSON-LD / holder credentials")
	}
}

func H12f_twin() {
	hVerdicts = map[string]int{}
	c := hCred(0, false)
	c.Proof = []interface{}{map[string]interface{}{}}
	format := &PresentationDefinitionClaimFormatDesignations{"ldp_vc": {"proof_type": {"t0", "t1"}}}
	if matchFormat(format, c) && len(hVerdicts) == 2 {
		vAssert(false, "H12f_twin.reach: reachable")
	}
}
