//go:build verif

package pe

import (
	"errors"
	"fmt"

	"github.com/google/uuid"
	"github.com/nuts-foundation/go-did/did"
	"github.com/nuts-foundation/go-did/vc"
)

//verif:stub github.com/nuts-foundation/nuts-node/vcr/pe.resolveCredential => hResolveCredential
//verif:stub github.com/nuts-foundation/nuts-node/vcr/credential.PresentationSigner => hPresentationSigner
//verif:stub github.com/google/uuid.New => hUUIDNew

// hUUIDNew: the submission id is irrelevant here (uuid.New reads crypto/rand through a package-level reader).
func hUUIDNew() uuid.UUID { return uuid.UUID{4: 0x40, 6: 0x80} }

// ---- the envelope as a list of credentials ---------------------------------------------------------
// Envelope parsing, jsonpath evaluation and credential decoding are out of scope. The parsed envelope
// (Envelope.asInterface) is modelled by hEnvelopeModel: the credentials of the single presentation.
// resolveCredential(mapping) follows the contract of the real function on such an envelope:
//   "$.verifiableCredential[i]" selects credential i of a presentation with >= 2 credentials,
//   "$.verifiableCredential"    selects the credential of a presentation with exactly 1 credential
//                               (a single credential is serialised as an object, not as an array),
//   anything else, an index out of range, or a mapping format that is not the format of the selected
//   credential (jwt_vc needs a string, ldp_vc an object) is an error; path_nested on a credential is an error.

type hEnvelopeModel struct {
	creds []vc.VerifiableCredential
}

func hResolveCredential(path []string, mapping InputDescriptorMappingObject, value interface{}) (*vc.VerifiableCredential, error) {
	env, ok := value.(hEnvelopeModel)
	if !ok {
		return nil, errors.New("harness: no presentation in envelope")
	}
	idx := -1
	if len(env.creds) == 1 && mapping.Path == "$.verifiableCredential" {
		idx = 0
	}
	if len(env.creds) >= 2 {
		for i := range env.creds {
			if mapping.Path == fmt.Sprintf("$.verifiableCredential[%d]", i) {
				idx = i
			}
		}
	}
	if idx < 0 {
		return nil, errors.New("harness: unable to get value for path")
	}
	c := env.creds[idx]
	if mapping.Format != c.Format() || mapping.PathNested != nil {
		return nil, errors.New("harness: value at path can't be decoded using format")
	}
	return &c, nil
}

var hSignerFails bool

func hPresentationSigner(presentation vc.VerifiablePresentation) (*did.DID, error) {
	if hSignerFails {
		return nil, errors.New("harness: unable to derive presentation signer")
	}
	d := did.DID{Method: "web", ID: "holder"}
	return &d, nil
}

func hEnvelope(creds []vc.VerifiableCredential) Envelope {
	return Envelope{
		Presentations: []vc.VerifiablePresentation{{VerifiableCredential: creds}},
		asInterface:   hEnvelopeModel{creds: creds},
	}
}

func hKnownEvalError() bool {
	for _, v := range hVerdicts {
		if v == hEvalError {
			return true
		}
	}
	return false
}

// hWitnessClass labels the path with the (single) witness class its findings belong to. Paths that already
// carry the class of the pick-without-max panic are not examined further for the other classes (keeps the
// (site, class) identities of the findings apart; to be re-examined once that panic is repaired): false.
func hWitnessClass(def PresentationDefinition, creds []vc.VerifiableCredential, duplicate bool) bool {
	class := ""
	switch {
	case duplicate:
		class = "descriptor map names an input descriptor twice"
	case len(def.InputDescriptors) == 0 && len(def.SubmissionRequirements) > 0:
		class = "submission requirements without input descriptors"
	case hKnownEvalError():
		class = "constraint evaluation fails on a credential only the verifier evaluates"
	case hSharedCredential(def, creds):
		class = "a credential satisfies several descriptors"
	default:
		return true
	}
	for _, r := range def.SubmissionRequirements {
		if hPanicsToday(r) {
			vCover("skipped-second-class")
			return false
		}
	}
	vClass(class)
	return true
}

// hCheckAccepted: what the property demands when the verifier accepts submission `sub` for def over the
// presented credentials.
func hCheckAccepted(id string, def PresentationDefinition, presented []vc.VerifiableCredential, sub PresentationSubmission, result map[string]vc.VerifiableCredential) {
	in := make([]bool, len(def.InputDescriptors))
	env := hEnvelopeModel{creds: presented}
	duplicate := false
	seen := make([]bool, len(hDescIDs))
	for _, m := range sub.DescriptorMap {
		if j := hDescIndex(m.Id); j >= 0 {
			duplicate = duplicate || seen[j]
			seen[j] = true
		}
	}
	if !hWitnessClass(def, presented, duplicate) {
		return
	}
	for _, m := range sub.DescriptorMap {
		j := hDescIndex(m.Id)
		vAssert(j >= 0 && j < len(def.InputDescriptors), id+".mapping_names_descriptor: accepted although a mapping names no input descriptor of the definition")
		vAssert(!in[j], id+".surplus_mapping_rejected: accepted although the descriptor map names an input descriptor twice")
		in[j] = true
		c, err := hResolveCredential(nil, m, env)
		vAssert(err == nil, id+".mapping_resolves: accepted although a mapping path does not resolve inside the envelope")
		if err != nil {
			continue
		}
		vAssert(hSatisfies(def, def.InputDescriptors[j], *c), id+".mapped_credential_satisfies_descriptor: accepted although the credential a mapping resolves to does not satisfy the descriptor's constraints (forged/permuted map)")
		first, _ := hFirstMatch(def, m.Id, presented)
		vAssert(first == hCredIndex(*c), id+".mapped_credential_is_selected_one: accepted although a mapping resolves to another credential than the one matching selects for the descriptor")
		got, present := result[m.Id]
		vAssert(present && got.Raw() == c.Raw(), id+".result_is_resolved_credential: the returned credential of a descriptor is not the credential its mapping resolves to")
	}
	vAssert(len(result) == len(sub.DescriptorMap) || duplicate, id+".result_keys_are_mappings: returned map and descriptor map name different descriptors")
	vAssert(hDefinitionHolds(def, in), id+".incomplete_rejected: accepted although the mapped descriptors do not satisfy the definition (missing mapping)")
}

// H12e: PresentationSubmission.Validate (real Resolve loop, Build, Match, CredentialsRequired) for
//   mode honest : the wallet's own submission (Build over the wallet) for the presentation holding exactly the
//                 selected credentials must be accepted, with the same credential per descriptor;
//   mode forged : an arbitrary descriptor map (any ids incl. unknown ones, any paths incl. unresolvable, any
//                 format, 0..d+1 entries) over an arbitrary presentation: accepted => every mapping resolves to
//                 exactly the credential matching selects, no surplus, nothing missing;
//   mode empty  : an envelope without presentation: accepted => the definition needs no credentials.
func H12e() {
	hVerdicts = map[string]int{}
	hVerdictErrs = vParam("eerrs", 0)
	nd := vLen(0, vParam("ed", 2))
	vTag("with_requirements")
	withReqs := vBool()
	vTag("mode")
	mode := vChoice(3)
	var def PresentationDefinition
	if mode == 1 {
		// forged: Validate compares the resolved map with what matching selects; matching over all definitions
		// is H12d/honest mode, so a small family of definitions suffices here
		hAllInGroupA = vParam("fgroups", 0) == 0
		def = hGenDefinition(nd, withReqs, 1, vParam("fshapes", 2), 0, 0)
	} else {
		def = hGenDefinition(nd, withReqs, vParam("ereqs", 1), vParam("eshapes", 3), vParam("enest", 0), 0)
	}
	for _, r := range def.SubmissionRequirements {
		if hPanicsToday(r) {
			vClass("pick without count and max")
			break
		}
	}
	switch mode {
	case 0: // honest wallet
		vCover("honest")
		nv := vLen(0, vParam("ev", 2))
		wallet := hWallet(def, nv)
		builder := def.PresentationSubmissionBuilder()
		builder.AddWallet(did.DID{Method: "web", ID: "holder"}, wallet)
		sub, sign, err := builder.Build("ldp_vp")
		if err != nil {
			vCover("wallet-no-selection")
			return // H12d
		}
		if sign.Empty() {
			vCover("wallet-empty-selection")
			if !hWitnessClass(def, wallet, false) {
				return
			}
			vAssert(len(sub.DescriptorMap) == 0, "H12e.empty_selection_no_mappings: a submission without credentials has mappings")
			vAssert(hDefinitionHolds(def, make([]bool, nd)), "H12e.empty_selection_only_if_nothing_required: the wallet answers with an empty submission although the definition requires credentials")
			return
		}
		vCover("wallet-selection")
		vAssert(len(sub.DescriptorMap) == len(sign.VerifiableCredentials), "H12e.one_mapping_per_credential: number of selected credentials differs from the number of mappings")
		result, err := sub.Validate(hEnvelope(sign.VerifiableCredentials), def)
		if !hWitnessClass(def, wallet, false) {
			return
		}
		vAssert(err == nil, "H12e.own_submission_accepted: the verifier rejects the wallet's own submission for the same definition")
		if err != nil {
			return
		}
		vAssert(len(result) == len(sub.DescriptorMap), "H12e.own_result_keys: the verifier's result does not name the descriptors of the wallet's descriptor map")
		for p, m := range sub.DescriptorMap {
			got, present := result[m.Id]
			vAssert(present && got.Raw() == sign.VerifiableCredentials[p].Raw(), "H12e.agree_on_credential: wallet and verifier pair a descriptor with different credentials")
		}
	case 1: // arbitrary descriptor map
		vCover("forged")
		nv := vLen(1, vParam("ev", 2))
		presented := hWallet(def, nv)
		sub := PresentationSubmission{Id: "s", DefinitionId: def.Id}
		nm := vLen(0, nd+1)
		for k := 0; k < nm; k++ {
			// id, path and format stay symbolic (strings of fixed length with symbolic characters), so that
			// the engine only distinguishes the cases the code under test distinguishes
			m := InputDescriptorMappingObject{}
			vTag("map_id") // 0..nd-1: a descriptor of the definition, nd: an unknown id
			m.Id = string([]byte{'d', byte('0' + vRange(0, nd))})
			if nv == 1 {
				vTag("map_path_unresolvable") // "$.verifiableCredential" or something that does not resolve
				last := byte(vIte(vBool(), 'x', 'l'))
				m.Path = "$.verifiableCredentia" + string([]byte{last})
			} else {
				vTag("map_path_index") // 0..nv-1: a presented credential, nv: out of range
				m.Path = "$.verifiableCredential[" + string([]byte{byte('0' + vRange(0, nv))}) + "]"
			}
			vTag("map_format_jwt")
			jwt := vBool()
			f := make([]byte, len(vc.JWTCredentialProofFormat)) // ldp_vc / jwt_vc: same length
			for i := range f {
				f[i] = byte(vIte(jwt, int(vc.JWTCredentialProofFormat[i]), int(vc.JSONLDCredentialProofFormat[i])))
			}
			m.Format = string(f)
			sub.DescriptorMap = append(sub.DescriptorMap, m)
		}
		vTag("signer_fails")
		hSignerFails = vBool()
		result, err := sub.Validate(hEnvelope(presented), def)
		if err != nil {
			vCover("rejected")
			vAssert(result == nil, "H12e.rejected_no_result: a rejected submission yields credentials")
			return
		}
		vCover("accepted")
		vAssert(!hSignerFails, "H12e.signer_needed: accepted although the presentation signer cannot be derived")
		hCheckAccepted("H12e", def, presented, sub, result)
	default: // no presentation at all
		vCover("empty-envelope")
		sub := PresentationSubmission{Id: "s", DefinitionId: def.Id}
		result, err := sub.Validate(Envelope{asInterface: []interface{}{}}, def)
		if err == nil {
			vCover("empty-accepted")
			if !hWitnessClass(def, nil, false) {
				return
			}
			vAssert(len(result) == 0, "H12e.empty_envelope_no_result: credentials out of an empty envelope")
			vAssert(hDefinitionHolds(def, make([]bool, nd)), "H12e.empty_envelope_only_if_nothing_required: an empty envelope is accepted although the definition requires credentials")
		}
	}
}

func H12e_twin() {
	hVerdicts = map[string]int{}
	def := PresentationDefinition{InputDescriptors: []*InputDescriptor{
		{Id: "d0", Constraints: &Constraints{}}, {Id: "d1", Constraints: &Constraints{}}}}
	presented := []vc.VerifiableCredential{hCred(0, false), hCred(1, true)}
	sub := PresentationSubmission{DescriptorMap: []InputDescriptorMappingObject{
		{Id: "d1", Path: "$.verifiableCredential[0]", Format: vc.JSONLDCredentialProofFormat},
		{Id: "d0", Path: "$.verifiableCredential[1]", Format: vc.JWTCredentialProofFormat}}}
	result, err := sub.Validate(hEnvelope(presented), def)
	if err == nil && len(result) == 2 && result["d0"].Raw() == "raw-c1" {
		vAssert(false, "H12e_twin.reach: reachable")
	}
}
