//go:build verif

package pe

import (
	"errors"
	"fmt"

	"github.com/nuts-foundation/go-did/vc"
)

//verif:stub github.com/nuts-foundation/nuts-node/vcr/pe.matchCredential => hMatchCredential
//verif:stub github.com/nuts-foundation/nuts-node/vcr/pe.vcEqual => hVCEqual

// ---- constraint matching as a verdict matrix -----------------------------------------------------
// Whether credential c satisfies the constraints of input descriptor d (matchCredential: jsonpath, filters,
// JSON re-marshalling - H12b/H12c) is a nondeterministic but functional verdict per (d, c):
// no | yes | evaluation error. Verdicts are drawn when first asked for.

const (
	hNo = iota
	hYes
	hEvalError
)

var (
	hVerdicts     map[string]int
	hVerdictErrs  int // 1: evaluation errors are possible
	hVerdictCalls int
)

func hVerdict(d, c string) int {
	k := d + "|" + c
	if v, ok := hVerdicts[k]; ok {
		return v
	}
	vTag("verdict_" + d + "_" + c)
	n := 2
	if d == "d0" {
		n += hVerdictErrs // evaluation errors: first descriptor only (keeps the matrix small)
	}
	v := vChoice(n)
	hVerdicts[k] = v
	return v
}

// hKnownVerdict: the verdict if it has been asked for before (never draws).
func hKnownVerdict(d, c string) (int, bool) {
	v, ok := hVerdicts[d+"|"+c]
	return v, ok
}

func hMatchCredential(descriptor InputDescriptor, credential vc.VerifiableCredential) (bool, error) {
	hVerdictCalls++
	switch hVerdict(descriptor.Id, hTag(credential)) {
	case hYes:
		return true, nil
	case hNo:
		return false, nil
	}
	return false, errors.New("harness: constraint evaluation failed")
}

// Format designations: the harness designates {"ldp_vc": {"proof_type": [<name>]}} and presents JSON-LD
// credentials with a proof, so that the real matchFormat runs and asks matchProofType (stub in H12f's file:
// a functional verdict per (proof type, credential)). A designation is identified by its proof type name.
func hFormatDesignation(name string) *PresentationDefinitionClaimFormatDesignations {
	return &PresentationDefinitionClaimFormatDesignations{vc.JSONLDCredentialProofFormat: {"proof_type": {name}}}
}

func hFormatName(f *PresentationDefinitionClaimFormatDesignations) string {
	return (*f)[vc.JSONLDCredentialProofFormat]["proof_type"][0]
}

// hFormatOK: reference side of a format designation (may draw the verdict).
func hFormatOK(f *PresentationDefinitionClaimFormatDesignations, c vc.VerifiableCredential) bool {
	return f == nil || hVerdict("proof-type-"+hFormatName(f), hTag(c)) == hYes
}

func hHasFormats(def PresentationDefinition) bool {
	if def.Format != nil {
		return true
	}
	for _, d := range def.InputDescriptors {
		if d.Format != nil {
			return true
		}
	}
	return false
}

// hWallet: nv distinct credentials; alternating JSON-LD / JWT, or - if the definition designates formats -
// JSON-LD credentials with a proof (matchFormat on JWT credentials parses the JWS: out of scope).
func hWallet(def PresentationDefinition, nv int) []vc.VerifiableCredential {
	wallet := make([]vc.VerifiableCredential, nv)
	for i := range wallet {
		if hHasFormats(def) {
			wallet[i] = hCred(i, false)
			wallet[i].Proof = []interface{}{map[string]interface{}{}}
		} else {
			wallet[i] = hCred(i, i%2 == 1)
		}
	}
	return wallet
}

// hSatisfies: credential c is known to satisfy descriptor d of def: constraints, the definition's format
// designation and the descriptor's.
func hSatisfies(def PresentationDefinition, d *InputDescriptor, c vc.VerifiableCredential) bool {
	if v, asked := hKnownVerdict(d.Id, hTag(c)); !asked || v != hYes {
		return false
	}
	for _, f := range []*PresentationDefinitionClaimFormatDesignations{def.Format, d.Format} {
		if f != nil {
			if v, asked := hKnownVerdict("proof-type-"+hFormatName(f), hTag(c)); !asked || v != hYes {
				return false
			}
		}
	}
	return true
}

// hVCEqual: vcEqual compares the JSON serialisations; harness credentials differ exactly in id and raw form.
func hVCEqual(a, b vc.VerifiableCredential) bool {
	return hTag(a) == hTag(b) && a.Raw() == b.Raw()
}

var hCredTags = []string{"c0", "c1", "c2", "c3"}
var hDescIDs = []string{"d0", "d1", "d2", "d3"}

// hCred: credential number i of a wallet/presentation: identity in the id, distinct raw form, a format.
func hCred(i int, jwt bool) vc.VerifiableCredential {
	c := hVC(hCredTags[i])
	vSetField(&c, "raw", "raw-"+hCredTags[i])
	if jwt {
		vSetField(&c, "format", vc.JWTCredentialProofFormat)
	} else {
		vSetField(&c, "format", vc.JSONLDCredentialProofFormat)
	}
	return c
}

func hCredIndex(c vc.VerifiableCredential) int {
	for i, t := range hCredTags {
		if hTag(c) == t {
			return i
		}
	}
	return -1
}

func hDescIndex(id string) int {
	for i, t := range hDescIDs {
		if id == t {
			return i
		}
	}
	return -1
}

// ---- presentation definitions ---------------------------------------------------------------------

func hNum(name string, lo, hi int) *int {
	vTag(name)
	if m := vParam("num", 2); hi > m {
		hi = m
	}
	x := vRange(lo, hi)
	return &x
}

// hGenRule: the rule part of a submission requirement; the first `shapes` of:
// all | pick count | pick min max | pick min | pick max | pick (no number) | unknown rule
func hGenRule(r *SubmissionRequirement, shapes int) {
	vTag("rule_shape")
	switch vChoice(shapes) {
	case 0:
		r.Rule = "all"
	case 1:
		r.Rule = "pick"
		r.Count = hNum("count", 1, 3)
	case 2:
		r.Rule = "pick"
		r.Min = hNum("min", 0, 3)
		r.Max = hNum("max", 1, 3)
		vAssume(*r.Min <= *r.Max) // min > max and max = 0: H12a
	case 3:
		r.Rule = "pick"
		r.Min = hNum("min", 0, 3)
	case 4:
		r.Rule = "pick"
		r.Max = hNum("max", 1, 3)
	case 5:
		r.Rule = "pick"
	default:
		r.Rule = "any"
	}
}

var hGroupNames = []string{"A", "B"}

// hGenRequirement: rule + source. Source: from A | from B | from_nested (1..nest children, each `from`) |
// (malformed=1) both from and from_nested | neither.
func hGenRequirement(name string, shapes, nest, malformed int) *SubmissionRequirement {
	cshapes := vParam("cshapes", 2) // rule shapes of nested requirements
	r := &SubmissionRequirement{Name: name}
	hGenRule(r, shapes)
	n := 2
	if nest > 0 {
		n = 3
	}
	if malformed > 0 {
		n = 5
	}
	vTag("source")
	src := vChoice(n)
	if nest == 0 && src >= 2 {
		src++
	}
	switch src {
	case 0, 1:
		r.From = hGroupNames[src]
	case 2:
		for i, k := 0, vLen(vParam("nestmin", 2), nest); i < k; i++ {
			r.FromNested = append(r.FromNested, hGenRequirement(name+"."+string(rune('0'+i)), cshapes, 0, 0))
		}
	case 3:
		r.From = "A"
		r.FromNested = []*SubmissionRequirement{{Name: "x", Rule: "all", From: "B"}}
	default:
	}
	return r
}

// hAllInGroupA: the small family of definitions (H12e forged mode): every descriptor is a member of group A
// only (no choice), no format designations.
var hAllInGroupA bool

func hHasGroup(d *InputDescriptor, g string) bool {
	for _, x := range d.Group {
		if x == g {
			return true
		}
	}
	return false
}

// hGenDefinition: nd input descriptors d0.. (constraints are the verdict matrix; no format restriction)
// and - if withReqs - group memberships (subset of {A,B} per descriptor) and 1..reqs submission requirements.
func hGenDefinition(nd int, withReqs bool, reqs, shapes, nest, malformed int) PresentationDefinition {
	def := PresentationDefinition{Id: "def"}
	// 1: the definition and descriptor d0 may designate formats - without submission requirements only
	// (matchConstraints, where formats are evaluated, is the same code in both modes)
	formats := vParam("formats", 1)
	if withReqs || hAllInGroupA {
		formats = 0
	}
	if formats > 0 && nd > 0 {
		vTag("definition_format")
		if vBool() {
			def.Format = hFormatDesignation("def")
		}
	}
	if withReqs {
		if nd >= 3 {
			// the largest descriptor count is combined with the first shapes3 rule shapes only (and no malformed sources)
			if s3 := vParam("shapes3", 2); shapes > s3 {
				shapes = s3
			}
			malformed = 0
		}
		for i, k := 0, vLen(1, reqs); i < k; i++ {
			def.SubmissionRequirements = append(def.SubmissionRequirements, hGenRequirement("r"+string(rune('0'+i)), shapes, nest, malformed))
		}
	}
	used := map[string]bool{}
	for _, r := range def.SubmissionRequirements {
		used[r.From] = true
		for _, c := range r.FromNested {
			used[c.From] = true
		}
	}
	for j := 0; j < nd; j++ {
		d := &InputDescriptor{Id: hDescIDs[j], Constraints: &Constraints{}}
		if formats > 0 && j == 0 {
			vTag("descriptor_format")
			if vBool() {
				d.Format = hFormatDesignation(d.Id)
			}
		}
		if withReqs && hAllInGroupA {
			d.Group = []string{"A"}
		} else if withReqs {
			// any subset of {A,B}; a group no requirement refers to (=> "group is required but not available")
			// only for the first descriptor
			options := [][]string{nil}
			for _, g := range [][]string{{"A"}, {"B"}, {"A", "B"}} {
				ok := j == 0
				if !ok {
					ok = true
					for _, x := range g {
						ok = ok && used[x]
					}
				}
				if ok {
					options = append(options, g)
				}
			}
			vTag("groups_" + d.Id)
			d.Group = options[vChoice(len(options))]
		}
		def.InputDescriptors = append(def.InputDescriptors, d)
	}
	return def
}

func hPanicsToday(r *SubmissionRequirement) bool {
	if r.Rule == "pick" && r.Count == nil && r.Max == nil {
		return true
	}
	for _, n := range r.FromNested {
		if hPanicsToday(n) {
			return true
		}
	}
	return false
}

// ---- reference reading of the definition ---------------------------------------------------------

func hMalformed(r *SubmissionRequirement) bool {
	return (r.From != "") == (len(r.FromNested) > 0) || !(r.Rule == "all" || r.Rule == "pick")
}

// hRuleHolds: rule r over n members of which k are present (lower bounds only: all members / at least
// count / at least min; the exact count and the upper bound of one rule application are H12a's subject).
func hRuleHolds(r *SubmissionRequirement, k, n int) bool {
	switch {
	case r.Rule == "all":
		return k == n
	case r.Count != nil:
		return k >= *r.Count
	case r.Min != nil:
		return k >= *r.Min
	}
	return true
}

// hRequirementHolds: does the set of input descriptors `in` (by index) satisfy requirement r of def?
// A nested requirement counts as a present member if it holds and at least one descriptor of it is in the
// set (the implementation's documented reading: "if it's non-empty then it can be used for counting").
func hRequirementHolds(def PresentationDefinition, r *SubmissionRequirement, in []bool) (holds, nonEmpty bool) {
	if hMalformed(r) {
		return false, false
	}
	k, n := 0, 0
	if r.From != "" {
		for j, d := range def.InputDescriptors {
			if hHasGroup(d, r.From) {
				n++
				if in[j] {
					k++
				}
			}
		}
	} else {
		for _, c := range r.FromNested {
			n++
			if h, ne := hRequirementHolds(def, c, in); h && ne {
				k++
			}
		}
	}
	holds = hRuleHolds(r, k, n)
	return holds, holds && k > 0
}

// hDefinitionHolds: the whole definition over a set of descriptors: without submission requirements every
// descriptor is required; with them every top-level requirement must hold.
func hDefinitionHolds(def PresentationDefinition, in []bool) bool {
	if len(def.SubmissionRequirements) == 0 {
		for j := range def.InputDescriptors {
			if !in[j] {
				return false
			}
		}
		return true
	}
	for _, r := range def.SubmissionRequirements {
		if h, _ := hRequirementHolds(def, r, in); !h {
			return false
		}
	}
	return true
}

// hDefinitionBroken: definitions for which matching has no meaning (an error of any kind is expected):
// malformed top-level requirement, or a descriptor group no requirement refers to.
func hDefinitionBroken(def PresentationDefinition) bool {
	if len(def.SubmissionRequirements) == 0 {
		return false
	}
	used := map[string]bool{}
	var walk func(r *SubmissionRequirement)
	walk = func(r *SubmissionRequirement) {
		if r.From != "" {
			used[r.From] = true
		}
		for _, c := range r.FromNested {
			walk(c)
		}
	}
	for _, r := range def.SubmissionRequirements {
		if hMalformed(r) {
			return true
		}
		walk(r)
	}
	for _, d := range def.InputDescriptors {
		for _, g := range d.Group {
			if !used[g] {
				return true
			}
		}
	}
	return false
}

// hFirstMatch: the credential (index into creds) matching descriptor d that matching selects: the first
// one with verdict yes. evalError: an evaluation error comes first.
func hFirstMatch(def PresentationDefinition, d string, creds []vc.VerifiableCredential) (idx int, evalError bool) {
	var desc *InputDescriptor
	for _, x := range def.InputDescriptors {
		if x.Id == d {
			desc = x
		}
	}
	for i, c := range creds {
		switch hVerdict(d, hTag(c)) {
		case hYes:
			if hFormatOK(def.Format, c) && hFormatOK(desc.Format, c) {
				return i, false
			}
		case hEvalError:
			return -1, true
		}
	}
	return -1, false
}

// hSharedCredential: some credential is known to satisfy two descriptors (Validate documents that it
// "assumes credentials of the presentations only map in 1 way to the input descriptors").
func hSharedCredential(def PresentationDefinition, creds []vc.VerifiableCredential) bool {
	for _, c := range creds {
		n := 0
		for _, d := range def.InputDescriptors {
			if hSatisfies(def, d, c) {
				n++
			}
		}
		if n > 1 {
			return true
		}
	}
	return false
}

// hCheckSelection: what the property demands of a selection (credentials + descriptor map) for def over wallet.
func hCheckSelection(id string, def PresentationDefinition, wallet []vc.VerifiableCredential, vcs []vc.VerifiableCredential, mappings []InputDescriptorMappingObject) {
	vAssert(len(vcs) == len(mappings), id+".one_mapping_per_credential: number of selected credentials differs from the number of mappings")
	in := make([]bool, len(def.InputDescriptors))
	for p, m := range mappings {
		j := hDescIndex(m.Id)
		vAssert(j >= 0 && j < len(def.InputDescriptors), id+".mapping_names_descriptor: a mapping names no input descriptor of the definition")
		vAssert(!in[j], id+".descriptor_mapped_once: an input descriptor is mapped twice")
		in[j] = true
		vAssert(m.Path == fmt.Sprintf("$.verifiableCredential[%d]", p), id+".path_is_position: mapping path index is not the position of the mapping in the returned list")
		vAssert(m.PathNested == nil, id+".no_nesting: unexpected nested path")
		if p < len(vcs) {
			c := vcs[p]
			i := hCredIndex(c)
			vAssert(i >= 0 && i < len(wallet) && c.Raw() == wallet[i].Raw(), id+".credential_from_wallet: selected credential is not a wallet credential")
			vAssert(hSatisfies(def, def.InputDescriptors[j], c), id+".mapped_credential_satisfies_descriptor: the credential at the mapped position does not satisfy the descriptor's constraints and format designations")
			vAssert(m.Format == c.Format(), id+".mapping_format: mapping format is not the credential's format")
		}
	}
	if hSharedCredential(def, wallet) {
		for _, r := range def.SubmissionRequirements {
			if hPanicsToday(r) {
				vCover("skipped-shared-credential-with-pick-without-max")
				return // keeps finding identities (site, class) apart; re-examined once pick without max is repaired
			}
		}
		vClass("a credential satisfies several descriptors")
	}
	vAssert(hDefinitionHolds(def, in), id+".selection_complete: the mapped descriptors do not satisfy the definition's submission requirements (partial selection)")
}

// H12d: PresentationDefinition.Match (matchBasic / matchSubmissionRequirements, matchConstraints,
// SubmissionRequirement.match/from/fromNested/groups, apply, deduplicate - all real) over the verdict matrix.
func H12d() {
	hVerdicts = map[string]int{}
	hVerdictErrs = vParam("errs", 1)
	nd := vLen(0, vParam("d", 2))
	nv := vLen(0, vParam("v", 2))
	vTag("with_requirements")
	withReqs := vBool()
	def := hGenDefinition(nd, withReqs, vParam("reqs", 1), vParam("shapes", 4), vParam("nest", 2), vParam("malformed", 0))
	wallet := hWallet(def, nv)
	if withReqs {
		vCover("submission-requirements")
		for _, r := range def.SubmissionRequirements {
			if hPanicsToday(r) {
				vClass("pick without count and max")
				break
			}
		}
	} else {
		vCover("basic")
	}

	vcs, mappings, err := def.Match(wallet)

	// reference: which descriptors can be served at all
	avail := make([]bool, nd)
	evalError := false
	for j, d := range def.InputDescriptors {
		i, e := hFirstMatch(def, d.Id, wallet)
		if e {
			evalError = true
			break
		}
		avail[j] = i >= 0
	}
	if err != nil {
		vCover("no-selection")
		vAssert(vcs == nil && mappings == nil, "H12d.error_has_no_partial_result: an error is accompanied by a (partial) selection")
		if evalError {
			vCover("evaluation-error")
			return
		}
		if hDefinitionBroken(def) {
			vCover("broken-definition")
			return
		}
		vAssert(errors.Is(err, ErrNoCredentials), "H12d.incomplete_is_no_credentials: a missing selection is not reported as ErrNoCredentials")
		vAssert(!hDefinitionHolds(def, avail), "H12d.selection_exists_but_error: the wallet can satisfy the definition but no selection is returned")
		return
	}
	vCover("selection")
	vAssert(!evalError, "H12d.evaluation_error_reported: a constraint evaluation error is swallowed")
	if hDefinitionBroken(def) {
		// tolerated: e.g. a malformed requirement that is never evaluated
		vCover("broken-definition-selection")
	}
	vAssert(hDefinitionHolds(def, avail) || hDefinitionBroken(def), "H12d.no_selection_exists_but_result: the wallet cannot satisfy the definition but a selection is returned")
	hCheckSelection("H12d", def, wallet, vcs, mappings)
	if len(mappings) >= 2 {
		vCover("two-mappings")
	}
}

func H12d_twin() {
	hVerdicts = map[string]int{}
	c := 1
	def := PresentationDefinition{
		InputDescriptors: []*InputDescriptor{
			{Id: "d0", Group: []string{"A"}, Constraints: &Constraints{}},
			{Id: "d1", Group: []string{"B"}, Constraints: &Constraints{}},
		},
		SubmissionRequirements: []*SubmissionRequirement{{Rule: "all", From: "B"}, {Rule: "pick", Count: &c, From: "A"}},
	}
	vcs, mappings, err := def.Match([]vc.VerifiableCredential{hCred(0, false), hCred(1, true)})
	if err == nil && len(vcs) == 2 && len(mappings) == 2 && mappings[0].Id == "d1" && hTag(vcs[0]) == "c0" && hVerdictCalls == 3 {
		vAssert(false, "H12d_twin.reach: reachable")
	}
}
