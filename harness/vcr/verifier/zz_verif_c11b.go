//go:build verif

package verifier

import (
	"time"

	ssi "github.com/nuts-foundation/go-did"
	"github.com/nuts-foundation/go-did/vc"
	"github.com/nuts-foundation/nuts-node/vcr/credential"
	"github.com/nuts-foundation/nuts-node/vdr/resolver"
)

// ---------------------------------------------------------------------------------------------
// H11b: issuer discipline of RegisterRevocation (real, with the real credential.ValidateRevocation).
//
// subject, issuer and verification method are URI values as url.Parse produces them for "did:<opaque>[#<fragment>]":
// Scheme "did", Opaque = arbitrary bytes without '#' (url.Parse splits at the first '#'), Fragment from a pool that
// includes a fragment containing '#'. The three opaque parts are independent symbolic strings of 0..n bytes.

func hDIDURI(tag string, n int, fragments []string) (ssi.URI, string, string) {
	var u ssi.URI
	vTag(tag + ".opaque")
	opaque := vString(vLen(0, n))
	hNoHash(opaque)
	fragment := fragments[vChoice(len(fragments))]
	u.Scheme = "did"
	u.Opaque = opaque
	u.Fragment = fragment
	return u, opaque, fragment
}

func H11b() {
	w := hNewWorld()
	n := vParam("revbytes", 3)
	var r credential.Revocation
	var subjOpaque, subjFrag, issOpaque, issFrag, vmOpaque string
	r.Subject, subjOpaque, subjFrag = hDIDURI("subject", n, []string{"", "1", "1#2"})
	r.Issuer, issOpaque, issFrag = hDIDURI("issuer", n, []string{"", "1"})
	hasContext, hasType := vBool(), vBool()
	if hasContext {
		r.Context = []ssi.URI{ssi.MustParseURI("https://nuts.nl/credentials/v1")}
	}
	if hasType {
		r.Type = []ssi.URI{credential.RevocationType}
	} else {
		r.Type = []ssi.URI{ssi.MustParseURI("SomethingElse")}
	}
	date := hSymSecond("date")
	r.Date = date.time()
	dateIsZero := date.sec == -62135596800
	hasProof := vBool()
	if hasProof {
		p := &vc.JSONWebSignature2020Proof{Jws: "h..s"}
		p.Type = ssi.JsonWebSignature2020
		p.ProofPurpose = "assertionMethod"
		p.Created = r.Date
		p.VerificationMethod, vmOpaque, _ = hDIDURI("vm", n, []string{"", "key-1"})
		r.Proof = p
	}
	vTag("storeFails")
	w.storeFails = vBool()
	w.revocation = &r
	now := hSymSecond("clock").time()
	hClock = &now

	sut := hNewVerifier(w, nil)
	err := sut.RegisterRevocation(r)

	// --- reference, on the parts of the identifiers: the credential id is <issuer DID>#<fragment>
	wellFormed := hAll(subjFrag != "", !dateIsZero, hasProof, hOr(!hasContext, hasType))
	issuedByCredentialIssuer := issFrag == "" && issOpaque == subjOpaque
	signedByIssuer := hasProof && issFrag == "" && vmOpaque == issOpaque
	stored := len(w.stored) == 1

	if stored {
		vCover("stored")
		vAssert(err == nil || w.storeFails, "H11b.stored_reports_success: revocation stored but an error was returned")
		vAssert(wellFormed, "H11b.well_formed: stored a revocation without subject fragment, date, proof or type")
		vAssert(issuedByCredentialIssuer, "H11b.issuer_is_credential_issuer: stored a revocation whose issuer is not the issuer part of the credential id")
		vAssert(signedByIssuer, "H11b.signed_by_issuer_key: stored a revocation signed with a key that is not the issuer's")
		// the same, on the strings the node reports
		vAssert(hBeforeHash(r.Subject.String()) == r.Issuer.String(), "H11b.issuer_is_subject_prefix: issuer is not the part of the subject before the first '#'")
		vAssert(hBeforeHash(r.Proof.VerificationMethod.String()) == r.Issuer.String(), "H11b.issuer_is_key_prefix: issuer is not the part of the verification method before the first '#'")
		vAssert(len(w.keyAsked) == 1, "H11b.one_key_lookup: not exactly one key lookup")
		k := w.keyAsked[0]
		vAssert(k.keyID == r.Proof.VerificationMethod.String(), "H11b.key_is_verification_method: the key resolved is not the proof's verification method")
		vAssert(k.md != nil && k.md.ResolveTime != nil && k.md.ResolveTime.Equal(r.Date), "H11b.key_resolved_at_revocation_date: key not resolved at the revocation date")
		vAssert(k.rel == resolver.AssertionMethod, "H11b.key_for_assertion: key not resolved as assertion key")
		vAssert(hAnd(w.keyOK, w.cryptoOK), "H11b.signature_verified: stored although key resolution or signature verification failed")
		vAssert(len(w.ldVerified) == 1 && w.ldVerified[0].key == k.key, "H11b.verified_with_resolved_key: signature not verified with the resolved key")
		vAssert(w.ldVerified[0].p.VerificationMethod.String() == r.Proof.VerificationMethod.String(), "H11b.verified_proof_is_revocation_proof: the proof verified is not the revocation's proof")
		s := w.stored[0]
		vAssert(s.Subject.String() == r.Subject.String() && s.Issuer.String() == r.Issuer.String(), "H11b.stored_as_received: stored revocation differs from the received one")
		if issOpaque == "" {
			vCover("stored:empty-did")
		}
		return
	}
	vCover("not-stored")
	vAssert(err != nil, "H11b.reject_reports_error: revocation neither stored nor rejected with an error")
	valid := hAll(wellFormed, issuedByCredentialIssuer, signedByIssuer, w.keyOK, w.cryptoOK, !w.storeFails)
	vAssert(!valid, "H11b.valid_is_stored: a well-formed revocation signed by the credential issuer was rejected")
}

func H11b_twin() {
	w := hNewWorld()
	var r credential.Revocation
	r.Subject, _, _ = hDIDURI("subject", 2, []string{"1"})
	r.Issuer, _, _ = hDIDURI("issuer", 2, []string{""})
	r.Date = time.Unix(1700000000, 0)
	p := &vc.JSONWebSignature2020Proof{Jws: "h..s"}
	p.VerificationMethod, _, _ = hDIDURI("vm", 2, []string{"key-1"})
	r.Proof = p
	w.revocation = &r
	if hNewVerifier(w, nil).RegisterRevocation(r) == nil && len(w.stored) == 1 && len(r.Issuer.Opaque) == 2 {
		vAssert(false, "H11b_twin.reach: reachable")
	}
}
