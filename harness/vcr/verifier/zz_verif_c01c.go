//go:build verif

package verifier

import (
	"errors"
	"time"

	ssi "github.com/nuts-foundation/go-did"
	"github.com/nuts-foundation/go-did/did"
	"github.com/nuts-foundation/go-did/vc"
)

// ---------------------------------------------------------------------------------------------
// H01c: doVerifyVP (real), with the real credential.PresenterIsCredentialSubject / PresentationSigner /
// ResolveSubjectDID / ParseLDProof, VerifyVPSignature, jsonldProof / jwtSignature, did.ParseDIDURL.
//
// DIDs are did:web:<one byte>. The presentation is signed by did:web:a (or by another party / nobody / junk, see
// hWorld.vmKind); the subject and issuer of every credential and the holder are did:web:<symbolic byte>, so "equals
// the signer" is a symbolic fact and every party other than the signer is covered by one symbolic value.

const hMaxVCs = 3

// hSubjectSlot stands for the credentialSubject member of credential i; materialised from the world on demand.
type hSubjectSlot struct{ i int }

type hVPWorld struct {
	// credentialSubject of credential i: 0 = subject(s) with the one id did:web:<subjectByte>; 1 = SubjectDID fails
	// (no subject, no id, differing ids, or an id that is not a DID - indistinguishable for the caller)
	subjectKind [hMaxVCs]int
	subjectByte [hMaxVCs]byte
	subjectSeen [hMaxVCs]bool
	// verdict of Verifier.Verify on credential i
	vcOK  [hMaxVCs]bool
	calls []hVerifyCall
}

type hVerifyCall struct {
	id             string
	allowUntrusted bool
	checkSignature bool
	validAt        *time.Time
}

var hVP *hVPWorld

func hNewVPWorld() *hVPWorld {
	v := &hVPWorld{}
	for i := 0; i < hMaxVCs; i++ {
		vTag("subject.kind")
		v.subjectKind[i] = vRange(0, 1)
		vTag("subject.did")
		v.subjectByte[i] = hLowerByte()
		vTag("vc.valid")
		v.vcOK[i] = vBool()
	}
	hVP = v
	return v
}

// a byte that can be the method-specific id of a DID
func hLowerByte() byte {
	b := vU8()
	vAssume(b >= 'a' && b <= 'z')
	return b
}

func hWebDID(b byte) did.DID {
	s := string([]byte{b})
	return did.DID{Method: "web", ID: s, DecodedID: s}
}

func (w *hWorld) subjectOf(i int) (*did.DID, error) {
	v := hVP
	v.subjectSeen[i] = true
	if vConc(v.subjectKind[i]) == 0 {
		d := hWebDID(v.subjectByte[i])
		return &d, nil
	}
	return nil, errors.New("unable to get subject DID from VC: credential subjects have no ID")
}

type hVCVerifier struct {
	Verifier
	v *hVPWorld
}

func (f hVCVerifier) Verify(c vc.VerifiableCredential, allowUntrusted bool, checkSignature bool, validAt *time.Time) error {
	i := int(c.ID.Opaque[2] - '0')
	f.v.calls = append(f.v.calls, hVerifyCall{c.ID.String(), allowUntrusted, checkSignature, validAt})
	if f.v.vcOK[i] {
		return nil
	}
	return errors.New("harness: credential does not verify")
}

func hOpaqueDIDURI(b byte) ssi.URI {
	u := ssi.URI{}
	u.Scheme = "did"
	u.Opaque = "web:" + string([]byte{b})
	return u
}

func H01c() {
	w := hNewWorld()
	v := hNewVPWorld()
	w.signer = "did:web:a"

	var vp vc.VerifiablePresentation
	// proof format as set by the parser
	format := vChoice(3)
	nVPProofs := 1
	switch format {
	case 0:
		vCover("vp:jsonld")
		vSetField(&vp, "format", vc.JSONLDPresentationProofFormat)
		nVPProofs = vLen(0, 2)
		for i := 0; i < nVPProofs; i++ {
			vp.Proof = append(vp.Proof, hProofSlot{})
		}
	case 1:
		vCover("vp:jwt")
		vSetField(&vp, "format", vc.JWTPresentationProofFormat)
		vSetField(&vp, "raw", "h.p.s")
	case 2:
		vCover("vp:unset")
	}
	n := vLen(0, vParam("vcs", 2))
	issuerByte := make([]byte, n)
	hasProof := make([]bool, n)
	for i := 0; i < n; i++ {
		var c vc.VerifiableCredential
		id := ssi.URI{}
		id.Scheme = "urn"
		id.Opaque = "c:" + string([]byte{byte('0' + i)})
		c.ID = &id
		vTag("issuer.did")
		issuerByte[i] = hLowerByte()
		c.Issuer = hOpaqueDIDURI(issuerByte[i])
		c.CredentialSubject = []interface{}{hSubjectSlot{i}}
		hasProof[i] = vBool()
		if hasProof[i] {
			c.Proof = []interface{}{hProofSlot{}}
		}
		vp.VerifiableCredential = append(vp.VerifiableCredential, c)
	}
	hasHolder := vBool()
	var holderByte byte
	if hasHolder {
		vTag("holder.did")
		holderByte = hLowerByte()
		h := hOpaqueDIDURI(holderByte)
		vp.Holder = &h
	}
	vTag("verifyVCs")
	verifyVCs := vBool()
	vTag("allowUntrusted")
	allowUntrusted := vBool()
	var validAt *time.Time
	nowI := hSymSecond("clock")
	now := nowI.time()
	hClock = &now
	at := nowI
	if vBool() {
		ai := hSymSecond("validAt")
		t := ai.time()
		validAt = &t
		at = ai
	}

	if vParam("proofexp", 1) == 0 {
		vAssume(!w.proofHasExpires)
	}

	sut := hNewVerifier(w, nil)
	got, err := sut.doVerifyVP(hVCVerifier{v: v}, vp, verifyVCs, allowUntrusted, validAt)

	// --- reference
	vmKind := w.vmKind
	// who signed: a key of did:web:a (kinds 0, 3), of did:web:mallory (kind 1), or no parseable signer
	signedByA := hOr(vmKind == 0, vmKind == 3)
	signedByKnownParty := hOr(signedByA, vmKind == 1)
	if format == 0 {
		signedByKnownParty = hAnd(signedByKnownParty, nVPProofs == 1)
	}
	if format == 2 {
		signedByKnownParty = false
	}
	// VP signature verdict (key binding is implied: the expected signer is derived from the key id)
	proofInWindow := hAnd(hGE(at, 5, w.proofCreated), hOr(!w.proofHasExpires, hGE(w.proofExpires, 5, at)))
	sigOK := false
	switch format {
	case 0:
		sigOK = hAll(proofInWindow, w.keyOK, w.cryptoOK)
	case 1:
		sigOK = hAll(w.headersOK, w.kidAlgOK, w.keyOK, w.algSupported, w.jwxOK)
	}

	if err == nil {
		vCover("accepted")
		vAssert(signedByKnownParty, "H01c.signer_known: accepted a presentation whose signer cannot be determined")
		vAssert(sigOK, "H01c.vp_signature_ok: accepted a presentation whose signature check fails")
		vAssert(len(w.keyAsked) == 1, "H01c.one_key_lookup: not exactly one key lookup for the presentation signature")
		k := w.keyAsked[0]
		vAssert(hSameTimePtr(k.md.ResolveTime, validAt), "H01c.key_resolved_at_validation_time: presentation key resolved at another time than the validation time")
		for i := 0; i < n; i++ {
			vAssert(v.subjectSeen[i], "H01c.every_subject_examined: accepted without examining the subject of every credential")
			subjectIsSigner := hAll(signedByA, v.subjectKind[i] == 0, v.subjectByte[i] == 'a')
			vAssert(subjectIsSigner, "H01c.signer_is_subject_of_every_credential: accepted a presentation that is not signed by the subject of every credential")
			vAssert(hBeforeHash(k.keyID) == "did:web:a", "H01c.key_of_subject: the presentation key is not a key of the credential subject")
		}
		if n > 0 && hasHolder {
			vAssert(holderByte == 'a', "H01c.holder_is_subject: accepted a holder that differs from the credential subject")
		}
		if n == 0 && hasHolder && (vmKind == 1 || holderByte != 'a') {
			vCover("empty-vp-foreign-holder")
		}
		if verifyVCs {
			vCover("accepted-with-vcs")
			vAssert(len(v.calls) == n, "H01c.each_credential_verified_once: not every credential was verified exactly once")
			for i := 0; i < n && i < len(v.calls); i++ {
				c := v.calls[i]
				vAssert(c.id == vp.VerifiableCredential[i].ID.String(), "H01c.verified_in_order: credential verified is not the presented one")
				vAssert(v.vcOK[i], "H01c.credential_valid: accepted although a credential does not verify")
				vAssert(c.allowUntrusted == allowUntrusted, "H01c.trust_flag_passed: trust requirement not applied to the credential")
				vAssert(hSameTimePtr(c.validAt, validAt), "H01c.credential_verified_at_validation_time: credential verified at another time")
				selfAttested := hAll(hasHolder, holderByte == issuerByte[i], !hasProof[i])
				vAssert(hOr(c.checkSignature, selfAttested), "H01c.credential_signature_checked: a credential that is not a proof-less holder claim was verified without its signature")
				if !c.checkSignature {
					vCover("self-attested")
				}
			}
		} else {
			vAssert(len(v.calls) == 0, "H01c.no_verification_unless_asked: credentials verified although not requested")
		}
		vAssert(len(got) == n, "H01c.returns_presented_list: returned list is not the presented list")
		for i := 0; i < n && i < len(got); i++ {
			vAssert(got[i].ID.String() == vp.VerifiableCredential[i].ID.String(), "H01c.returns_presented_list: returned list is not the presented list")
		}
		return
	}
	vCover("rejected")
	vAssert(got == nil, "H01c.reject_returns_nothing: rejected presentation returned credentials")
	// conversely. Facts the code never asked for are still undetermined (symbolic), so this is checked for all of them.
	valid := hAnd(signedByKnownParty, sigOK)
	for i := 0; i < n; i++ {
		valid = hAll(valid, signedByA, v.subjectKind[i] == 0, v.subjectByte[i] == 'a')
		valid = hAnd(valid, hOr(!verifyVCs, v.vcOK[i]))
	}
	if n > 0 && hasHolder {
		valid = hAnd(valid, holderByte == 'a')
	}
	vAssert(!valid, "H01c.valid_is_accepted: a presentation satisfying every condition of the property was rejected")
}

func H01c_twin() {
	w := hNewWorld()
	v := hNewVPWorld()
	w.signer = "did:web:a"
	var vp vc.VerifiablePresentation
	vSetField(&vp, "format", vc.JSONLDPresentationProofFormat)
	vp.Proof = []interface{}{hProofSlot{}}
	for i := 0; i < 2; i++ {
		var c vc.VerifiableCredential
		id := ssi.URI{}
		id.Scheme = "urn"
		id.Opaque = "c:" + string([]byte{byte('0' + i)})
		c.ID = &id
		c.Issuer = hOpaqueDIDURI(hLowerByte())
		c.CredentialSubject = []interface{}{hSubjectSlot{i}}
		vp.VerifiableCredential = append(vp.VerifiableCredential, c)
	}
	h := hOpaqueDIDURI(hLowerByte())
	vp.Holder = &h
	now := hSymSecond("clock").time()
	hClock = &now
	got, err := hNewVerifier(w, nil).doVerifyVP(hVCVerifier{v: v}, vp, true, false, nil)
	if err == nil && len(got) == 2 && len(v.calls) == 2 && !v.calls[0].checkSignature && v.calls[1].checkSignature {
		vAssert(false, "H01c_twin.reach: reachable")
	}
}
