//go:build verif

package verifier

import (
	crypt "crypto"
	"errors"
	"fmt"
	"time"

	"github.com/lestrrat-go/jwx/v2/jwa"
	"github.com/lestrrat-go/jwx/v2/jwt"
	ssi "github.com/nuts-foundation/go-did"
	"github.com/nuts-foundation/go-did/did"
	"github.com/nuts-foundation/go-did/vc"
	"github.com/nuts-foundation/nuts-node/jsonld"
	"github.com/nuts-foundation/nuts-node/vcr/credential"
	"github.com/nuts-foundation/nuts-node/vcr/signature"
	"github.com/nuts-foundation/nuts-node/vcr/signature/proof"
	"github.com/nuts-foundation/nuts-node/vcr/trust"
	"github.com/nuts-foundation/nuts-node/vcr/types"
	"github.com/nuts-foundation/nuts-node/vdr/resolver"
	"github.com/piprate/json-gold/ld"
)

// Shared infrastructure of the C01 / C11b harnesses of package vcr/verifier.
//
// What is real: verifier.Verify, doVerifyVP, RegisterRevocation, IsRevoked, VerifySignature, VerifyVPSignature,
// jsonldProof, jwtSignature, resolveSigningKey, crypto.ParseJWT, credential.FindValidator + defaultCredentialValidator,
// credential.ValidateRevocation, credential.PresenterIsCredentialSubject/ResolveSubjectDID/PresentationSigner/ParseLDProof,
// trust.Config.IsTrusted, go-did ValidAt / DID / URI code, did.ParseDID(URL) (regexp), package time, strings, net/url.
//
// What is stubbed (JSON re-encoding between different Go types, JSON-LD canonicalisation and JWS cryptography are not
// modelled by the engine): the functions below. Each follows the contract of the replaced function on value objects.

//verif:stub github.com/nuts-foundation/nuts-node/vcr/signature/proof.NewSignedDocument => hNewSignedDocument
//verif:stub (github.com/nuts-foundation/nuts-node/vcr/signature/proof.SignedDocument).UnmarshalProofValue => hUnmarshalProofValue
//verif:stub (github.com/nuts-foundation/nuts-node/vcr/signature/proof.LDProof).Verify => hLDProofVerify
//verif:stub github.com/nuts-foundation/nuts-node/crypto.JWTKidAlg => hJWTKidAlg
//verif:stub github.com/nuts-foundation/nuts-node/crypto.ExtractProtectedHeaders => hExtractProtectedHeaders
//verif:stub github.com/lestrrat-go/jwx/v2/jwt.ParseString => hJWTParseString
//verif:stub encoding/json.Unmarshal => hJSONUnmarshal
//verif:stub (github.com/nuts-foundation/go-did/vc.VerifiableCredential).SubjectDID => hSubjectDID
//verif:stub github.com/nuts-foundation/go-did/vc.unmarshalAnySliceToTarget => hUnmarshalAnySlice
//verif:stub (github.com/nuts-foundation/go-did/vc.VerifiablePresentation).UnmarshalProofValue => hVPUnmarshalProofValue

// hW is the world of the running harness (package variables are re-initialised for every path).
var hW *hWorld

const hSrcKey = "\x00source"

// hWorld holds (a) the symbolic facts about everything outside the verifier - drawn up front WITHOUT forking, so
// that the oracle is a formula over them; the fakes concretise a fact only when the code under test asks for it -
// and (b) the record of what the code under test asked.
type hWorld struct {
	// revocation store: 0 = no revocation (ErrNotFound), 1 = revocation found, 2 = storage error
	storeMode int
	// status list verifier: 0 = nil, 1 = error wrapping types.ErrRevoked, 2 = another error
	statusMode int
	// DID document of the issuer resolves (at the requested time, not deactivated)
	resolveOK bool
	// key with the requested id resolves (valid at the requested time, authorised for the requested relation)
	keyOK bool
	// verdict of the JSON-LD signature cryptography (canonicalisation + JWS verification)
	cryptoOK bool
	// JWT: protected headers can be extracted; compact JWS parses with exactly one signature; jwx verdict
	headersOK, kidAlgOK, jwxOK bool
	algSupported              bool
	// key id of the proof / JWT header relative to the expected signer:
	// 0 = signer#k1, 1 = another DID#k1, 2 = empty, 3 = the signer DID without fragment, 4 = not a DID URL
	vmKind int
	// JSON-LD proof validity window
	proofCreated    hInstant
	proofHasExpires bool
	proofExpires    hInstant
	// who is expected to have signed (for materialising proofs relative to it)
	signer string
	// a fixed proof (harnesses with symbolic strings): used instead of vmKind when set
	fixedProof *proof.LDProof
	fixedKid   *string
	// revocation under registration (RegisterRevocation re-encodes it as a SignedDocument)
	revocation *credential.Revocation

	// record
	storeAsked    []ssi.URI
	stored        []credential.Revocation
	storeFails    bool
	statusAsked   int
	didAsked      []hResolveCall
	keyAsked      []hKeyCall
	ldVerified    []hLDVerifyCall
	jwxParsed     int
	headerQueries int
}

type hResolveCall struct {
	id did.DID
	md *resolver.ResolveMetadata
}

type hKeyCall struct {
	keyID string
	md    *resolver.ResolveMetadata
	rel   resolver.RelationType
	key   crypt.PublicKey
}

type hLDVerifyCall struct {
	p   proof.LDProof
	key crypt.PublicKey
}

func hNewWorld() *hWorld {
	w := &hWorld{}
	vTag("store")
	w.storeMode = vRange(0, 2)
	vTag("statuslist")
	w.statusMode = vRange(0, 2)
	vTag("didResolves")
	w.resolveOK = vBool()
	vTag("keyResolves")
	w.keyOK = vBool()
	vTag("cryptoOK")
	w.cryptoOK = vBool()
	vTag("headersOK")
	w.headersOK = vBool()
	vTag("kidAlgOK")
	w.kidAlgOK = vBool()
	vTag("jwxOK")
	w.jwxOK = vBool()
	vTag("algSupported")
	w.algSupported = vBool()
	vTag("vmKind")
	w.vmKind = vRange(0, 4)
	w.proofCreated = hSymSecond("proof.created")
	vTag("proof.hasExpires")
	w.proofHasExpires = vBool()
	w.proofExpires = hSymSecond("proof.expires")
	hW = w
	return w
}

// ---- clock ------------------------------------------------------------------------------------

// hClock is the reading of the node's wall clock; it does not advance during one verification call.
var hClock *time.Time

func vhNow() time.Time {
	if hClock == nil {
		_, t := hSymNow("clock")
		hClock = &t
	}
	return *hClock
}

// ---- fakes of the verifier's collaborators ----------------------------------------------------------

type hStore struct {
	Store
	w *hWorld
}

func (s hStore) GetRevocations(id ssi.URI) ([]*credential.Revocation, error) {
	s.w.storeAsked = append(s.w.storeAsked, id)
	vCover("asked:revocation-store")
	switch vConc(s.w.storeMode) {
	case 0:
		return nil, ErrNotFound
	case 1:
		return []*credential.Revocation{{Subject: id}}, nil
	}
	return nil, errors.New("harness: storage failure")
}

func (s hStore) StoreRevocation(r credential.Revocation) error {
	if s.w.storeFails {
		return errors.New("harness: storage failure")
	}
	s.w.stored = append(s.w.stored, r)
	return nil
}

type hStatusVerifier struct{ w *hWorld }

func (s hStatusVerifier) Verify(vc.VerifiableCredential) error {
	s.w.statusAsked++
	vCover("asked:status-list")
	switch vConc(s.w.statusMode) {
	case 0:
		return nil
	case 1:
		return fmt.Errorf("status list: %w", types.ErrRevoked)
	}
	return errors.New("harness: status list could not be fetched")
}

type hDIDResolver struct{ w *hWorld }

func (r hDIDResolver) Resolve(id did.DID, md *resolver.ResolveMetadata) (*did.Document, *resolver.DocumentMetadata, error) {
	r.w.didAsked = append(r.w.didAsked, hResolveCall{id, md})
	vCover("asked:did-resolver")
	if r.w.resolveOK {
		return &did.Document{}, &resolver.DocumentMetadata{}, nil
	}
	return nil, nil, resolver.ErrNotFound
}

type hKeyResolver struct {
	resolver.KeyResolver
	w *hWorld
}

type hKey struct{ n int }

func (r hKeyResolver) ResolveKeyByID(keyID string, md *resolver.ResolveMetadata, rel resolver.RelationType) (crypt.PublicKey, error) {
	call := hKeyCall{keyID: keyID, md: md, rel: rel}
	vCover("asked:key-resolver")
	if r.w.keyOK {
		call.key = hKey{len(r.w.keyAsked) + 1}
	}
	r.w.keyAsked = append(r.w.keyAsked, call)
	if call.key == nil {
		return nil, resolver.ErrKeyNotFound
	}
	return call.key, nil
}

type hJSONLD struct{ jsonld.JSONLD }

// never used: canonicalisation happens inside the stubbed LDProof.Verify
func (hJSONLD) DocumentLoader() ld.DocumentLoader { return nil }

func hNewVerifier(w *hWorld, tc *trust.Config) *verifier {
	kr := hKeyResolver{w: w}
	return &verifier{
		didResolver:       hDIDResolver{w},
		keyResolver:       kr,
		jsonldManager:     hJSONLD{},
		store:             hStore{w: w},
		trustConfig:       tc,
		signatureVerifier: signatureVerifier{keyResolver: kr, jsonldManager: hJSONLD{}},
		credentialStatus:  hStatusVerifier{w},
	}
}

// ---- stubs -------------------------------------------------------------------------------------

// hNewSignedDocument: contract of proof.NewSignedDocument = the JSON members of the source as a generic map.
// The harness keeps the source itself under a reserved key (the identity JSON codec does not re-encode values);
// JWT-format documents marshal to a JSON string, which cannot be decoded into a map.
func hNewSignedDocument(source interface{}) (proof.SignedDocument, error) {
	switch s := source.(type) {
	case vc.VerifiableCredential:
		if s.Format() == vc.JWTCredentialProofFormat {
			return nil, errors.New("json: cannot unmarshal string into Go value of type proof.SignedDocument")
		}
	case vc.VerifiablePresentation:
		if s.Format() == vc.JWTPresentationProofFormat {
			return nil, errors.New("json: cannot unmarshal string into Go value of type proof.SignedDocument")
		}
	}
	return proof.SignedDocument{hSrcKey: source}, nil
}

// hProofSlot stands for one JSON proof object of a document; its content is materialised from the world.
type hProofSlot struct{}

func (w *hWorld) keyIDFor(kind int) string {
	switch kind {
	case 0:
		return w.signer + "#k1"
	case 1:
		return "did:web:mallory#k1"
	case 2:
		return ""
	case 3:
		return w.signer
	}
	return "junk"
}

func (w *hWorld) materialiseProof() proof.LDProof {
	if w.fixedProof != nil {
		return *w.fixedProof
	}
	p := proof.LDProof{Type: ssi.JsonWebSignature2020, JWS: "h..s"}
	p.ProofPurpose = proof.AssertionMethodProofPurpose
	if id := w.keyIDFor(vConc(w.vmKind)); id != "" {
		p.VerificationMethod = ssi.MustParseURI(id)
	}
	p.Created = w.proofCreated.time()
	if w.proofHasExpires {
		e := w.proofExpires.time()
		p.Expires = &e
	}
	return p
}

// hUnmarshalProofValue: contract of SignedDocument.UnmarshalProofValue = decode the "proof" member into target.
// go-did marshals a single proof as an object and several proofs as an array; an absent member decodes as JSON null,
// which leaves the target untouched; an array cannot be decoded into a struct.
func hUnmarshalProofValue(d proof.SignedDocument, target interface{}) error {
	t, ok := target.(*proof.LDProof)
	if !ok {
		vCut("harness: UnmarshalProofValue into an unexpected target type")
	}
	var proofs []interface{}
	switch s := d[hSrcKey].(type) {
	case vc.VerifiableCredential:
		proofs = s.Proof
	case vc.VerifiablePresentation:
		proofs = s.Proof
	case credential.Revocation:
		if s.Proof == nil {
			return nil
		}
		*t = proof.LDProof{
			ProofOptions:       proof.ProofOptions{Created: s.Proof.Created, Domain: s.Proof.Domain, Challenge: s.Proof.Challenge, ProofPurpose: s.Proof.ProofPurpose},
			Type:               s.Proof.Type,
			VerificationMethod: s.Proof.VerificationMethod,
			JWS:                s.Proof.Jws,
		}
		return nil
	default:
		vCut("harness: signed document of an unexpected source type")
	}
	switch len(proofs) {
	case 0:
		return nil
	case 1:
		switch p := proofs[0].(type) {
		case hProofSlot:
			*t = hW.materialiseProof()
			return nil
		case proof.LDProof:
			*t = p
			return nil
		}
		return errors.New("json: cannot unmarshal into Go value of type proof.LDProof")
	}
	return errors.New("json: cannot unmarshal array into Go value of type proof.LDProof")
}

// hUnmarshalAnySlice: contract of go-did's unmarshalAnySliceToTarget for the one target type the code under test uses
// on presentations (credential.ParseLDProof: all proofs as []proof.LDProof).
func hUnmarshalAnySlice(s []interface{}, target interface{}) error {
	t, ok := target.(*[]proof.LDProof)
	if !ok {
		vCut("harness: unmarshalAnySliceToTarget into an unexpected target type")
	}
	var out []proof.LDProof
	for _, e := range s {
		switch p := e.(type) {
		case hProofSlot:
			out = append(out, hW.materialiseProof())
		case proof.LDProof:
			out = append(out, p)
		default:
			return errors.New("json: cannot unmarshal into Go value of type proof.LDProof")
		}
	}
	*t = out
	return nil
}

// hVPUnmarshalProofValue: contract of VerifiablePresentation.UnmarshalProofValue = all proofs decoded into the target slice.
func hVPUnmarshalProofValue(vp vc.VerifiablePresentation, target interface{}) error {
	return hUnmarshalAnySlice(vp.Proof, target)
}

// hLDProofVerify: verdict of canonicalisation + JWS verification with the given key.
func hLDProofVerify(p proof.LDProof, document proof.Document, suite signature.Suite, key crypt.PublicKey) error {
	hW.ldVerified = append(hW.ldVerified, hLDVerifyCall{p, key})
	vCover("asked:jsonld-signature")
	if _, isSrc := document[hSrcKey]; !isSrc {
		return errors.New("harness: not the document without proof")
	}
	if !hW.cryptoOK {
		return errors.New("harness: invalid proof signature")
	}
	return nil
}

// hJSONUnmarshal: only RegisterRevocation reaches encoding/json.Unmarshal in this package's harnesses (everything else
// that re-encodes is stubbed above): it decodes the marshalled revocation into a proof.SignedDocument.
func hJSONUnmarshal(data []byte, v interface{}) error {
	t, ok := v.(*proof.SignedDocument)
	if !ok || hW == nil || hW.revocation == nil {
		vCut("harness: unexpected use of encoding/json.Unmarshal")
	}
	*t = proof.SignedDocument{hSrcKey: *hW.revocation}
	return nil
}

// hJWTKidAlg: contract of crypto.JWTKidAlg = kid and alg of the single signature of a compact JWS, or an error.
func hJWTKidAlg(tokenString string) (string, jwa.SignatureAlgorithm, error) {
	if !hW.kidAlgOK {
		return "", "", errors.New("harness: invalid compact JWS")
	}
	alg := jwa.ES256
	if !hW.algSupported {
		alg = jwa.HS256
	}
	if hW.fixedKid != nil {
		return *hW.fixedKid, alg, nil
	}
	return hW.keyIDFor(vConc(hW.vmKind)), alg, nil
}

func hExtractProtectedHeaders(jwt string) (map[string]interface{}, error) {
	hW.headerQueries++
	if jwt != "" && !hW.headersOK {
		return nil, errors.New("harness: invalid number of signatures")
	}
	return map[string]interface{}{}, nil
}

// hJWTParseString: verdict of jwx on signature and registered time claims (with the key and clock options it was given).
func hJWTParseString(s string, options ...jwt.ParseOption) (jwt.Token, error) {
	hW.jwxParsed++
	vCover("asked:jwt-signature")
	if !hW.jwxOK {
		return nil, errors.New("harness: could not verify message using any of the signatures or keys")
	}
	return nil, nil
}

// hSubjectDID: documented contract of VerifiableCredential.SubjectDID on subjects given as JSON-like maps
// ({"id": "<did>"}): error when there is no subject, an id is not a string or not a valid DID, the ids differ, or are empty.
func hSubjectDID(c vc.VerifiableCredential) (*did.DID, error) {
	if len(c.CredentialSubject) < 1 {
		return nil, errors.New("unable to get subject DID from VC: there must be at least 1 credentialSubject")
	}
	if slot, isSlot := c.CredentialSubject[0].(hSubjectSlot); isSlot {
		return hW.subjectOf(slot.i)
	}
	ids := make([]did.DID, 0, len(c.CredentialSubject))
	for _, s := range c.CredentialSubject {
		m, ok := s.(map[string]interface{})
		if !ok {
			return nil, errors.New("unable to get subject DID from VC: json: cannot unmarshal")
		}
		var id did.DID
		if raw, has := m["id"]; has && raw != nil {
			str, isString := raw.(string)
			if !isString {
				return nil, errors.New("unable to get subject DID from VC: invalid DID")
			}
			parsed, err := did.ParseDID(str)
			if err != nil {
				return nil, fmt.Errorf("unable to get subject DID from VC: %w", err)
			}
			id = *parsed
		}
		ids = append(ids, id)
	}
	for _, id := range ids {
		if !ids[0].Equals(id) {
			return nil, errors.New("unable to get subject DID from VC: credential subjects have the same ID")
		}
	}
	if ids[0].Empty() {
		return nil, errors.New("unable to get subject DID from VC: credential subjects have no ID")
	}
	return &ids[0], nil
}

// ---- helpers ------------------------------------------------------------------------------------

// hBeforeHash is the reference reading of "the part of an identifier before the first '#'".
func hBeforeHash(s string) string {
	for i := 0; i < len(s); i++ {
		if s[i] == '#' {
			return s[:i]
		}
	}
	return s
}

func hSameTimePtr(a, b *time.Time) bool {
	if a == nil || b == nil {
		return a == nil && b == nil
	}
	return a.Equal(*b)
}

var hTypePool = []string{"VerifiableCredential", "ExampleCredential", "OtherCredential"}

// ---------------------------------------------------------------------------------------------
// H01a / H01a2: composition of verifier.Verify. One scenario builder, one oracle; the two harnesses differ in which
// SHAPE choices (lengths, nil-ness, formats - these fork) are enumerated. All outside FACTS (store, status list, trust,
// resolvers, signature verdicts, instants) stay symbolic in both.
//
//	scope 0 (H01a):  every type list, context/issuer/id presence, expiry, validAt; JSON-LD credential with one proof
//	                 whose key id is the issuer's and whose window equals the credential's issuance.
//	scope 1 (H01a2): required fields present, type [VerifiableCredential], no expiry, no stored revocation; every
//	                 proof format / retained source / number of proofs / key id / proof window.
func hVerifyScenario(id string, scope int) {
	w := hNewWorld()
	vAssume(w.vmKind <= 3)

	// --- the credential, field by field
	var c vc.VerifiableCredential
	pool := vParam("typepool", 2)
	nTypes := 1
	typeIdx := []int{0}
	hasContext, hasID := true, true
	issuerPool := []string{"did:web:alice", "https://issuer.example", ""}
	var issuer string
	if scope == 0 {
		nTypes = vLen(1, 3)
		typeIdx = make([]int, nTypes)
		for i := range typeIdx {
			typeIdx[i] = vChoice(pool)
		}
		hasContext = vBool()
		issuer = issuerPool[vChoice(3)]
		hasID = vBool()
	} else {
		issuer = issuerPool[vChoice(2)]
	}
	hasBaseType := false
	for _, ti := range typeIdx {
		c.Type = append(c.Type, ssi.MustParseURI(hTypePool[ti]))
		if ti == 0 {
			hasBaseType = true
		}
	}
	if hasContext {
		c.Context = []ssi.URI{vc.VCContextV1URI()}
	} else {
		c.Context = []ssi.URI{ssi.MustParseURI("https://example.com/other/v1")}
	}
	issuerIsDID := issuer == "did:web:alice"
	if issuer != "" {
		c.Issuer = ssi.MustParseURI(issuer)
	}
	w.signer = issuer
	if hasID {
		id := ssi.MustParseURI("did:web:alice#1")
		c.ID = &id
	}
	issued := hSymSecond("issued")
	c.IssuanceDate = issued.time()
	issuedIsZero := issued.sec == -62135596800
	var expires *hInstant
	if scope == 0 && vBool() {
		e := hSymSecond("expires")
		expires = &e
		et := e.time()
		c.ExpirationDate = &et
	}
	// proof format as set by the parser: "" (never parsed), JSON-LD with or without retained source, JWT
	format, nProofs := 1, 1
	if scope == 1 {
		format = vChoice(4)
		if format == 1 || format == 2 {
			nProofs = vLen(0, 2)
		}
	} else {
		vAssume(hAll(w.vmKind == 0, !w.proofHasExpires, w.proofCreated.sec == issued.sec))
	}
	switch format {
	case 0:
		vCover("format:unset")
	case 1, 2:
		vCover("format:jsonld")
		vSetField(&c, "format", vc.JSONLDCredentialProofFormat)
		if format == 2 {
			vSetField(&c, "raw", "{json-ld source}")
		}
		for i := 0; i < nProofs; i++ {
			c.Proof = append(c.Proof, hProofSlot{})
		}
	case 3:
		vCover("format:jwt")
		vSetField(&c, "format", vc.JWTCredentialProofFormat)
		vSetField(&c, "raw", "h.p.s")
	}
	hasRaw := format >= 2
	if scope == 1 {
		vAssume(hAnd(w.storeMode == 0, w.statusMode == 0))
		if vParam("proofexp", 1) == 0 {
			vAssume(!w.proofHasExpires)
		}
	}

	// --- trust configuration: per non-base type a list whose second entry differs from the issuer at most in its
	// last byte, which is arbitrary (so "the issuer is listed" is a symbolic fact that needs no fork here)
	tc := &trust.Config{}
	trusted := make([]bool, len(hTypePool))
	perType := map[string][]string{}
	for i := 1; i < pool; i++ {
		entry := ""
		trusted[i] = true
		if n := len(issuer); n > 0 {
			vTag("trustlist." + hTypePool[i])
			last := vBytes(1)
			entry = issuer[:n-1] + string(last)
			trusted[i] = last[0] == issuer[n-1]
		}
		perType[hTypePool[i]] = []string{"did:web:unrelated", entry}
	}
	vSetField(tc, "issuersPerType", perType)

	// --- call parameters and clock
	vTag("allowUntrusted")
	allowUntrusted := vBool()
	vTag("checkSignature")
	checkSignature := vBool()
	var validAt *time.Time
	nowI := hSymSecond("clock")
	now := nowI.time()
	hClock = &now
	at := nowI
	if vBool() {
		vCover("validAt:given")
		ai := hSymSecond("validAt")
		t := ai.time()
		validAt = &t
		at = ai
	} else {
		vCover("validAt:now")
	}

	if issuer != "" && !issuerIsDID {
		vClass("issuer is not a DID")
	}

	v := hNewVerifier(w, tc)
	err := v.Verify(c, allowUntrusted, checkSignature, validAt)

	// --- reference: the conjunction the property states, over the symbolic facts of the world. Written with hAll/hAny
	// on evaluated operands so that the engine evaluates it as one formula (no forks inside the oracle).
	storeMode, statusMode := w.storeMode, w.statusMode
	resolveOK, keyOK, cryptoOK := w.resolveOK, w.keyOK, w.cryptoOK
	headersOK, kidAlgOK, jwxOK, algSupported := w.headersOK, w.kidAlgOK, w.jwxOK, w.algSupported
	vmKind, proofHasExpires := w.vmKind, w.proofHasExpires
	requiredFields := hAll(hasBaseType, hasContext, issuer != "", hasID, !issuedIsZero)
	atMostTwoTypes := nTypes <= 2
	notRevoked := hAnd(storeMode == 0, statusMode != 1)
	allTrusted := true
	for _, ti := range typeIdx {
		if ti != 0 {
			allTrusted = hAnd(allTrusted, trusted[ti])
		}
	}
	trustOK := hOr(allTrusted, allowUntrusted)
	inWindow := hInWindow(at, issued, expires, 5)
	proofInWindow := hAnd(hGE(at, 5, w.proofCreated), hOr(!proofHasExpires, hGE(w.proofExpires, 5, at)))
	keyBound := hOr(vmKind == 0, vmKind == 3)
	sigOK := false
	switch format {
	case 1, 2:
		sigOK = hAll(nProofs == 1, keyBound, proofInWindow, keyOK, cryptoOK)
	case 3:
		sigOK = hAll(headersOK, kidAlgOK, keyOK, algSupported, jwxOK, hOr(keyBound, vmKind == 2))
	}
	issuerOK := hAll(issuerIsDID, resolveOK, hOr(!hasRaw, headersOK))
	authentic := hOr(!checkSignature, hAnd(issuerOK, sigOK))
	valid := hAll(requiredFields, atMostTwoTypes, notRevoked, trustOK, inWindow, authentic)

	if err == nil {
		vCover("accepted")
		vAssert(requiredFields, id+".required_fields: accepted a credential without type VerifiableCredential, default context, issuer, id or issuance date")
		vAssert(atMostTwoTypes, id+".at_most_two_types: accepted a credential with more than two types")
		vAssert(storeMode != 2, id+".store_error_fatal: accepted although the revocation store failed")
		vAssert(storeMode != 1, id+".not_revoked_store: accepted a credential for which a revocation is stored")
		vAssert(statusMode != 1, id+".not_revoked_statuslist: accepted a credential its status list marks revoked")
		vAssert(trustOK, id+".trusted: accepted an untrusted issuer although trust was required")
		vAssert(inWindow, id+".in_validity_window: accepted outside issuance-5s .. expiry+5s")
		vAssert(len(w.storeAsked) == 1 && w.storeAsked[0].String() == c.ID.String(), id+".revocation_lookup_by_id: the revocation store was not asked for the credential's id")
		vAssert(w.statusAsked == 1, id+".statuslist_consulted: the status list verifier was not consulted")
		if checkSignature {
			vCover("accepted-with-signature")
			vAssert(hAnd(issuerIsDID, resolveOK), id+".issuer_resolved: accepted although the issuer's DID document does not resolve")
			vAssert(sigOK, id+".signature_ok: accepted although the signature check of the property fails")
			vAssert(len(w.didAsked) == 1 && w.didAsked[0].id.String() == issuer, id+".resolved_the_issuer: the DID resolved is not the issuer")
			vAssert(!w.didAsked[0].md.AllowDeactivated, id+".no_deactivated_issuer: a deactivated issuer document was allowed")
			vAssert(hSameTimePtr(w.didAsked[0].md.ResolveTime, validAt), id+".issuer_resolved_at_validation_time: issuer resolved at another time than the validation time")
			vAssert(len(w.keyAsked) == 1, id+".one_key_lookup: not exactly one key lookup")
			k := w.keyAsked[0]
			vAssert(hBeforeHash(k.keyID) == issuer, id+".key_of_issuer: the key used is not a key of the issuer")
			vAssert(k.rel == resolver.AssertionMethod, id+".key_for_assertion: the key was not resolved as assertion key")
			vAssert(hSameTimePtr(k.md.ResolveTime, validAt), id+".key_resolved_at_validation_time: key resolved at another time than the validation time")
			if format != 3 {
				vAssert(len(w.ldVerified) == 1 && w.ldVerified[0].key == k.key, id+".verified_with_resolved_key: signature not verified with the resolved key")
			} else {
				vCover("accepted-jwt")
				vAssert(w.jwxParsed == 1, id+".jwt_verified: JWT not verified")
			}
		}
	} else {
		vCover("rejected")
		vAssert(!valid, id+".valid_is_accepted: a credential satisfying every condition of the property was rejected")
		isRevoked := errors.Is(err, types.ErrRevoked)
		isUntrusted := errors.Is(err, types.ErrUntrusted)
		wellFormed := hAnd(requiredFields, atMostTwoTypes)
		revokedInStore := hAnd(wellFormed, storeMode == 1)
		revokedOnList := hAll(wellFormed, storeMode == 0, statusMode == 1)
		untrusted := hAll(wellFormed, notRevoked, !trustOK)
		vAssert(hOr(!revokedInStore, isRevoked), id+".revoked_reported_store: a revoked credential is not reported as revoked")
		vAssert(hOr(!revokedOnList, isRevoked), id+".revoked_reported_statuslist: a credential revoked on its status list is not reported as revoked")
		vAssert(hOr(!untrusted, isUntrusted), id+".untrusted_reported: untrusted issuer is not reported as untrusted")
		if isRevoked {
			vCover("reported-revoked")
		}
		if isUntrusted {
			vCover("reported-untrusted")
		}
	}
	// H11d, soft-fail rule: a status list that cannot be checked is not fatal
	if err == nil && w.statusAsked == 1 && statusMode == 2 {
		vCover("statuslist:softfail")
	}
}

func H01a()  { hVerifyScenario("H01a", 0) }
func H01a2() { hVerifyScenario("H01a2", 1) }

func hTwinCredential(w *hWorld) vc.VerifiableCredential {
	var c vc.VerifiableCredential
	c.Type = []ssi.URI{ssi.MustParseURI(hTypePool[0]), ssi.MustParseURI(hTypePool[1])}
	c.Context = []ssi.URI{vc.VCContextV1URI()}
	c.Issuer = ssi.MustParseURI("did:web:alice")
	w.signer = "did:web:alice"
	id := ssi.MustParseURI("did:web:alice#1")
	c.ID = &id
	c.IssuanceDate = hSymSecond("issued").time()
	return c
}

func H01a_twin() {
	w := hNewWorld()
	c := hTwinCredential(w)
	vSetField(&c, "format", vc.JSONLDCredentialProofFormat)
	c.Proof = []interface{}{hProofSlot{}}
	tc := &trust.Config{}
	vSetField(tc, "issuersPerType", map[string][]string{hTypePool[1]: {"did:web:alice"}})
	now := hSymSecond("clock").time()
	hClock = &now
	if hNewVerifier(w, tc).Verify(c, false, true, nil) == nil && len(w.keyAsked) == 1 && w.statusMode == 2 {
		vAssert(false, "H01a_twin.reach: reachable")
	}
}

func H01a2_twin() {
	w := hNewWorld()
	c := hTwinCredential(w)
	vSetField(&c, "format", vc.JWTCredentialProofFormat)
	vSetField(&c, "raw", "h.p.s")
	tc := &trust.Config{}
	now := hSymSecond("clock").time()
	hClock = &now
	if hNewVerifier(w, tc).Verify(c, true, true, nil) == nil && len(w.keyAsked) == 1 && w.keyAsked[0].keyID == "did:web:alice" {
		vAssert(false, "H01a2_twin.reach: reachable")
	}
}
