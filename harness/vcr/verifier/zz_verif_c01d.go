//go:build verif

package verifier

import (
	"strings"
	"time"

	ssi "github.com/nuts-foundation/go-did"
	"github.com/nuts-foundation/go-did/vc"
	"github.com/nuts-foundation/nuts-node/vcr/signature/proof"
	"github.com/nuts-foundation/nuts-node/vdr/resolver"
)

// ---------------------------------------------------------------------------------------------
// H01d: key binding of jsonldProof / jwtSignature / resolveSigningKey (real) for symbolic identifiers.
//
// JSON-LD: the verification method is a URI value as url.Parse produces it for "did:<opaque>#<fragment>"
// (Scheme "did", Opaque arbitrary bytes without '#', Fragment from a pool incl. one with '#'); the expected signer is an arbitrary string.
// JWT: kid and expected signer are arbitrary byte strings (optionally behind the prefix "did:jwk:").

func hNoHash(s string) {
	for i := 0; i < len(s); i++ {
		vAssume(s[i] != '#')
	}
}

func hAt() (*time.Time, hInstant) {
	nowI := hSymSecond("clock")
	now := nowI.time()
	hClock = &now
	if vBool() {
		ai := hSymSecond("validAt")
		t := ai.time()
		return &t, ai
	}
	return nil, nowI
}

func H01d() {
	w := hNewWorld()
	n := vParam("idbytes", 3)
	sut := hNewVerifier(w, nil)
	validAt, at := hAt()
	// the proof's validity window is not the subject here (H01a2, H01b): created at the validation instant, no expiry
	vAssume(hAnd(w.proofCreated.sec == at.sec, !w.proofHasExpires))
	proofInWindow := true

	switch vChoice(2) {
	case 0:
		vCover("jsonld")
		// verification method
		vTag("vm.opaque")
		opaque := vString(vLen(0, n))
		hNoHash(opaque)
		// fragment: none, plain, or one containing '#' (which URL.String escapes)
		fragment := []string{"", "key-1", "k#2"}[vChoice(3)]
		p := proof.LDProof{Type: ssi.JsonWebSignature2020, JWS: "h..s"}
		p.VerificationMethod.Scheme = "did"
		p.VerificationMethod.Opaque = opaque
		p.VerificationMethod.Fragment = fragment
		p.Created = w.proofCreated.time()
		w.fixedProof = &p
		// expected signer: "did:" + arbitrary bytes, or fully arbitrary bytes
		var issuer string
		if vBool() {
			vTag("issuer.opaque")
			issuer = "did:" + vString(vLen(0, n))
		} else {
			vTag("issuer")
			issuer = vString(vLen(0, 2))
		}
		var doc vc.VerifiableCredential
		doc.Proof = []interface{}{hProofSlot{}}
		vSetField(&doc, "format", vc.JSONLDCredentialProofFormat)

		err := sut.jsonldProof(doc, issuer, validAt)

		// reference: the identifier of the key's controller is everything before the fragment
		bound := "did:"+opaque == issuer
		if err == nil {
			vCover("jsonld:accepted")
			vAssert(bound, "H01d.jsonld_key_of_signer: accepted a proof whose verification method does not belong to the expected signer")
			vAssert(len(w.keyAsked) == 1, "H01d.jsonld_one_key_lookup: not exactly one key lookup")
			k := w.keyAsked[0]
			vAssert(k.keyID == p.VerificationMethod.String(), "H01d.jsonld_key_is_verification_method: the key resolved is not the proof's verification method")
			vAssert(hBeforeHash(k.keyID) == issuer, "H01d.jsonld_resolved_key_of_signer: the key resolved does not belong to the expected signer")
			vAssert(hSameTimePtr(k.md.ResolveTime, validAt), "H01d.jsonld_key_resolved_at_validation_time: key resolved at another time than the validation time")
			vAssert(k.rel == resolver.AssertionMethod, "H01d.jsonld_key_for_assertion: key not resolved as assertion key")
			vAssert(hAll(proofInWindow, w.keyOK, w.cryptoOK), "H01d.jsonld_checks_pass: accepted although proof window, key resolution or signature fails")
			vAssert(len(w.ldVerified) == 1 && w.ldVerified[0].key == k.key, "H01d.jsonld_verified_with_resolved_key: signature not verified with the resolved key")
			if fragment == "" {
				vCover("jsonld:accepted-without-fragment")
			}
		} else {
			vCover("jsonld:rejected")
			valid := hAll(bound, proofInWindow, w.keyOK, w.cryptoOK)
			vAssert(!valid, "H01d.jsonld_valid_is_accepted: a proof of the expected signer that passes every check was rejected")
		}
	case 1:
		vCover("jwt")
		prefix := ""
		if vBool() {
			vCover("jwt:did-jwk")
			prefix = "did:jwk:"
		}
		vTag("kid")
		kid := vString(vLen(0, n))
		if kid != "" || vBool() {
			kid = prefix + kid
		}
		w.fixedKid = &kid
		vTag("issuer")
		issuer := prefix + vString(vLen(0, n))

		err := sut.jwtSignature("h.p.s", issuer, validAt)

		if err == nil {
			vCover("jwt:accepted")
			vAssert(len(w.keyAsked) == 1, "H01d.jwt_one_key_lookup: not exactly one key lookup")
			k := w.keyAsked[0]
			if kid != "" {
				vAssert(hBeforeHash(kid) == issuer, "H01d.jwt_key_of_signer: accepted a JWT whose kid does not belong to the expected signer")
				want := kid
				if strings.HasPrefix(kid, "did:jwk:") && hBeforeHash(kid) == kid {
					want = kid + "#0"
				}
				vAssert(k.keyID == want, "H01d.jwt_key_is_kid: the key resolved is not the JWT's kid")
			} else {
				vCover("jwt:accepted-without-kid")
				want := issuer
				if strings.HasPrefix(issuer, "did:jwk:") && hBeforeHash(issuer) == issuer {
					want = issuer + "#0"
				}
				vAssert(k.keyID == want, "H01d.jwt_no_kid_uses_signer: without kid the key resolved is not the expected signer's")
			}
			vAssert(hSameTimePtr(k.md.ResolveTime, validAt), "H01d.jwt_key_resolved_at_validation_time: key resolved at another time than the validation time")
			vAssert(k.rel == resolver.AssertionMethod, "H01d.jwt_key_for_assertion: key not resolved as assertion key")
			vAssert(hAll(w.kidAlgOK, w.headersOK, w.keyOK, w.algSupported, w.jwxOK), "H01d.jwt_checks_pass: accepted although parsing, key resolution or signature fails")
		} else {
			vCover("jwt:rejected")
			bound := kid == "" || hBeforeHash(kid) == issuer
			valid := hAll(bound, w.kidAlgOK, w.headersOK, w.keyOK, w.algSupported, w.jwxOK)
			vAssert(!valid, "H01d.jwt_valid_is_accepted: a JWT of the expected signer that passes every check was rejected")
		}
	}
}

func H01d_twin() {
	w := hNewWorld()
	sut := hNewVerifier(w, nil)
	now := hSymSecond("clock").time()
	hClock = &now
	kid := vString(3)
	w.fixedKid = &kid
	issuer := vString(1)
	if sut.jwtSignature("h.p.s", issuer, nil) == nil && kid[1] == '#' {
		vAssert(false, "H01d_twin.reach: reachable")
	}
}
