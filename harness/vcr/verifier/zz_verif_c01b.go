//go:build verif

package verifier

import (
	"time"

	"github.com/nuts-foundation/go-did/vc"
	"github.com/nuts-foundation/nuts-node/vcr/signature/proof"
)

// ---------------------------------------------------------------------------------------------
// Instants. An instant is (unix seconds, nanoseconds in [0,1e9)); comparisons of the reference are
// lexicographic on that pair, so the oracle needs no multiplication and shares no code with package time.

type hInstant struct {
	sec  int64
	nsec int64
}

const hSecBound = int64(1) << 38

// hSymInstant draws an arbitrary instant with |sec| <= 2^38 (years -6700 .. +10600).
func hSymInstant(tag string) hInstant {
	vTag(tag + ".sec")
	s := vI64()
	vTag(tag + ".nsec")
	n := vI64()
	vAssume(s >= -hSecBound && s <= hSecBound)
	vAssume(n >= 0 && n < 1000000000)
	return hInstant{s, n}
}

// hSymSecond draws an arbitrary instant at a whole second (the composition harnesses use these; sub-second and
// monotonic readings are covered for the same comparison functions by H01b).
func hSymSecond(tag string) hInstant {
	vTag(tag + ".sec")
	s := vI64()
	vAssume(s >= -hSecBound && s <= hSecBound)
	return hInstant{s, 0}
}

// wall clock time as produced by parsing a document (no monotonic reading)
func (i hInstant) time() time.Time { return time.Unix(i.sec, i.nsec).UTC() }

// hasMonotonic layout of time.Time (what time.Now returns): wall = 1<<63 | (sec since 1885)<<30 | nsec, ext = monotonic ns.
const hWallToUnix = int64((1884*365+1884/4-1884/100+1884/400)*86400) - int64((1969*365+1969/4-1969/100+1969/400)*86400)

func (i hInstant) monoTime(mono int64) time.Time {
	var t time.Time
	vSetField(&t, "wall", uint64(1)<<63|uint64(i.sec-hWallToUnix)<<30|uint64(i.nsec))
	vSetField(&t, "ext", mono)
	vSetField(&t, "loc", time.Local)
	return t
}

// Boolean connectives as calls on evaluated operands: the engine turns them into one formula instead of forking
// (Go's short-circuit && / || inside larger expressions would fork once per symbolic operand).
func hAnd(a, b bool) bool { return a && b }
func hOr(a, b bool) bool  { return a || b }
func hAll(a ...bool) bool {
	r := true
	for _, x := range a {
		r = hAnd(r, x)
	}
	return r
}
func hAny(a ...bool) bool {
	r := false
	for _, x := range a {
		r = hOr(r, x)
	}
	return r
}

// a + d seconds >= b
func hGE(a hInstant, dsec int64, b hInstant) bool {
	return hGEs(a.sec, a.nsec, dsec, b.sec, b.nsec)
}

func hGEs(asec, ansec, dsec, bsec, bnsec int64) bool {
	s := asec + dsec
	gt := s > bsec
	eq := s == bsec
	ns := ansec >= bnsec
	return hOr(gt, hAnd(eq, ns))
}

// hInWindow is the reference of the property: from - skew <= t <= until + skew  (until optional).
func hInWindow(t, from hInstant, until *hInstant, skewSec int64) bool {
	r := hGE(t, skewSec, from)
	if until != nil {
		r = hAnd(r, hGE(*until, skewSec, t))
	}
	return r
}

// hSymNow draws the validation instant, optionally as a time.Now()-style value carrying a monotonic reading.
func hSymNow(tag string) (hInstant, time.Time) {
	i := hSymInstant(tag)
	if vBool() {
		vCover("t:monotonic")
		// the 33-bit seconds field of a monotonic Time covers 1885..2157
		vAssume(i.sec >= hWallToUnix && i.sec < hWallToUnix+(int64(1)<<33))
		vTag(tag + ".mono")
		m := vI64()
		vAssume(m >= 0 && m < int64(1)<<62)
		return i, i.monoTime(m)
	}
	vCover("t:wall")
	return i, i.time()
}

// H01b: VerifiableCredential.ValidAt and ProofOptions.ValidAt (real go-did / nuts-node code, real time.Time
// arithmetic) agree with the integer window for every instant, with the 5 s skew used by the verifier.
func H01b() {
	ti, t := hSymNow("t")
	from := hSymInstant("from")
	var until *hInstant
	cred := vc.VerifiableCredential{IssuanceDate: from.time()}
	opts := proof.ProofOptions{Created: from.time()}
	if vBool() {
		vCover("expiry:set")
		u := hSymInstant("until")
		until = &u
		ut := u.time()
		cred.ExpirationDate = &ut
		ut2 := u.time()
		opts.Expires = &ut2
	} else {
		vCover("expiry:none")
	}
	want := hInWindow(ti, from, until, 5)
	if want {
		vCover("inside")
	} else {
		vCover("outside")
	}
	vAssert(cred.ValidAt(t, maxSkew) == want, "H01b.credential_window: VerifiableCredential.ValidAt disagrees with issuance-5s <= t <= expiry+5s")
	vAssert(opts.ValidAt(t, maxSkew) == want, "H01b.proof_window: ProofOptions.ValidAt disagrees with created-5s <= t <= expires+5s")
	// strict validation (skew 0) as used by callers that pass no skew
	want0 := hInWindow(ti, from, until, 0)
	vAssert(cred.ValidAt(t, 0) == want0, "H01b.credential_window_noskew: VerifiableCredential.ValidAt(skew 0) disagrees with issuance <= t <= expiry")
}

func H01b_twin() {
	ti, t := hSymNow("t")
	from := hSymInstant("from")
	cred := vc.VerifiableCredential{IssuanceDate: from.time()}
	// exactly on the edge of the skew: 5 s before issuance is accepted
	if cred.ValidAt(t, maxSkew) && ti.sec+5 == from.sec && ti.nsec == from.nsec {
		vAssert(false, "H01b_twin.reach: reachable")
	}
}
