//go:build verif

package trust

import (
	ssi "github.com/nuts-foundation/go-did"
)

//verif:stub (*github.com/nuts-foundation/nuts-node/vcr/trust.Config).save => hTrustSave

// hTrustSave: writing the YAML file succeeds or fails (os / yaml are not encoded); the in-memory list is what
// IsTrusted - and therefore verifier.Verify(allowUntrusted=false) - consults.
func hTrustSave(tc *Config) error {
	if vBool() {
		return ErrNoFilename
	}
	return nil
}

// hTrustWorld: the trust configuration as Load() leaves it: whatever the operator's YAML file lists - per
// credential type up to `entries` issuer strings, in any order, duplicates included (Load does not
// de-duplicate). Issuer strings are "did:nuts:" + one symbolic byte, so which entries coincide with the
// issuer under test (and with each other) is decided by the solver.
func hTrustWorld(types []string, entries int) *Config {
	tc := NewConfig("trust.yaml")
	for ti, t := range types {
		max := entries
		if ti > 0 {
			max = 1 // the other type only has to show that it is left alone
		}
		n := vLen(0, max)
		if n == 0 && vBool() {
			continue // type absent from the file
		}
		l := make([]string, n)
		for i := range l {
			c := vString(1)
			vAssume(c[0] >= 'a' && c[0] <= 'z') // entries are DIDs (the API only stores parsed URIs)
			l[i] = "did:nuts:" + c
		}
		tc.issuersPerType[t] = l
	}
	return tc
}

func hTrusted(tc *Config, t, issuer string) bool {
	for _, i := range tc.issuersPerType[t] {
		if i == issuer {
			return true
		}
	}
	return false
}

// H01t: trust decisions follow the operator's last instruction. For every loaded configuration and every
// sequence of `ops` AddTrust / RemoveTrust calls (type and issuer chosen among two each): after
// RemoveTrust(t, i) the issuer is not trusted for t - however often the file listed it -, after
// AddTrust(t, i) it is, and the trust in every other (type, issuer) pair is unchanged by the call.
func H01t() {
	types := []string{"T1", "T2"}
	issuers := []string{"did:nuts:a", "did:nuts:b"}
	tc := hTrustWorld(types, vParam("entries", 3))
	for op := 0; op < vParam("ops", 1); op++ {
		t := types[vChoice(2)]
		is := issuers[vChoice(2)]
		tu, iu := ssi.MustParseURI(t), ssi.MustParseURI(is)
		var before [2][2]bool
		for a := range types {
			for b := range issuers {
				before[a][b] = hTrusted(tc, types[a], issuers[b])
			}
		}
		vAssert(tc.IsTrusted(tu, iu) == hTrusted(tc, t, is), "H01t.is_trusted_is_membership: IsTrusted differs from membership in the configured list")
		remove := vBool()
		if remove {
			vCover("remove")
			if before[indexOf(types, t)][indexOf(issuers, is)] {
				vCover("remove-listed")
			}
			_ = tc.RemoveTrust(tu, iu)
			vAssert(!tc.IsTrusted(tu, iu), "H01t.untrusted_after_remove: issuer still trusted after RemoveTrust")
		} else {
			vCover("add")
			_ = tc.AddTrust(tu, iu)
			vAssert(tc.IsTrusted(tu, iu), "H01t.trusted_after_add: issuer not trusted after AddTrust")
		}
		for a := range types {
			for b := range issuers {
				if types[a] == t && issuers[b] == is {
					continue
				}
				vAssert(hTrusted(tc, types[a], issuers[b]) == before[a][b], "H01t.others_unchanged: trust in another (type, issuer) pair changed")
			}
		}
		// the list handed to API clients never panics on what the call left behind
		_ = tc.List(tu)
	}
	vCover("done")
}

func indexOf(l []string, s string) int {
	for i, e := range l {
		if e == s {
			return i
		}
	}
	return -1
}

func H01t_twin() {
	tc := hTrustWorld([]string{"T1"}, 2)
	_ = tc.RemoveTrust(ssi.MustParseURI("T1"), ssi.MustParseURI("did:nuts:a"))
	vAssert(false, "H01t_twin.reach: reachable")
}
