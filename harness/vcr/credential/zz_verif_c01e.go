//go:build verif

package credential

import (
	"errors"

	"github.com/lestrrat-go/jwx/v2/jwa"
	ssi "github.com/nuts-foundation/go-did"
	"github.com/nuts-foundation/go-did/did"
	"github.com/nuts-foundation/go-did/vc"
	"github.com/nuts-foundation/nuts-node/vcr/signature/proof"
)

// H01e: credential.ResolveSubjectDID / PresenterIsCredentialSubject / PresentationSigner / ParseLDProof (real, with the
// real did.ParseDIDURL): a presentation is attributed to a subject only if every credential has that one subject and
// the presentation's key belongs to it; mixed subjects are rejected.
//
// Stubbed (JSON re-encoding between Go types and JWS parsing are not modelled by the engine), each by its contract:

//verif:stub (github.com/nuts-foundation/go-did/vc.VerifiableCredential).SubjectDID => hSubjectDID
//verif:stub (github.com/nuts-foundation/go-did/vc.VerifiablePresentation).UnmarshalProofValue => hVPUnmarshalProofValue
//verif:stub github.com/nuts-foundation/nuts-node/crypto.JWTKidAlg => hJWTKidAlg

const hMaxVCs = 4

// hE is the world of the running harness: the symbolic facts about the credentials' subjects, concretised on demand.
type hWorldE struct {
	// credentialSubject of credential i: 0 = subject(s) with the one id did:web:<subjectByte>; 1 = SubjectDID fails
	// (no subject, no id, differing ids within the credential, or an id that is not a DID)
	subjectKind [hMaxVCs]int
	subjectByte [hMaxVCs]byte
	subjectSeen [hMaxVCs]bool
	kid         string
	kidOK       bool
}

var hE *hWorldE

type hSubjectSlot struct{ i int }

func hNewWorldE() *hWorldE {
	w := &hWorldE{}
	for i := 0; i < hMaxVCs; i++ {
		vTag("subject.kind")
		w.subjectKind[i] = vRange(0, 1)
		vTag("subject.did")
		b := vU8()
		vAssume(b >= 'a' && b <= 'z')
		w.subjectByte[i] = b
	}
	hE = w
	return w
}

// hSubjectDID: documented contract of VerifiableCredential.SubjectDID = the one subject id as DID, or an error.
func hSubjectDID(c vc.VerifiableCredential) (*did.DID, error) {
	i := c.CredentialSubject[0].(hSubjectSlot).i
	hE.subjectSeen[i] = true
	if vConc(hE.subjectKind[i]) == 0 {
		s := string([]byte{hE.subjectByte[i]})
		return &did.DID{Method: "web", ID: s, DecodedID: s}, nil
	}
	return nil, errors.New("unable to get subject DID from VC: credential subjects have no ID")
}

// hVPUnmarshalProofValue: contract of VerifiablePresentation.UnmarshalProofValue for the target type ParseLDProof uses.
func hVPUnmarshalProofValue(vp vc.VerifiablePresentation, target interface{}) error {
	t, ok := target.(*[]proof.LDProof)
	if !ok {
		vCut("harness: UnmarshalProofValue into an unexpected target type")
	}
	var out []proof.LDProof
	for _, e := range vp.Proof {
		p, isProof := e.(proof.LDProof)
		if !isProof {
			return errors.New("json: cannot unmarshal into Go value of type proof.LDProof")
		}
		out = append(out, p)
	}
	*t = out
	return nil
}

// hJWTKidAlg: contract of crypto.JWTKidAlg = kid and alg of the single signature of a compact JWS, or an error.
func hJWTKidAlg(tokenString string) (string, jwa.SignatureAlgorithm, error) {
	if !hE.kidOK {
		return "", "", errors.New("harness: invalid compact JWS")
	}
	return hE.kid, jwa.ES256, nil
}

// key ids: of did:web:a (with fragment, with path and query, without fragment), of nobody, not a DID URL
var hKeyIDs = []string{"did:web:a#k", "did:web:a/p?x=1#k", "did:web:a", "", "#k", "junk"}

const hKeyIDsOfA = 3

func hPresentation(w *hWorldE, n int) (vc.VerifiablePresentation, bool) {
	var vp vc.VerifiablePresentation
	signedByA := false
	switch vChoice(3) {
	case 0:
		vCover("vp:jsonld")
		vSetField(&vp, "format", vc.JSONLDPresentationProofFormat)
		np := vLen(0, 2)
		for i := 0; i < np; i++ {
			k := vChoice(len(hKeyIDs))
			p := proof.LDProof{Type: ssi.JsonWebSignature2020}
			if hKeyIDs[k] != "" {
				p.VerificationMethod = ssi.MustParseURI(hKeyIDs[k])
			}
			vp.Proof = append(vp.Proof, p)
			signedByA = np == 1 && k < hKeyIDsOfA
		}
	case 1:
		vCover("vp:jwt")
		vSetField(&vp, "format", vc.JWTPresentationProofFormat)
		vSetField(&vp, "raw", "h.p.s")
		k := vChoice(len(hKeyIDs))
		w.kid = hKeyIDs[k]
		w.kidOK = vBool()
		signedByA = w.kidOK && k < hKeyIDsOfA
	case 2:
		vCover("vp:unset")
	}
	for i := 0; i < n; i++ {
		vp.VerifiableCredential = append(vp.VerifiableCredential, vc.VerifiableCredential{CredentialSubject: []interface{}{hSubjectSlot{i}}})
	}
	return vp, signedByA
}

func H01e() {
	w := hNewWorldE()
	n := vLen(0, vParam("vcs", 3))

	if vBool() {
		// ResolveSubjectDID alone
		vCover("resolve")
		var creds []vc.VerifiableCredential
		for i := 0; i < n; i++ {
			creds = append(creds, vc.VerifiableCredential{CredentialSubject: []interface{}{hSubjectSlot{i}}})
		}
		d, err := ResolveSubjectDID(creds...)
		same := true
		for i := 0; i < n; i++ {
			same = hAllE(same, w.subjectKind[i] == 0, w.subjectByte[i] == w.subjectByte[0])
		}
		if err == nil {
			vCover("resolve:one-subject")
			vAssert(d != nil, "H01e.resolve_returns_did: no error and no DID")
			for i := 0; i < n; i++ {
				vAssert(w.subjectSeen[i], "H01e.resolve_examines_every_credential: a credential's subject was not examined")
			}
			vAssert(same, "H01e.mixed_subjects_rejected: credentials with different (or unusable) subjects were given one subject")
			if n > 0 {
				vAssert(d.Method == "web" && d.ID == string([]byte{w.subjectByte[0]}), "H01e.resolve_returns_the_subject: the DID returned is not the credentials' subject")
			} else {
				vAssert(d.Empty(), "H01e.resolve_empty: a subject was invented for no credentials")
			}
		} else {
			vCover("resolve:rejected")
			vAssert(!same, "H01e.same_subject_resolves: credentials that all have the same subject were rejected")
		}
		return
	}

	vCover("presenter")
	vp, signedByA := hPresentation(w, n)
	d, err := PresenterIsCredentialSubject(vp)
	allA := true
	for i := 0; i < n; i++ {
		allA = hAllE(allA, w.subjectKind[i] == 0, w.subjectByte[i] == 'a')
	}
	switch {
	case err != nil:
		vCover("presenter:error")
	case d == nil:
		vCover("presenter:not-subject")
		// "not the subject" is an answer only if the signer is known and the credentials have one (other) subject, or none
		vAssert(hOrE(n == 0, !hAllE(signedByA, allA)), "H01e.subject_recognised: the signer is the subject of every credential but was not recognised")
	default:
		vCover("presenter:is-subject")
		if n > 0 {
			vAssert(signedByA, "H01e.signer_known: a presenter was reported although the signer cannot be determined")
			vAssert(allA, "H01e.presenter_is_subject_of_every_credential: a presenter was reported that is not the subject of every credential")
			vAssert(d.Method == "web" && d.ID == "a", "H01e.presenter_is_signer: the DID reported is not the signer")
			for i := 0; i < n; i++ {
				vAssert(w.subjectSeen[i], "H01e.presenter_examines_every_credential: a credential's subject was not examined")
			}
		} else {
			// without credentials only an empty signer DID "equals" the (empty) subject
			vAssert(d.Empty(), "H01e.no_credentials_no_subject: a presenter was reported for a presentation without credentials")
			vCover("presenter:empty-did")
		}
	}
}

func hAndE(a, b bool) bool { return a && b }
func hOrE(a, b bool) bool  { return a || b }
func hAllE(a ...bool) bool {
	r := true
	for _, x := range a {
		r = hAndE(r, x)
	}
	return r
}

func H01e_twin() {
	w := hNewWorldE()
	vp, _ := hPresentation(w, 2)
	d, err := PresenterIsCredentialSubject(vp)
	if err == nil && d != nil && w.subjectSeen[1] && vp.Format() == vc.JWTPresentationProofFormat {
		vAssert(false, "H01e_twin.reach: reachable")
	}
}
