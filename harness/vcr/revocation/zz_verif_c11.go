//go:build verif

package revocation

// H11a: bitstring.bit / setBit / isSet for every int index and every content of an n-byte string.
// Reference: MSB-first bit numbering (bit i lives in byte i/8, mask 0x80>>(i%8)).
func H11a() {
	n := vLen(1, vParam("bytes", 2))
	content := vBytes(n)
	orig := make([]byte, n)
	copy(orig, content)
	bs := bitstring(content)
	idx := vInt()
	val := vBool()

	inRange := idx >= 0 && idx < 8*n

	// bit() agrees with the reference and never panics
	got, err := bs.bit(idx)
	if inRange {
		vCover("bit:inrange")
		vAssert(err == nil, "H11a.bit_inrange_no_error: bit() returned an error for an in-range index")
	} else {
		vCover("bit:outofrange")
		vAssert(err == ErrIndexNotInBitstring, "H11a.bit_oob_error: bit() accepted an out-of-range index")
		vAssert(!got, "H11a.bit_oob_false: bit() reported a set bit out of range")
	}

	// setBit
	err = bs.setBit(idx, val)
	if !inRange {
		vAssert(err == ErrIndexNotInBitstring, "H11a.setbit_oob_error: setBit() accepted an out-of-range index")
		for i := 0; i < n; i++ {
			vAssert(bs[i] == orig[i], "H11a.setbit_oob_unchanged: setBit() out of range modified the list")
		}
		return
	}
	vAssert(err == nil, "H11a.setbit_inrange_no_error: setBit() failed for an in-range index")
	// symbolic probe of every bit position j
	j := vRange(0, 8*n-1)
	before := refBit(orig, j)
	after, err2 := bs.bit(j)
	vAssert(err2 == nil, "H11a.probe_no_error: bit() failed on in-range probe")
	if j == idx {
		vCover("probe:same")
		vAssert(after == val, "H11a.setbit_sets: setBit(i,v) did not make bit i equal v")
	} else {
		vCover("probe:other")
		vAssert(after == before, "H11a.setbit_frame: setBit(i,v) changed another bit")
	}
	if val && before {
		vCover("probe:was-set")
		vAssert(after, "H11a.never_clears: setBit(i,true) cleared a set bit")
	}
}

// refBit is the reference reading of the list: MSB first.
func refBit(b []byte, j int) bool {
	return b[j/8]&(0x80>>uint(j%8)) != 0
}

// H11a_twin is the vacuity witness: its final assertion must be violated.
func H11a_twin() {
	n := vLen(1, 2)
	content := vBytes(n)
	bs := bitstring(content)
	idx := vInt()
	_ = bs.setBit(idx, true)
	ok, err := bs.bit(idx)
	if err == nil && ok {
		vAssert(false, "H11a_twin.reach: reachable")
	}
}
