//go:build verif

package revocation

import (
	"encoding/json"
	"errors"
	"time"

	ssi "github.com/nuts-foundation/go-did"
	"github.com/nuts-foundation/go-did/vc"
	"github.com/nuts-foundation/nuts-node/vcr/types"
	"gorm.io/gorm"
	"gorm.io/gorm/clause"
)

// H11c / H11c2: decision logic of the StatusList2021 verifier.
//
// Real: StatusList2021.Verify, statusList, update, verify, validate, bitstring.bit, StatusList2021Entry handling,
// package time. Entries and status list credentials are value objects.
//
// Stubbed, each by its contract (SQL, HTTP, gzip and JSON re-encoding between Go types are not modelled):
//   loadCredential  = SELECT ... WHERE subject_id = ?  -> the row with that primary key, or gorm.ErrRecordNotFound
//   isManaged       = "this node issues the list with that subject id"
//   download        = HTTP GET of the URL -> a status list credential, or an error
//   expand          = base64+gzip decoding of credentialSubject.encodedList -> bit string, or an error
//   gorm Clauses/Create = upsert of the row by primary key (may fail)
//   go-did unmarshalAnySliceToTarget = decoding of credentialStatus / credentialSubject members into typed slices

//verif:stub (*github.com/nuts-foundation/nuts-node/vcr/revocation.StatusList2021).loadCredential => hLoadCredential
//verif:stub (*github.com/nuts-foundation/nuts-node/vcr/revocation.StatusList2021).isManaged => hIsManaged
//verif:stub (*github.com/nuts-foundation/nuts-node/vcr/revocation.StatusList2021).download => hDownload
//verif:stub github.com/nuts-foundation/nuts-node/vcr/revocation.expand => hExpand
//verif:stub (*gorm.io/gorm.DB).Clauses => hGormClauses
//verif:stub (*gorm.io/gorm.DB).Create => hGormCreate
//verif:stub github.com/nuts-foundation/go-did/vc.unmarshalAnySliceToTarget => hUnmarshalAnySlice

const hNURL = 2
const hListBytes = 2

var hURLs = [hNURL]string{"https://issuer.example/statuslist/did:web:a/1", "https://other.example/statuslist/did:web:b/1"}

// hRow is a stored status list (table status_list_credential) - all facts symbolic.
type hRow struct {
	present           bool
	purposeRevocation bool
	bits              [hListBytes]byte
	createdAt         int64 // now, or older than the 15 minutes after which an external list is refreshed
	hasExpires        bool
	expires           int64 // shortly before or long after now
}

// hRemote is what the URL serves - all facts symbolic.
type hRemote struct {
	downloadOK        bool // the GET succeeds and the body parses as a credential
	wellFormed        bool // the credential meets the StatusList2021Credential format rules
	subjectMatches    bool // credentialSubject.id equals the URL it was fetched from
	purposeRevocation bool
	expandOK          bool // encodedList decodes
	sigOK             bool // signature verdict of the verifier
	hasExpiration     bool
	bits              [hListBytes]byte
}

type hEvent struct {
	kind string // load, managed, fetch, store
	url  string
	// load: the row as it was at that time
	row hRow
}

type hWorldC struct {
	rows        [hNURL]hRow
	remote      [hNURL]hRemote
	managed     [hNURL]bool
	createFails bool
	now         int64
	events      []hEvent
	stored      []credentialRecord
}

var hC *hWorldC

func hSymBits(tag string) (b [hListBytes]byte) {
	vTag(tag)
	x := vBytes(hListBytes)
	for i := range b {
		b[i] = x[i]
	}
	return
}

func hNewWorldC() *hWorldC {
	w := &hWorldC{}
	for u := 0; u < hNURL; u++ {
		r := &w.rows[u]
		vTag("row.present")
		r.present = vBool()
		vTag("row.revocation")
		r.purposeRevocation = vBool()
		r.bits = hSymBits("row.bits")
		vTag("row.aged")
		aged := vBool()
		vTag("row.hasExpires")
		r.hasExpires = vBool()
		vTag("row.expired")
		expired := vBool()
		r.createdAt, r.expires = hRowTimes(aged, expired)
		m := &w.remote[u]
		vTag("remote.downloadOK")
		m.downloadOK = vBool()
		vTag("remote.wellFormed")
		m.wellFormed = vBool()
		vTag("remote.subjectMatches")
		m.subjectMatches = vBool()
		vTag("remote.revocation")
		m.purposeRevocation = vBool()
		vTag("remote.expandOK")
		m.expandOK = vBool()
		vTag("remote.sigOK")
		m.sigOK = vBool()
		vTag("remote.hasExpiration")
		m.hasExpiration = vBool()
		m.bits = hSymBits("remote.bits")
		vTag("managed")
		w.managed[u] = vBool()
	}
	vTag("createFails")
	w.createFails = vBool()
	w.now = hNow
	hC = w
	return w
}

// The refresh policy (when a stored list is considered stale) is not part of the claim, so the clock is fixed and the
// stored list's timestamps take two values each: created now / 1000 s ago, expires 1 s ago / in 1000 s.
const hNow = int64(1700000000)

func hRowTimes(aged, expired bool) (createdAt, expires int64) {
	createdAt, expires = hNow, hNow+1000
	if aged {
		createdAt = hNow - 1000
	}
	if expired {
		expires = hNow - 1
	}
	return
}

func vhNow() time.Time { return time.Unix(hNow, 0) }

func hURLIndex(s string) int {
	for u := 0; u < hNURL; u++ {
		if hURLs[u] == s {
			return u
		}
	}
	return -1
}

func hPurpose(revocation bool) string {
	if revocation {
		return StatusPurposeRevocation
	}
	return statusPurposeSuspension
}

func hLoadCredential(cs *StatusList2021, subjectID string) (*credentialRecord, error) {
	u := hURLIndex(subjectID)
	if u < 0 {
		hC.events = append(hC.events, hEvent{kind: "load", url: subjectID})
		return nil, gorm.ErrRecordNotFound
	}
	row := hC.rows[u]
	hC.events = append(hC.events, hEvent{kind: "load", url: subjectID, row: row})
	if !row.present {
		return nil, gorm.ErrRecordNotFound
	}
	cr := &credentialRecord{SubjectID: subjectID, StatusPurpose: hPurpose(row.purposeRevocation), CreatedAt: row.createdAt, Raw: "{}"}
	cr.Bitstring = append(bitstring(nil), row.bits[:]...)
	if row.hasExpires {
		e := row.expires
		cr.Expires = &e
	}
	return cr, nil
}

func hIsManaged(cs *StatusList2021, subjectID string) bool {
	hC.events = append(hC.events, hEvent{kind: "managed", url: subjectID})
	u := hURLIndex(subjectID)
	return u >= 0 && hC.managed[u]
}

const hOtherSubject = "https://evil.example/statuslist/1"

func hDownload(cs *StatusList2021, statusListCredential string) (*vc.VerifiableCredential, error) {
	hC.events = append(hC.events, hEvent{kind: "fetch", url: statusListCredential})
	u := hURLIndex(statusListCredential)
	if u < 0 || !hC.remote[u].downloadOK {
		return nil, errors.New("harness: fetching StatusList2021Credential failed")
	}
	m := hC.remote[u]
	var c vc.VerifiableCredential
	c.Context = []ssi.URI{vc.VCContextV1URI(), StatusList2021ContextURI}
	c.Type = []ssi.URI{vc.VerifiableCredentialTypeV1URI()}
	if m.wellFormed {
		c.Type = append(c.Type, statusList2021CredentialTypeURI)
	}
	id := ssi.MustParseURI(statusListCredential)
	c.ID = &id
	c.Issuer = ssi.MustParseURI("did:web:a")
	c.IssuanceDate = time.Unix(1700000000, 0)
	if m.hasExpiration {
		e := time.Unix(1700003600, 0)
		c.ExpirationDate = &e
	}
	subject := StatusList2021CredentialSubject{ID: statusListCredential, Type: StatusList2021CredentialSubjectType, StatusPurpose: hPurpose(m.purposeRevocation), EncodedList: "L" + string([]byte{byte('0' + u)})}
	if !m.subjectMatches {
		subject.ID = hOtherSubject
	}
	c.CredentialSubject = []interface{}{subject}
	c.Proof = []interface{}{"proof"}
	vSetField(&c, "format", vc.JSONLDCredentialProofFormat)
	vSetField(&c, "raw", "L"+string([]byte{byte('0' + u)}))
	return &c, nil
}

func hExpand(encodedList string) (bitstring, error) {
	if len(encodedList) != 2 || encodedList[0] != 'L' {
		return nil, errors.New("harness: illegal base64 data")
	}
	u := int(encodedList[1] - '0')
	if !hC.remote[u].expandOK {
		return nil, errors.New("harness: gzip: invalid header")
	}
	return append(bitstring(nil), hC.remote[u].bits[:]...), nil
}

func hVerifySignature(c vc.VerifiableCredential, at *time.Time) error {
	u := int(c.Raw()[1] - '0')
	if at != nil {
		return errors.New("harness: status list signature must be validated at the current time")
	}
	if !hC.remote[u].sigOK {
		return errors.New("harness: invalid signature")
	}
	return nil
}

func hGormClauses(db *gorm.DB, conds ...clause.Expression) *gorm.DB { return db }

func hGormCreate(db *gorm.DB, value interface{}) *gorm.DB {
	rec, ok := value.(*credentialRecord)
	if !ok {
		vCut("harness: gorm Create of an unexpected type")
	}
	hC.events = append(hC.events, hEvent{kind: "store", url: rec.SubjectID})
	if hC.createFails {
		return &gorm.DB{Error: errors.New("harness: database is locked")}
	}
	hC.stored = append(hC.stored, *rec)
	if u := hURLIndex(rec.SubjectID); u >= 0 && len(rec.Bitstring) == hListBytes {
		row := hRow{present: true, purposeRevocation: rec.StatusPurpose == StatusPurposeRevocation, createdAt: hC.now}
		copy(row.bits[:], rec.Bitstring)
		if rec.Expires != nil {
			row.hasExpires, row.expires = true, *rec.Expires
		}
		hC.rows[u] = row
	}
	return &gorm.DB{}
}

// hOtherStatus is a credentialStatus member of another type.
type hOtherStatus struct{ ID, Type string }

func hUnmarshalAnySlice(s []interface{}, target interface{}) error {
	switch t := target.(type) {
	case *[]vc.CredentialStatus:
		var out []vc.CredentialStatus
		for _, e := range s {
			var st vc.CredentialStatus
			switch x := e.(type) {
			case StatusList2021Entry:
				st.ID = ssi.MustParseURI(x.ID)
				st.Type = x.Type
			case hOtherStatus:
				st.ID = ssi.MustParseURI(x.ID)
				st.Type = x.Type
			default:
				return errors.New("json: cannot unmarshal into Go value of type vc.CredentialStatus")
			}
			raw, _ := json.Marshal(e)
			vSetField(&st, "raw", raw)
			out = append(out, st)
		}
		*t = out
		return nil
	case *[]StatusList2021CredentialSubject:
		var out []StatusList2021CredentialSubject
		for _, e := range s {
			x, ok := e.(StatusList2021CredentialSubject)
			if !ok {
				return errors.New("json: cannot unmarshal into Go value of type StatusList2021CredentialSubject")
			}
			out = append(out, x)
		}
		*t = out
		return nil
	}
	vCut("harness: unmarshalAnySliceToTarget into an unexpected target type")
	return nil
}

func hNewStatusList() *StatusList2021 {
	return &StatusList2021{db: &gorm.DB{}, VerifySignature: hVerifySignature}
}

func hAndC(a, b bool) bool { return a && b }
func hOrC(a, b bool) bool  { return a || b }
func hAllC(a ...bool) bool {
	r := true
	for _, x := range a {
		r = hAndC(r, x)
	}
	return r
}

// remote list accepted: fetched, well-formed, decodes, signed, and about the URL it was fetched from
func (m hRemote) acceptable() bool {
	return hAllC(m.downloadOK, m.wellFormed, m.expandOK, m.sigOK, m.subjectMatches)
}

// The status list index is a two-character string of arbitrary bytes ("07", "15", "42", "-3", "+1", "x1", ...).
// hRefIndex is the reference reading: an optional sign followed by decimal digits.
func hRefIndex(c0, c1 byte) (valid bool, value int) {
	d0, d1 := int(c0)-'0', int(c1)-'0'
	isD0 := hAndC(d0 >= 0, d0 <= 9)
	isD1 := hAndC(d1 >= 0, d1 <= 9)
	signed := hOrC(c0 == '-', c0 == '+')
	valid = hAndC(isD1, hOrC(isD0, signed))
	value = vIte(isD0, d0*10+d1, vIte(c0 == '-', -d1, d1))
	return
}

// reference reading of bit j of a two-byte list for symbolic j in range: MSB first
func hRefBitSym(b [hListBytes]byte, j int) bool {
	x := vIte(j < 8, int(b[0]), int(b[1]))
	k := vIte(j < 8, j, j-8)
	return (x>>uint(7-k))&1 == 1
}

const (
	hOutcomeContinue = iota
	hOutcomeRevoked
	hOutcomeError
)

// H11c: StatusList2021.Verify on a credential with up to `entries` credentialStatus members.
func H11c() {
	w := hNewWorldC()
	n := vLen(0, vParam("entries", 2))
	var c vc.VerifiableCredential
	id := ssi.MustParseURI("did:web:a#1")
	c.ID = &id
	kind := make([]int, n) // 0 = StatusList2021Entry for revocation, 1 = StatusList2021Entry for another purpose, 2 = another type
	url := make([]int, n)
	idx := make([][]byte, n)
	firstURL := true
	for i := 0; i < n; i++ {
		kind[i] = vChoice(3)
		switch kind[i] {
		case 0, 1:
			// the two URLs are interchangeable: the first entry with a list names URL 0
			if !firstURL {
				url[i] = vChoice(hNURL)
			}
			firstURL = false
			vTag("index")
			idx[i] = vBytes(2)
			c.CredentialStatus = append(c.CredentialStatus, StatusList2021Entry{
				ID: hURLs[url[i]] + "#e", Type: StatusList2021EntryType, StatusPurpose: hPurpose(kind[i] == 0),
				StatusListIndex: string(idx[i]), StatusListCredential: hURLs[url[i]],
			})
		case 2:
			c.CredentialStatus = append(c.CredentialStatus, hOtherStatus{ID: "https://issuer.example/status/1", Type: "RevocationList2020Status"})
		}
	}

	if n >= 2 && vParam("fullworld", 0) == 0 {
		// with several entries: the lists are stored and issued by this node (no refresh); one entry explores every case
		for u := 0; u < hNURL; u++ {
			vAssume(hAndC(w.rows[u].present, w.managed[u]))
		}
	}
	for u := 0; u < hNURL; u++ {
		vAssume(!w.remote[u].hasExpiration) // irrelevant for Verify; covered by H11c2
	}

	cs := hNewStatusList()
	err := cs.Verify(c)

	// --- reference. The events are cut into one segment per processed revocation entry (each starts with the lookup of the
	// stored list); within a segment the list that counts is the freshly fetched one if it is acceptable, else the stored row.
	seg := -1
	var segs [][]hEvent
	for _, e := range w.events {
		if e.kind == "load" {
			seg++
			segs = append(segs, nil)
		}
		vAssert(seg >= 0, "H11c.lookup_first: a list was fetched or stored before the stored list was looked up")
		segs[seg] = append(segs[seg], e)
	}
	expected := hOutcomeContinue
	processed := 0
	for i := 0; i < n && expected == hOutcomeContinue; i++ {
		if kind[i] != 0 {
			continue // other types and purposes are ignored
		}
		vAssert(processed < len(segs), "H11c.every_revocation_entry_checked: a revocation entry was skipped")
		if processed >= len(segs) {
			return
		}
		s := segs[processed]
		processed++
		u := url[i]
		fetched := false
		for _, e := range s {
			vAssert(e.url == hURLs[u], "H11c.consults_the_named_list: a list other than the entry's statusListCredential was consulted")
			if e.kind == "fetch" {
				fetched = true
			}
		}
		row := s[0].row
		m := w.remote[u]
		useRemote := hAndC(fetched, m.acceptable())
		haveList := hOrC(useRemote, row.present)
		if !row.present {
			vAssert(fetched, "H11c.unknown_list_is_fetched: a list that is not stored was not fetched")
		}
		validIndex, j := hRefIndex(idx[i][0], idx[i][1])
		inRange := hAllC(validIndex, j >= 0, j < 8*hListBytes)
		jj := vIte(inRange, j, 0)
		purposeOK := hOrC(hAndC(useRemote, m.purposeRevocation), hAllC(!useRemote, row.purposeRevocation))
		bit := hOrC(hAndC(useRemote, hRefBitSym(m.bits, jj)), hAndC(!useRemote, hRefBitSym(row.bits, jj)))
		// outcome of this entry
		isError := hOrC(!haveList, hOrC(!purposeOK, !inRange))
		isRevoked := hAllC(haveList, purposeOK, inRange, bit)
		revokedReported := err != nil && errors.Is(err, types.ErrRevoked)
		otherError := err != nil && !revokedReported
		last := processed == len(segs)
		if last {
			// the entry at which verification stopped, or the last one it passed
			vAssert(hOrC(!isRevoked, revokedReported), "H11c.set_bit_is_revoked: the named list has the entry's bit set but the credential is not reported revoked")
			vAssert(hOrC(!revokedReported, isRevoked), "H11c.revoked_only_by_named_list: reported revoked although the list named by the entry (stored, or fetched and acceptable) does not have the bit set")
			vAssert(hOrC(!isError, otherError), "H11c.unusable_list_is_error: list unavailable, of another purpose, or index out of range - but no error was reported")
			vAssert(hOrC(!otherError, isError), "H11c.error_has_cause: an error was reported although the named list is usable and the bit is clear")
			if revokedReported {
				vCover("revoked")
				if useRemoteConcrete(fetched, m) {
					vCover("revoked-by-refreshed-list")
				}
			}
			if otherError {
				vCover("error")
			}
			if err == nil {
				vCover("not-revoked")
			}
			expected = hOutcomeError // stop walking: later entries were not processed iff err != nil
			if err == nil {
				expected = hOutcomeContinue
			}
		} else {
			vAssert(hAllC(!isRevoked, !isError), "H11c.stops_at_first_failure: verification continued after a revoked or unusable entry")
		}
		if fetched && row.present {
			vCover("refreshed-stale-list")
		}
		if s[len(s)-1].kind == "managed" && row.present && len(s) == 2 && w.managed[u] {
			vCover("managed-list-not-refreshed")
		}
	}
	vAssert(processed == len(segs), "H11c.only_revocation_entries_consult_lists: a list was consulted for an entry of another type or purpose")
	if processed == 0 {
		vCover("nothing-to-check")
		vAssert(err == nil, "H11c.ignored_entries_pass: a credential without revocation entries failed the status check")
	}
	// whatever was written to the store is an acceptable list about the URL it was fetched from
	for _, r := range w.stored {
		u := hURLIndex(r.SubjectID)
		vAssert(u >= 0 && w.remote[u].acceptable(), "H11c.stores_only_accepted_lists: a list that was not acceptable was stored")
	}
}

func useRemoteConcrete(fetched bool, m hRemote) bool { return fetched && m.acceptable() }

func H11c_twin() {
	w := hNewWorldC()
	var c vc.VerifiableCredential
	for i := 0; i < 2; i++ {
		c.CredentialStatus = append(c.CredentialStatus, StatusList2021Entry{
			ID: hURLs[i] + "#5", Type: StatusList2021EntryType, StatusPurpose: StatusPurposeRevocation,
			StatusListIndex: "5", StatusListCredential: hURLs[i],
		})
	}
	vAssume(hAndC(w.rows[0].present, w.managed[0]))
	err := hNewStatusList().Verify(c)
	if err != nil && errors.Is(err, types.ErrRevoked) && len(w.stored) == 1 && w.stored[0].SubjectID == hURLs[1] {
		vAssert(false, "H11c_twin.reach: reachable")
	}
}

// H11c2: StatusList2021.update (download + verify + store) for one URL.
func H11c2() {
	w := hNewWorldC()
	u := vChoice(hNURL)
	cs := hNewStatusList()
	rec, err := cs.update(hURLs[u])
	m := w.remote[u]
	if err == nil {
		vCover("accepted")
		vAssert(rec != nil, "H11c2.returns_record: no error and no record")
		vAssert(m.downloadOK, "H11c2.downloaded: a list was accepted although the download failed")
		vAssert(m.wellFormed, "H11c2.well_formed: a malformed status list credential was accepted")
		vAssert(m.expandOK, "H11c2.list_decodes: a list that does not decode was accepted")
		vAssert(m.sigOK, "H11c2.signature_verified: a list with an invalid signature was accepted")
		vAssert(m.subjectMatches, "H11c2.subject_is_requested_url: a list about another subject id than the requested URL was accepted")
		vAssert(rec.SubjectID == hURLs[u], "H11c2.record_keyed_by_url: the record is not keyed by the requested URL")
		vAssert(rec.StatusPurpose == hPurpose(m.purposeRevocation), "H11c2.purpose_copied: purpose of the record differs from the list's")
		vAssert(len(rec.Bitstring) == hListBytes, "H11c2.bits_copied: the record's bit string differs from the list's")
		for i := 0; i < hListBytes && i < len(rec.Bitstring); i++ {
			vAssert(rec.Bitstring[i] == m.bits[i], "H11c2.bits_copied: the record's bit string differs from the list's")
		}
		vAssert((rec.Expires != nil) == m.hasExpiration, "H11c2.expiry_copied: expiry of the record differs from the list's")
		if w.createFails {
			vCover("accepted-store-failed")
			vAssert(len(w.stored) == 0, "H11c2.store_failure: stored although the store failed")
		} else {
			vAssert(len(w.stored) == 1 && w.stored[0].SubjectID == hURLs[u], "H11c2.stored_once: the accepted list was not stored exactly once under the requested URL")
		}
	} else {
		vCover("rejected")
		vAssert(rec == nil, "H11c2.reject_returns_nothing: rejected list returned a record")
		vAssert(len(w.stored) == 0, "H11c2.reject_stores_nothing: rejected list was stored")
		vAssert(!m.acceptable(), "H11c2.acceptable_is_accepted: an acceptable list was rejected")
	}
}

func H11c2_twin() {
	w := hNewWorldC()
	rec, err := hNewStatusList().update(hURLs[1])
	if err == nil && rec != nil && len(w.stored) == 1 && rec.Bitstring[1] == 0x40 {
		vAssert(false, "H11c2_twin.reach: reachable")
	}
}
