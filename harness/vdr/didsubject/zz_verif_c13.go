//go:build verif

package didsubject

import (
	"github.com/google/uuid"
	"database/sql"
	"context"
	"errors"

	"github.com/nuts-foundation/nuts-node/storage/orm"
	"gorm.io/gorm"
)

// gorm is replaced by a recording stub with symbolic failures (the SQL semantics themselves - atomicity
// of a transaction, cascades, the time-based query of the sweep - are NOT modelled; see registry).
//verif:stub (*gorm.io/gorm.DB).Transaction => hTransaction
//verif:stub (*gorm.io/gorm.DB).Save => hSave
//verif:stub (*gorm.io/gorm.DB).Where => hWhere
//verif:stub (*gorm.io/gorm.DB).Delete => hDelete
//verif:stub (*gorm.io/gorm.DB).Preload => hPreload
//verif:stub (*gorm.io/gorm.DB).InnerJoins => hInnerJoins
//verif:stub (*gorm.io/gorm.DB).Find => hFind

type hSQLOp struct {
	kind  string // "save" | "delete-doc" | "delete-log"
	arg   string
	txNum int
}

type hSQL struct {
	txCount    int        // transactions started
	txFails    []bool     // per transaction: the operation inside fails (symbolic)
	ops        []hSQLOp   // operations issued inside transactions that committed
	pending    []hSQLOp   // operations of the running transaction
	where      string     // last Where argument
	found      []orm.DIDChangeLog
	opFailAt   int // 1-based index of the Save/Delete that fails (0 = none)
	opCount    int
}

var hDB *hSQL

var errHSQL = errors.New("harness: database error")

func hTransaction(db *gorm.DB, fc func(tx *gorm.DB) error, opts ...*sql.TxOptions) error {
	hDB.txCount++
	n := hDB.txCount
	hDB.pending = nil
	err := fc(&gorm.DB{})
	if err == nil && n <= len(hDB.txFails) && hDB.txFails[n-1] {
		err = errHSQL // commit failure
	}
	if err != nil {
		hDB.pending = nil // rolled back
		return err
	}
	for _, o := range hDB.pending {
		o.txNum = n
		hDB.ops = append(hDB.ops, o)
	}
	hDB.pending = nil
	return nil
}

func hOpResult() *gorm.DB {
	hDB.opCount++
	if hDB.opFailAt != 0 && hDB.opCount == hDB.opFailAt {
		return &gorm.DB{Error: errHSQL}
	}
	return &gorm.DB{}
}

func hSave(db *gorm.DB, value interface{}) *gorm.DB {
	r := hOpResult()
	if r.Error == nil {
		if c, ok := value.(*orm.DIDChangeLog); ok {
			hDB.pending = append(hDB.pending, hSQLOp{kind: "save", arg: c.DIDDocumentVersionID})
			hDB.pending = append(hDB.pending, hSQLOp{kind: "save-txid", arg: c.TransactionID})
		}
	}
	return r
}

func hWhere(db *gorm.DB, query interface{}, args ...interface{}) *gorm.DB {
	if len(args) == 1 {
		if s, ok := args[0].(string); ok {
			hDB.where = s
		}
	}
	return db
}

func hDelete(db *gorm.DB, value interface{}, conds ...interface{}) *gorm.DB {
	r := hOpResult()
	if r.Error == nil {
		switch value.(type) {
		case *orm.DidDocument:
			hDB.pending = append(hDB.pending, hSQLOp{kind: "delete-doc", arg: hDB.where})
		case *orm.DIDChangeLog:
			hDB.pending = append(hDB.pending, hSQLOp{kind: "delete-log", arg: hDB.where})
		}
	}
	return r
}

func hPreload(db *gorm.DB, query string, args ...interface{}) *gorm.DB          { return db }
func hInnerJoins(db *gorm.DB, query string, args ...interface{}) *gorm.DB       { return db }
func hFind(db *gorm.DB, dest interface{}, conds ...interface{}) *gorm.DB {
	if p, ok := dest.(*[]orm.DIDChangeLog); ok {
		*p = append([]orm.DIDChangeLog(nil), hDB.found...)
	}
	return &gorm.DB{}
}

type hMethodManager struct {
	MethodManager
	name       string
	commitFail bool
	committed  []string // document version ids for which Commit succeeded
	isCommitted map[string]bool
	isCommittedErr map[string]bool // the method cannot tell (e.g. the DID does not resolve right now)
}

func (m *hMethodManager) Commit(ctx context.Context, e orm.DIDChangeLog) error {
	if m.commitFail {
		return errors.New("harness: publish failed for " + m.name)
	}
	m.committed = append(m.committed, e.DIDDocumentVersionID)
	return nil
}

func (m *hMethodManager) IsCommitted(ctx context.Context, e orm.DIDChangeLog) (bool, error) {
	if m.isCommittedErr[e.DIDDocumentVersionID] {
		return false, errors.New("harness: cannot determine whether the change was published")
	}
	return m.isCommitted[e.DIDDocumentVersionID], nil
}

func hasOp(kind, arg string) bool {
	for _, o := range hDB.ops {
		if o.kind == kind && o.arg == arg {
			return true
		}
	}
	return false
}

func countOps(kind string) int {
	n := 0
	for _, o := range hDB.ops {
		if o.kind == kind {
			n++
		}
	}
	return n
}

// H13a: decision skeleton of transactionHelper for a subject with two DID methods: which clean-up is
// issued for every combination of failures (first DB transaction, each method's publish in either map
// order, second DB transaction).
func H13a() {
	vMapOrder(true)
	hDB = &hSQL{txFails: []bool{vBool(), vBool()}}
	web := &hMethodManager{name: "web", commitFail: vBool()}
	nuts := &hMethodManager{name: "nuts", commitFail: vBool()}
	m := &SqlManager{DB: &gorm.DB{}, MethodManagers: map[string]MethodManager{"web": web, "nuts": nuts}}
	opFails := vBool()
	changes := map[string]orm.DIDChangeLog{
		"web":  {DIDDocumentVersionID: "doc-web", TransactionID: "tx1", Type: "created"},
		"nuts": {DIDDocumentVersionID: "doc-nuts", TransactionID: "tx1", Type: "created"},
	}
	err := m.transactionHelper(context.Background(), func(tx *gorm.DB) (map[string]orm.DIDChangeLog, error) {
		if opFails {
			return nil, errors.New("harness: operation failed")
		}
		return changes, nil
	})
	tx1Failed := opFails || hDB.txFails[0]
	if tx1Failed {
		vCover("tx1-failed")
		vAssert(err != nil, "H13a.tx1_error_reported: failure of the first database transaction not reported")
		vAssert(len(web.committed) == 0 && len(nuts.committed) == 0, "H13a.tx1_failed_nothing_published: a method published although the database write failed")
		vAssert(hDB.txCount == 1 && len(hDB.ops) == 0, "H13a.tx1_failed_nothing_else: further database work after a failed first transaction")
		return
	}
	vAssert(hasOp("save", "doc-web") && hasOp("save", "doc-nuts"), "H13a.changes_recorded: change records were not written with the documents")
	publishFailed := web.commitFail || nuts.commitFail
	tx2Failed := hDB.txFails[1]
	if tx2Failed {
		vCover("tx2-failed")
		vAssert(err != nil, "H13a.db_error_priority: failure of the clean-up transaction not reported")
		vAssert(countOps("delete-doc") == 0 && countOps("delete-log") == 0, "H13a.tx2_rolled_back: operations of a failed clean-up transaction took effect")
		return
	}
	if publishFailed {
		vCover("publish-failed")
		vAssert(err != nil, "H13a.publish_error_reported: publish failure not reported to the caller")
		vAssert(hasOp("delete-doc", "doc-web") && hasOp("delete-doc", "doc-nuts"), "H13a.all_versions_removed: a publish failure did not remove the new version of every DID of the subject")
		vAssert(countOps("delete-log") == 0, "H13a.no_log_delete_on_failure: change log deleted separately although versions are removed (cascade)")
	} else {
		vCover("all-ok")
		vAssert(err == nil, "H13a.success_no_error: successful operation reported an error")
		vAssert(len(web.committed) == 1 && len(nuts.committed) == 1, "H13a.all_methods_published: not every method published its change")
		vAssert(hasOp("delete-log", "tx1"), "H13a.changelog_cleared: change records of a fully published operation were not removed")
		vAssert(countOps("delete-doc") == 0, "H13a.no_version_removed_on_success: a document version was removed although everything was published")
	}
}

func H13a_twin() {
	hDB = &hSQL{txFails: []bool{false, false}}
	web := &hMethodManager{name: "web", commitFail: vBool()}
	m := &SqlManager{DB: &gorm.DB{}, MethodManagers: map[string]MethodManager{"web": web}}
	err := m.transactionHelper(context.Background(), func(tx *gorm.DB) (map[string]orm.DIDChangeLog, error) {
		return map[string]orm.DIDChangeLog{"web": {DIDDocumentVersionID: "d", TransactionID: "t"}}, nil
	})
	if err != nil && hasOp("delete-doc", "d") {
		vAssert(false, "H13a_twin.reach: reachable")
	}
}

// H13b: the rollback sweep. Two operations (transaction ids) with up to two changes each; per change
// the method manager reports committed or not (symbolic). A group with any uncommitted change has all
// its versions removed; fully committed groups keep their versions; every group's change records go.
func H13b() {
	vMapOrder(true)
	hDB = &hSQL{txFails: []bool{false}}
	web := &hMethodManager{name: "web", isCommitted: map[string]bool{}}
	nuts := &hMethodManager{name: "nuts", isCommitted: map[string]bool{}}
	m := &SqlManager{DB: &gorm.DB{}, MethodManagers: map[string]MethodManager{"web": web, "nuts": nuts}}
	mk := func(id, txid, didStr string) orm.DIDChangeLog {
		return orm.DIDChangeLog{DIDDocumentVersionID: id, TransactionID: txid, DIDDocumentVersion: orm.DidDocument{ID: id, DID: orm.DID{ID: didStr}}}
	}
	all := []orm.DIDChangeLog{
		mk("a-web", "txA", "did:web:example.com"), mk("a-nuts", "txA", "did:nuts:abc"),
		mk("b-web", "txB", "did:web:example.com"), mk("b-nuts", "txB", "did:nuts:abc"),
	}
	n := vLen(1, 4)
	hDB.found = all[:n]
	com := make([]bool, n)
	errs := make([]bool, n) // IsCommitted fails for this change
	anyErr := false
	web.isCommittedErr, nuts.isCommittedErr = map[string]bool{}, map[string]bool{}
	for i := 0; i < n; i++ {
		com[i] = vBool()
		errs[i] = vBool()
		anyErr = anyErr || errs[i]
		mm := web
		if i%2 == 1 {
			mm = nuts
		}
		mm.isCommitted[all[i].DIDDocumentVersionID] = com[i]
		mm.isCommittedErr[all[i].DIDDocumentVersionID] = errs[i]
	}
	m.Rollback(context.Background())
	groupUncommitted := func(lo, hi int) bool {
		for i := lo; i < hi && i < n; i++ {
			if !com[i] {
				return true
			}
		}
		return false
	}
	for g, txid := range []string{"txA", "txB"} {
		lo, hi := 2*g, 2*g+2
		if lo >= n {
			continue
		}
		// whatever the methods answer (also "cannot tell"): the change records of an operation go only when its
		// fate is decided - every change is known to be published, or every one of its versions is removed;
		// and a version is removed only from an operation that is not known to be published completely
		allPublished, allRemoved := true, true
		for i := lo; i < hi && i < n; i++ {
			allPublished = allPublished && com[i] && !errs[i]
			allRemoved = allRemoved && hasOp("delete-doc", all[i].DIDDocumentVersionID)
		}
		if hasOp("delete-log", txid) {
			vAssert(allPublished || allRemoved, "H13b.log_removed_only_when_decided: change records removed while an unpublished or undetermined version stays")
		}
		for i := lo; i < hi && i < n; i++ {
			if hasOp("delete-doc", all[i].DIDDocumentVersionID) {
				vAssert(!allPublished, "H13b.committed_group_kept: a fully published operation lost a document version")
			}
		}
		if anyErr {
			vCover("method-cannot-tell")
			continue // the sweep may stop and retry later; the invariants above are what must hold
		}
		vAssert(hasOp("delete-log", txid), "H13b.every_group_log_removed: change records of a swept operation remain")
		for i := lo; i < hi && i < n; i++ {
			removed := hasOp("delete-doc", all[i].DIDDocumentVersionID)
			if groupUncommitted(lo, hi) {
				vCover("group-rolled-back")
				vAssert(removed, "H13b.uncommitted_group_all_removed: an operation with an unpublished change kept one of its document versions")
			} else {
				vCover("group-kept")
				vAssert(!removed, "H13b.committed_group_kept: a fully published operation lost a document version")
			}
		}
	}
}

func H13b_twin() {
	hDB = &hSQL{txFails: []bool{false}}
	web := &hMethodManager{name: "web", isCommitted: map[string]bool{"x": vBool()}}
	m := &SqlManager{DB: &gorm.DB{}, MethodManagers: map[string]MethodManager{"web": web}}
	hDB.found = []orm.DIDChangeLog{{DIDDocumentVersionID: "x", TransactionID: "t", DIDDocumentVersion: orm.DidDocument{ID: "x", DID: orm.DID{ID: "did:web:example.com"}}}}
	m.Rollback(context.Background())
	if hasOp("delete-doc", "x") {
		vAssert(false, "H13b_twin.reach: reachable")
	}
}


//verif:stub (github.com/nuts-foundation/nuts-node/vdr/didsubject.SqlDIDManager).FindBySubject => hFindBySubject
//verif:stub (*github.com/nuts-foundation/nuts-node/vdr/didsubject.SqlDIDDocumentManager).CreateOrUpdate => hCreateOrUpdate

//verif:stub github.com/google/uuid.New => hUUIDNew

var hSubjectDIDs []orm.DID
var hUUIDCount byte

// hUUIDNew: uuid.New reads crypto/rand through a package-level reader; contract: every call yields a fresh value.
func hUUIDNew() uuid.UUID {
	hUUIDCount++
	return uuid.UUID{0: hUUIDCount, 6: 0x40, 8: 0x80}
}

// the SQL managers below transactionHelper (gorm query builders) answer from the harness: the subject's DIDs, and a
// new document version per DID (or a database error at a symbolic position)
func hFindBySubject(s SqlDIDManager, subject string) ([]orm.DID, error) {
	if vBool() {
		return nil, errHSQL
	}
	return hSubjectDIDs, nil
}

func hCreateOrUpdate(s *SqlDIDDocumentManager, d orm.DID, vms []orm.VerificationMethod, services []orm.Service) (*orm.DidDocument, error) {
	if vBool() {
		return nil, errHSQL
	}
	return &orm.DidDocument{ID: "v-" + d.ID, DID: d, Version: 1}, nil
}

// H13c: a whole operation (the real Deactivate: change records built by the operation itself, then the real
// transactionHelper) on a subject with one DID per method, for every combination of database and publish
// failures: the change records written for ONE operation carry ONE transaction id (the sweep decides per
// transaction id - records that do not share it would let the DIDs of a subject diverge), and after an operation
// that succeeded no change record remains: every transaction id that was written is cleared again.
func H13c() {
	vMapOrder(true)
	hDB = &hSQL{txFails: []bool{vBool(), vBool()}}
	web := &hMethodManager{name: "web", commitFail: vBool()}
	nuts := &hMethodManager{name: "nuts", commitFail: vBool()}
	m := &SqlManager{DB: &gorm.DB{}, MethodManagers: map[string]MethodManager{"web": web, "nuts": nuts}}
	hUUIDCount = 0
	hSubjectDIDs = []orm.DID{{ID: "did:web:example.com", Subject: "s"}, {ID: "did:nuts:abc", Subject: "s"}}
	err := m.Deactivate(context.Background(), "s")
	var txids []string
	for _, o := range hDB.ops {
		if o.kind == "save-txid" {
			txids = append(txids, o.arg)
		}
	}
	if len(txids) == 0 {
		vCover("nothing-written")
		vAssert(err != nil, "H13c.failure_reported: nothing was written but the operation reported success")
		vAssert(len(web.committed) == 0 && len(nuts.committed) == 0, "H13c.nothing_published_without_record: a method published without a change record")
		return
	}
	vCover("records-written")
	vAssert(len(txids) == 2, "H13c.one_record_per_did: not every DID of the subject got a change record")
	for _, id := range txids {
		vAssert(id == txids[0], "H13c.one_transaction_id_per_operation: change records of one operation carry different transaction ids")
	}
	if err == nil {
		vCover("success")
		for _, id := range txids {
			vAssert(hasOp("delete-log", id), "H13c.no_record_remains_after_success: a change record of a successful operation remains")
		}
		vAssert(len(web.committed) == 1 && len(nuts.committed) == 1, "H13c.all_methods_published: success reported but a method did not publish")
	} else {
		vCover("failure")
	}
}

func H13c_twin() {
	hDB = &hSQL{txFails: []bool{false, false}}
	web := &hMethodManager{name: "web"}
	m := &SqlManager{DB: &gorm.DB{}, MethodManagers: map[string]MethodManager{"web": web}}
	hUUIDCount = 0
	hSubjectDIDs = []orm.DID{{ID: "did:web:example.com", Subject: "s"}}
	if m.Deactivate(context.Background(), "s") == nil && countOps("delete-log") == 1 {
		vAssert(false, "H13c_twin.reach: reachable")
	}
}
