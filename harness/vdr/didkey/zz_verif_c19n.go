//go:build verif

package didkey

import (
	"crypto"
	"crypto/ecdsa"
	"crypto/ed25519"
	"crypto/elliptic"
	"crypto/rsa"
	"errors"
	"math/big"

	"github.com/lestrrat-go/jwx/v2/x25519"
	"github.com/mr-tron/base58"
	ssi "github.com/nuts-foundation/go-did"
	"github.com/nuts-foundation/go-did/did"
)

// H19n: did:key Resolver.Resolve on an arbitrary identifier whose multibase part decodes to arbitrary bytes.
//
// Real: Resolver.Resolve, unmarshalEC, bytes.Reader, binary.ReadUvarint, io.ReadAll, the multicodec dispatch,
// go-did Document.Add*Method.
// Stubbed by contract:
//   base58.DecodeAlphabet        -> an error, or arbitrary bytes of one of the lengths hnLens (content symbolic)
//   elliptic.UnmarshalCompressed -> (nil, nil) unless the input has the length of a compressed point of the curve;
//                                   then a point or (nil, nil) by verdict ("is on the curve")
//   x509.ParsePKCS1PublicKey     -> an error, or a key with a 2040 or 2048 bit modulus by verdict (rsa.PublicKey.Size => that size)
//   elliptic.P256/P384/P521      -> opaque curve tokens
//   did.NewVerificationMethod    -> go-did v0.15 / jwx v2.1.3 jwk.FromRaw: error for a nil key and for an
//                                   ecdsa.PublicKey without X or Y, else a method {ID, Type, Controller, PublicKeyJwk}

//verif:stub github.com/mr-tron/base58.DecodeAlphabet => hnDecode
//verif:stub crypto/elliptic.UnmarshalCompressed => hnUnmarshalCompressed
//verif:stub crypto/x509.ParsePKCS1PublicKey => hnParsePKCS1
//verif:stub github.com/nuts-foundation/go-did/did.NewVerificationMethod => hnNewVM
//verif:stub crypto/elliptic.P256 => hnP256
//verif:stub crypto/elliptic.P384 => hnP384
//verif:stub crypto/elliptic.P521 => hnP521
//verif:stub (*crypto/rsa.PublicKey).Size => hnRSASize

// The curves are opaque tokens (their parameters are math/big numbers, whose arithmetic is assembly).
type hnCurve struct {
	elliptic.Curve
	bytes int
}

var hnCurves = [3]*hnCurve{{bytes: 32}, {bytes: 48}, {bytes: 66}}

func hnP256() elliptic.Curve { return hnCurves[0] }
func hnP384() elliptic.Curve { return hnCurves[1] }
func hnP521() elliptic.Curve { return hnCurves[2] }

// (*rsa.PublicKey).Size: modulus size in bytes; the harness keys carry it in E (math/big is not interpreted).
func hnRSASize(k *rsa.PublicKey) int { return k.E }

var hnLens = []int{0, 1, 2, 3, 34, 35, 33, 4, 36, 51, 52}

type hnState struct {
	decodeCalls int
	decodeArg   string
	decodeFails bool
	decoded     []byte
	pointOK     bool
	ecCalls     int
	ecData      []byte
	rsaFails    bool
	rsaSmall    bool
	rsaCalls    int
	vmCalls     int
	vmKey       crypto.PublicKey
	vmFails     bool
}

var hn *hnState

func hnDecode(str string, alphabet *base58.Alphabet) ([]byte, error) {
	hn.decodeCalls++
	hn.decodeArg = str
	if alphabet != base58.BTCAlphabet {
		return nil, errors.New("harness: did:key uses the bitcoin alphabet")
	}
	if hn.decodeFails {
		return nil, errors.New("harness: invalid base58 digit")
	}
	return hn.decoded, nil
}

func hnCurveBytes(c elliptic.Curve) int {
	if c, ok := c.(*hnCurve); ok {
		return c.bytes
	}
	return -1
}

func hnUnmarshalCompressed(curve elliptic.Curve, data []byte) (x, y *big.Int) {
	hn.ecCalls++
	hn.ecData = data
	if len(data) != 1+hnCurveBytes(curve) {
		return nil, nil
	}
	if !hn.pointOK {
		return nil, nil
	}
	return new(big.Int), new(big.Int)
}

func hnParsePKCS1(der []byte) (*rsa.PublicKey, error) {
	hn.rsaCalls++
	if hn.rsaFails {
		return nil, errors.New("harness: x509: failed to parse public key")
	}
	size := 256
	if hn.rsaSmall {
		size = 255
	}
	return &rsa.PublicKey{N: new(big.Int), E: size}, nil
}

func hnNewVM(id did.DIDURL, keyType ssi.KeyType, controller did.DID, key crypto.PublicKey) (*did.VerificationMethod, error) {
	hn.vmCalls++
	hn.vmKey = key
	if key == nil {
		hn.vmFails = true
		return nil, errors.New("harness: jwk.FromRaw requires a non-nil key")
	}
	if k, ok := key.(ecdsa.PublicKey); ok && (k.X == nil || k.Y == nil) {
		hn.vmFails = true
		return nil, errors.New("harness: invalid ecdsa.PublicKey")
	}
	return &did.VerificationMethod{ID: id, Type: keyType, Controller: controller, PublicKeyJwk: map[string]interface{}{"kty": "harness"}}, nil
}

// hnVarint is the reference reading of an unsigned LEB128 number at the start of b: value and length, or ok=false
// (no terminating byte within the input or within ten bytes, or more than 64 bits).
func hnVarint(b []byte) (v uint64, n int, ok bool) {
	for i := 0; i < len(b) && i < 10; i++ {
		c := b[i]
		if i == 9 && c > 1 {
			return 0, 0, false
		}
		v |= uint64(c&0x7f) << (7 * uint(i))
		if c < 0x80 {
			return v, i + 1, true
		}
	}
	return 0, 0, false
}

func hnSameBytes(a, b []byte) bool {
	if len(a) != len(b) {
		return false
	}
	same := true
	for i := range a {
		same = same && a[i] == b[i]
	}
	return same
}

func H19n() {
	hn = &hnState{}
	vTag("decodeFails")
	hn.decodeFails = vBool()
	nl := vParam("lens", 6)
	if nl > len(hnLens) {
		nl = len(hnLens)
	}
	if !hn.decodeFails {
		hn.decoded = vBytes(hnLens[vChoice(nl)])
	}
	vTag("pointOK")
	hn.pointOK = vBool()
	vTag("rsaFails")
	hn.rsaFails = vBool()
	vTag("rsaSmall")
	hn.rsaSmall = vBool()

	method := []string{"key", "web", "KEY", ""}[vChoice(4)]
	idstr := vString(vLen(0, vParam("idlen", 2)))
	id := did.DID{Method: method, ID: idstr, DecodedID: idstr}

	doc, md, err := Resolver{}.Resolve(id, nil)

	if err != nil {
		vCover("refused")
		vAssert(doc == nil && md == nil, "H19n.error_returns_nothing: an error was returned together with a document")
		return
	}
	vCover("resolved")
	vAssert(doc != nil && md != nil, "H19n.success_returns_document: neither error nor document")
	if doc == nil {
		return
	}
	// C18: the document is bound to the identifier
	vAssert(method == "key", "H19n.only_did_key: an identifier of another method was resolved as did:key")
	vAssert(len(idstr) > 0 && idstr[0] == 'z', "H19n.multibase_base58btc: an identifier whose multibase prefix is not z was resolved")
	vAssert(hn.decodeCalls == 1 && !hn.decodeFails && hn.decodeArg == idstr[1:], "H19n.key_decoded_from_identifier: the key bytes were not decoded from the identifier after the multibase prefix")
	vAssert(doc.ID == id, "H19n.document_id_is_did: the document id is not the DID that was asked for")
	vAssert(len(doc.VerificationMethod) == 1, "H19n.one_verification_method: a did:key document has exactly one verification method")
	if len(doc.VerificationMethod) != 1 {
		return
	}
	vm := doc.VerificationMethod[0]
	vAssert(vm.ID.DID == id && vm.ID.Fragment == idstr && vm.ID.Path == "" && len(vm.ID.Query) == 0, "H19n.method_id_derived_from_did: the verification method id is not <did>#<multibase value>")
	vAssert(vm.Controller == id, "H19n.method_controlled_by_did: the verification method is not controlled by the DID")
	for _, rel := range []did.VerificationRelationships{doc.AssertionMethod, doc.Authentication, doc.KeyAgreement, doc.CapabilityDelegation, doc.CapabilityInvocation} {
		vAssert(len(rel) == 1 && rel[0].VerificationMethod == vm, "H19n.relationships_use_the_method: a verification relationship does not refer to the document's own verification method")
	}
	// the key is the one the identifier encodes: multicodec code, then the key bytes
	code, n, ok := hnVarint(hn.decoded)
	vAssert(ok, "H19n.multicodec_well_formed: resolved although the decoded bytes do not start with a varint")
	if !ok {
		return
	}
	rest := hn.decoded[n:]
	vAssert(hn.vmCalls == 1 && !hn.vmFails, "H19n.method_from_key: the verification method was not built from the decoded key")
	switch k := hn.vmKey.(type) {
	case ed25519.PublicKey:
		vCover("ed25519")
		vAssert(code == 0xed, "H19n.codec_matches_key: key type does not match the multicodec code")
		vAssert(len(k) == 32 && hnSameBytes(k, rest), "H19n.key_is_identifier_bytes: the Ed25519 key is not the 32 bytes the identifier encodes")
	case x25519.PublicKey:
		vCover("x25519")
		vAssert(code == 0xec, "H19n.codec_matches_key: key type does not match the multicodec code")
		vAssert(len(k) == 32 && hnSameBytes(k, rest), "H19n.key_is_identifier_bytes: the X25519 key is not the 32 bytes the identifier encodes")
	case ecdsa.PublicKey:
		vCover("ec")
		vAssert(code == 0x1200 && k.Curve == elliptic.P256() || code == 0x1201 && k.Curve == elliptic.P384() || code == 0x1202 && k.Curve == elliptic.P521(), "H19n.codec_matches_key: curve does not match the multicodec code")
		vAssert(hn.ecCalls == 1 && hnSameBytes(hn.ecData, rest) && hn.pointOK && k.X != nil && k.Y != nil, "H19n.key_is_identifier_bytes: the EC key is not the point the identifier encodes")
	case *rsa.PublicKey:
		vCover("rsa")
		vAssert(code == 0x1205, "H19n.codec_matches_key: key type does not match the multicodec code")
		vAssert(hn.rsaCalls == 1 && !hn.rsaFails, "H19n.key_is_identifier_bytes: the RSA key does not come from the identifier")
		vAssert(!hn.rsaSmall, "H19n.rsa_at_least_2048: an RSA key below 2048 bits was accepted")
	default:
		vAssert(false, "H19n.known_key_type: a document was built from a key of an unexpected type")
	}
}

func H19n_twin() {
	hn = &hnState{pointOK: true}
	hn.decoded = vBytes(35)
	id := did.DID{Method: "key", ID: "zQ3s", DecodedID: "zQ3s"}
	doc, _, err := Resolver{}.Resolve(id, nil)
	if err == nil && doc != nil && hn.ecCalls == 1 && hn.decoded[34] == 7 {
		vAssert(false, "H19n_twin.reach: reachable")
	}
}
