//go:build verif

package v2

import (
	"context"
	"net/url"

	"github.com/nuts-foundation/go-did/did"
	"github.com/nuts-foundation/nuts-node/vdr"
	"github.com/nuts-foundation/nuts-node/vdr/resolver"
)

//verif:stub github.com/nuts-foundation/go-did/did.ParseDID => hParseDID

// hParseDID replaces go-did's regexp based parser by a hand-written recogniser of the same language (as in the
// C18 harnesses): "did:" method ":" id with method = 1*(a-z / 0-9) and
// id = 1*( ALPHA / DIGIT / "." / "-" / "_" / ":" / "%" HEXDIG HEXDIG ); everything else is an error.
func hParseDID(input string) (*did.DID, error) {
	if len(input) < 4 || input[:4] != "did:" {
		return nil, did.ErrInvalidDID
	}
	i := 4
	for i < len(input) && ((input[i] >= 'a' && input[i] <= 'z') || (input[i] >= '0' && input[i] <= '9')) {
		i++
	}
	if i == 4 || i >= len(input) || input[i] != ':' {
		return nil, did.ErrInvalidDID
	}
	method, id := input[4:i], input[i+1:]
	if len(id) == 0 {
		return nil, did.ErrInvalidDID
	}
	for k := 0; k < len(id); k++ {
		c := id[k]
		plain := (c >= 'a' && c <= 'z') || (c >= 'A' && c <= 'Z') || (c >= '0' && c <= '9') || c == '.' || c == '-' || c == '_' || c == ':'
		if plain {
			continue
		}
		if c == '%' && k+2 < len(id) && hHex(id[k+1]) && hHex(id[k+2]) {
			continue
		}
		return nil, did.ErrInvalidDID
	}
	decoded, err := url.PathUnescape(id)
	if err != nil {
		return nil, did.ErrInvalidDID
	}
	return &did.DID{Method: method, ID: id, DecodedID: decoded}, nil
}

func hHex(c byte) bool {
	return (c >= '0' && c <= '9') || (c >= 'a' && c <= 'f') || (c >= 'A' && c <= 'F')
}

const (
	hK19Special = "~:+@!$&'()*,;=/"
	hK19Escaped = " \"<>[]^`{|}\\%?#\x01\x7f\x80\xc5\x81\xe9\xff"
)

// hVDR: the node's VDR as far as the did:web document endpoints use it. It manages exactly one tenant.
type hVDR struct {
	vdr.VDR
	public  *url.URL
	asked   []did.DID
	managed string
}

func (v *hVDR) PublicURL() *url.URL { return v.public }
func (v *hVDR) ResolveManaged(id did.DID) (*did.Document, error) {
	v.asked = append(v.asked, id)
	if id.String() == v.managed {
		return &did.Document{ID: id}, nil
	}
	return nil, resolver.ErrNotFound
}

// H19k (C19, and the serving side of C18): GET /iam/{id}/did.json on the public interface with any id of up to
// idlen bytes (echo hands the decoded path parameter to the handler): the handler never panics, never fails with
// an internal error, answers either 404 or the document, and the document it serves is the one of the DID that
// the requested URL converts to (never another tenant's).
func H19k() {
	n := vLen(0, vParam("idlen", 2))
	id := ""
	for i := 0; i < n; i++ {
		// every byte: a symbolic byte of the class net/url and the did:web codec leave alone, or - drawn concretely,
		// a symbolic byte as index into the hex digit tables makes every later query ~100x slower - one of the
		// characters the codec percent-encodes, or a representative of what net/url escapes
		vTag("class")
		switch vChoice(3) {
		case 0:
			vTag("id")
			c := vString(1)
			vAssume((c[0] >= 'a' && c[0] <= 'z') || (c[0] >= 'A' && c[0] <= 'Z') || (c[0] >= '0' && c[0] <= '9') || c[0] == '.' || c[0] == '-' || c[0] == '_')
			id += c
		case 1:
			k := vChoice(len(hK19Special))
			id += hK19Special[k : k+1]
		default:
			k := vChoice(len(hK19Escaped))
			id += hK19Escaped[k : k+1]
		}
	}
	v := &hVDR{public: &url.URL{Scheme: "https", Host: "example.com"}, managed: "did:web:example.com:iam:A"}
	w := Wrapper{VDR: v}
	resp, err := w.GetTenantWebDID(context.Background(), GetTenantWebDIDRequestObject{Id: id})
	vAssert(err == nil, "H19k.no_internal_error: did:web document endpoint fails with an internal error")
	switch r := resp.(type) {
	case GetTenantWebDID404Response:
		vCover("not-found")
	case GetTenantWebDID200JSONResponse:
		vCover("served")
		// reference: the id names tenant A iff its path elements, without empty and "." elements (path joining
		// cleans them), are exactly ["A"]; ids with a ".." element are not judged
		var elems []string
		dotdot := false
		start := 0
		for i := 0; i <= len(id); i++ {
			if i == len(id) || id[i] == '/' {
				e := id[start:i]
				start = i + 1
				if e == ".." {
					dotdot = true
				}
				if e != "" && e != "." {
					elems = append(elems, e)
				}
			}
		}
		if dotdot {
			vCover("dotdot")
			return
		}
		vAssert(len(elems) == 1 && elems[0] == "A", "H19k.serves_requested_tenant: the document of tenant A is served for another id")
		vAssert(r.ID.String() == v.managed, "H19k.serves_requested_tenant_doc: wrong document")
	default:
		vAssert(false, "H19k.known_response: unexpected response type")
	}
}

func H19k_twin() {
	v := &hVDR{public: &url.URL{Scheme: "https", Host: "example.com"}, managed: "did:web:example.com:iam:A"}
	w := Wrapper{VDR: v}
	resp, err := w.GetTenantWebDID(context.Background(), GetTenantWebDIDRequestObject{Id: "A"})
	if _, ok := resp.(GetTenantWebDID200JSONResponse); ok && err == nil && len(v.asked) == 1 {
		vAssert(false, "H19k_twin.reach: reachable")
	}
}
