//go:build verif

package didjwk

import (
	"crypto"
	"errors"

	"github.com/lestrrat-go/jwx/v2/jwk"
	ssi "github.com/nuts-foundation/go-did"
	"github.com/nuts-foundation/go-did/did"
)

// H19o: did:jwk Resolver.Resolve. The identifier is one of a few concrete strings (base64 decoding is real; a
// symbolic byte would index the decode table), jwk.ParseKey is stubbed by verdict and yields a fake jwk.Key of one
// of the kinds: public key, key pair (private key present), symmetric key, key whose Raw() fails, key pair whose
// PublicKey() fails.
//
// Real: Resolver.Resolve, rawPrivateKeyOf, base64.RawStdEncoding.DecodeString, jwk.PublicKeyOf, jwk.PublicRawKeyOf
// (plain Go in jwx: they call key.PublicKey() and Raw()), go-did Document.AddAssertionMethod.
// Stubbed by contract: jwk.ParseKey (verdict; error on empty input), reflect.DeepEqual (same dynamic type and
// equal content, for the harness's raw key types), did.NewVerificationMethod (as in H19n).

//verif:initok github.com/lestrrat-go/jwx/v2/jwk
//verif:stub github.com/lestrrat-go/jwx/v2/jwk.ParseKey => hoParseKey
//verif:stub reflect.DeepEqual => hoDeepEqual
//verif:stub github.com/nuts-foundation/go-did/did.NewVerificationMethod => hoNewVM

type hoPub struct{ n int }       // raw public key (e.g. *ecdsa.PublicKey)
type hoPriv struct{ n, d int }   // raw private key with its public part (e.g. *ecdsa.PrivateKey)
type hoSecret struct{ k int }    // raw symmetric key

const (
	hoKindPublic = iota
	hoKindPair
	hoKindSymmetric
	hoKindRawFails
	hoKindPublicKeyFails
	hoKinds
)

type hoKey struct {
	jwk.Key
	kind     int
	n        int
	isPublic bool // the result of PublicKey() of a pair
}

func (k *hoKey) Raw(v interface{}) error {
	p, ok := v.(*interface{})
	if !ok {
		return errors.New("harness: Raw wants *interface{}")
	}
	switch {
	case k.kind == hoKindRawFails:
		return errors.New("harness: failed to build raw key")
	case k.kind == hoKindSymmetric:
		*p = hoSecret{k.n}
	case k.kind == hoKindPublic || k.isPublic:
		*p = &hoPub{k.n}
	default:
		*p = &hoPriv{k.n, k.n + 1}
	}
	return nil
}

func (k *hoKey) PublicKey() (jwk.Key, error) {
	switch k.kind {
	case hoKindPublicKeyFails:
		return nil, errors.New("harness: failed to derive the public key")
	case hoKindPair:
		return &hoKey{kind: hoKindPair, n: k.n, isPublic: true}, nil
	}
	// public keys and symmetric keys: a copy of the key itself
	c := *k
	return &c, nil
}

type hoState struct {
	parseCalls int
	parseArg   []byte
	parseFails bool
	kind       int
	vmCalls    int
	vmKey      crypto.PublicKey
}

var ho *hoState

func hoParseKey(data []byte, options ...jwk.ParseOption) (jwk.Key, error) {
	ho.parseCalls++
	ho.parseArg = data
	if len(data) == 0 || ho.parseFails {
		return nil, errors.New("harness: failed to unmarshal JSON into key")
	}
	return &hoKey{kind: ho.kind, n: 7}, nil
}

func hoDeepEqual(a, b interface{}) bool {
	switch x := a.(type) {
	case *hoPub:
		y, ok := b.(*hoPub)
		return ok && (x == nil) == (y == nil) && (x == nil || *x == *y)
	case *hoPriv:
		y, ok := b.(*hoPriv)
		return ok && (x == nil) == (y == nil) && (x == nil || *x == *y)
	case hoSecret:
		y, ok := b.(hoSecret)
		return ok && x == y
	case nil:
		return b == nil
	}
	vCut("harness: reflect.DeepEqual on values other than the harness's raw keys")
	return false
}

func hoNewVM(id did.DIDURL, keyType ssi.KeyType, controller did.DID, key crypto.PublicKey) (*did.VerificationMethod, error) {
	ho.vmCalls++
	ho.vmKey = key
	if key == nil {
		return nil, errors.New("harness: jwk.FromRaw requires a non-nil key")
	}
	return &did.VerificationMethod{ID: id, Type: keyType, Controller: controller, PublicKeyJwk: map[string]interface{}{"kty": "harness"}}, nil
}

type hoID struct {
	s       string
	decoded string // what unpadded standard base64 decodes it to
	valid   bool   // is unpadded standard base64
}

var hoIDs = []hoID{
	{"e30", "{}", true},
	{"eyJrdHkiOiJFQyJ9", `{"kty":"EC"}`, true},
	{"", "", true},
	{"e30=", "", false},  // padding
	{"e", "", false},     // truncated
	{"e3-_", "", false},  // URL alphabet
	{"e3 0", "", false},  // blank
	{"e30\x00", "", false},
}

func H19o() {
	ho = &hoState{}
	vTag("parseFails")
	ho.parseFails = vBool()
	ho.kind = vChoice(hoKinds)
	method := []string{"jwk", "key", "JWK", ""}[vChoice(4)]
	c := hoIDs[vChoice(len(hoIDs))]
	id := did.DID{Method: method, ID: c.s, DecodedID: c.s}

	doc, md, err := Resolver{}.Resolve(id, nil)

	if err != nil {
		vCover("refused")
		vAssert(doc == nil && md == nil, "H19o.error_returns_nothing: an error was returned together with a document")
		if ho.parseCalls > 0 && !ho.parseFails && len(ho.parseArg) > 0 && ho.kind == hoKindPair {
			vCover("private-key-refused")
		}
		return
	}
	vCover("resolved")
	vAssert(doc != nil && md != nil, "H19o.success_returns_document: neither error nor document")
	if doc == nil {
		return
	}
	vAssert(method == "jwk", "H19o.only_did_jwk: an identifier of another method was resolved as did:jwk")
	vAssert(c.valid, "H19o.identifier_is_base64: an identifier that is not unpadded base64 was resolved")
	vAssert(ho.parseCalls == 1 && !ho.parseFails && string(ho.parseArg) == c.decoded, "H19o.key_parsed_from_identifier: the key was not parsed from the decoded identifier")
	vAssert(ho.kind != hoKindPair, "H19o.private_key_refused: a did:jwk containing a private key was resolved")
	vAssert(ho.kind != hoKindRawFails && ho.kind != hoKindPublicKeyFails, "H19o.unusable_key_refused: a key whose raw or public form cannot be obtained was resolved")
	vAssert(doc.ID == id, "H19o.document_id_is_did: the document id is not the DID that was asked for")
	vAssert(len(doc.VerificationMethod) == 1, "H19o.one_verification_method: a did:jwk document has exactly one verification method")
	if len(doc.VerificationMethod) != 1 {
		return
	}
	vm := doc.VerificationMethod[0]
	vAssert(vm.ID.DID == id && vm.ID.Fragment == "0" && vm.ID.Path == "" && len(vm.ID.Query) == 0, "H19o.method_id_derived_from_did: the verification method id is not <did>#0")
	vAssert(vm.Controller == id, "H19o.method_controlled_by_did: the verification method is not controlled by the DID")
	vAssert(len(doc.AssertionMethod) == 1 && doc.AssertionMethod[0].VerificationMethod == vm, "H19o.relationships_use_the_method: assertionMethod does not refer to the document's own verification method")
	vAssert(ho.vmCalls == 1, "H19o.method_from_key: the verification method was not built from the parsed key")
	switch k := ho.vmKey.(type) {
	case *hoPub:
		vCover("public-key")
		vAssert(k != nil && k.n == 7, "H19o.key_is_identifier_key: the verification method carries another key than the identifier encodes")
	case hoSecret:
		vCover("symmetric-key")
	default:
		vAssert(false, "H19o.method_carries_public_key: the verification method was built from something that is not a public key")
	}
}

func H19o_twin() {
	ho = &hoState{kind: vChoice(hoKinds)}
	id := did.DID{Method: "jwk", ID: "e30", DecodedID: "e30"}
	_, _, err := Resolver{}.Resolve(id, nil)
	if err != nil && ho.kind == hoKindPair && ho.parseCalls == 1 {
		vAssert(false, "H19o_twin.reach: reachable")
	}
}
