//go:build verif

package didweb

import (
	"net/url"

	"github.com/nuts-foundation/go-did/did"
)

//verif:stub github.com/nuts-foundation/go-did/did.ParseDID => hParseDID

// hParseDID replaces go-did's regexp based parser by a hand-written recogniser of the same language
// (go-did v0.15 didURLPattern + ParseDID): "did:" method ":" id with method = 1*(a-z / 0-9) and
// id = 1*( ALPHA / DIGIT / "." / "-" / "_" / ":" / "%" HEXDIG HEXDIG ). Everything else - including
// anything carrying a DID URL path, query or fragment - is an error. DecodedID = PathUnescape(ID) as in go-did.
func hParseDID(input string) (*did.DID, error) {
	if len(input) < 4 || input[:4] != "did:" {
		return nil, did.ErrInvalidDID
	}
	i := 4
	for i < len(input) && ((input[i] >= 'a' && input[i] <= 'z') || (input[i] >= '0' && input[i] <= '9')) {
		i++
	}
	if i == 4 || i >= len(input) || input[i] != ':' {
		return nil, did.ErrInvalidDID
	}
	method, id := input[4:i], input[i+1:]
	if len(id) == 0 || !hInDIDSyntax(id) {
		return nil, did.ErrInvalidDID
	}
	decoded, err := url.PathUnescape(id)
	if err != nil {
		return nil, did.ErrInvalidDID
	}
	return &did.DID{Method: method, ID: id, DecodedID: decoded}, nil
}

func hIsSpecial(c byte) bool {
	// the "subjective" characters of util.go (sub-delims, ':', '@', '~')
	return c == '~' || c == '!' || c == '$' || c == '&' || c == '\'' || c == '(' || c == ')' || c == '*' ||
		c == '+' || c == ',' || c == ';' || c == '=' || c == ':' || c == '@'
}

func hIsIDChar(c byte) bool {
	return (c >= 'a' && c <= 'z') || (c >= 'A' && c <= 'Z') || (c >= '0' && c <= '9') || c == '.' || c == '-' || c == '_'
}

func hUpperHex(n byte) byte {
	r := '0' + n
	if n >= 10 {
		r = 'A' + n - 10
	}
	return r
}

func hIDChars(n int) string {
	s := vString(n)
	for i := 0; i < n; i++ {
		vAssume(hIsIDChar(s[i]))
	}
	return s
}

func hDigits(n int) string {
	s := vString(n)
	for i := 0; i < n; i++ {
		vAssume(s[i] >= '0' && s[i] <= '9')
	}
	return s
}

// Escapes a path segment of a did:web id may contain besides the canonical escapes of the special characters.
// Chosen concretely (a symbolic escape makes every later byte an if-then-else term and the run ~50x slower).
var (
	hSpecials = "~:+@!$&'()*,;=" // order: the parameter `specials` takes a prefix
	// equivalent spellings that net/url keeps as written (RawPath): '/', unreserved characters, lower-case hex
	hEscapesKept = []string{"%2F", "%2f", "%41", "%2E", "%3f"}
	// canonical escapes of ASCII bytes that net/url itself would escape in a path (so RawPath stays empty)
	hEscapesASCII = []string{"%20", "%22", "%5B", "%7C"}
	// canonical escapes of non-ASCII bytes: single byte, two- and three-byte UTF-8 sequences
	hEscapesNonASCII = []string{"%80", "%C3%A9", "%C5%81", "%E2%82%AC"}
)

const (
	hpIDChar = iota
	hpSpecial
	hpKept
	hpASCII
	hpNonASCII
)

// hSegmentPiece: one unit of a did:web path segment; kinds < maxKind are drawn.
func hSegmentPiece(maxKind int) (string, int) {
	switch k := vChoice(maxKind); k {
	case hpIDChar:
		return hIDChars(1), k
	case hpSpecial:
		ns := vParam("specials", len(hSpecials))
		if ns > len(hSpecials) {
			ns = len(hSpecials)
		}
		c := hSpecials[vChoice(ns)]
		return "%" + string([]byte{hUpperHex(c >> 4), hUpperHex(c & 15)}), k
	case hpKept:
		return hEscapesKept[vChoice(len(hEscapesKept))], k
	case hpASCII:
		return hEscapesASCII[vChoice(len(hEscapesASCII))], k
	default:
		return hEscapesNonASCII[vChoice(len(hEscapesNonASCII))], k
	}
}

// H18b1: id -> URL -> id on did:web ids of the shape
//
//	id = host [ "%3A" port ] *( ":" segment ); host = 1*idchar; port = 1*DIGIT; segment = 1*piece
//	piece = idchar / canonical escape of a special character / another escape except %25, %3F, %23
//
// i.e. a domain name, optional port and path segments free of query, fragment and doubly-encoded characters.
// Completeness is asserted too: such an id - whose host is too short to be an IP literal at these bounds -
// must be accepted. A second segment, if any, is the literal "x" (bounds the product).
func H18b1() {
	id := "a" + hIDChars(vLen(0, vParam("host", 1)))
	if vBool() {
		vCover("port")
		id += "%3A" + hDigits(vLen(1, vParam("port", 1)))
	}
	ns := vLen(0, vParam("segs", 2))
	worst := hpIDChar
	for i := 0; i < ns; i++ {
		id += ":"
		if i > 0 {
			id += "x"
			continue
		}
		np := vLen(1, vParam("pieces", 2))
		for j := 0; j < np; j++ {
			pc, kind := hSegmentPiece(vParam("kinds", 5))
			id += pc
			if kind > worst {
				worst = kind
			}
		}
	}
	if ns > 0 {
		vCover("segments")
	}
	switch worst {
	case hpSpecial:
		vCover("special-escape")
	case hpKept:
		vCover("kept-escape")
	case hpASCII:
		vClass("segment with an escaped ASCII byte that net/url escapes itself (space, quote, bracket, bar)")
	case hpNonASCII:
		vClass("segment with an escaped non-ASCII byte")
	}
	u, err := DIDToURL(did.DID{Method: "web", ID: id})
	vAssert(err == nil, "H18b1.canonical_id_accepted: DIDToURL refuses a canonical did:web id")
	if err != nil {
		return
	}
	back, err := URLToDID(*u)
	vAssert(err == nil && back != nil, "H18b1.url_converts_back: URLToDID refuses the URL DIDToURL produced")
	if err != nil || back == nil {
		return
	}
	vAssert(back.Method == "web", "H18b1.method_web: method changed on the round trip")
	vAssert(back.ID == id, "H18b1.roundtrip_id: URLToDID(DIDToURL(id)) != id")
}

func H18b1_twin() {
	pc, _ := hSegmentPiece(3)
	id := hIDChars(1) + "%3A" + hDigits(1) + ":" + pc
	u, err := DIDToURL(did.DID{Method: "web", ID: id})
	if err != nil {
		return
	}
	back, err := URLToDID(*u)
	if err == nil && back.ID == id && u.RawPath != "" {
		vAssert(false, "H18b1_twin.reach: reachable")
	}
}

// hURLString: "https://" host [ ":" port ] *( "/" segment ). A segment byte is either one of the special
// characters (sub-delims, ':', '@', '~' - drawn concretely: a symbolic special byte makes percentEncodeString
// index its hex table symbolically and every later query ~100x slower), or a symbolic byte that is not special
// and satisfies `other`. A second segment, if any, is the literal "x".
var hURLConcrete string

func hURLString(other func(c byte) bool) string {
	s := "https://a" + hIDChars(vLen(0, vParam("host", 1)))
	if vBool() {
		vCover("port")
		s += ":" + hDigits(vLen(1, vParam("port", 1)))
	}
	ns := vLen(0, vParam("segs", 2))
	for i := 0; i < ns; i++ {
		if i > 0 {
			s += "/x"
			continue
		}
		n := vLen(1, vParam("seglen", 2))
		seg := ""
		for j := 0; j < n; j++ {
			if vBool() {
				nsp := vParam("specials", len(hSpecials))
				if nsp > len(hSpecials) {
					nsp = len(hSpecials)
				}
				k := vChoice(nsp)
				seg += hSpecials[k : k+1]
				vCover("special-byte")
			} else if hURLConcrete != "" {
				// representatives drawn concretely (bytes that net/url percent-escapes: a symbolic byte as index
				// into the hex digit tables makes every later query ~100x slower)
				vTag("segbyte")
				k := vChoice(len(hURLConcrete))
				seg += hURLConcrete[k : k+1]
			} else {
				vTag("segbyte")
				c := vString(1)
				vAssume(!hIsSpecial(c[0]) && other(c[0]))
				seg += c
			}
		}
		s += "/" + seg
	}
	if ns > 0 {
		vCover("segments")
	}
	return s
}

// H18b2: URL -> id -> URL on https URLs with a domain name, optional port and path segments made of RFC 3986
// pchar without escapes (hence free of '?', '#', '%').
func H18b2() {
	s := hURLString(hIsIDChar) // pchar without escapes = idchar + special characters
	u, err := url.Parse(s)
	vAssert(err == nil, "H18b2.grammar_url_parses: net/url refuses a URL of the grammar")
	if err != nil {
		return
	}
	id, err := URLToDID(*u)
	vAssert(err == nil && id != nil, "H18b2.url_accepted: URLToDID refuses a URL of the grammar")
	if err != nil || id == nil {
		return
	}
	vAssert(id.Method == "web" && hInDIDSyntax(id.ID), "H18b2.did_wellformed: URLToDID result is not a did:web in DID syntax")
	back, err := DIDToURL(*id)
	vAssert(err == nil && back != nil, "H18b2.did_converts_back: DIDToURL refuses the DID URLToDID produced")
	if err != nil || back == nil {
		return
	}
	// both are results of url.Parse: equal iff their fields are
	vAssert(back.Scheme == u.Scheme && back.Host == u.Host && back.User == nil && back.Opaque == "",
		"H18b2.roundtrip_origin: DIDToURL(URLToDID(u)) differs from u in scheme or authority")
	vAssert(back.Path == u.Path && back.RawPath == u.RawPath, "H18b2.roundtrip_path: DIDToURL(URLToDID(u)) differs from u in its path")
	vAssert(back.RawQuery == "" && !back.ForceQuery && back.Fragment == "" && back.RawFragment == "",
		"H18b2.roundtrip_no_query: DIDToURL(URLToDID(u)) has a query or fragment")
}

func H18b2_twin() {
	u, err := url.Parse("https://a:1/+" + hIDChars(1))
	if err != nil {
		return
	}
	id, err := URLToDID(*u)
	if err == nil && len(id.ID) == 10 { // a%3A1:%2Bx
		vAssert(false, "H18b2_twin.reach: reachable")
	}
}

// H18b3: the same direction for path segments with arbitrary bytes other than '/', '?', '#', '%' (as produced by
// url.URL.JoinPath on an API parameter): URLToDID either refuses the URL, or yields a DID that converts back
// to the same host and path.
func H18b3() {
	// the bytes besides those of H18b2 (which net/url leaves alone): representatives of everything net/url escapes
	hURLConcrete = " \"<>[]^`{|}\\\x01\x7f\x80\xc5\x81\xe9\xff"
	s := hURLString(func(c byte) bool { return c != '/' && c != '?' && c != '#' && c != '%' })
	hURLConcrete = ""
	u, err := url.Parse(s)
	if err != nil {
		vCover("url-refused-by-net/url")
		return
	}
	nonASCII := false
	for i := 0; i < len(u.Path); i++ {
		nonASCII = nonASCII || u.Path[i] >= 0x80
	}
	id, err := URLToDID(*u)
	if err != nil {
		vCover("refused")
		vAssert(id == nil, "H18b3.error_without_did: error and DID returned together")
		return
	}
	vCover("converted")
	if nonASCII {
		vClass("non-ASCII byte in URL path")
	} else {
		vClass("ASCII URL path")
	}
	back, err := DIDToURL(*id)
	vAssert(err == nil && back != nil && back.Host == u.Host && back.Path == u.Path,
		"H18b3.did_names_same_location: URLToDID produced a DID that does not convert back to the URL's host and path")
}

func H18b3_twin() {
	c := vString(1)
	vAssume(!hIsSpecial(c[0]) && c[0] != '%')
	u, err := url.Parse("https://a/~" + c)
	if err != nil {
		return
	}
	if id, err := URLToDID(*u); err == nil && id.ID == "a:%7Eb" {
		vAssert(false, "H18b3_twin.reach: reachable")
	}
}

// hCodecString: byte strings without '%' of n bytes: each byte is one of the 14 special characters (drawn
// concretely, see hURLString), a non-ASCII byte (four representatives, drawn concretely: a symbolic byte as index
// into the hex digit table makes every later query 50-100x slower) or a symbolic ASCII byte that is neither
// special nor '%'.
var hNonASCII = "\x80\xc5\xe9\xff"

func hCodecString(n int) (s string, special int, nonASCII int) {
	for i := 0; i < n; i++ {
		switch vChoice(3) {
		case 0:
			k := vChoice(len(hSpecials))
			s += hSpecials[k : k+1]
			special++
		case 1:
			k := vChoice(len(hNonASCII))
			s += hNonASCII[k : k+1]
			nonASCII++
		default:
			vTag("s")
			c := vString(1)
			vAssume(!hIsSpecial(c[0]) && c[0] != '%' && c[0] < 0x80)
			s += c
		}
	}
	return
}

// H18b4: the percent codec. For every such byte string: the encoding is in the alphabet of a DID (no special
// character, no non-ASCII byte), has the length the byte count implies (3 bytes per special or non-ASCII byte),
// full percent-decoding (what DIDToURL applies to the host and url.Parse to the path) gives the string back, and
// for ASCII strings percentDecodeString does too.
func H18b4() {
	n := vLen(0, vParam("codec", 2))
	s, special, nonASCII := hCodecString(n)
	if nonASCII > 0 {
		vClass("non-ASCII input")
		vCover("non-ascii")
	} else {
		vClass("ASCII input")
		vCover("ascii")
	}
	if special > 0 {
		vCover("special")
	}
	e := percentEncodeString(s)
	vAssert(len(e) == n+2*(special+nonASCII), "H18b4.encoded_length: encoded length is not len(s) + 2 per special or non-ASCII byte")
	clean := true
	for i := 0; i < len(e); i++ {
		clean = clean && !hIsSpecial(e[i]) && e[i] < 0x80
	}
	vAssert(clean, "H18b4.encoded_alphabet: encoding still contains a special character or a non-ASCII byte")
	full, err := url.PathUnescape(e)
	vAssert(err == nil && full == s, "H18b4.unescape_inverts_encode: url.PathUnescape(percentEncodeString(s)) != s")
	if nonASCII == 0 {
		vAssert(percentDecodeString(e) == s, "H18b4.decode_inverts_encode: percentDecodeString(percentEncodeString(s)) != s")
	}
}

func H18b4_twin() {
	s, special, _ := hCodecString(2)
	if e := percentEncodeString(s); special == 2 && len(e) == 6 && percentDecodeString(e) == s {
		vAssert(false, "H18b4_twin.reach: reachable")
	}
}
