//go:build verif

package didweb

import (
	"net/url"

	"github.com/nuts-foundation/go-did/did"
)

//verif:stub github.com/nuts-foundation/go-did/did.ParseDID => hParseDID

// hParseDID replaces go-did's regexp based parser by a hand-written recogniser of the same language
// (go-did v0.15 didURLPattern + ParseDID): "did:" method ":" id with method = 1*(a-z / 0-9) and
// id = 1*( ALPHA / DIGIT / "." / "-" / "_" / ":" / "%" HEXDIG HEXDIG ). Everything else - including
// anything carrying a DID URL path, query or fragment - is an error. DecodedID = PathUnescape(ID) as in go-did.
func hParseDID(input string) (*did.DID, error) {
	if len(input) < 4 || input[:4] != "did:" {
		return nil, did.ErrInvalidDID
	}
	i := 4
	for i < len(input) && ((input[i] >= 'a' && input[i] <= 'z') || (input[i] >= '0' && input[i] <= '9')) {
		i++
	}
	if i == 4 || i >= len(input) || input[i] != ':' {
		return nil, did.ErrInvalidDID
	}
	method, id := input[4:i], input[i+1:]
	if len(id) == 0 || !hInDIDSyntax(id) {
		return nil, did.ErrInvalidDID
	}
	decoded, err := url.PathUnescape(id)
	if err != nil {
		return nil, did.ErrInvalidDID
	}
	return &did.DID{Method: method, ID: id, DecodedID: decoded}, nil
}

func hIsSpecial(c byte) bool {
	// the "subjective" characters of util.go (sub-delims, ':', '@', '~')
	return c == '~' || c == '!' || c == '$' || c == '&' || c == '\'' || c == '(' || c == ')' || c == '*' ||
		c == '+' || c == ',' || c == ';' || c == '=' || c == ':' || c == '@'
}

func hIsIDChar(c byte) bool {
	return (c >= 'a' && c <= 'z') || (c >= 'A' && c <= 'Z') || (c >= '0' && c <= '9') || c == '.' || c == '-' || c == '_'
}

func hUpperHex(n byte) byte {
	r := '0' + n
	if n >= 10 {
		r = 'A' + n - 10
	}
	return r
}

func hIDChars(n int) string {
	s := vString(n)
	for i := 0; i < n; i++ {
		vAssume(hIsIDChar(s[i]))
	}
	return s
}

func hDigits(n int) string {
	s := vString(n)
	for i := 0; i < n; i++ {
		vAssume(s[i] >= '0' && s[i] <= '9')
	}
	return s
}

// hSegmentPiece: one unit of a canonical did:web path segment: an idchar, the canonical (upper-case) escape
// of a special character, or any escape of a byte that is neither special nor '%' (hex digits of either case).
func hSegmentPiece() string {
	switch vChoice(3) {
	case 0:
		return hIDChars(1)
	case 1:
		vTag("special")
		c := vU8()
		vAssume(hIsSpecial(c))
		return "%" + string([]byte{hUpperHex(c >> 4), hUpperHex(c & 15)})
	}
	vTag("escape")
	e := vString(2)
	h, ok1 := hHexVal(e[0])
	l, ok2 := hHexVal(e[1])
	vAssume(ok1 && ok2)
	v := h<<4 | l
	vAssume(!hIsSpecial(v) && v != '%')
	return "%" + e
}

// H18b1: id -> URL -> id on canonical did:web ids:
//
//	id = host [ "%3A" port ] *( ":" segment ); host = 1*idchar; port = 1*DIGIT; segment = 1*piece
//
// (no doubly-encoded characters: "%25" is not a piece). Completeness is asserted too: such an id - whose
// host is too short to be an IP literal at these bounds - must be accepted.
func H18b1() {
	id := hIDChars(vLen(1, vParam("host", 2)))
	if vBool() {
		vCover("port")
		id += "%3A" + hDigits(vLen(1, vParam("port", 1)))
	}
	ns := vLen(0, vParam("segs", 2))
	for i := 0; i < ns; i++ {
		id += ":"
		np := vLen(1, vParam("pieces", 2))
		for j := 0; j < np; j++ {
			id += hSegmentPiece()
		}
	}
	if ns > 0 {
		vCover("segments")
	}
	u, err := DIDToURL(did.DID{Method: "web", ID: id})
	vAssert(err == nil, "H18b1.canonical_id_accepted: DIDToURL refuses a canonical did:web id")
	if err != nil {
		return
	}
	back, err := URLToDID(*u)
	vAssert(err == nil && back != nil, "H18b1.url_converts_back: URLToDID refuses the URL DIDToURL produced")
	if err != nil || back == nil {
		return
	}
	vAssert(back.Method == "web", "H18b1.method_web: method changed on the round trip")
	vAssert(back.ID == id, "H18b1.roundtrip_id: URLToDID(DIDToURL(id)) != id")
}

func H18b1_twin() {
	id := hIDChars(1) + "%3A" + hDigits(1) + ":" + hSegmentPiece()
	u, err := DIDToURL(did.DID{Method: "web", ID: id})
	if err != nil {
		return
	}
	back, err := URLToDID(*u)
	if err == nil && back.ID == id && u.RawPath != "" {
		vAssert(false, "H18b1_twin.reach: reachable")
	}
}

func hIsPcharNoEscape(c byte) bool {
	// RFC 3986 pchar without pct-encoded: unreserved / sub-delims / ":" / "@"
	return (c >= 'a' && c <= 'z') || (c >= 'A' && c <= 'Z') || (c >= '0' && c <= '9') || c == '-' || c == '.' || c == '_' || hIsSpecial(c)
}

func hURLString(segByte func(c byte) bool) string {
	s := "https://" + hIDChars(vLen(1, vParam("host", 2)))
	if vBool() {
		vCover("port")
		s += ":" + hDigits(vLen(1, vParam("port", 1)))
	}
	ns := vLen(0, vParam("segs", 2))
	for i := 0; i < ns; i++ {
		n := vLen(1, vParam("seglen", 2))
		vTag("segment")
		seg := vString(n)
		for j := 0; j < n; j++ {
			vAssume(segByte(seg[j]))
		}
		s += "/" + seg
	}
	if ns > 0 {
		vCover("segments")
	}
	return s
}

// H18b2: URL -> id -> URL on https URLs with a domain name, optional port and path segments made of RFC 3986
// pchar without escapes (hence free of '?', '#', '%').
func H18b2() {
	s := hURLString(hIsPcharNoEscape)
	u, err := url.Parse(s)
	vAssert(err == nil, "H18b2.grammar_url_parses: net/url refuses a URL of the grammar")
	if err != nil {
		return
	}
	id, err := URLToDID(*u)
	vAssert(err == nil && id != nil, "H18b2.url_accepted: URLToDID refuses a URL of the grammar")
	if err != nil || id == nil {
		return
	}
	vAssert(id.Method == "web" && hInDIDSyntax(id.ID), "H18b2.did_wellformed: URLToDID result is not a did:web in DID syntax")
	back, err := DIDToURL(*id)
	vAssert(err == nil && back != nil, "H18b2.did_converts_back: DIDToURL refuses the DID URLToDID produced")
	if err != nil || back == nil {
		return
	}
	vAssert(back.String() == s, "H18b2.roundtrip_url: DIDToURL(URLToDID(u)) != u")
	vAssert(back.Scheme == u.Scheme && back.Host == u.Host && back.Path == u.Path && back.RawQuery == "" && back.Fragment == "",
		"H18b2.roundtrip_url_fields: DIDToURL(URLToDID(u)) differs from u in scheme, host or path")
}

func H18b2_twin() {
	u, err := url.Parse("https://a:1/" + vString(1))
	if err != nil {
		return
	}
	id, err := URLToDID(*u)
	if err == nil && len(id.ID) == 9 { // a%3A1:%XX
		vAssert(false, "H18b2_twin.reach: reachable")
	}
}

// H18b3: the same direction for path segments with arbitrary bytes other than '/', '?', '#', '%' (as produced by
// url.URL.JoinPath on an API parameter): URLToDID either refuses the URL, or yields a DID that converts back
// to the same host and path.
func H18b3() {
	s := hURLString(func(c byte) bool { return c != '/' && c != '?' && c != '#' && c != '%' })
	u, err := url.Parse(s)
	if err != nil {
		vCover("url-refused-by-net/url")
		return
	}
	nonASCII := false
	for i := 0; i < len(u.Path); i++ {
		nonASCII = nonASCII || u.Path[i] >= 0x80
	}
	id, err := URLToDID(*u)
	if err != nil {
		vCover("refused")
		vAssert(id == nil, "H18b3.error_without_did: error and DID returned together")
		return
	}
	vCover("converted")
	if nonASCII {
		vClass("non-ASCII byte in URL path")
	} else {
		vClass("ASCII URL path")
	}
	back, err := DIDToURL(*id)
	vAssert(err == nil && back != nil && back.Host == u.Host && back.Path == u.Path,
		"H18b3.did_names_same_location: URLToDID produced a DID that does not convert back to the URL's host and path")
}

func H18b3_twin() {
	u, err := url.Parse("https://a/" + vString(1))
	if err != nil {
		return
	}
	if id, err := URLToDID(*u); err == nil && id.ID == "a:%7E" {
		vAssert(false, "H18b3_twin.reach: reachable")
	}
}

// H18b4: the percent codec. For every byte string without '%': decoding the encoding gives the string back,
// and the encoding is free of special characters and has the length the byte count implies.
func H18b4() {
	n := vLen(0, vParam("codec", 3))
	vTag("s")
	s := vString(n)
	special, nonASCII := 0, false
	for i := 0; i < n; i++ {
		vAssume(s[i] != '%')
		if hIsSpecial(s[i]) {
			special++
		}
		nonASCII = nonASCII || s[i] >= 0x80
	}
	if nonASCII {
		vClass("non-ASCII input")
		vCover("non-ascii")
	} else {
		vClass("ASCII input")
		vCover("ascii")
	}
	e := percentEncodeString(s)
	vAssert(len(e) == n+2*special, "H18b4.encoded_length: encoded length is not len(s) + 2 per special byte")
	clean := true
	for i := 0; i < len(e); i++ {
		clean = clean && !hIsSpecial(e[i])
	}
	vAssert(clean, "H18b4.encoded_alphabet: encoding still contains a special character")
	vAssert(percentDecodeString(e) == s, "H18b4.decode_inverts_encode: percentDecodeString(percentEncodeString(s)) != s")
}

func H18b4_twin() {
	s := vString(2)
	if e := percentEncodeString(s); len(e) == 6 && percentDecodeString(e) == s {
		vAssert(false, "H18b4_twin.reach: reachable")
	}
}
