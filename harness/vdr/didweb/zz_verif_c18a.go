//go:build verif

package didweb

import (
	"github.com/nuts-foundation/go-did/did"
)

func H18probe() {
	n := vLen(0, vParam("n", 3))
	s := vString(n)
	u, err := DIDToURL(did.DID{Method: "web", ID: s})
	if err == nil {
		vCover("ok")
		vAssert(u.Scheme == "https", "H18probe.https: scheme")
	}
}
