//go:build verif

package didweb

import (
	"net"
	"net/url"

	"github.com/nuts-foundation/go-did/did"
)

// ---------------------------------------------------------------------------------------------
// Template language for method-specific ids. A template is a string in which three control bytes
// stand for one symbolic byte each:
//
//	\x01  any byte (0..255)
//	\x02  a decimal digit or the letter 'a'   (IPv4 fields, ports)
//	\x03  a hexadecimal digit, either case    (second and third byte of a percent escape)
//	\x04  a byte of the DID syntax: idchar (ALPHA / DIGIT / "." / "-" / "_"), ':' or '%'
//
// Every other byte is literal. Lengths are therefore concrete per template, content symbolic.
// ---------------------------------------------------------------------------------------------

const (
	hAny = "\x01"
	hDig = "\x02"
	hHex = "\x03"
	hSyn = "\x04"
)

func hIsHexByte(c byte) bool {
	return (c >= '0' && c <= '9') || (c >= 'A' && c <= 'F') || (c >= 'a' && c <= 'f')
}

func hIsSyntaxByte(c byte) bool {
	return (c >= 'a' && c <= 'z') || (c >= 'A' && c <= 'Z') || (c >= '0' && c <= '9') || c == '.' || c == '-' || c == '_' || c == ':' || c == '%'
}

func hFromTemplate(t string) string {
	out := ""
	for i := 0; i < len(t); i++ {
		switch t[i] {
		case 1:
			out += vString(1)
		case 2:
			s := vString(1)
			vAssume((s[0] >= '0' && s[0] <= '9') || s[0] == 'a')
			out += s
		case 3:
			s := vString(1)
			vAssume(hIsHexByte(s[0]))
			out += s
		case 4:
			s := vString(1)
			vAssume(hIsSyntaxByte(s[0]))
			out += s
		default:
			out += t[i : i+1]
		}
	}
	return out
}

// h18aTemplates: the id shapes beyond "every byte string up to n bytes". Order = cost/priority; the
// parameter `a_tmpl` selects how many of them a tier uses.
var h18aTemplates = []string{
	// --- IP literals with and without port (dots raw or escaped, brackets raw or escaped)
	hDig + "." + hDig + "." + hDig + "." + hDig,                 // 0  d.d.d.d
	hDig + "." + hDig + "." + hDig + "." + hDig + "%3A" + hDig,  // 1  d.d.d.d:p
	hDig + "." + hDig + "." + hDig + "%3A" + hDig,               // 2  three fields: a name, not an address
	"[%3A%3A]",                                                  // 3  [::]
	"[%3A%3A" + hDig + "]",                                      // 4  [::d]
	"%5B%3A%3A" + hDig + "%5D%3A" + hDig,                        // 5  [::d]:p
	"[" + hDig + "%3A%3A]%3A" + hDig,                            // 6  [d::]:p
	"%5B" + hAny + hAny + "%5D",                                 // 7  [xx]
	// --- user-info
	hAny + "%40" + hAny,            // 8   x@y
	"u%3Ap%40" + hAny,              // 9   u:p@x
	hAny + "%40" + hAny + ":p",     // 10  x@y/p
	// --- ports
	hAny + "%3A" + hAny,            // 11  x:y
	"a%3a" + hDig + hDig,           // 12  lower-case escape
	"a%3A" + hDig + ":" + hAny,     // 13  a:d/x
	// --- arbitrary escaped byte in the host position (decodes to '/', '?', '#', '@', '\\', ' ', ...)
	"%" + hHex + hHex,              // 14
	"a%" + hHex + hHex + "b",       // 15
	"a%25" + hHex + hHex,           // 16  doubly encoded
	// --- path segments
	"a:" + hAny + hAny,             // 17
	"a:" + hAny + ":" + hAny,       // 18
	"a:%" + hHex + hHex,            // 19  arbitrary escape as a segment
	"a:%2E" + hAny,                 // 20
	"a:" + hAny + "%2E",            // 21
	"a:%2E%2E",                     // 22
	"a:%2e%2E:b",                   // 23
	"a:b:..:c",                     // 24
	"a:b%2F" + hAny,                // 25
	"a:%2F" + hAny,                 // 26
	"a:b%3A" + hAny,                // 27  %3A is decoded inside a segment
	// --- IPv6 zones
	"%5B%3A%3A%25" + hAny + "%5D",   // 28  [::%x]
	"%5B%3A%3A%2525" + hAny + "%5D", // 29  [::%25x]
	// --- longer IPv4 shapes (thorough)
	hDig + hDig + "." + hDig + "." + hDig + "." + hDig,                // 30
	hDig + "%2E" + hDig + "." + hDig + "." + hDig + "%3A" + hDig,      // 31
	"%5B" + hDig + "%3A%3A" + hDig + "." + hDig + "." + hDig + "." + hDig + "%5D", // 32 [d::d.d.d.d]
	"%5B" + hAny + hAny + hAny + "%5D",                                // 33
	hAny + "%3A" + hAny + hAny,                                        // 34
	"a:" + hAny + ":" + hAny + hAny,                                   // 35
}

// hHexVal: value of a hexadecimal digit (branch-free for the engine).
func hHexVal(c byte) (byte, bool) {
	var v byte
	ok := false
	if c >= '0' && c <= '9' {
		v = c - '0'
		ok = true
	}
	if c >= 'A' && c <= 'F' {
		v = c - 'A' + 10
		ok = true
	}
	if c >= 'a' && c <= 'f' {
		v = c - 'a' + 10
		ok = true
	}
	return v, ok
}

// hRefFirstSegment: reference decoder, written against RFC 3986 percent-encoding and the did:web rule
// "the first ':'-separated part of the method-specific id is the percent-encoded host[:port]".
// ok=false: the part contains a malformed escape.
func hRefFirstSegment(id string) (host string, ok bool) {
	var b []byte
	i := 0
	for i < len(id) && id[i] != ':' {
		c := id[i]
		if c != '%' {
			b = append(b, c)
			i++
			continue
		}
		if i+2 >= len(id) {
			return "", false
		}
		h, ok1 := hHexVal(id[i+1])
		l, ok2 := hHexVal(id[i+2])
		if !ok1 || !ok2 {
			return "", false
		}
		b = append(b, h<<4|l)
		i += 3
	}
	return string(b), true
}

// hInDIDSyntax: the method-specific-id syntax of DID Core as implemented by go-did's parser
// (idchar = ALPHA / DIGIT / "." / "-" / "_" / pct-encoded, parts separated by ':'). Only such strings can be
// the ID of a DID that came out of did.ParseDID / JSON unmarshalling.
func hInDIDSyntax(id string) bool {
	ok := true
	for i := 0; i < len(id); i++ {
		c := id[i]
		plain := (c >= 'a' && c <= 'z') || (c >= 'A' && c <= 'Z') || (c >= '0' && c <= '9') || c == '.' || c == '-' || c == '_' || c == ':'
		esc := c == '%' && i+2 < len(id)
		if esc {
			esc = hIsHexByte(id[i+1]) && hIsHexByte(id[i+2])
		}
		ok = ok && (plain || esc)
	}
	return ok
}

func hHasEscapedDot(id string) bool {
	r := false
	for i := 0; i+2 < len(id); i++ {
		r = r || (id[i] == '%' && id[i+1] == '2' && (id[i+2] == 'E' || id[i+2] == 'e'))
	}
	return r
}

// hCheckURL asserts the C18 origin binding on a URL that DIDToURL returned for `id`.
func hCheckURL(hid string, id string, u *url.URL) {
	vAssert(u != nil, hid+".url_not_nil: success without a URL")
	vAssert(u.Scheme == "https", hid+".scheme_https: did:web URL is not https")
	vAssert(u.User == nil, hid+".no_userinfo: did:web URL carries user-info")
	vAssert(u.Opaque == "", hid+".not_opaque: did:web URL is opaque")

	host, ok := hRefFirstSegment(id)
	vAssert(ok, hid+".host_escape_wellformed: id with a malformed escape in the host part was accepted")
	vAssert(u.Host == host, hid+".host_is_first_segment: URL host is not the decoded first id segment")

	ip := net.ParseIP(u.Hostname())
	if ip != nil {
		if len(host) > 0 && host[0] == '[' {
			vClass("IPv6 literal")
		} else {
			vClass("IPv4 literal")
		}
	}
	vAssert(ip == nil, hid+".host_not_ip: did:web URL host is an IP address literal")

	if !hInDIDSyntax(id) {
		// Bytes outside the DID syntax (raw '?', '#', '/', '@', '[', space, non-ASCII, ...) cannot occur in the ID
		// of a parsed DID. For such hand-made ids only the origin clauses above are claimed.
		vCover("id-outside-did-syntax")
		return
	}
	vCover("id-in-did-syntax")
	vAssert(u.RawQuery == "" && !u.ForceQuery, hid+".no_query: did:web URL has a query")
	vAssert(u.Fragment == "" && u.RawFragment == "", hid+".no_fragment: did:web URL has a fragment")

	// path elements of the escaped path: none empty, none a dot segment (RFC 3986 5.2.4) after decoding
	ep := u.EscapedPath()
	if len(ep) == 0 {
		vCover("no-path")
		return
	}
	vCover("with-path")
	vAssert(ep[0] == '/', hid+".path_absolute: URL path does not start with '/'")
	n := 0        // decoded length of the current element
	dots := true  // current element consists of '.' only
	empty := false
	dotseg := false
	i := 1
	for i <= len(ep) {
		if i == len(ep) || ep[i] == '/' {
			empty = empty || n == 0
			dotseg = dotseg || (dots && (n == 1 || n == 2))
			n, dots = 0, true
			i++
			continue
		}
		c := ep[i]
		if c == '%' {
			// EscapedPath() only emits well-formed escapes; the only decoded value that matters here is '.'
			vAssert(i+2 < len(ep), hid+".escaped_path_wellformed: truncated escape in EscapedPath()")
			if ep[i+1] == '2' && (ep[i+2] == 'E' || ep[i+2] == 'e') {
				c = '.'
			}
			i += 2
		}
		n++
		dots = dots && c == '.'
		i++
	}
	vAssert(!empty, hid+".no_empty_path_element: URL path has an empty element")
	if dotseg {
		if hHasEscapedDot(id) {
			vClass("percent-encoded dot segment")
		} else {
			vClass("raw dot segment")
		}
	}
	// Observation, not asserted: DIDToURL keeps '.' and '..' path elements of the id as they are (did:web:a:.. is
	// https://a/..). The property binds the request to "the host and path that the identifier encodes", which this
	// is; whether a server normalises the path is outside the node. H18c1.path_of_id asserts that the request path
	// is literally the path of the id.
	if dotseg {
		vCover("dot-segment-kept-literally")
	}
}

// H18a: DIDToURL on every byte string up to n bytes and on the templates above.
func H18a() {
	n := vParam("a_n", 2)
	nt := vParam("a_tmpl", 33)
	if nt > len(h18aTemplates) {
		nt = len(h18aTemplates)
	}
	var id string
	k := vChoice(nt + 1)
	if only := vParam("a_only", -1); only >= 0 {
		vAssume(k == only) // development aid: a single family
	}
	if k == 0 {
		vCover("free")
		vTag("id")
		id = vString(vLen(0, n))
	} else {
		vCover("template")
		id = hFromTemplate(h18aTemplates[k-1])
	}
	u, err := DIDToURL(did.DID{Method: "web", ID: id})
	if err != nil {
		vCover("rejected")
		vAssert(u == nil, "H18a.error_without_url: error and URL returned together")
		return
	}
	vCover("accepted")
	if len(u.Port()) > 0 {
		vCover("accepted-with-port")
	}
	hCheckURL("H18a", id, u)
}

func H18a_twin() {
	id := "a%3A" + vString(1) + ":" + vString(1)
	u, err := DIDToURL(did.DID{Method: "web", ID: id})
	if err == nil && u.Port() != "" && u.Path != "" {
		vAssert(false, "H18a_twin.reach: reachable")
	}
}

// H18a0: the method gate - anything but "web" is refused.
func H18a0() {
	m := vString(vLen(0, 3))
	u, err := DIDToURL(did.DID{Method: m, ID: "example.com"})
	if m == "web" {
		vCover("web")
		vAssert(err == nil && u != nil && u.Host == "example.com", "H18a0.web_accepted: did:web:example.com refused")
	} else {
		vCover("other")
		vAssert(err != nil && u == nil, "H18a0.other_method_refused: a DID of another method was converted to a URL")
	}
}

func H18a0_twin() {
	m := vString(3)
	if _, err := DIDToURL(did.DID{Method: m, ID: "example.com"}); err == nil {
		vAssert(false, "H18a0_twin.reach: reachable")
	}
}
