//go:build verif

package didweb

import (
	"errors"
	"io"
	"net"
	"net/http"

	"github.com/nuts-foundation/go-did/did"
	"github.com/nuts-foundation/nuts-node/core"
)

//verif:stub (*github.com/nuts-foundation/go-did/did.Document).UnmarshalJSON => hDocUnmarshal

// What the (attacker controlled) server serves, as far as did.Document.UnmarshalJSON is concerned:
// either bytes that are not a DID document, or a document whose id is hServedID. Contract of the stub:
// UnmarshalJSON fails or sets Document.ID to the DID spelled by the body's "id" member - a DID that went
// through did.ParseDID, so its Method is 1*(a-z / 0-9) and its ID is in DID syntax. Nothing else of the
// document matters to Resolve.
var (
	hServedInvalid bool
	hServedID      did.DID
	hServedBody    = "{doc}"
	hUnmarshalled  int
	// hServedDraw: the served document is drawn when (and only if) Resolve gets as far as parsing it
	hServedDraw bool
	hAskedID    string
)

func hDocUnmarshal(d *did.Document, data []byte) error {
	hUnmarshalled++
	vAssert(string(data) == hServedBody, "H18c.body_passed_on: the bytes parsed are not the bytes the server sent")
	if hServedDraw {
		hServedInvalid = vBool()
		switch vChoice(3) {
		case 0:
			hServedID = did.DID{Method: "web", ID: hAskedID, DecodedID: "something else"} // DecodedID is not part of the identifier
		case 1:
			vTag("served.id")
			hServedID = did.DID{Method: "web", ID: vString(len(hAskedID))}
		case 2:
			hServedID = did.DID{Method: []string{"nuts", "we", "webb"}[vChoice(3)], ID: hAskedID}
		}
	}
	if hServedInvalid {
		return errors.New("harness: not a DID document")
	}
	d.ID = hServedID
	return nil
}

type hBody struct {
	data   string
	pos    int
	fail   bool
	closed bool
}

func (b *hBody) Read(p []byte) (int, error) {
	if b.fail {
		return 0, errors.New("harness: connection reset")
	}
	if b.pos >= len(b.data) {
		return 0, io.EOF
	}
	n := copy(p, b.data[b.pos:])
	b.pos += n
	return n, nil
}

func (b *hBody) Close() error { b.closed = true; return nil }

// hDoer is the HTTP client fake: records every request, answers with a canned response.
type hDoer struct {
	core.HTTPRequestDoer
	reqs []*http.Request
	err  error
	resp *http.Response
}

func (d *hDoer) Do(r *http.Request) (*http.Response, error) {
	d.reqs = append(d.reqs, r)
	if d.err != nil {
		return nil, d.err
	}
	return d.resp, nil
}

// hPathUnit reads one unit of an escaped path at position i: a separator, or a (decoded) literal byte.
func hPathUnit(s string, i int) (sep bool, val byte, next int) {
	c := s[i]
	if c == '/' {
		return true, 0, i + 1
	}
	if c == '%' && i+2 < len(s) {
		h, ok1 := hHexVal(s[i+1])
		l, ok2 := hHexVal(s[i+2])
		if ok1 && ok2 {
			return false, h<<4 | l, i + 3
		}
	}
	return false, c, i + 1
}

// hSamePathElements: two escaped paths denote the same sequence of path elements (RFC 3986 6.2.2: escapes of
// the same byte are equivalent whatever their spelling; an escaped '/' is data, a raw '/' is a separator).
func hSamePathElements(a, b string) bool {
	i, j := 0, 0
	for i < len(a) && j < len(b) {
		sa, va, ni := hPathUnit(a, i)
		sb, vb, nj := hPathUnit(b, j)
		if sa != sb || va != vb {
			return false
		}
		i, j = ni, nj
	}
	return i == len(a) && j == len(b)
}

var h18cTemplates = []string{
	// escaped bytes in a path segment, spelled out (a symbolic escape is ~50x slower per query)
	"a:%2F", "a:b%2Fc", "a:%2E%2E", "a:b:%2e", "a:%41", "a:%20", "a:%3F", "a:%23", "a:%25", "a:%C3%A9", "a:%2B", // 1-11
	"a%3A" + hDig + ":" + hSyn,                                 // 12
	hDig + "." + hDig + "." + hDig + "." + hDig + "%3A" + hDig, // 13 IPv4 with port
	"%5B%3A%3A" + hDig + "%5D%3A" + hDig,                       // 14 IPv6 with port
	hSyn + "%40" + hSyn,                                        // 15 user-info
	"a:" + hSyn + hSyn,                                         // 16
	"a%3A", "a%3A:b",                                           // 17-18 empty port
}

// H18c1: which request does Resolve send? For every id over the bytes of the DID syntax (idchar, ':', '%' - what a
// parsed DID can contain; other bytes make net/url compute escapes symbolically, ~50x slower) up to n bytes, and
// the templates: no request at all when
// the id has no URL; otherwise exactly one GET without body to https://<host of the id><path of the id>/did.json
// (/.well-known/did.json without path) - host and path as DIDToURL gives them (H18a checks those against
// the id), compared as path element sequences.
func H18c1() {
	n := vParam("c_n", 2)
	nt := vParam("c_tmpl", len(h18cTemplates))
	if nt > len(h18cTemplates) {
		nt = len(h18cTemplates)
	}
	var idstr string
	k := vChoice(nt + 1)
	if only := vParam("c_only", -1); only >= 0 {
		vAssume(k == only) // development aid
	}
	if k == 0 {
		vTag("id")
		idstr = vString(vLen(0, n))
		for i := 0; i < len(idstr); i++ {
			vAssume(hIsSyntaxByte(idstr[i]))
		}
	} else {
		idstr = hFromTemplate(h18cTemplates[k-1])
	}
	id := did.DID{Method: "web", ID: idstr}
	hServedID = id
	doer := &hDoer{resp: &http.Response{StatusCode: 200, Status: "200 OK",
		Header: http.Header{"Content-Type": []string{"application/did+json"}}, Body: &hBody{data: hServedBody}}}
	doc, md, err := Resolver{HttpClient: doer}.Resolve(id, nil)

	base, berr := DIDToURL(id)
	vAssert(len(doer.reqs) <= 1, "H18c1.at_most_one_request: more than one HTTP request for one resolution")
	if berr != nil {
		vCover("no-url")
		vAssert(len(doer.reqs) == 0, "H18c1.no_request_without_url: a request was sent for an id that has no URL")
		vAssert(err != nil && doc == nil && md == nil, "H18c1.no_url_is_error: id without URL resolved")
		return
	}
	vCover("requested")
	vAssert(len(doer.reqs) == 1, "H18c1.one_request: no request although the id has a URL")
	if len(doer.reqs) != 1 {
		return
	}
	r := doer.reqs[0]
	vAssert(r.Method == "GET", "H18c1.method_get: request method is not GET")
	vAssert(r.Body == nil && r.ContentLength == 0, "H18c1.no_body: request has a body")
	vAssert(r.URL != nil && r.URL.Scheme == "https", "H18c1.scheme_https: request is not https")
	vAssert(r.URL.User == nil, "H18c1.no_userinfo: request URL carries user-info")
	wantHost := base.Host
	if len(wantHost) > 0 && wantHost[len(wantHost)-1] == ':' {
		// "host:" and "host" are the same authority (RFC 3986 6.2.3); net/http drops the empty port
		vCover("empty-port")
		wantHost = wantHost[:len(wantHost)-1]
	}
	vAssert((r.URL.Host == base.Host || r.URL.Host == wantHost) && (r.Host == "" || r.Host == r.URL.Host), "H18c1.host_of_id: request goes to another host than the id encodes")
	vAssert(net.ParseIP(r.URL.Hostname()) == nil, "H18c1.host_not_ip: request goes to an IP address literal")
	if !hInDIDSyntax(idstr) {
		vCover("id-outside-did-syntax")
		return
	}
	vAssert(r.URL.RawQuery == "" && r.URL.Fragment == "", "H18c1.no_query: request URL has a query or fragment")
	want := "/.well-known/did.json"
	if bp := base.EscapedPath(); bp != "" {
		vCover("with-path")
		want = bp + "/did.json"
	} else {
		vCover("well-known")
	}
	got := r.URL.EscapedPath()
	same := hSamePathElements(got, want)
	if !same {
		vClass("escaped byte of a path segment is sent decoded")
	}
	vAssert(same, "H18c1.path_of_id: request path is not <path of the id>/did.json")
	vAssert(err == nil && doc != nil && doc.ID.Equals(id), "H18c1.good_answer_resolves: a matching document served with 200 and an allowed content type did not resolve")
}

func H18c1_twin() {
	id := did.DID{Method: "web", ID: "a:" + hIDChars(1)}
	hServedID = id
	doer := &hDoer{resp: &http.Response{StatusCode: 200, Status: "200 OK",
		Header: http.Header{"Content-Type": []string{"application/json"}}, Body: &hBody{data: hServedBody}}}
	doc, _, err := Resolver{HttpClient: doer}.Resolve(id, nil)
	if err == nil && doc != nil && len(doer.reqs) == 1 && hUnmarshalled == 1 {
		vAssert(false, "H18c1_twin.reach: reachable")
	}
}

type hCT struct {
	value  string
	absent bool
	// verdict: +1 the media type is on the allow-list, -1 it is not, 0 malformed header (no claim either way)
	verdict int
}

var h18cContentTypes = []hCT{
	{value: "application/json", verdict: 1},
	{value: "application/did+json", verdict: 1},
	{value: "application/did+ld+json", verdict: 1},
	{value: "application/did+ld+json; charset=utf-8", verdict: 1},
	{value: "Application/JSON", verdict: 1}, // media types are case-insensitive (RFC 9110 8.3.1)
	{value: "text/html", verdict: -1},
	{value: "application/ld+json", verdict: -1},
	{value: "application/jsonx", verdict: -1},
	{value: "application/json+did", verdict: -1},
	{value: "", verdict: -1},
	{absent: true, verdict: -1},
	{value: "application/json; charset", verdict: 0},
	{value: "application/json/x", verdict: 0},
}

// H18c2: the decision on the answer. One id with a URL; the client fails or answers with an arbitrary status,
// a content type from the list above, a body that can fail while being read, that is or is not a DID document,
// whose id is the DID asked for, another did:web id of the same length, or the same id under another method.
func H18c2() {
	idstr := "a"
	if vBool() {
		idstr = "a%3A1:b"
	}
	id := did.DID{Method: "web", ID: idstr}
	hAskedID, hServedDraw = idstr, true

	doErr := vBool()
	vTag("status")
	status := vRange(0, 999)
	hdr := http.Header{}
	ct := h18cContentTypes[vChoice(len(h18cContentTypes))]
	verdict := ct.verdict
	if !ct.absent {
		hdr["Content-Type"] = []string{ct.value}
	}
	body := &hBody{data: hServedBody, fail: vBool()}
	doer := &hDoer{resp: &http.Response{StatusCode: status, Status: "status", Header: hdr, Body: body}}
	if doErr {
		doer.err = errors.New("harness: dial tcp: i/o timeout")
	}
	doc, md, err := Resolver{HttpClient: doer}.Resolve(id, nil)

	idMatch := hUnmarshalled == 1 && hServedID.Method == "web" && hServedID.ID == idstr
	vAssert(len(doer.reqs) == 1, "H18c2.one_request: not exactly one request")
	vAssert(hUnmarshalled <= 1, "H18c2.parsed_once: body parsed more than once")
	if err == nil {
		vCover("resolved")
		vAssert(doc != nil && md != nil, "H18c2.success_has_document: success without document or metadata")
		vAssert(!doErr, "H18c2.client_error_is_error: resolved although the HTTP client failed")
		vAssert(status >= 200 && status <= 299, "H18c2.non_2xx_is_error: resolved from a non-2xx answer")
		vAssert(verdict >= 0, "H18c2.content_type_allowed: resolved from an answer whose content type is not on the allow-list")
		vAssert(!body.fail, "H18c2.read_error_is_error: resolved although reading the body failed")
		vAssert(hUnmarshalled == 1 && !hServedInvalid, "H18c2.invalid_document_is_error: resolved from bytes that are not a DID document")
		vAssert(idMatch, "H18c2.document_id_is_did: resolved to a document whose id is not the DID asked for")
		if doc != nil {
			vAssert(doc.ID.Method == id.Method && doc.ID.ID == id.ID, "H18c2.returned_id_is_did: returned document id is not the DID asked for")
		}
		if md != nil {
			vAssert(!md.Deactivated, "H18c2.not_deactivated: did:web result flagged deactivated")
		}
	} else {
		vCover("refused")
		vAssert(doc == nil && md == nil, "H18c2.error_without_document: error together with a document")
		readable := !doErr && status >= 200 && status <= 299 && verdict > 0 && !body.fail
		if readable {
			vAssert(hUnmarshalled == 1, "H18c2.good_answer_is_parsed: a 2xx answer with an allowed content type was refused before its body was parsed")
			vAssert(hServedInvalid || !idMatch, "H18c2.good_answer_resolves: a matching document served with 2xx and an allowed content type was refused")
			if !hServedInvalid {
				vCover("refused-id-mismatch")
			}
		}
		if !doErr && status >= 200 && status <= 299 && verdict < 0 {
			vCover("refused-content-type")
			vAssert(hUnmarshalled == 0, "H18c2.wrong_type_not_parsed: body of an answer with a wrong content type was parsed")
		}
		if !doErr && (status < 200 || status > 299) {
			vCover("refused-status")
		}
	}
}

// H18c3: every content type of up to ctlen bytes (none of which is on the allow-list) is refused.
func H18c3() {
	id := did.DID{Method: "web", ID: "a"}
	hServedID = id
	vTag("content-type")
	ct := vString(vLen(0, vParam("ctlen", 1)))
	doer := &hDoer{resp: &http.Response{StatusCode: 200, Status: "200 OK", Header: http.Header{"Content-Type": []string{ct}}, Body: &hBody{data: hServedBody}}}
	doc, _, err := Resolver{HttpClient: doer}.Resolve(id, nil)
	vAssert(err != nil && doc == nil && hUnmarshalled == 0, "H18c3.short_content_type_refused: an answer with a content type outside the allow-list resolved")
}

func H18c3_twin() {
	id := did.DID{Method: "web", ID: "a"}
	hServedID = id
	ct := "application/jso" + vString(1)
	doer := &hDoer{resp: &http.Response{StatusCode: 200, Status: "200 OK", Header: http.Header{"Content-Type": []string{ct}}, Body: &hBody{data: hServedBody}}}
	if _, _, err := (Resolver{HttpClient: doer}).Resolve(id, nil); err == nil {
		vAssert(false, "H18c3_twin.reach: reachable")
	}
}

func H18c2_twin() {
	id := did.DID{Method: "web", ID: "a"}
	hServedID = did.DID{Method: "web", ID: vString(1)}
	doer := &hDoer{resp: &http.Response{StatusCode: vRange(0, 999), Status: "s",
		Header: http.Header{"Content-Type": []string{"application/did+ld+json; charset=utf-8"}}, Body: &hBody{data: hServedBody}}}
	if _, _, err := (Resolver{HttpClient: doer}).Resolve(id, nil); err == nil {
		vAssert(false, "H18c2_twin.reach: reachable")
	}
}

// H18c0: Resolve refuses other methods without any request.
func H18c0() {
	m := vString(vLen(0, 3))
	doer := &hDoer{err: errors.New("harness: unreachable")}
	_, _, err := Resolver{HttpClient: doer}.Resolve(did.DID{Method: m, ID: "a"}, nil)
	if m != "web" {
		vCover("other")
		vAssert(err != nil && len(doer.reqs) == 0, "H18c0.other_method_no_request: a DID of another method caused a request or resolved")
	} else {
		vCover("web")
		vAssert(err != nil && len(doer.reqs) == 1, "H18c0.web_requests: did:web:a did not cause exactly one request")
	}
}

func H18c0_twin() {
	doer := &hDoer{err: errors.New("harness: unreachable")}
	_, _, _ = Resolver{HttpClient: doer}.Resolve(did.DID{Method: vString(3), ID: "a"}, nil)
	if len(doer.reqs) == 1 {
		vAssert(false, "H18c0_twin.reach: reachable")
	}
}
