//go:build verif

package didweb

import (
	"encoding/json"
	"errors"
	"net/http"
	"time"

	"github.com/nuts-foundation/go-did/did"
	"github.com/nuts-foundation/nuts-node/storage/orm"
	"github.com/nuts-foundation/nuts-node/vdr/didsubject"
	"github.com/nuts-foundation/nuts-node/vdr/resolver"
	"gorm.io/gorm"
)

//verif:stub (*github.com/nuts-foundation/nuts-node/vdr/didsubject.SqlDIDDocumentManager).Latest => hLatest

// The did_document_version table of the node, as far as the one query of SqlDIDDocumentManager.Latest goes:
//
//	SELECT ... WHERE did = ? AND updated_at <= ? ORDER BY version DESC LIMIT 1
//
// hLatest evaluates exactly that over hRows (gorm.ErrRecordNotFound when no row qualifies) or fails with a
// database error. Without a resolve time the real code bounds updated_at by now+1h; the stub then applies no
// bound (assumption: no stored version is dated more than an hour in the future).
var (
	hRows      []orm.DidDocument
	hDBFails   bool
	hLatestN   int
	hErrDBDown = errors.New("harness: database is locked")
)

func hLatest(s *didsubject.SqlDIDDocumentManager, id did.DID, resolveTime *time.Time) (*orm.DidDocument, error) {
	hLatestN++
	if hDBFails {
		return nil, hErrDBDown
	}
	var best *orm.DidDocument
	for i := range hRows {
		r := &hRows[i]
		if r.DID.ID != id.String() {
			continue
		}
		if resolveTime != nil && r.UpdatedAt > resolveTime.Unix() {
			continue
		}
		if best == nil || r.Version > best.Version {
			best = r
		}
	}
	if best == nil {
		return nil, gorm.ErrRecordNotFound
	}
	cp := *best
	return &cp, nil
}

// H18e: the chain vdr.go wires for did:web - [didsubject.Resolver (node's own SQL store), didweb.Resolver (HTTPS)] -
// over every local history of up to `versions` versions (each active or deactivated, non-decreasing update
// times), with nil metadata / AllowDeactivated / a resolve time, and a web server that would happily serve an
// active document for the DID.
func H18e() {
	id := did.DID{Method: "web", ID: "a:iam:" + hIDChars(1)}
	n := vLen(0, vParam("versions", 3))
	deact := make([]bool, n)
	upd := make([]int64, n)
	created := int64(vRange(0, 1<<32))
	prev := created
	for i := 0; i < n; i++ {
		deact[i] = vBool()
		vTag("updated_at")
		upd[i] = int64(vRange(0, 1<<32))
		vAssume(upd[i] >= prev)
		prev = upd[i]
		doc := did.Document{ID: id}
		for j := 0; j <= i; j++ {
			doc.Service = append(doc.Service, did.Service{Type: "version-mark"})
		}
		if !deact[i] {
			doc.Controller = []did.DID{id}
		}
		raw, err := json.Marshal(doc)
		vAssert(err == nil, "H18e.setup: cannot marshal")
		hRows = append(hRows, orm.DidDocument{ID: "row", DidID: id.String(), DID: orm.DID{ID: id.String(), Subject: "s"},
			CreatedAt: created, UpdatedAt: upd[i], Version: i, Raw: string(raw)})
	}
	// a row of another DID must never be looked at
	other := did.Document{ID: did.DID{Method: "web", ID: "a:iam:other"}, Controller: []did.DID{id}}
	raw, _ := json.Marshal(other)
	hRows = append(hRows, orm.DidDocument{ID: "row", DidID: other.ID.String(), DID: orm.DID{ID: other.ID.String()}, Version: 9, Raw: string(raw)})
	hDBFails = vBool()

	var md *resolver.ResolveMetadata
	allow := false
	var at *time.Time
	if vBool() {
		allow = vBool()
		md = &resolver.ResolveMetadata{AllowDeactivated: allow}
		if vBool() {
			vTag("resolve_time")
			t := time.Unix(int64(vRange(0, 1<<32)), 0)
			at = &t
			md.ResolveTime = at
		}
	}

	hServedID = id
	doer := &hDoer{resp: &http.Response{StatusCode: 200, Status: "200 OK",
		Header: http.Header{"Content-Type": []string{"application/did+json"}}, Body: &hBody{data: hServedBody}}}
	chain := resolver.ChainedDIDResolver{Resolvers: []resolver.DIDResolver{didsubject.Resolver{DB: nil}, Resolver{HttpClient: doer}}}
	doc, dmd, err := chain.Resolve(id, md)

	// reference: the version in force
	cur := -1
	for i := 0; i < n; i++ {
		if at == nil || upd[i] <= at.Unix() {
			cur = i
		}
	}
	vAssert(hLatestN == 1, "H18e.local_store_asked_once: the local store was not asked exactly once")
	if hDBFails {
		vCover("db-error")
		vAssert(err == hErrDBDown && doc == nil && dmd == nil, "H18e.db_error_reported: a database error was not reported as is")
		vAssert(len(doer.reqs) == 0, "H18e.db_error_no_network: network access after a local database error")
		return
	}
	if cur < 0 {
		// not (yet) known locally: the web resolver decides
		if n > 0 {
			vCover("managed-but-no-version-at-resolve-time-goes-to-web")
		} else {
			vCover("unknown-locally-goes-to-web")
		}
		vAssert(len(doer.reqs) == 1, "H18e.fallback_one_request: unknown DID did not cause exactly one request")
		vAssert(err == nil && doc != nil && doc.ID.Equals(id) && len(doc.Service) == 0, "H18e.fallback_resolves: web document not returned for a DID unknown locally")
		return
	}
	vCover("managed")
	if deact[cur] && !allow {
		vClass("deactivated locally, caller does not allow deactivated")
	} else if deact[cur] {
		vClass("deactivated locally, caller allows deactivated")
	} else {
		vClass("active locally")
	}
	vAssert(len(doer.reqs) == 0, "H18e.managed_no_network: a DID managed by this node caused a network request")
	if deact[cur] && !allow {
		vCover("deactivated-refused")
		vAssert(doc == nil && dmd == nil, "H18e.deactivated_not_returned: a deactivated DID resolved for a caller that did not allow it")
		vAssert(errors.Is(err, resolver.ErrDeactivated), "H18e.deactivated_reported: deactivation not reported as ErrDeactivated")
		return
	}
	vAssert(err == nil && doc != nil && dmd != nil, "H18e.managed_resolves: managed DID did not resolve from the local store")
	if err != nil || doc == nil || dmd == nil {
		return
	}
	vAssert(doc.ID.Equals(id), "H18e.document_id_is_did: local document id is not the DID asked for")
	vAssert(len(doc.Service) == cur+1, "H18e.version_in_force: not the latest version at the resolve time")
	vAssert(dmd.Deactivated == deact[cur], "H18e.deactivated_flag: metadata flag differs from the document's state")
	vAssert(dmd.Created.Equal(time.Unix(created, 0)) && dmd.Updated != nil && dmd.Updated.Equal(time.Unix(upd[cur], 0)), "H18e.timestamps: created/updated are not those of the version")
	if deact[cur] {
		vCover("deactivated-allowed")
	} else {
		vCover("active")
	}
	if cur < n-1 {
		vCover("older-version-by-resolve-time")
	}
}

func H18e_twin() {
	id := did.DID{Method: "web", ID: "a"}
	raw, _ := json.Marshal(did.Document{ID: id})
	hRows = append(hRows, orm.DidDocument{DID: orm.DID{ID: id.String()}, UpdatedAt: int64(vRange(0, 10)), Version: 0, Raw: string(raw)})
	t := time.Unix(5, 0)
	hServedID = id
	doer := &hDoer{resp: &http.Response{StatusCode: 200, Status: "200 OK",
		Header: http.Header{"Content-Type": []string{"application/did+json"}}, Body: &hBody{data: hServedBody}}}
	chain := resolver.ChainedDIDResolver{Resolvers: []resolver.DIDResolver{didsubject.Resolver{DB: nil}, Resolver{HttpClient: doer}}}
	doc, dmd, err := chain.Resolve(id, &resolver.ResolveMetadata{AllowDeactivated: true, ResolveTime: &t})
	if err == nil && doc != nil && dmd.Deactivated && len(doer.reqs) == 0 {
		vAssert(false, "H18e_twin.reach: reachable")
	}
}
