//go:build verif

package resolver

import (
	"errors"
	"fmt"

	"github.com/nuts-foundation/go-did/did"
)

// Outcomes a link of the chain can produce. A link honours the DIDResolver contract: a deactivated document
// is handed out only when the metadata IT RECEIVED allows it, otherwise it answers ErrDeactivated.
const (
	hoActive = iota
	hoDeactivatedDoc // deactivated document: ErrDeactivated unless the received metadata allows deactivated
	hoNotFound
	hoNotFoundWrapped
	hoDeactivated          // ErrDeactivated regardless
	hoDeactivatedWrapped   // fmt.Errorf("...: %w", ErrDeactivated)
	hoNoActiveController   // the other deactivation error
	hoOtherError           // a technical error
	hoOtherWrapsNothing    // an error whose text mentions "unable to find the DID document" but is not ErrNotFound
	hoJoinedNotFoundAndErr // errors.Join(ErrNotFound, technical) - Is(ErrNotFound) holds
	hoCount
)

type hLink struct {
	outcome int
	calls   int
	gotID   did.DID
	gotMD   *ResolveMetadata
	doc     *did.Document
	md      *DocumentMetadata
	err     error
}

var hErrTechnical = errors.New("harness: database is locked")

func (l *hLink) Resolve(id did.DID, metadata *ResolveMetadata) (*did.Document, *DocumentMetadata, error) {
	l.calls++
	l.gotID, l.gotMD = id, metadata
	allow := metadata != nil && metadata.AllowDeactivated
	switch l.outcome {
	case hoActive:
		l.doc = &did.Document{ID: id, Controller: []did.DID{id}}
		l.md = &DocumentMetadata{}
	case hoDeactivatedDoc:
		if allow {
			l.doc = &did.Document{ID: id}
			l.md = &DocumentMetadata{Deactivated: true}
		} else {
			l.err = ErrDeactivated
		}
	case hoNotFound:
		l.err = ErrNotFound
	case hoNotFoundWrapped:
		l.err = fmt.Errorf("harness: lookup: %w", ErrNotFound)
	case hoDeactivated:
		l.err = ErrDeactivated
	case hoDeactivatedWrapped:
		l.err = fmt.Errorf("harness: lookup: %w", ErrDeactivated)
	case hoNoActiveController:
		l.err = ErrNoActiveController
	case hoOtherError:
		l.err = hErrTechnical
	case hoOtherWrapsNothing:
		l.err = errors.New("unable to find the DID document")
	case hoJoinedNotFoundAndErr:
		l.err = errors.Join(ErrNotFound, hErrTechnical)
	}
	return l.doc, l.md, l.err
}

// hMeansNotFound: reference classification of an outcome, by construction (not via errors.Is).
func hMeansNotFound(o int) bool {
	return o == hoNotFound || o == hoNotFoundWrapped || o == hoJoinedNotFoundAndErr
}

func hIsDeactivation(o int, allow bool) bool {
	return (o == hoDeactivatedDoc && !allow) || o == hoDeactivated || o == hoDeactivatedWrapped || o == hoNoActiveController
}

// H18d: ChainedDIDResolver over k <= 3 links with every combination of outcomes, metadata nil / allowing /
// not allowing deactivated documents.
func H18d() {
	k := vLen(0, vParam("links", 3))
	links := make([]*hLink, k)
	rs := make([]DIDResolver, k)
	for i := range links {
		links[i] = &hLink{outcome: vChoice(hoCount)}
		rs[i] = links[i]
	}
	var md *ResolveMetadata
	allow := false
	switch vChoice(3) {
	case 1:
		md = &ResolveMetadata{}
	case 2:
		md = &ResolveMetadata{AllowDeactivated: true}
		allow = true
	}
	id := did.DID{Method: "web", ID: "a:" + vString(1)}
	doc, dmd, err := ChainedDIDResolver{Resolvers: rs}.Resolve(id, md)

	// reference: the first link that does not say "not found" decides
	decider := -1
	for i, l := range links {
		if !hMeansNotFound(l.outcome) {
			decider = i
			break
		}
	}
	for i, l := range links {
		if decider >= 0 && i > decider {
			if hIsDeactivation(links[decider].outcome, allow) {
				vClass("asked the next resolver after a deactivation answer")
			} else if links[decider].err != nil {
				vClass("asked the next resolver after an error other than not-found")
			} else {
				vClass("asked the next resolver after a document was found")
			}
			vAssert(l.calls == 0, "H18d.chain_stops_at_decider: a resolver was asked although an earlier one gave an answer other than not-found")
		} else {
			vAssert(l.calls == 1, "H18d.asked_once_in_order: a resolver before the deciding one was not asked exactly once")
			vAssert(l.gotID == id, "H18d.same_id_passed: a resolver was asked for another DID")
			vAssert(l.gotMD == md, "H18d.same_metadata_passed: a resolver received other resolve metadata than the caller gave")
		}
	}
	if decider < 0 {
		vCover("all-not-found")
		vAssert(doc == nil && dmd == nil && errors.Is(err, ErrNotFound), "H18d.exhausted_is_not_found: chain without an answer did not report ErrNotFound")
		return
	}
	d := links[decider]
	if d.err == nil {
		vCover("found")
		if decider > 0 {
			vCover("found-after-not-found")
		}
		vAssert(err == nil && doc == d.doc && dmd == d.md, "H18d.answer_passed_on: the deciding resolver's document or metadata was not returned as is")
		if dmd != nil && dmd.Deactivated {
			vCover("deactivated-allowed")
			vAssert(allow, "H18d.deactivated_only_if_allowed: a deactivated document was returned to a caller that did not allow it")
		}
		return
	}
	vCover("error")
	vAssert(doc == nil && dmd == nil, "H18d.error_without_document: error together with a document")
	vAssert(err == d.err, "H18d.error_passed_on: the deciding resolver's error was not returned as is")
	if hIsDeactivation(d.outcome, allow) {
		vCover("deactivated-stops-chain")
		vAssert(errors.Is(err, ErrDeactivated), "H18d.deactivated_reported: deactivation was not reported to the caller")
	}
}

func H18d_twin() {
	a, b := &hLink{outcome: vChoice(hoCount)}, &hLink{outcome: hoDeactivatedDoc}
	doc, md, err := ChainedDIDResolver{Resolvers: []DIDResolver{a, b}}.Resolve(did.DID{Method: "web", ID: "a"}, &ResolveMetadata{AllowDeactivated: vBool()})
	if err == nil && doc != nil && md.Deactivated && a.calls == 1 && b.calls == 1 {
		vAssert(false, "H18d_twin.reach: reachable")
	}
}
