//go:build verif

package didstore

import (
	"net/url"
	"time"

	ssi "github.com/nuts-foundation/go-did"
	"github.com/nuts-foundation/go-did/did"
	"github.com/nuts-foundation/nuts-node/crypto/hash"
	"github.com/nuts-foundation/nuts-node/vdr/didnuts/util"
	"github.com/nuts-foundation/nuts-node/vdr/resolver"
)

// H10d - mergeDocuments is deterministic (independent of Go's map iteration order) and
// commutative up to element order. The real mergeDocuments incl. go-did's String() methods and
// net/url's URL.String(); identifiers of the merged elements are symbolic strings.
//
// Go randomises map iteration per run, so "the same merged document on every node and on every
// replay" requires the result not to depend on it. Run 1 uses the engine's default order
// (insertion order), run 2 an arbitrary order (vMapOrder(true)): if every order agrees with the
// default order, any two orders agree.

func hd10Controller(id string) did.DID { return did.DID{Method: "nuts", ID: id} }

func hd10Service(id string) did.Service {
	// content is a function of the id (documented contract of mergeServices: ids are derived from the content)
	return did.Service{ID: ssi.URI{URL: url.URL{Scheme: "did", Opaque: "nuts:x:svc:" + id}}, Type: "t"}
}

func hd10Key(id string) *did.VerificationMethod {
	// content is a function of the id (documented contract of mergeKeys: ids are derived from the public key)
	return &did.VerificationMethod{ID: did.DIDURL{DID: hTestDID, Fragment: id}, Type: "JsonWebKey2020", Controller: hTestDID}
}

// hd10Doc builds a document with len(lens) elements with symbolic ids (of the given lengths) in the
// component under focus and one fixed element in each other component.
func hd10Doc(focus int, lens []int) did.Document {
	ids := make([]string, len(lens))
	for i := range ids {
		ids[i] = vString(lens[i])
		for j := 0; j < i; j++ {
			vAssume(ids[i] != ids[j]) // ids are unique within one document
		}
	}
	d := did.Document{ID: hTestDID}
	d.Context = []interface{}{did.DIDContextV1}
	d.Controller = []did.DID{hTestDID}
	k := hd10Key("k")
	d.VerificationMethod = did.VerificationMethods{k}
	d.CapabilityInvocation = did.VerificationRelationships{{VerificationMethod: k}}
	d.Service = []did.Service{hd10Service("s")}
	rels := func() did.VerificationRelationships {
		var out did.VerificationRelationships
		for _, id := range ids {
			// a relationship may refer to a key of another document (e.g. of a controller): not listed in verificationMethod
			out = append(out, did.VerificationRelationship{VerificationMethod: hd10Key(id)})
		}
		return out
	}
	switch focus {
	case 0:
		d.Controller = nil
		for _, id := range ids {
			d.Controller = append(d.Controller, hd10Controller(id))
		}
	case 1:
		d.Service = nil
		for _, id := range ids {
			d.Service = append(d.Service, hd10Service(id))
		}
	case 2:
		d.VerificationMethod = nil
		for _, id := range ids {
			d.VerificationMethod = append(d.VerificationMethod, hd10Key(id))
		}
	case 3:
		d.Context = nil
		for _, id := range ids {
			d.Context = append(d.Context, "ctx:"+id)
		}
	case 4:
		d.CapabilityInvocation = rels()
	case 5:
		d.AssertionMethod = rels()
	case 6:
		d.Authentication = rels()
	case 7:
		d.KeyAgreement = rels()
	case 8:
		d.CapabilityDelegation = rels()
	}
	return d
}

func hd10Strs(d did.Document, field int) []string {
	var out []string
	rel := func(rs did.VerificationRelationships) {
		for _, r := range rs {
			out = append(out, r.ID.String())
		}
	}
	switch field {
	case 0:
		for _, c := range d.Controller {
			out = append(out, c.String())
		}
	case 1:
		for _, s := range d.Service {
			out = append(out, s.ID.String()+","+s.Type)
		}
	case 2:
		for _, v := range d.VerificationMethod {
			out = append(out, v.ID.String()+","+string(v.Type)+","+v.Controller.String())
		}
	case 3:
		for _, c := range d.Context {
			out = append(out, util.LDContextToString(c))
		}
	case 4:
		rel(d.CapabilityInvocation)
	case 5:
		rel(d.AssertionMethod)
	case 6:
		rel(d.Authentication)
	case 7:
		rel(d.KeyAgreement)
	case 8:
		rel(d.CapabilityDelegation)
	case 9:
		for _, a := range d.AlsoKnownAs {
			out = append(out, a.String())
		}
	}
	return out
}

var hd10FieldNames = []string{"controller", "service", "verification_method", "context", "capability_invocation",
	"assertion_method", "authentication", "key_agreement", "capability_delegation", "also_known_as"}

func hd10SameSeq(a, b []string) bool {
	if len(a) != len(b) {
		return false
	}
	ok := true
	for i := range a {
		ok = ok && a[i] == b[i]
	}
	return ok
}

func hd10Subset(a, b []string) bool {
	ok := true
	for _, x := range a {
		in := false
		for _, y := range b {
			in = in || x == y
		}
		ok = ok && in
	}
	return ok
}

func hd10NoDup(a []string) bool {
	ok := true
	for i := range a {
		for j := 0; j < i; j++ {
			ok = ok && a[i] != a[j]
		}
	}
	return ok
}

func H10d() {
	idlen := vParam("idlen10d", 2)
	maxn := vParam("n10d", 2)
	focus := vChoice(len(hd10FieldNames) - 1)
	// the focus selects the component with symbolic elements; field f of hd10Strs is component f
	vCover(hd10FieldNames[focus])
	vClass(hd10FieldNames[focus])
	na := vLen(1, maxn)
	nbmax := maxn
	if sum := vParam("sum10d", 0); sum != 0 && sum-na < nbmax {
		nbmax = sum - na // bound on the total number of elements in focus
	}
	nb := vLen(1, nbmax)
	// all ids have idlen bytes, except that one of them (any, or none) is one byte shorter, so that
	// one id can be a proper prefix of another
	lens := make([]int, na+nb)
	for i := range lens {
		lens[i] = idlen
	}
	if idlen > 1 {
		if short := vChoice(na + nb + 1); short < na+nb {
			lens[short] = idlen - 1
			vCover("prefix-length")
		}
	}
	a := hd10Doc(focus, lens[:na])
	b := hd10Doc(focus, lens[na:])

	r1 := mergeDocuments(a, b)
	r3 := mergeDocuments(b, a)
	vMapOrder(true)
	r2 := mergeDocuments(a, b)
	vMapOrder(false)

	vAssert(r1.ID.String() == a.ID.String() && r2.ID.String() == a.ID.String() && r3.ID.String() == a.ID.String(), "H10d.id: merged document has a different id")
	for f, name := range hd10FieldNames {
		s1, s2, s3 := hd10Strs(r1, f), hd10Strs(r2, f), hd10Strs(r3, f)
		in := append(hd10Strs(a, f), hd10Strs(b, f)...)
		if f != 9 { // alsoKnownAs is not merged (documents of did:nuts do not carry it)
			// independent reference: the merge is the duplicate-free union of both inputs
			vAssert(hd10Subset(in, s1) && hd10Subset(s1, in) && hd10NoDup(s1), "H10d."+name+"_is_union: merged "+name+" is not the duplicate-free union of both documents")
		}
		// merge(a,b) and merge(b,a) are equal as sets
		vAssert(len(s1) == len(s3) && hd10Subset(s1, s3) && hd10Subset(s3, s1), "H10d."+name+"_commutative: merge(a,b) and merge(b,a) differ in "+name+" as sets")
		// same inputs, different map iteration order: identical sequence
		vAssert(hd10SameSeq(s1, s2), "H10d."+name+"_deterministic: merged "+name+" depends on the map iteration order")
	}
	if na+nb >= 4 {
		vCover("two-plus-two")
	}
}

func H10d_twin() {
	a := hd10Doc(1, []int{1})
	b := hd10Doc(1, []int{1})
	r := mergeDocuments(a, b)
	if len(r.Service) == 2 && r.Service[0].ID.String() == b.Service[0].ID.String() {
		vAssert(false, "H10d_twin.reach: reachable")
	}
}

// H10d2 - the same determinism one level up: two nodes (or one node before and after a restart and
// replay) add the same transactions in the same order; only Go's map iteration order differs.
// create c; three parallel updates a, b, d that all refer to c (3-way fork); a adds a second
// controller. Resolve must give the same document, hash and source transaction list.
func H10d2() {
	self := hTestDID
	other := hd10Controller("y")
	mk := func(i int, clock uint32, ctl []did.DID, svc string, prevs ...hash.SHA256Hash) (did.Document, Transaction) {
		d := did.Document{ID: self, Controller: ctl, Service: []did.Service{hd10Service(svc)}}
		return d, Transaction{Clock: clock, SigningTime: time.Unix(int64(hc10Epoch+i), 0), Ref: hash.SHA256Hash{byte(0x10 * (i + 1))},
			PayloadHash: hDocHash(d), Previous: prevs}
	}
	var docs [4]did.Document
	var txs [4]Transaction
	docs[0], txs[0] = mk(0, 0, []did.DID{self}, "c")
	docs[1], txs[1] = mk(1, 1, []did.DID{self, other}, "a", txs[0].Ref)
	docs[2], txs[2] = mk(2, 1, []did.DID{self}, "b", txs[0].Ref)
	docs[3], txs[3] = mk(3, 1, []did.DID{self}, "d", txs[0].Ref)
	n := vParam("n10d2", 4)

	s1, _ := hNewStore()
	s2, _ := hNewStore()
	for i := 0; i < n; i++ {
		vAssert(s1.Add(docs[i], txs[i]) == nil, "H10d2.add_ok: Add failed")
	}
	vMapOrder(true)
	for i := 0; i < n; i++ {
		vAssert(s2.Add(docs[i], txs[i]) == nil, "H10d2.add_ok: Add failed")
	}
	vMapOrder(false)
	a := hc10Resolve("H10d2", s1, &resolver.ResolveMetadata{AllowDeactivated: true})
	b := hc10Resolve("H10d2", s2, &resolver.ResolveMetadata{AllowDeactivated: true})
	vAssert(a.found && b.found, "H10d2.found: latest version not found")
	vAssert(len(a.md.SourceTransactions) == n-1 && hc10SameSet(a.md.SourceTransactions, b.md.SourceTransactions), "H10d2.same_source_set: source transaction sets differ")
	vCover("resolved")
	sameOrder := true
	for i := range a.md.SourceTransactions {
		sameOrder = sameOrder && a.md.SourceTransactions[i] == b.md.SourceTransactions[i]
	}
	sameCtl := hd10SameSeq(hd10Strs(a.doc, 0), hd10Strs(b.doc, 0))
	if !sameOrder {
		vClass("source transaction order")
	} else if !sameCtl {
		vClass("controller order")
	}
	vAssert(sameOrder, "H10d2.same_source_order: the list of source transactions depends on the map iteration order")
	vAssert(hDocEqual(a.doc, b.doc), "H10d2.same_document: the merged document depends on the map iteration order")
	vAssert(a.md.Hash == b.md.Hash, "H10d2.same_hash: the hash of the merged document depends on the map iteration order")
}

func H10d2_twin() {
	d := did.Document{ID: hTestDID, Controller: []did.DID{hTestDID}}
	s, _ := hNewStore()
	vMapOrder(true)
	if s.Add(d, Transaction{Ref: hash.SHA256Hash{1}, PayloadHash: hDocHash(d), SigningTime: time.Unix(hc10Epoch, 0)}) == nil {
		if r := hc10Resolve("H10d2_twin", s, nil); r.found {
			vAssert(false, "H10d2_twin.reach: reachable")
		}
	}
}
