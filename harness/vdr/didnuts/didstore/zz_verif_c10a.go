//go:build verif

package didstore

import (
	"time"

	"github.com/nuts-foundation/nuts-node/crypto/hash"
)

func vHash(k int) hash.SHA256Hash {
	var h hash.SHA256Hash
	b := vBytes(k)
	for i := 0; i < k; i++ {
		h[i] = b[i]
	}
	return h
}

// vEvent: an event with arbitrary ordering fields (clock, signing time with second and
// nanosecond parts, ref with hb symbolic leading bytes).
func vEvent(hb int) event {
	sec := int64(vRange(0, 1<<33))
	nsec := int64(vRange(0, 999999999))
	return event{
		Clock:       vU32(),
		SigningTime: time.Unix(sec, nsec),
		Ref:         vHash(hb),
	}
}

// H10a: event.before is a strict total order on events with distinct refs.
func H10a() {
	hb := vParam("hashbytes", 2)
	a, b, c := vEvent(hb), vEvent(hb), vEvent(hb)
	vAssert(!a.before(a), "H10a.irreflexive: before(a,a)")
	ab, ba := a.before(b), b.before(a)
	vAssert(!(ab && ba), "H10a.asymmetric: before(a,b) and before(b,a)")
	if a.Ref != b.Ref {
		vCover("distinct")
		vAssert(ab || ba, "H10a.total: neither before(a,b) nor before(b,a) for distinct refs")
	}
	if ab && b.before(c) {
		vCover("chain")
		vAssert(a.before(c), "H10a.transitive: before(a,b), before(b,c) but not before(a,c)")
	}
	// lexicographic reference on (clock, time, ref)
	if a.Clock < b.Clock {
		vAssert(ab, "H10a.clock_first: lower clock does not sort first")
	}
	if a.Clock == b.Clock && a.SigningTime.Before(b.SigningTime) {
		vCover("time-tiebreak")
		vAssert(ab, "H10a.time_second: equal clock, earlier time does not sort first")
	}
}

func H10a_twin() {
	a, b := vEvent(1), vEvent(1)
	if a.before(b) && a.Clock == b.Clock && a.SigningTime.Equal(b.SigningTime) {
		vAssert(false, "H10a_twin.reach: reachable")
	}
}

// H10b: eventList.insert keeps the list sorted, returns the insertion position, and the
// final list does not depend on the insertion order.
func H10b() {
	k := vParam("k", 3)
	hb := vParam("hashbytes", 1)
	evs := make([]event, k)
	for i := range evs {
		evs[i] = vEvent(hb)
		for j := 0; j < i; j++ {
			vAssume(evs[i].Ref != evs[j].Ref)
		}
	}
	// list 1: natural order; list 2: a nondeterministically chosen permutation
	var l1, l2 eventList
	for i := range evs {
		idx := l1.insert(evs[i])
		vAssert(idx >= 0 && idx < len(l1.Events), "H10b.index_in_range: insert returned an index outside the list")
		vAssert(l1.Events[idx].Ref == evs[i].Ref, "H10b.index_is_position: insert returned an index that does not hold the new event")
	}
	used := make([]bool, k)
	for n := 0; n < k; n++ {
		c := vChoice(k - n)
		for i := 0; i < k; i++ {
			if used[i] {
				continue
			}
			if c == 0 {
				used[i] = true
				l2.insert(evs[i])
				break
			}
			c--
		}
	}
	vAssert(len(l1.Events) == k && len(l2.Events) == k, "H10b.length: insert lost or duplicated an event")
	for i := 0; i+1 < k; i++ {
		vAssert(l1.Events[i].before(l1.Events[i+1]), "H10b.sorted: list is not sorted after insert")
	}
	for i := 0; i < k; i++ {
		vAssert(l1.Events[i].Ref == l2.Events[i].Ref, "H10b.order_independent: final list depends on insertion order")
	}
	vCover("done")
}

func H10b_twin() {
	var l eventList
	a, b := vEvent(1), vEvent(1)
	l.insert(a)
	if l.insert(b) == 0 {
		vAssert(false, "H10b_twin.reach: reachable")
	}
}
