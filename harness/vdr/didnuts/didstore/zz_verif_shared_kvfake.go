//go:build verif

package didstore

// Shared harness component (generated copy - edit harness/_shared/kvfake.go.tmpl):
// an in-memory transactional stoabs.KVStore. Semantics follow go-stoabs' bbolt back end:
// one writer at a time (mutex = scheduling point), a failed write transaction leaves the
// committed state untouched and invokes OnRollback, a successful one invokes AfterCommit
// after the lock is released; readers see committed state; shelves iterate in key byte order;
// ReadShelf on a missing shelf yields the NilReader. Optional fault: the n-th Put/Delete of
// the store's lifetime fails (failAt) or stops the process (crashAt, vStop) - n is chosen by the harness.

import (
	"bytes"
	"context"
	"errors"
	"sync"

	"github.com/nuts-foundation/go-stoabs"
)

type hKVEntry struct {
	k []byte
	v []byte
}

type hKVShelf struct {
	name    string
	entries []hKVEntry // kept sorted by key bytes
}

type hKV struct {
	mu       sync.Mutex
	shelves  []*hKVShelf // committed state
	writes   int         // number of Put/Delete operations attempted so far
	failAt   int         // 1-based index of the write operation that fails (0 = never)
	crashAt  int         // 1-based index of the write operation that panics with hKVCrash (0 = never)
	commitFails bool     // the next commit fails (ErrCommitFailed)
	crashAfterCommit bool // the process stops right after the next commit (before AfterCommit hooks run)
	commits  int
	rollbacks int
}

var errHKVInjected = errors.New("injected storage fault")

func newHKV() *hKV { return &hKV{} }

func hKVCopyShelves(in []*hKVShelf) []*hKVShelf {
	out := make([]*hKVShelf, len(in))
	for i, s := range in {
		c := &hKVShelf{name: s.name, entries: make([]hKVEntry, len(s.entries))}
		copy(c.entries, s.entries)
		out[i] = c
	}
	return out
}

func (kv *hKV) Close(ctx context.Context) error { return nil }

type hKVTx struct {
	kv       *hKV
	shelves  []*hKVShelf
	writable bool
}

func (tx *hKVTx) find(name string) *hKVShelf {
	for _, s := range tx.shelves {
		if s.name == name {
			return s
		}
	}
	return nil
}

func (tx *hKVTx) GetShelfReader(shelfName string) stoabs.Reader {
	s := tx.find(shelfName)
	if s == nil {
		return stoabs.NilReader{}
	}
	return &hKVShelfRW{tx: tx, s: s}
}

func (tx *hKVTx) GetShelfWriter(shelfName string) stoabs.Writer {
	s := tx.find(shelfName)
	if s == nil {
		s = &hKVShelf{name: shelfName}
		tx.shelves = append(tx.shelves, s)
	}
	return &hKVShelfRW{tx: tx, s: s}
}

func (tx *hKVTx) Store() stoabs.KVStore { return tx.kv }
func (tx *hKVTx) Unwrap() interface{}   { return nil }

func (kv *hKV) Write(ctx context.Context, fn func(stoabs.WriteTx) error, opts ...stoabs.TxOption) error {
	kv.mu.Lock()
	tx := &hKVTx{kv: kv, shelves: hKVCopyShelves(kv.shelves), writable: true}
	appErr := fn(tx)
	if appErr != nil {
		kv.rollbacks++
		kv.mu.Unlock()
		stoabs.OnRollbackOption{}.Invoke(opts)
		return appErr
	}
	if kv.commitFails {
		kv.commitFails = false
		kv.rollbacks++
		kv.mu.Unlock()
		stoabs.OnRollbackOption{}.Invoke(opts)
		return stoabs.ErrCommitFailed
	}
	kv.shelves = tx.shelves
	kv.commits++
	kv.mu.Unlock()
	if kv.crashAfterCommit {
		kv.crashAfterCommit = false
		vStop()
	}
	stoabs.AfterCommitOption{}.Invoke(opts)
	return nil
}

func (kv *hKV) Read(ctx context.Context, fn func(stoabs.ReadTx) error) error {
	kv.mu.Lock()
	snapshot := kv.shelves
	kv.mu.Unlock()
	// committed shelves are never mutated in place (writers work on copies)
	return fn(&hKVTx{kv: kv, shelves: snapshot})
}

func (kv *hKV) WriteShelf(ctx context.Context, shelfName string, fn func(stoabs.Writer) error) error {
	return kv.Write(ctx, func(tx stoabs.WriteTx) error {
		return fn(tx.GetShelfWriter(shelfName))
	})
}

func (kv *hKV) ReadShelf(ctx context.Context, shelfName string, fn func(stoabs.Reader) error) error {
	return kv.Read(ctx, func(tx stoabs.ReadTx) error {
		return fn(tx.GetShelfReader(shelfName))
	})
}

type hKVShelfRW struct {
	tx *hKVTx
	s  *hKVShelf
}

func (r *hKVShelfRW) Empty() (bool, error) { return len(r.s.entries) == 0, nil }

func (r *hKVShelfRW) Stats() stoabs.ShelfStats {
	return stoabs.ShelfStats{NumEntries: uint(len(r.s.entries))}
}

func (r *hKVShelfRW) Get(key stoabs.Key) ([]byte, error) {
	kb := key.Bytes()
	for _, e := range r.s.entries {
		if bytes.Equal(e.k, kb) {
			return append([]byte(nil), e.v...), nil
		}
	}
	return nil, stoabs.ErrKeyNotFound
}

func (r *hKVShelfRW) fault() error {
	kv := r.tx.kv
	kv.writes++
	if kv.crashAt != 0 && kv.writes == kv.crashAt {
		vStop()
	}
	if kv.failAt != 0 && kv.writes == kv.failAt {
		return stoabs.DatabaseError(errHKVInjected)
	}
	return nil
}

func (r *hKVShelfRW) Put(key stoabs.Key, value []byte) error {
	if err := r.fault(); err != nil {
		return err
	}
	kb := append([]byte(nil), key.Bytes()...)
	vb := append([]byte(nil), value...)
	for i := range r.s.entries {
		if bytes.Equal(r.s.entries[i].k, kb) {
			r.s.entries[i].v = vb
			return nil
		}
	}
	// insert keeping byte order
	pos := len(r.s.entries)
	for i := range r.s.entries {
		if bytes.Compare(kb, r.s.entries[i].k) < 0 {
			pos = i
			break
		}
	}
	r.s.entries = append(r.s.entries, hKVEntry{})
	copy(r.s.entries[pos+1:], r.s.entries[pos:])
	r.s.entries[pos] = hKVEntry{k: kb, v: vb}
	return nil
}

func (r *hKVShelfRW) Delete(key stoabs.Key) error {
	if err := r.fault(); err != nil {
		return err
	}
	kb := key.Bytes()
	for i := range r.s.entries {
		if bytes.Equal(r.s.entries[i].k, kb) {
			r.s.entries = append(r.s.entries[:i:i], r.s.entries[i+1:]...)
			return nil
		}
	}
	return nil
}

func (r *hKVShelfRW) Iterate(callback stoabs.CallerFn, keyType stoabs.Key) error {
	entries := append([]hKVEntry(nil), r.s.entries...)
	for _, e := range entries {
		key, err := keyType.FromBytes(append([]byte(nil), e.k...))
		if err != nil {
			return err
		}
		if err := callback(key, append([]byte(nil), e.v...)); err != nil {
			return err
		}
	}
	return nil
}

func (r *hKVShelfRW) Range(from stoabs.Key, to stoabs.Key, callback stoabs.CallerFn, stopAtNil bool) error {
	entries := append([]hKVEntry(nil), r.s.entries...)
	fb, tb := from.Bytes(), to.Bytes()
	var prevKey stoabs.Key
	for _, e := range entries {
		if bytes.Compare(e.k, fb) < 0 || bytes.Compare(e.k, tb) >= 0 {
			continue
		}
		key, err := from.FromBytes(append([]byte(nil), e.k...))
		if err != nil {
			return err
		}
		if stopAtNil && prevKey != nil && !prevKey.Next().Equals(key) {
			return nil
		}
		if err := callback(key, append([]byte(nil), e.v...)); err != nil {
			return err
		}
		prevKey = key
	}
	return nil
}

// hKVSnapshot renders the committed state as comparable values (shelf name, key, value triples).
func (kv *hKV) snapshot() []hKVShelf {
	out := make([]hKVShelf, len(kv.shelves))
	for i, s := range kv.shelves {
		out[i] = hKVShelf{name: s.name, entries: append([]hKVEntry(nil), s.entries...)}
	}
	return out
}

func hKVSameState(a, b []hKVShelf) bool {
	// shelves that exist but are empty are equivalent to missing shelves
	count := func(x []hKVShelf) int {
		n := 0
		for _, s := range x {
			if len(s.entries) > 0 {
				n++
			}
		}
		return n
	}
	if count(a) != count(b) {
		return false
	}
	for _, sa := range a {
		if len(sa.entries) == 0 {
			continue
		}
		found := false
		for _, sb := range b {
			if sb.name != sa.name {
				continue
			}
			found = true
			if len(sa.entries) != len(sb.entries) {
				return false
			}
			for i := range sa.entries {
				if !bytes.Equal(sa.entries[i].k, sb.entries[i].k) || !bytes.Equal(sa.entries[i].v, sb.entries[i].v) {
					return false
				}
			}
		}
		if !found {
			return false
		}
	}
	return true
}
