//go:build verif

package didstore

import (
	"time"

	"github.com/nuts-foundation/nuts-node/crypto/hash"
	"github.com/nuts-foundation/nuts-node/vdr/resolver"
)

// H09m: which stored version answers a resolve request (didstore.matches), for an arbitrary version and an
// arbitrary request. Reference, from the field documentation of resolver.ResolveMetadata: a version is selected
// iff it is not deactivated or the caller allows deactivated documents, and - for every criterion the request
// carries - its hash is the requested hash, it was created and updated no later than the requested time, and the
// requested source transaction is one of its source transactions. In particular no criterion (hash, time, source
// transaction) makes a deactivated version resolvable without AllowDeactivated: the controller and key
// resolution of the did:nuts ambassador rely on that.
func H09m() {
	md := documentMetadata{}
	vTag("deactivated")
	md.Deactivated = vBool()
	md.Hash = vHash(1)
	vTag("created")
	md.Created = time.Unix(int64(vRange(0, 1000)), 0)
	vTag("updated")
	md.Updated = time.Unix(int64(vRange(0, 1000)), 0)
	ns := vLen(0, vParam("sources", 2))
	for i := 0; i < ns; i++ {
		md.SourceTransactions = append(md.SourceTransactions, vHash(1))
	}

	var rm *resolver.ResolveMetadata
	vTag("request_present")
	if vBool() {
		rm = &resolver.ResolveMetadata{}
		vTag("allow_deactivated")
		rm.AllowDeactivated = vBool()
		vTag("by_hash")
		if vBool() {
			h := vHash(1)
			rm.Hash = &h
		}
		vTag("by_time")
		if vBool() {
			t := time.Unix(int64(vRange(0, 1000)), 0)
			rm.ResolveTime = &t
		}
		vTag("by_source")
		if vBool() {
			h := vHash(1)
			rm.SourceTransaction = &h
		}
	}

	got := matches(md, rm)

	want := !md.Deactivated || (rm != nil && rm.AllowDeactivated)
	if rm != nil {
		if rm.Hash != nil {
			want = want && md.Hash == *rm.Hash
		}
		if rm.ResolveTime != nil {
			want = want && !md.Created.After(*rm.ResolveTime) && !md.Updated.After(*rm.ResolveTime)
		}
		if rm.SourceTransaction != nil {
			in := false
			for _, s := range md.SourceTransactions {
				in = in || s == *rm.SourceTransaction
			}
			want = want && in
		}
	}
	if got {
		vCover("selected")
		if md.Deactivated {
			vCover("selected-deactivated")
			if rm != nil && rm.SourceTransaction != nil {
				vClass("deactivated version selected by source transaction")
			} else if rm != nil && rm.Hash != nil {
				vClass("deactivated version selected by hash")
			} else if rm != nil && rm.ResolveTime != nil {
				vClass("deactivated version selected by time")
			}
		}
		vAssert(!md.Deactivated || (rm != nil && rm.AllowDeactivated), "H09m.deactivated_needs_permission: a deactivated version answers a request that does not allow deactivated documents")
	} else {
		vCover("not-selected")
	}
	vAssert(got == want, "H09m.selection_rule: version selection differs from the documented criteria")
	_ = hash.SHA256Hash{}
}

func H09m_twin() {
	md := documentMetadata{Deactivated: true, Hash: vHash(1)}
	h := vHash(1)
	md.SourceTransactions = []hash.SHA256Hash{h}
	if matches(md, &resolver.ResolveMetadata{AllowDeactivated: vBool(), SourceTransaction: &h}) {
		vAssert(false, "H09m_twin.reach: reachable")
	}
}
