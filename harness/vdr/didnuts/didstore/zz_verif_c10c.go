//go:build verif

package didstore

import (
	"crypto/sha256"
	"encoding/json"
	"errors"
	"net/url"
	"time"

	ssi "github.com/nuts-foundation/go-did"
	"github.com/nuts-foundation/go-did/did"
	"github.com/nuts-foundation/nuts-node/crypto/hash"
	"github.com/nuts-foundation/nuts-node/vdr/resolver"
)

// H10c - store-level order independence of the did:nuts store (property C10).
//
// The real store.Add -> applyFrom -> applyEvent -> applyDocument -> mergeDocuments and the real
// Resolve/ConflictedCount/DocumentCount run on the shared in-memory KV fake.
//
// encoding/json is an identity codec in the engine: a marshalled value is an opaque handle whose
// bytes depend on how many values were marshalled before it on the path, so sha256(handle) is NOT a
// function of the document. The digest of a marshalled DID document is therefore modelled as the
// real SHA-256 of a canonical, injective, order-preserving rendering of the document (hDocCanon).
// Everything else that is hashed keeps the real sha256.
//
//verif:stub github.com/nuts-foundation/nuts-node/crypto/hash.SHA256Sum => hSHA256Sum

func hSHA256Sum(data []byte) hash.SHA256Hash {
	if len(data) == 8 && data[0] == 0 && data[1] == 'J' && data[2] == 'S' && data[3] == 1 {
		var d did.Document
		if err := json.Unmarshal(data, &d); err == nil {
			return sha256.Sum256(hDocCanon(d))
		}
	}
	return sha256.Sum256(data)
}

// hDocCanon renders every field of a document the harnesses populate, in slice order, with
// separators that cannot occur in the identifiers used.
func hDocCanon(d did.Document) []byte {
	s := "id=" + d.ID.String()
	s += "|ctx"
	for _, c := range d.Context {
		switch v := c.(type) {
		case string:
			s += ";" + v
		case ssi.URI:
			s += ";" + v.String()
		default:
			s += ";?"
		}
	}
	s += "|ctl"
	for _, c := range d.Controller {
		s += ";" + c.String()
	}
	s += "|aka"
	for _, a := range d.AlsoKnownAs {
		s += ";" + a.String()
	}
	s += "|vm"
	for _, v := range d.VerificationMethod {
		s += ";" + v.ID.String() + "," + string(v.Type) + "," + v.Controller.String() + "," + v.PublicKeyMultibase
	}
	rel := func(name string, rs did.VerificationRelationships) {
		s += "|" + name
		for _, r := range rs {
			if r.VerificationMethod == nil {
				s += ";nil"
			} else {
				s += ";" + r.ID.String()
			}
		}
	}
	rel("au", d.Authentication)
	rel("as", d.AssertionMethod)
	rel("ka", d.KeyAgreement)
	rel("ci", d.CapabilityInvocation)
	rel("cd", d.CapabilityDelegation)
	s += "|svc"
	for _, v := range d.Service {
		s += ";" + v.ID.String() + "," + v.Type
	}
	return []byte(s)
}

// hDocEqual: structural equality of two documents, field by field including element order.
func hDocEqual(a, b did.Document) bool {
	return string(hDocCanon(a)) == string(hDocCanon(b))
}

var hTestDID = did.DID{Method: "nuts", ID: "x"}

func hNewStore() (*store, *hKV) {
	kv := newHKV()
	return &store{db: kv, conflictedDocuments: map[string]conflictedDocument{}}, kv
}

func hService(name string) did.Service {
	return did.Service{ID: ssi.URI{URL: url.URL{Scheme: "did", Opaque: "nuts:x:svc:" + name}}, Type: "t"}
}

// hDocHash is the payload hash the network layer puts in the transaction: the digest of the
// marshalled document (same modelling as hSHA256Sum).
func hDocHash(d did.Document) hash.SHA256Hash {
	return sha256.Sum256(hDocCanon(d))
}

// hc10Event is one accepted did:nuts document transaction of the DID under test.
type hc10Event struct {
	tx    Transaction
	doc   did.Document
	deact bool
	clock int
	sec   int
	prev  []bool // prev[j]: the transaction lists event j as a previous transaction
}

const hc10Epoch = 1700000000

// hc10Events draws k events that are, by assumption, indexed in their (clock, signing time, ref)
// order: symbolic clocks and signing times, concrete ascending refs (see registry: refs are only
// used for identity and as last tie-break), prev-sets = symbolic subsets of the other events plus
// one transaction of another DID. A listed previous transaction has a lower clock (DAG rule).
// shape 0: no further restriction. shape 1 (used for k=4): event 0 is an active creation without
// previous transactions, only the last event may deactivate, signing times are concrete and ascending.
func hc10Events(k, shape int) []hc10Event {
	evs := make([]hc10Event, k)
	foreign := hash.SHA256Hash{0xee}
	for i := 0; i < k; i++ {
		e := &evs[i]
		e.clock = vRange(0, k)
		if shape == 1 {
			e.sec = i
		} else {
			e.sec = vRange(0, k)
		}
		if i > 0 {
			p := evs[i-1]
			// reference order, written independently of event.before: lexicographic on (clock, time), refs ascend with i
			vAssume(p.clock < e.clock || (p.clock == e.clock && p.sec <= e.sec))
		}
		var prevs []hash.SHA256Hash
		e.prev = make([]bool, k)
		if i > 0 {
			prevs = append(prevs, foreign)
		}
		for j := 0; j < i; j++ {
			if vBool() {
				vAssume(evs[j].clock < e.clock)
				e.prev[j] = true
				prevs = append(prevs, evs[j].tx.Ref)
			}
		}
		if shape == 1 && i < k-1 {
			e.deact = false
		} else {
			e.deact = vBool()
		}
		if e.deact {
			e.doc = did.Document{ID: hTestDID}
		} else {
			e.doc = did.Document{ID: hTestDID, Controller: []did.DID{hTestDID}, Service: []did.Service{hService(string(rune('a' + i)))}}
		}
		e.tx = Transaction{
			Clock:       uint32(e.clock),
			SigningTime: time.Unix(int64(hc10Epoch+e.sec), 0),
			Ref:         hash.SHA256Hash{byte(0x10 * (i + 1))},
			PayloadHash: hDocHash(e.doc),
			Previous:    prevs,
		}
	}
	return evs
}

// hc10Heads is the reference model of "which transactions make up the current version": replaying
// the events of the subset in order, an event replaces the heads it lists as previous and is
// parallel to the others. More than one head = conflicted.
func hc10Heads(evs []hc10Event, present []bool) []int {
	var heads []int
	for i := range evs {
		if !present[i] {
			continue
		}
		var nh []int
		for _, h := range heads {
			if !evs[i].prev[h] {
				nh = append(nh, h)
			}
		}
		heads = append(nh, i)
	}
	return heads
}

func hc10Perm(k int) []int {
	used := make([]bool, k)
	var order []int
	for n := 0; n < k; n++ {
		c := vChoice(k - n)
		for i := 0; i < k; i++ {
			if used[i] {
				continue
			}
			if c == 0 {
				used[i] = true
				order = append(order, i)
				break
			}
			c--
		}
	}
	return order
}

type hc10Answer struct {
	found       bool
	deactivated bool // ErrDeactivated
	doc         did.Document
	md          resolver.DocumentMetadata
}

func hc10Resolve(id string, s *store, rm *resolver.ResolveMetadata) hc10Answer {
	doc, md, err := s.Resolve(hTestDID, rm)
	if err != nil {
		vAssert(errors.Is(err, resolver.ErrNotFound) || errors.Is(err, resolver.ErrDeactivated), id+".resolve_error_kind: Resolve failed with an unexpected error")
		return hc10Answer{deactivated: errors.Is(err, resolver.ErrDeactivated)}
	}
	vAssert(doc != nil && md != nil, id+".resolve_result: Resolve returned neither error nor result")
	return hc10Answer{found: true, doc: *doc, md: *md}
}

func hc10SameSet(a, b []hash.SHA256Hash) bool {
	if len(a) != len(b) {
		return false
	}
	for _, x := range a {
		n, m := 0, 0
		for _, y := range a {
			if x == y {
				n++
			}
		}
		for _, y := range b {
			if x == y {
				m++
			}
		}
		if n != m {
			return false
		}
	}
	return true
}

// hc10SameAnswer: the two stores answer a query identically (document field by field, hash,
// deactivated, created/updated, previous hash, source transactions as a set).
func hc10SameAnswer(id, what string, a, b hc10Answer) {
	vAssert(a.found == b.found && a.deactivated == b.deactivated, id+"."+what+"_same_outcome: the stores disagree on whether the query resolves")
	if !a.found || !b.found {
		return
	}
	vAssert(hDocEqual(a.doc, b.doc), id+"."+what+"_same_document: the stores return different documents")
	vAssert(a.md.Hash == b.md.Hash, id+"."+what+"_same_hash: the stores return different document hashes")
	vAssert(a.md.Deactivated == b.md.Deactivated, id+"."+what+"_same_deactivated: the stores disagree on the deactivated status")
	vAssert(a.md.Created.Equal(b.md.Created), id+"."+what+"_same_created: the stores return different creation times")
	vAssert((a.md.Updated == nil) == (b.md.Updated == nil) && (a.md.Updated == nil || a.md.Updated.Equal(*b.md.Updated)), id+"."+what+"_same_updated: the stores return different update times")
	vAssert((a.md.PreviousHash == nil) == (b.md.PreviousHash == nil) && (a.md.PreviousHash == nil || *a.md.PreviousHash == *b.md.PreviousHash), id+"."+what+"_same_previous_hash: the stores return different previous hashes")
	vAssert(hc10SameSet(a.md.SourceTransactions, b.md.SourceTransactions), id+"."+what+"_same_sources: the stores return different source transaction sets")
}

func hc10Counts(id string, s *store) (uint, uint, int) {
	cc, err := s.ConflictedCount()
	vAssert(err == nil, id+".conflicted_count_ok: ConflictedCount failed")
	dc, err := s.DocumentCount()
	vAssert(err == nil, id+".document_count_ok: DocumentCount failed")
	listed := 0
	_ = s.Conflicted(func(did.Document, resolver.DocumentMetadata) error { listed++; return nil })
	return cc, dc, listed
}

func hc10HasService(d did.Document, name string) bool {
	want := hService(name).ID.String()
	for _, s := range d.Service {
		if s.ID.String() == want {
			return true
		}
	}
	return false
}

// H10c: k events, store A receives them in (clock, time, ref) order, store B in an arbitrary
// order (every arrival order is compared with the in-order store, hence with every other one),
// optionally followed by a second delivery of every event (duplicates).
func H10c() {
	hc10Main("H10c", vParam("k10c", 3), vParam("shape10c", 0), vParam("dup10c", 0), vParam("time10c", 0))
}

// H10c2: the same with fewer events and all options (duplicates, resolve by time) in the quick tier.
func H10c2() {
	hc10Main("H10c2", vParam("k10c2", 2), 0, vParam("dup10c2", 1), vParam("time10c2", 1))
}

// H10c4: creation followed by three further events (3-way fork, fork and resolution, ...), shape 1.
func H10c4() {
	hc10Main("H10c4", vParam("k10c4", 4), vParam("shape10c4", 1), vParam("dup10c4", 0), vParam("time10c4", 0))
}

func hc10Main(H string, k, shape, dup, bytime int) {
	evs := hc10Events(k, shape)
	all := make([]bool, k)
	for i := range all {
		all[i] = true
	}
	sA, _ := hNewStore()
	sB, _ := hNewStore()
	for i := range evs {
		vAssert(sA.Add(evs[i].doc, evs[i].tx) == nil, H+".add_ok: Add failed")
	}
	order := hc10Perm(k)
	arrived := make([]bool, k)
	anyDeact := false
	lateFirst := false
	for n, i := range order {
		first := n > 0
		for j := 0; j < i; j++ {
			first = first && !arrived[j]
		}
		if first && len(hc10Heads(evs, arrived)) > 1 {
			// the new event sorts before every stored event while the DID is conflicted
			lateFirst = true
		}
		vAssert(sB.Add(evs[i].doc, evs[i].tx) == nil, H+".add_ok: Add failed")
		arrived[i] = true
		anyDeact = anyDeact || evs[i].deact
		if anyDeact {
			// a deactivated DID never resolves as active again - at every intermediate state
			r := hc10Resolve(H, sB, nil)
			vAssert(!r.found && r.deactivated, H+".deactivated_stays_deactivated: a DID with an accepted deactivation resolves as active")
		}
	}
	if dup != 0 && vBool() {
		// every transaction is delivered a second time (latest first)
		vCover("duplicate")
		for d := k - 1; d >= 0; d-- {
			vAssert(sB.Add(evs[d].doc, evs[d].tx) == nil, H+".add_ok: Add failed")
		}
	}
	if order[0] != 0 {
		vCover("out-of-order")
	}

	heads := hc10Heads(evs, all)
	refConflicted := len(heads) > 1
	refDeact := false
	for i := range evs {
		refDeact = refDeact || evs[i].deact
	}
	if refConflicted {
		vCover("conflicted")
		if len(heads) > 2 {
			vCover("three-way")
		}
	} else if k >= 3 && evs[k-1].prev[k-2] && evs[k-1].prev[k-3] && !evs[k-2].prev[k-3] {
		vCover("fork-resolved")
	}
	if refDeact {
		vCover("deactivated")
	}
	if lateFirst {
		vCover("first-event-arrives-into-conflict")
		vClass("first event in order arrives when the DID is already conflicted")
	}

	// --- latest
	for pass, s := range []*store{sA, sB} {
		id := H + ".A"
		if pass == 1 {
			id = H + ".B"
		}
		r := hc10Resolve(id, s, nil)
		vAssert(r.found == !refDeact && r.deactivated == refDeact, id+".latest_active_iff_never_deactivated: Resolve(latest) is active although a deactivation was accepted, or not although none was")
		l := hc10Resolve(id, s, &resolver.ResolveMetadata{AllowDeactivated: true})
		vAssert(l.found, id+".latest_found: latest version not found")
		vAssert(l.md.Deactivated == refDeact, id+".latest_deactivated_flag: deactivated flag differs from 'some accepted event deactivates'")
		var want []hash.SHA256Hash
		for _, h := range heads {
			want = append(want, evs[h].tx.Ref)
		}
		vAssert(hc10SameSet(l.md.SourceTransactions, want), id+".latest_sources_are_heads: source transactions differ from the unreferenced branch heads")
		vAssert(l.md.Created.Equal(evs[0].tx.SigningTime), id+".latest_created: creation time is not the signing time of the first event")
		if !refConflicted {
			vAssert(hDocEqual(l.doc, evs[k-1].doc) && l.md.Hash == evs[k-1].tx.PayloadHash, id+".unconflicted_is_last_document: without conflict the latest version is not the last document as published")
		} else {
			// the merged document holds exactly the services of the branch heads
			for i := range evs {
				in := false
				for _, h := range heads {
					in = in || (h == i && !evs[i].deact)
				}
				vAssert(hc10HasService(l.doc, string(rune('a'+i))) == in, id+".merged_is_union_of_heads: merged document is not the union of the parallel branch heads")
			}
			vAssert(l.md.Hash == hDocHash(l.doc), id+".merged_hash_is_document_hash: hash of the conflicted version is not the hash of the merged document")
		}
	}
	lA := hc10Resolve(H+".A", sA, &resolver.ResolveMetadata{AllowDeactivated: true})
	lB := hc10Resolve(H+".B", sB, &resolver.ResolveMetadata{AllowDeactivated: true})
	hc10SameAnswer(H, "latest", lA, lB)

	// --- by source transaction, by hash (payload hash of every event, hash of the latest version)
	for i := range evs {
		ref := evs[i].tx.Ref
		q := &resolver.ResolveMetadata{AllowDeactivated: true, SourceTransaction: &ref}
		a, b := hc10Resolve(H+".A", sA, q), hc10Resolve(H+".B", sB, q)
		hc10SameAnswer(H, "by_source", a, b)
		vAssert(a.found, H+".by_source_found: a stored transaction does not resolve as source transaction")
		ph := evs[i].tx.PayloadHash
		q = &resolver.ResolveMetadata{AllowDeactivated: true, Hash: &ph}
		hc10SameAnswer(H, "by_hash", hc10Resolve(H+".A", sA, q), hc10Resolve(H+".B", sB, q))
	}
	if lA.found {
		lh := lA.md.Hash
		q := &resolver.ResolveMetadata{AllowDeactivated: true, Hash: &lh}
		a, b := hc10Resolve(H+".A", sA, q), hc10Resolve(H+".B", sB, q)
		hc10SameAnswer(H, "by_latest_hash", a, b)
		vAssert(a.found && b.found, H+".by_latest_hash_found: the latest hash does not resolve")
	}
	// --- by time: one symbolic instant anywhere around the signing times
	if bytime != 0 {
		t := time.Unix(int64(hc10Epoch+vRange(-1, k+1)), 0)
		q := &resolver.ResolveMetadata{AllowDeactivated: true, ResolveTime: &t}
		a, b := hc10Resolve(H+".A", sA, q), hc10Resolve(H+".B", sB, q)
		hc10SameAnswer(H, "by_time", a, b)
		if a.found {
			vCover("by-time-found")
		} else {
			vCover("by-time-notfound")
		}
	}

	// --- statistics (last: the conflicted count is a known defect, see registry)
	ccA, dcA, listedA := hc10Counts(H+".A", sA)
	ccB, dcB, listedB := hc10Counts(H+".B", sB)
	vAssert(dcA == 1 && dcB == 1, H+".document_count: DocumentCount is not 1 for one DID")
	wantCC := uint(0)
	if refConflicted {
		wantCC = 1
	}
	vAssert(listedA == int(wantCC) && listedB == int(wantCC), H+".conflicted_listing: Conflicted() does not list exactly the conflicted DID")
	vAssert(ccA == wantCC, H+".conflicted_count_in_order: ConflictedCount is wrong after in-order arrival")
	vAssert(ccB == ccA, H+".conflicted_count_order_independent: ConflictedCount depends on the arrival order")
}

func H10c_twin() {
	evs := hc10Events(2, 0)
	s, _ := hNewStore()
	if s.Add(evs[1].doc, evs[1].tx) == nil && s.Add(evs[0].doc, evs[0].tx) == nil {
		cc, _ := s.ConflictedCount()
		r := hc10Resolve("H10c_twin", s, nil)
		if cc == 1 && r.found && len(r.md.SourceTransactions) == 2 && len(r.doc.Service) == 2 {
			vAssert(false, "H10c_twin.reach: reachable")
		}
	}
}

func H10c2_twin() {
	evs := hc10Events(2, 0)
	s, _ := hNewStore()
	if s.Add(evs[1].doc, evs[1].tx) == nil && s.Add(evs[0].doc, evs[0].tx) == nil && s.Add(evs[1].doc, evs[1].tx) == nil {
		t := time.Unix(int64(hc10Epoch+vRange(-1, 3)), 0)
		r := hc10Resolve("H10c2_twin", s, &resolver.ResolveMetadata{AllowDeactivated: true, ResolveTime: &t})
		if r.found && r.md.Deactivated && len(r.md.SourceTransactions) == 1 && evs[1].prev[0] {
			vAssert(false, "H10c2_twin.reach: reachable")
		}
	}
}

func H10c4_twin() {
	evs := hc10Events(3, 1)
	s, _ := hNewStore()
	for _, i := range []int{2, 1, 0} {
		if s.Add(evs[i].doc, evs[i].tx) != nil {
			return
		}
	}
	r := hc10Resolve("H10c4_twin", s, nil)
	if r.found && len(r.md.SourceTransactions) == 3 && len(r.doc.Service) == 3 {
		vAssert(false, "H10c4_twin.reach: reachable")
	}
}
