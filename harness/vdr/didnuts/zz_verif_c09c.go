//go:build verif

package didnuts

import (
	"encoding/json"
	"time"

	ssi "github.com/nuts-foundation/go-did"
	"github.com/nuts-foundation/go-did/did"
	"github.com/nuts-foundation/nuts-node/crypto/hash"
)

// ---- H09c: callback (the subscriber of the network) --------------------------------------------------------
//
// One transaction + payload as delivered by the network: creation (a key is embedded) or update, with
// arbitrary integrity defects (payload type, payload hash, signing time), a payload that is not a DID
// document, and a document with arbitrary well-formedness defects; against a small world of stored documents.

type hDefects struct {
	noContext    bool // @context lacks the DID v1 context
	foreignKeyID bool // a verificationMethod id that belongs to another DID
	wrongKeyID   bool // a verificationMethod id whose fragment is not the key's thumbprint
	services     int
	foreignSvcID bool // a service id that belongs to another DID
	sameSvcType  bool // two services of one type
	sameSvcID    bool // two services with one id
}

func (d hDefects) wellFormed() bool {
	return !d.noContext && !d.foreignKeyID && !d.wrongKeyID && !d.foreignSvcID && !d.sameSvcType && !d.sameSvcID
}

// vDefects damages the proposed document of u in place.
func vDefects(u *hUpdate) hDefects {
	var d hDefects
	doc := &u.proposed
	if d.noContext = vBool(); d.noContext {
		doc.Context = []interface{}{ssi.MustParseURI("https://example.com/other")}
	}
	if len(doc.VerificationMethod) > 0 {
		switch vChoice(3) {
		case 1:
			d.foreignKeyID = true
			doc.VerificationMethod[0].ID.DID = hDID(1)
		case 2:
			d.wrongKeyID = true
			doc.VerificationMethod[0].ID.Fragment = hThumbID(u.propKeys[0]) + "x"
		}
	}
	d.services = vLen(0, 2)
	for i := 0; i < d.services; i++ {
		id := "did:nuts:0#s" + string(rune('0'+i))
		typ := "type" + string(rune('0'+i))
		if i == 0 {
			if d.foreignSvcID = vBool(); d.foreignSvcID {
				id = "did:nuts:1#s0"
			}
		} else {
			switch vChoice(3) {
			case 1:
				d.sameSvcType = true
				typ = "type0"
			case 2:
				d.sameSvcID = true
				id = doc.Service[0].ID.String()
			}
		}
		doc.Service = append(doc.Service, did.Service{ID: ssi.MustParseURI(id), Type: typ, ServiceEndpoint: "https://example.com"})
	}
	return d
}

func H09c() {
	u := vUpdate(hBounds{vParam("c_docs", 2), vParam("c_vers", 1), vParam("c_ctrl", 1), 0, 1, vParam("c_prevs", 1), 2})
	tx := u.tx
	// integrity defects
	if vBool() {
		tx.ptype = "application/vc+json"
	}
	if vBool() {
		tx.sigt = time.Time{}
	}
	// creation or update
	creation := vBool()
	var embedded string
	if creation {
		vTag("embeddedkey")
		embedded = vString(1)
		tx.key = &hKey{x: embedded}
	}
	defects := vDefects(u)
	garbage := vBool()
	payload, _ := json.Marshal(u.proposed)
	if garbage {
		payload = []byte("{")
	}

	err := u.amb.callback(tx, payload)

	effective := len(u.store.adds) > 0 && !u.store.addFail
	if err != nil {
		vCover("rejected")
		vAssert(!effective, "H09c.rejected_leaves_store_untouched: a rejected document was stored")
		vAssert(len(u.net.discovered) == 0, "H09c.rejected_not_announced: a rejected document triggered service discovery")
		if len(u.store.adds) > 0 {
			vCover("store-failure")
		}
		return
	}
	vCover("accepted")
	vAssert(effective && len(u.store.adds) == 1, "H09c.accepted_is_stored_once: callback reported success without storing the document exactly once")
	vAssert(len(u.net.discovered) == 1 && u.net.discovered[0].Equals(u.proposed.ID), "H09c.accepted_announced: service discovery not triggered for the stored document")
	vAssert(tx.ptype == DIDDocumentType, "H09c.payload_type: accepted a transaction with a foreign payload type")
	vAssert(tx.payloadHash != hash.SHA256Hash{}, "H09c.payload_hash_set: accepted a transaction without payload hash")
	vAssert(!tx.sigt.IsZero(), "H09c.signing_time_set: accepted a transaction without signing time")
	vAssert(!garbage, "H09c.payload_is_document: accepted a payload that is not a DID document")
	vAssert(defects.wellFormed(), "H09c.document_well_formed: accepted a document that violates the DID-core/Nuts rules")
	if creation {
		vCover("accepted-creation")
		vAssert(u.proposed.ID.ID == hThumbID(embedded), "H09c.creation_did_is_key_thumbprint: accepted a creation whose DID is not the thumbprint of the embedded key")
		vAssert(hSameTx(tx, u.store.adds[0].tx), "H09c.added_as_received: the stored transaction record differs from what was received")
	} else {
		vCover("accepted-update")
		u.checkAuthorised("H09c")
	}
}

func H09c_twin() {
	u := vUpdate(hBounds{1, 1, 0, 0, 1, 1, 1})
	payload, _ := json.Marshal(u.proposed)
	if u.amb.callback(u.tx, payload) == nil && len(u.store.adds) == 1 {
		vAssert(false, "H09c_twin.reach: reachable")
	}
}
