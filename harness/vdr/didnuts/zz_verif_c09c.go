//go:build verif

package didnuts

import (
	"encoding/json"
	"time"

	ssi "github.com/nuts-foundation/go-did"
	"github.com/nuts-foundation/go-did/did"
	"github.com/nuts-foundation/nuts-node/crypto/hash"
)

// ---- H09c: callback (the subscriber of the network) --------------------------------------------------------
//
// One transaction + payload as delivered by the network: creation (a key is embedded) or update; sound, or
// with one integrity defect (payload type, payload hash, signing time), a payload that is not a DID document,
// or a document with one well-formedness defect; against a small world of stored documents.

const (
	hOK              = iota
	hBadPayloadType  // the transaction announces another payload type
	hNoSigningTime   // signing time is the zero time
	hNoPayloadHash   // payload hash is the zero hash
	hNotADocument    // the payload cannot be decoded as DID document
	hNoContext       // @context lacks the DID v1 context
	hForeignMethodID // a verificationMethod id that belongs to another DID
	hWrongMethodID   // a verificationMethod id whose fragment is not the key's thumbprint
	hForeignSvcID    // a service id that belongs to another DID
	hSvcNoFragment   // a service id without fragment
	hSameSvcType     // two services of one type
	hSameSvcID       // two services with one id
	hDefectKinds
)

// vDefect: the delivered transaction/document has at most one defect (drawn here); the proposed document of u
// gets two services and is damaged in place.
func vDefect(u *hUpdate) int {
	kind := vChoice(hDefectKinds)
	doc := &u.proposed
	ids := [2]string{"did:nuts:0#s0", "did:nuts:0#s1"}
	types := [2]string{"type0", "type1"}
	switch kind {
	case hBadPayloadType:
		u.tx.ptype = "application/vc+json"
	case hNoSigningTime:
		u.tx.sigt = time.Time{}
	case hNoPayloadHash:
		u.tx.payloadHash = hash.SHA256Hash{}
	case hNoContext:
		doc.Context = []interface{}{ssi.MustParseURI("https://example.com/other")}
	case hForeignMethodID:
		doc.VerificationMethod[0].ID.DID = hDID(1)
	case hWrongMethodID:
		doc.VerificationMethod[0].ID.Fragment = hThumbID(u.propKeys[0]) + "x"
	case hForeignSvcID:
		ids[1] = "did:nuts:1#s1"
	case hSvcNoFragment:
		ids[0] = "did:nuts:0"
	case hSameSvcType:
		types[1] = types[0]
	case hSameSvcID:
		ids[1] = ids[0]
	}
	for i := range ids {
		doc.Service = append(doc.Service, did.Service{ID: ssi.MustParseURI(ids[i]), Type: types[i], ServiceEndpoint: "https://example.com"})
	}
	return kind
}

func H09c() {
	// proposed documents always carry a key here (2 shapes: with and without controller entries)
	u := vUpdate(hBounds{vParam("c_docs", 2), vParam("c_vers", 1), vParam("c_ctrl", 1), 0, 1, vParam("c_prevs", 1), 2})
	tx := u.tx
	vAssume(tx.payloadHash != hash.SHA256Hash{})
	// creation or update
	creation := vBool()
	var embedded string
	if creation {
		vTag("embeddedkey")
		embedded = vString(1)
		tx.key = &hKey{x: embedded}
	}
	defect := vDefect(u)
	payload, _ := json.Marshal(u.proposed)
	if defect == hNotADocument {
		payload = []byte("{")
	}

	err := u.amb.callback(tx, payload)

	effective := len(u.store.adds) > 0 && !u.store.addFail
	if err != nil {
		vCover("rejected")
		vAssert(!effective, "H09c.rejected_leaves_store_untouched: a rejected document was stored")
		vAssert(len(u.net.discovered) == 0, "H09c.rejected_not_announced: a rejected document triggered service discovery")
		if len(u.store.adds) > 0 {
			vCover("store-failure")
		}
		if defect != hOK {
			vCover("rejected-defect")
			vAssert(len(u.store.adds) == 0, "H09c.defective_never_reaches_store: a defective transaction or document reached the store")
		}
		return
	}
	vCover("accepted")
	vAssert(effective && len(u.store.adds) == 1, "H09c.accepted_is_stored_once: callback reported success without storing the document exactly once")
	vAssert(len(u.net.discovered) == 1 && u.net.discovered[0].Equals(u.proposed.ID), "H09c.accepted_announced: service discovery not triggered for the stored document")
	vAssert(defect != hBadPayloadType && defect != hNoSigningTime && defect != hNoPayloadHash, "H09c.transaction_integrity: accepted a transaction with a foreign payload type, without payload hash or without signing time")
	vAssert(defect != hNotADocument, "H09c.payload_is_document: accepted a payload that is not a DID document")
	vAssert(defect == hOK, "H09c.document_well_formed: accepted a document that violates the DID-core/Nuts rules")
	if creation {
		vCover("accepted-creation")
		vAssert(u.proposed.ID.ID == hThumbID(embedded), "H09c.creation_did_is_key_thumbprint: accepted a creation whose DID is not the thumbprint of the embedded key")
		vAssert(hSameTx(tx, u.store.adds[0].tx), "H09c.added_as_received: the stored transaction record differs from what was received")
	} else {
		vCover("accepted-update")
		u.checkAuthorised("H09c")
	}
}

func H09c_twin() {
	u := vUpdate(hBounds{1, 1, 0, 0, 1, 1, 1})
	payload, _ := json.Marshal(u.proposed)
	if u.amb.callback(u.tx, payload) == nil && len(u.store.adds) == 1 {
		vAssert(false, "H09c_twin.reach: reachable")
	}
}
