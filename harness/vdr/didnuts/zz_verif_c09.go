//go:build verif

package didnuts

import (
	"crypto"
	"errors"
	"time"

	"github.com/lestrrat-go/jwx/v2/jwk"
	"github.com/nuts-foundation/go-did/did"
	"github.com/nuts-foundation/nuts-node/crypto/hash"
	"github.com/nuts-foundation/nuts-node/network"
	"github.com/nuts-foundation/nuts-node/network/dag"
	"github.com/nuts-foundation/nuts-node/vdr/didnuts/didstore"
	"github.com/nuts-foundation/nuts-node/vdr/resolver"
)

// ---- key material, JWKs and thumbprints (stubs) -----------------------------------------------------
//
// A public key is an abstract value x (a short string). Its RFC 7638 thumbprint is modelled as an
// injective function of x (the identity): equal keys <=> equal thumbprints. The Nuts thumbprint
// (base58 of the SHA-256 thumbprint, crypto.Thumbprint) and the key id that jwk.AssignKeyID derives
// (base64url of the SHA-256 thumbprint) are injective encodings of it and are modelled by the identity too.

//verif:stub github.com/nuts-foundation/nuts-node/crypto.Thumbprint => hNutsThumbprint
//verif:stub github.com/lestrrat-go/jwx/v2/jwk.FromRaw => hJWKFromRaw
//verif:stub github.com/lestrrat-go/jwx/v2/jwk.AssignKeyID => hJWKAssignKeyID
//verif:stub (github.com/nuts-foundation/go-did/did.VerificationMethod).JWK => hVMJWK

// hPub is the raw public key (crypto.PublicKey) of abstract key x.
type hPub struct{ x string }

// hKey is a jwk.Key: key material x and the members of the JWK that the code under test reads.
type hKey struct {
	jwk.Key
	x      string
	kid    string
	hasKid bool
}

func (k *hKey) Thumbprint(crypto.Hash) ([]byte, error) { return []byte(k.x), nil }
func (k *hKey) KeyID() string                          { return k.kid }
func (k *hKey) Raw(v interface{}) error {
	p, ok := v.(*crypto.PublicKey)
	if !ok {
		return errors.New("harness: Raw wants *crypto.PublicKey")
	}
	*p = hPub{k.x}
	return nil
}
func (k *hKey) Get(name string) (interface{}, bool) {
	if name == jwk.KeyIDKey && k.hasKid {
		return k.kid, true
	}
	return nil, false
}
func (k *hKey) Remove(name string) error {
	if name == jwk.KeyIDKey {
		k.kid, k.hasKid = "", false
	}
	return nil
}
func (k *hKey) Set(name string, v interface{}) error {
	if name == jwk.KeyIDKey {
		k.kid, k.hasKid = v.(string), true
	}
	return nil
}

// hThumbID: the identifier derived from the thumbprint of key x (DID method-specific id, key id fragment).
func hThumbID(x string) string { return x }

// crypto.Thumbprint: base58(SHA-256 thumbprint); panics on a nil key like the original.
func hNutsThumbprint(key jwk.Key) (string, error) {
	if key == nil {
		panic("Thumbprint(): key is nil")
	}
	return hThumbID(key.(*hKey).x), nil
}

// jwk.FromRaw: wraps a raw key; fails on nil and on anything that is not a key.
func hJWKFromRaw(key interface{}) (jwk.Key, error) {
	p, ok := key.(hPub)
	if !ok {
		return nil, errors.New("harness: jwk.FromRaw: not a key")
	}
	return &hKey{x: p.x}, nil
}

// jwk.AssignKeyID (jwx v2.0.x, jwk/jwk.go): "if _, ok := key.Get(KeyIDKey); ok { return nil }", otherwise
// kid := base64url(thumbprint). A nil key is dereferenced by the original (key.Get), so it is here.
func hJWKAssignKeyID(key jwk.Key, _ ...jwk.AssignKeyIDOption) error {
	if key == nil {
		panic("runtime error: invalid memory address or nil pointer dereference (jwk.AssignKeyID: key.Get on a nil jwk.Key)")
	}
	if _, ok := key.Get(jwk.KeyIDKey); ok {
		return nil
	}
	h, err := key.Thumbprint(crypto.SHA256)
	if err != nil {
		return err
	}
	return key.Set(jwk.KeyIDKey, hThumbID(string(h)))
}

// did.VerificationMethod.JWK (go-did v0.15.0, did/document.go): nil map => (nil, nil); otherwise
// jwk.ParseKey(json(map)): every member of the map arrives in the key, "kid" included; a map that is
// not a key is an error.
func hVMJWK(v did.VerificationMethod) (jwk.Key, error) {
	if v.PublicKeyJwk == nil {
		return nil, nil
	}
	x, ok := v.PublicKeyJwk["x"].(string)
	if !ok {
		return nil, errors.New("harness: could not parse public key")
	}
	k := &hKey{x: x}
	if kid, ok := v.PublicKeyJwk[jwk.KeyIDKey].(string); ok {
		k.kid, k.hasKid = kid, true
	}
	return k, nil
}

// hMethod builds a well-formed verification method of document owner for key x.
func hMethod(owner did.DID, x string) *did.VerificationMethod {
	return &did.VerificationMethod{
		ID:           did.DIDURL{DID: owner, Fragment: hThumbID(x)},
		Type:         "JsonWebKey2020",
		Controller:   owner,
		PublicKeyJwk: map[string]interface{}{"x": x},
	}
}

// ---- transactions --------------------------------------------------------------------------------------

type hTx struct {
	dag.Transaction
	ref, payloadHash hash.SHA256Hash
	prevs            []hash.SHA256Hash
	key              jwk.Key
	kid              string
	sigt             time.Time
	clock            uint32
	ptype            string
}

func (t *hTx) Ref() hash.SHA256Hash         { return t.ref }
func (t *hTx) PayloadHash() hash.SHA256Hash { return t.payloadHash }
func (t *hTx) PayloadType() string          { return t.ptype }
func (t *hTx) Previous() []hash.SHA256Hash  { return t.prevs }
func (t *hTx) SigningKey() jwk.Key          { return t.key }
func (t *hTx) SigningKeyID() string         { return t.kid }
func (t *hTx) SigningTime() time.Time       { return t.sigt }
func (t *hTx) Clock() uint32                { return t.clock }

func hHash1(b byte) hash.SHA256Hash {
	var h hash.SHA256Hash
	h[0] = b
	return h
}

// vTxFields: the header fields that are copied into the store's transaction record.
func vTxFields(t *hTx, zeroTime bool) {
	t.ref = hHash1(vU8())
	t.payloadHash = hHash1(vU8())
	t.clock = vU32()
	t.sigt = time.Unix(int64(vRange(0, 7)), 0).UTC()
	if zeroTime && vBool() {
		t.sigt = time.Time{}
	}
	t.ptype = DIDDocumentType
}

// ---- store, network ------------------------------------------------------------------------------------

type hAdd struct {
	doc did.Document
	tx  didstore.Transaction
}

type hStore struct {
	didstore.Store
	w       *hWorld
	adds    []hAdd
	addFail bool // drawn when Add is reached
}

func (s *hStore) Add(doc did.Document, tx didstore.Transaction) error {
	s.adds = append(s.adds, hAdd{doc, tx})
	s.addFail = vBool()
	if s.addFail {
		return hErrStorage
	}
	return nil
}

type hNet struct {
	network.Transactions
	discovered []did.DID
}

func (n *hNet) DiscoverServices(id did.DID) { n.discovered = append(n.discovered, id) }

// hKeyResolver: the key the transaction was signed with (its signature was verified against the key this
// resolver returns, see network/dag/verifier.go), or a failure - decided when asked.
type hKeyResolver struct {
	x      string
	asked  bool
	failed bool
}

func (r *hKeyResolver) ResolvePublicKey(kid string, refs []hash.SHA256Hash) (crypto.PublicKey, error) {
	r.asked = true
	r.failed = vBool()
	if r.failed {
		return nil, resolver.ErrNotFound
	}
	return hPub{r.x}, nil
}

func hSameTx(t *hTx, r didstore.Transaction) bool {
	if r.Ref != t.ref || r.PayloadHash != t.payloadHash || r.Clock != t.clock || !r.SigningTime.Equal(t.sigt) || len(r.Previous) != len(t.prevs) {
		return false
	}
	for i := range t.prevs {
		if r.Previous[i] != t.prevs[i] {
			return false
		}
	}
	return true
}

// ---- H09a: creation -----------------------------------------------------------------------------------

// H09a: handleCreateDIDDocument with an arbitrary DID, an arbitrary embedded key (or none). The store's
// Add is reached only if a key is embedded and the DID's method-specific id is that key's thumbprint.
func H09a() {
	n := vParam("a_len", 3)
	tx := &hTx{}
	vTxFields(tx, false)
	embedded := vBool()
	var x string
	if embedded {
		vTag("key")
		x = vString(vLen(0, n))
		k := &hKey{x: x}
		if vBool() { // the embedded JWK may carry any kid
			k.kid, k.hasKid = vString(1), true
		}
		tx.key = k
	}
	vTag("did")
	doc := did.Document{ID: did.DID{Method: "nuts", ID: vString(vLen(0, n))}}
	doc.Controller = nil
	store := &hStore{}
	net := &hNet{}
	amb := &ambassador{didStore: store, networkClient: net}

	err := amb.handleCreateDIDDocument(tx, doc)

	if len(store.adds) > 0 {
		vCover("add-reached")
		vAssert(embedded, "H09a.key_embedded: a creation without embedded signing key reached the store")
		vAssert(embedded && doc.ID.ID == hThumbID(x), "H09a.did_is_key_thumbprint: a creation whose DID is not the thumbprint of the embedded key reached the store")
		vAssert(len(store.adds) == 1, "H09a.added_once: document added more than once")
		vAssert(store.adds[0].doc.ID.Equals(doc.ID) && hSameTx(tx, store.adds[0].tx), "H09a.added_as_received: the stored document or transaction record differs from what was received")
		vAssert((err == nil) == !store.addFail, "H09a.store_error_reported: the store's verdict was not passed on")
	} else {
		vCover("rejected")
		vAssert(err != nil, "H09a.reject_reports_error: creation neither stored nor rejected with an error")
		if !embedded {
			vCover("rejected-no-key")
		} else if doc.ID.ID != hThumbID(x) {
			vCover("rejected-foreign-key")
			vAssert(errors.Is(err, ErrThumbprintMismatch), "H09a.mismatch_error: foreign key not reported as thumbprint mismatch")
		}
		// conversely: own key => stored
		vAssert(!(embedded && doc.ID.ID == hThumbID(x)), "H09a.own_key_accepted: a creation signed with the DID's own key did not reach the store")
	}
}

func H09a_twin() {
	tx := &hTx{key: &hKey{x: vString(2)}}
	store := &hStore{}
	amb := &ambassador{didStore: store, networkClient: &hNet{}}
	err := amb.handleCreateDIDDocument(tx, did.Document{ID: did.DID{Method: "nuts", ID: "a" + vString(1)}})
	if err == nil && len(store.adds) == 1 {
		vAssert(false, "H09a_twin.reach: reachable")
	}
}

// ---- the world of stored documents (H09b, H09c) -------------------------------------------------------
//
// n documents did:nuts:0 .. did:nuts:<n-1>; document 0 is the subject of the update. Every document has
// 0..maxver stored versions (0 = unknown to the store). A version has a source transaction (concrete,
// distinct refs), an update time, controller entries (to itself, another document or an unknown DID) and
// capabilityInvocation keys (arbitrary key material). Everything is drawn on first use.

type hVer struct {
	deactDrawn, deact bool // deactivated shape: no controller entries and no capabilityInvocation keys
	drawn             bool
	ctrl              []int
	keys              []string // capabilityInvocation keys
	otherKey          string   // assertionMethod/authentication-only key
	upd               int64
	doc               did.Document
}

type hWDoc struct {
	drawn bool
	vers  []hVer
}

type hWorld struct {
	n, maxVer, maxCtrl, maxOtherCtrl, maxKeys int
	docs                                      []hWDoc
}

func newHWorld(n, maxVer, maxCtrl, maxOtherCtrl, maxKeys int) *hWorld {
	return &hWorld{n: n, maxVer: maxVer, maxCtrl: maxCtrl, maxOtherCtrl: maxOtherCtrl, maxKeys: maxKeys, docs: make([]hWDoc, n)}
}

func (w *hWorld) index(id did.DID) int {
	for i := 0; i < w.n; i++ {
		if hDID(i).Equals(id) {
			return i
		}
	}
	return w.n
}

func (w *hWorld) nver(i int) int {
	d := &w.docs[i]
	if !d.drawn {
		d.drawn = true
		d.vers = make([]hVer, vLen(0, w.maxVer))
	}
	return len(d.vers)
}

// src: the transaction that produced version j of document i (never the zero hash).
func (w *hWorld) src(i, j int) hash.SHA256Hash { return hHash1(byte(1 + i*4 + j)) }

// ver draws (once) version j of document i. Controller entries and key lists are either empty or of the
// maximal length; entries may coincide (key material and controller targets are free), so every smaller
// set is covered as well.
func (w *hWorld) ver(i, j int) *hVer {
	w.nver(i)
	v := &w.docs[i].vers[j]
	if v.drawn {
		return v
	}
	v.drawn = true
	v.doc = did.Document{ID: hDID(i)}
	v.upd = int64(vRange(0, 7))
	if w.shapeDeactivated(i, j) {
		return v
	}
	maxCtrl := w.maxCtrl
	if i != 0 {
		maxCtrl = w.maxOtherCtrl
	}
	nc, nk := 0, w.maxKeys
	if maxCtrl > 0 {
		switch vChoice(3) {
		case 0: // no controller entries: the document controls itself
		case 1:
			nc = maxCtrl
		case 2:
			nc, nk = maxCtrl, 0
		}
	}
	for c := 0; c < nc; c++ {
		v.ctrl = append(v.ctrl, vChoice(w.n+1))
	}
	for k := 0; k < nk; k++ {
		v.keys = append(v.keys, vString(1))
	}
	for _, c := range v.ctrl {
		v.doc.Controller = append(v.doc.Controller, hDID(c))
	}
	for _, x := range v.keys {
		vm := hMethod(hDID(i), x)
		v.doc.VerificationMethod = append(v.doc.VerificationMethod, vm)
		v.doc.CapabilityInvocation = append(v.doc.CapabilityInvocation, did.VerificationRelationship{VerificationMethod: vm})
	}
	// a key that is listed for assertion and authentication only: it does not authorise updates
	v.otherKey = vString(1)
	vm := hMethod(hDID(i), v.otherKey)
	v.doc.VerificationMethod = append(v.doc.VerificationMethod, vm)
	v.doc.AssertionMethod = append(v.doc.AssertionMethod, did.VerificationRelationship{VerificationMethod: vm})
	v.doc.Authentication = append(v.doc.Authentication, did.VerificationRelationship{VerificationMethod: vm})
	return v
}

// peek: version j of document i if the run looked at it, else nil (for cover labels: draws nothing).
func (w *hWorld) peek(i, j int) *hVer {
	if i >= w.n || !w.docs[i].drawn || j < 0 || j >= len(w.docs[i].vers) || !w.docs[i].vers[j].drawn {
		return nil
	}
	return &w.docs[i].vers[j]
}

func (w *hWorld) shapeDeactivated(i, j int) bool {
	w.nver(i)
	v := &w.docs[i].vers[j]
	if !v.deactDrawn {
		v.deactDrawn = true
		v.deact = vBool()
	}
	return v.deact
}

// flagDeactivated: the store's metadata flag (writer.go: deactivated documents stay deactivated).
func (w *hWorld) flagDeactivated(i, j int) bool {
	for k := 0; k <= j; k++ {
		if w.shapeDeactivated(i, k) {
			return true
		}
	}
	return false
}

// Resolve: the contract of didstore.Store.Resolve as implemented by store.go (Resolve, matches,
// latestNonDeactivatedRequested), for versions with one source transaction each: versions are scanned
// from the latest to the first; the first one that passes the filters is returned.
func (s *hStore) Resolve(id did.DID, md *resolver.ResolveMetadata) (*did.Document, *resolver.DocumentMetadata, error) {
	w := s.w
	i := w.index(id)
	if i == w.n {
		return nil, nil, resolver.ErrNotFound
	}
	allowDeact := md != nil && md.AllowDeactivated
	filtered := md != nil && (md.ResolveTime != nil || md.Hash != nil || md.SourceTransaction != nil)
	for j := w.nver(i) - 1; j >= 0; j-- {
		if !allowDeact {
			if w.flagDeactivated(i, j) {
				if !filtered {
					return nil, nil, resolver.ErrDeactivated
				}
				continue
			}
		}
		if md != nil {
			if md.Hash != nil {
				continue // versions are not addressed by hash in this world
			}
			if md.ResolveTime != nil && w.ver(i, j).upd > md.ResolveTime.Unix() {
				continue
			}
			if md.SourceTransaction != nil && w.src(i, j) != *md.SourceTransaction {
				continue
			}
		}
		v := w.ver(i, j)
		cp := v.doc
		cp.Controller = append([]did.DID(nil), v.doc.Controller...)
		meta := &resolver.DocumentMetadata{SourceTransactions: []hash.SHA256Hash{w.src(i, j)}}
		if allowDeact {
			meta.Deactivated = w.flagDeactivated(i, j)
		}
		return &cp, meta, nil
	}
	return nil, nil, resolver.ErrNotFound
}

// ---- reference semantics for H09b (written from the property text and RFC006 §3.3/§4.3) ---------------

// refCurrent: the version the update succeeds - the subject's version produced by the first previous
// transaction that produced one, else the subject's latest version; -1 if the subject is unknown.
func (w *hWorld) refCurrent(prevs []hash.SHA256Hash) int {
	nv := w.nver(0)
	for _, p := range prevs {
		for j := nv - 1; j >= 0; j-- {
			if w.src(0, j) == p {
				return j
			}
		}
	}
	return nv - 1
}

func hHasKey(keys []string, x string) bool {
	for _, k := range keys {
		if k == x {
			return true
		}
	}
	return false
}

// refAuthorised: is key x a capabilityInvocation key of a non-deactivated controller of version cur of
// the subject? A controller entry naming another document stands for the versions of that document
// selected by pick (which versions count is the caller's choice).
func (w *hWorld) refAuthorised(cur int, x string, pick func(c, j int) bool) bool {
	v := w.ver(0, cur)
	if len(v.ctrl) == 0 {
		return hHasKey(v.keys, x)
	}
	for _, c := range v.ctrl {
		if c == 0 {
			if hHasKey(v.keys, x) {
				return true
			}
			continue
		}
		if c == w.n {
			continue
		}
		for j := 0; j < w.nver(c); j++ {
			if pick(c, j) && !w.flagDeactivated(c, j) && hHasKey(w.ver(c, j).keys, x) {
				return true
			}
		}
	}
	return false
}

// ---- H09b: update -------------------------------------------------------------------------------------

type hUpdate struct {
	w        *hWorld
	store    *hStore
	net      *hNet
	amb      *ambassador
	kr       *hKeyResolver
	tx       *hTx
	proposed did.Document
	propKeys []string
	signer   string // key material of the key that signed the transaction
}

type hBounds struct{ docs, vers, ctrl, otherCtrl, keys, prevs, propShapes int }

// vProposed: the proposed next version of document 0. Its controllers and keys are whatever the sender
// likes; shapes: 0 = controlled by itself and by document 1, with a key; 1 = no controller entries, with a
// key; 2 = no controllers, no keys (a deactivation).
func vProposed(u *hUpdate, shapes int) {
	u.proposed = did.Document{ID: hDID(0), Context: []interface{}{did.DIDContextV1URI()}}
	shape := 0
	if shapes > 1 {
		shape = vChoice(shapes)
	}
	if shape == 2 {
		return
	}
	if shape == 0 {
		u.proposed.Controller = append(u.proposed.Controller, hDID(0), hDID(1))
	}
	vTag("proposedkey")
	x := vString(1)
	u.propKeys = append(u.propKeys, x)
	vm := hMethod(hDID(0), x)
	u.proposed.VerificationMethod = append(u.proposed.VerificationMethod, vm)
	u.proposed.CapabilityInvocation = append(u.proposed.CapabilityInvocation, did.VerificationRelationship{VerificationMethod: vm})
	u.proposed.AssertionMethod = append(u.proposed.AssertionMethod, did.VerificationRelationship{VerificationMethod: vm})
}

// vUpdate draws the world, an update transaction (0..prevs previous transactions with arbitrary refs, an
// arbitrary signing time, signed by an arbitrary key) and an arbitrary proposed next version.
func vUpdate(b hBounds) *hUpdate {
	u := &hUpdate{w: newHWorld(b.docs, b.vers, b.ctrl, b.otherCtrl, b.keys)}
	u.store = &hStore{w: u.w}
	u.net = &hNet{}
	u.tx = &hTx{}
	vTxFields(u.tx, false)
	np := vLen(0, b.prevs)
	for i := 0; i < np; i++ {
		vTag("prev")
		u.tx.prevs = append(u.tx.prevs, hHash1(vU8()))
	}
	u.tx.kid = "did:nuts:9#k"
	vTag("signer")
	u.signer = vString(1)
	u.kr = &hKeyResolver{x: u.signer}
	vProposed(u, b.propShapes)
	u.amb = &ambassador{didStore: u.store, networkClient: u.net, keyResolver: u.kr, didResolver: &Resolver{Store: u.store}}
	return u
}

// checkAuthorised asserts the C09 update rule for an update that reached the store.
func (u *hUpdate) checkAuthorised(id string) {
	w := u.w
	vAssert(u.kr.asked && !u.kr.failed, id+".signing_key_resolved: an update whose signing key could not be resolved reached the store")
	cur := w.refCurrent(u.tx.prevs)
	vAssert(cur >= 0, id+".succeeds_a_version: an update of a DID without any stored version reached the store")
	if cur < 0 {
		return
	}
	x := u.signer
	// the controller versions that count are those produced by one of the previous transactions of the
	// update, or (legacy rule: resolution by time) those in force at the signing time.
	byPrev := func(c, j int) bool {
		for _, p := range u.tx.prevs {
			if w.src(c, j) == p {
				return true
			}
		}
		return false
	}
	atTime := func(c, j int) bool {
		// the latest non-deactivated version not younger than the signing time
		for k := w.nver(c) - 1; k >= 0; k-- {
			if w.flagDeactivated(c, k) || w.ver(c, k).upd > u.tx.sigt.Unix() {
				continue
			}
			return k == j
		}
		return false
	}
	authorised := w.refAuthorised(cur, x, byPrev) || w.refAuthorised(cur, x, atTime)
	if !authorised {
		if hHasKey(u.propKeys, x) {
			vClass("key listed by the proposed document only")
		} else {
			vClass("key of no controller")
		}
	}
	vAssert(authorised, id+".signed_by_controller_key: an update reached the store although no non-deactivated controller of the succeeded version (as produced by a previous transaction, or in force at the signing time) lists the signing key for capabilityInvocation")
	vAssert(len(u.store.adds) == 1, id+".added_once: document added more than once")
	a := u.store.adds[0]
	vAssert(a.doc.ID.Equals(u.proposed.ID) && len(a.doc.CapabilityInvocation) == len(u.proposed.CapabilityInvocation) && hSameTx(u.tx, a.tx), id+".added_as_received: the stored document or transaction record differs from what was received")
}

// coverUpdate: vacuity labels; looks only at what the run has already drawn.
func (u *hUpdate) coverUpdate(accepted bool) {
	w := u.w
	if !w.docs[0].drawn || len(w.docs[0].vers) == 0 {
		return
	}
	cur := w.refCurrent(u.tx.prevs)
	v := w.peek(0, cur)
	if v == nil {
		return
	}
	x := u.signer
	if accepted {
		if hHasKey(v.keys, x) {
			vCover("accepted-own-key")
		} else {
			vCover("accepted-controller-key")
		}
		if cur != len(w.docs[0].vers)-1 {
			vCover("accepted-on-older-version")
		}
		return
	}
	if !u.kr.asked || u.kr.failed {
		return
	}
	if hHasKey(u.propKeys, x) && !hHasKey(v.keys, x) {
		vCover("rejected-key-of-proposed-document")
	}
	for _, c := range v.ctrl {
		if c == 0 || c >= w.n || !w.docs[c].drawn {
			continue
		}
		for j := range w.docs[c].vers {
			if cv := &w.docs[c].vers[j]; cv.deactDrawn && cv.deact {
				vCover("rejected-deactivated-controller")
			}
		}
	}
}

func H09b() {
	u := vUpdate(hBounds{vParam("b_docs", 2), vParam("b_vers", 2), vParam("b_ctrl", 2), vParam("b_octrl", 0), vParam("b_keys", 1), vParam("b_prevs", 2), vParam("b_prop", 1)})
	err := u.amb.handleUpdateDIDDocument(u.tx, u.proposed)
	if len(u.store.adds) > 0 {
		vCover("add-reached")
		u.checkAuthorised("H09b")
		vAssert((err == nil) == !u.store.addFail, "H09b.store_error_reported: the store's verdict was not passed on")
		u.coverUpdate(true)
		return
	}
	vCover("rejected")
	vAssert(err != nil, "H09b.reject_reports_error: update neither stored nor rejected with an error")
	u.coverUpdate(false)
}

func H09b_twin() {
	u := vUpdate(hBounds{2, 1, 1, 0, 1, 1, 1})
	err := u.amb.handleUpdateDIDDocument(u.tx, u.proposed)
	if err == nil && len(u.store.adds) == 1 && !hHasKey(u.w.ver(0, 0).keys, u.signer) {
		vAssert(false, "H09b_twin.reach: reachable")
	}
}
