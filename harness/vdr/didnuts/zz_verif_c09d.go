//go:build verif

package didnuts

import (
	"strings"

	ssi "github.com/nuts-foundation/go-did"
	"github.com/nuts-foundation/go-did/did"
)

// ---- H09d: validators on symbolic ids and types -----------------------------------------------------------

func hCatch(f func()) (panicked bool) {
	defer func() {
		if r := recover(); r != nil {
			panicked = true
		}
	}()
	f()
	return false
}

// vOwner: did:nuts:<one character of the idchar class of the DID syntax>.
func vOwner() did.DID {
	vTag("owner")
	id := vString(1)
	c := id[0]
	vAssume(c >= 'a' && c <= 'z' || c >= 'A' && c <= 'Z' || c >= '0' && c <= '9' || c == '.' || c == '-' || c == '_')
	return did.DID{Method: "nuts", ID: id}
}

// hEntryIDOK: the Nuts rule for ids of document entries, on the id as it is written in the document:
// the document's DID, '#', and a non-empty fragment.
func hEntryIDOK(owner did.DID, raw string) bool {
	prefix := owner.String() + "#"
	return strings.HasPrefix(raw, prefix) && len(raw) > len(prefix)
}

// H09d: basicServiceValidator. Two scenario families:
//   shape      - one service whose id is an arbitrary string "did:nuts:" ++ tail (|tail| <= d_tail) that the
//                JSON decoder of ssi.URI (url.Parse) accepts, with an arbitrary type;
//   uniqueness - d_services services whose ids are the document's DID + '#' + an arbitrary fragment byte, with
//                arbitrary 1-byte types.
func H09d() {
	owner := vOwner()
	doc := did.Document{ID: owner}
	var raws []string
	if vChoice(2) == 0 {
		vCover("shape")
		vTag("tail")
		raws = append(raws, "did:nuts:"+vString(vLen(0, vParam("d_tail", 3))))
	} else {
		vCover("uniqueness")
		ns := vParam("d_services", 2)
		for i := 0; i < ns; i++ {
			vTag("fragment")
			raws = append(raws, owner.String()+"#"+vString(1))
		}
	}
	for _, raw := range raws {
		u, err := ssi.ParseURI(raw)
		if err != nil {
			vCover("id-not-a-uri")
			return // such a document cannot be decoded
		}
		vTag("type")
		typ := vString(1)
		doc.Service = append(doc.Service, did.Service{ID: *u, Type: typ, ServiceEndpoint: "e"})
	}

	err := basicServiceValidator{}.Validate(doc)
	vObserve("accepted", err == nil)

	if err != nil {
		vCover("rejected")
		return
	}
	vCover("accepted")
	for i := range raws {
		vAssert(hEntryIDOK(owner, raws[i]), "H09d.service_id_prefixed: accepted a service whose id is not the document's DID + '#' + non-empty fragment")
		for j := 0; j < i; j++ {
			vAssert(raws[i] != raws[j], "H09d.service_ids_unique: accepted two services with the same id")
			vAssert(doc.Service[i].Type != doc.Service[j].Type, "H09d.service_types_unique: accepted two services of the same type")
		}
	}
	if len(raws) >= 2 {
		vCover("accepted-several")
	}
}

func H09d_twin() {
	owner := did.DID{Method: "nuts", ID: "a"}
	u1, err1 := ssi.ParseURI("did:nuts:a#" + vString(1))
	u2, err2 := ssi.ParseURI("did:nuts:a#" + vString(1))
	if err1 != nil || err2 != nil {
		return
	}
	doc := did.Document{ID: owner, Service: []did.Service{{ID: *u1, Type: "x"}, {ID: *u2, Type: "y"}}}
	if basicServiceValidator.Validate(basicServiceValidator{}, doc) == nil {
		vAssert(false, "H09d_twin.reach: reachable")
	}
}

// H09dv: verificationMethodValidator. A method id is a DID URL given by its parts (a superset of what
// did.ParseDIDURL produces); the method's publicKeyJwk is absent, or holds key material x and optionally a
// "kid" member (a JSON object may carry any member; jwk.ParseKey keeps it). Two scenario families:
//   shape      - one method with arbitrary method name (4 bytes), method-specific id (0..2), path (0..1),
//                fragment (0..d_frag), key (1 byte) and kid (0..d_frag);
//   uniqueness - d_methods methods of the document's DID with arbitrary 1-byte fragments and keys.
func H09dv() {
	owner := vOwner()
	doc := did.Document{ID: owner}
	var xs []string
	noJWK, withKid := false, false
	if vChoice(2) == 0 {
		vCover("shape")
		maxFrag := vParam("d_frag", 1)
		vTag("method")
		id := did.DIDURL{DID: did.DID{Method: vString(4), ID: vString(vLen(0, 2))}}
		vTag("path")
		id.Path = vString(vLen(0, 1))
		vTag("fragment")
		id.Fragment = vString(vLen(0, maxFrag))
		vm := &did.VerificationMethod{ID: id, Type: "JsonWebKey2020", Controller: owner}
		xs = append(xs, "")
		if vBool() {
			vTag("key")
			xs[0] = vString(1)
			vm.PublicKeyJwk = map[string]interface{}{"x": xs[0]}
			if vBool() {
				vTag("kid")
				vm.PublicKeyJwk["kid"] = vString(vLen(0, maxFrag))
				withKid = true
			}
		} else {
			noJWK = true
		}
		doc.VerificationMethod = append(doc.VerificationMethod, vm)
	} else {
		vCover("uniqueness")
		nm := vParam("d_methods", 2)
		for i := 0; i < nm; i++ {
			vTag("fragment")
			id := did.DIDURL{DID: owner, Fragment: vString(1)}
			vTag("key")
			x := vString(1)
			xs = append(xs, x)
			doc.VerificationMethod = append(doc.VerificationMethod, &did.VerificationMethod{ID: id, Type: "JsonWebKey2020", Controller: owner, PublicKeyJwk: map[string]interface{}{"x": x}})
		}
	}
	if noJWK {
		vClass("verificationMethod without publicKeyJwk")
	}
	if withKid {
		vClass("publicKeyJwk carries a kid member")
	}

	var err error
	panicked := hCatch(func() { err = verificationMethodValidator{}.Validate(doc) })

	vAssert(!panicked, "H09dv.validator_does_not_panic: the validator for documents received from the network panics")
	if panicked {
		return
	}
	if err != nil {
		vCover("rejected")
		return
	}
	vCover("accepted")
	for i, vm := range doc.VerificationMethod {
		vAssert(hEntryIDOK(owner, vm.ID.String()), "H09dv.method_id_prefixed: accepted a verificationMethod whose id is not the document's DID + '#' + non-empty fragment")
		vAssert(vm.PublicKeyJwk != nil && vm.ID.Fragment == hThumbID(xs[i]), "H09dv.key_id_is_thumbprint: accepted a verificationMethod whose id fragment is not the thumbprint of its key")
		for j := 0; j < i; j++ {
			vAssert(vm.ID.String() != doc.VerificationMethod[j].ID.String(), "H09dv.method_ids_unique: accepted two verificationMethods with the same id")
		}
	}
	if len(doc.VerificationMethod) >= 2 {
		vCover("accepted-several")
	}
}

func H09dv_twin() {
	owner := did.DID{Method: "nuts", ID: "a"}
	x := vString(1)
	vm := &did.VerificationMethod{ID: did.DIDURL{DID: owner, Fragment: vString(1)}, PublicKeyJwk: map[string]interface{}{"x": x}}
	if verificationMethodValidator.Validate(verificationMethodValidator{}, did.Document{ID: owner, VerificationMethod: did.VerificationMethods{vm}}) == nil {
		vAssert(false, "H09dv_twin.reach: reachable")
	}
}

// H09dh: the same validator over a history of documents in one process (whatever the validator keeps from earlier
// documents must not change its verdict): a first document of the DID with one method (any fragment, any key) is
// validated, then a second version with one method (any fragment, any key - possibly the same id with another
// key): the second is accepted only if its method id is the thumbprint of ITS key.
func H09dh() {
	owner := vOwner()
	mk := func(tag string) (did.Document, string) {
		vTag(tag + "_fragment")
		id := did.DIDURL{DID: owner, Fragment: vString(1)}
		vTag(tag + "_key")
		x := vString(1)
		return did.Document{ID: owner, VerificationMethod: did.VerificationMethods{&did.VerificationMethod{ID: id, Type: "JsonWebKey2020", Controller: owner, PublicKeyJwk: map[string]interface{}{"x": x}}}}, x
	}
	doc1, _ := mk("first")
	doc2, x2 := mk("second")
	err1 := verificationMethodValidator{}.Validate(doc1)
	if err1 == nil {
		vCover("first-accepted")
	}
	err2 := verificationMethodValidator{}.Validate(doc2)
	if err2 == nil {
		vCover("second-accepted")
		if doc2.VerificationMethod[0].ID.Fragment == doc1.VerificationMethod[0].ID.Fragment {
			vCover("same-method-id")
		}
		vAssert(doc2.VerificationMethod[0].ID.Fragment == hThumbID(x2), "H09dh.key_id_is_thumbprint_every_time: a later document was accepted with a verificationMethod whose id is not the thumbprint of its key (after an earlier document used that id)")
	} else {
		vAssert(doc2.VerificationMethod[0].ID.Fragment != hThumbID(x2), "H09dh.valid_method_accepted: a verificationMethod whose id is the thumbprint of its key was refused")
	}
}

func H09dh_twin() {
	owner := did.DID{Method: "nuts", ID: "a"}
	x := vString(1)
	vm := &did.VerificationMethod{ID: did.DIDURL{DID: owner, Fragment: vString(1)}, PublicKeyJwk: map[string]interface{}{"x": x}}
	d := did.Document{ID: owner, VerificationMethod: did.VerificationMethods{vm}}
	if (verificationMethodValidator{}).Validate(d) == nil && (verificationMethodValidator{}).Validate(d) == nil {
		vAssert(false, "H09dh_twin.reach: reachable")
	}
}
