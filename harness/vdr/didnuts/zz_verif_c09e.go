//go:build verif

package didnuts

import (
	"errors"

	"github.com/nuts-foundation/go-did/did"
	"github.com/nuts-foundation/nuts-node/vdr/resolver"
)

// ---- H09e: controller resolution on arbitrary controller graphs --------------------------------
//
// The world is a set of n documents did:nuts:0 .. did:nuts:<n-1>. The shape of a document (how many
// controller entries, to whom each points - itself, another document of the world, or a DID nobody
// knows -, whether it lists capabilityInvocation keys, and how the resolver answers for it) is drawn
// when the document is looked at for the first time, so that only the part of the graph that the
// traversal reaches multiplies paths. Every graph over n nodes with out-degree <= maxctrl (cycles,
// self-loops, dangling references included) is covered.

const (
	hE_ok          = 0 // resolver returns the document
	hE_notFound    = 1 // resolver.ErrNotFound
	hE_deactivated = 2 // resolver.ErrDeactivated
	hE_failure     = 3 // some other (storage) error
)

var hErrStorage = errors.New("harness: storage failure")

func hDID(i int) did.DID {
	return did.DID{Method: "nuts", ID: string(rune('0' + i))}
}

type hGraphDoc struct {
	drawn   bool
	outcome int
	ctrl    []int // indices into the world; n = a DID that is not in the world
	hasKey  bool
	doc     did.Document
}

type hGraph struct {
	resolver.DIDResolver
	n       int
	maxCtrl int
	errs    bool // may the resolver answer with errors?
	docs    []hGraphDoc
	calls   int
	// nesting bookkeeping: the traversal is depth first, so the document a Resolve call is made for
	// was listed by the most recently returned document that still has unresolved entries. The
	// harness does not rely on that; it only counts calls.
}

func newHGraph(n, maxCtrl int, errs bool) *hGraph {
	return &hGraph{n: n, maxCtrl: maxCtrl, errs: errs, docs: make([]hGraphDoc, n)}
}

// get draws (once) and returns document i.
func (g *hGraph) get(i int) *hGraphDoc {
	d := &g.docs[i]
	if d.drawn {
		return d
	}
	d.drawn = true
	nc := vLen(0, g.maxCtrl)
	for c := 0; c < nc; c++ {
		d.ctrl = append(d.ctrl, vChoice(g.n+1))
	}
	d.hasKey = vBool()
	d.doc = did.Document{ID: hDID(i)}
	for _, c := range d.ctrl {
		d.doc.Controller = append(d.doc.Controller, hDID(c))
	}
	if d.hasKey {
		kid := did.DIDURL{DID: hDID(i), Fragment: "k"}
		vm := &did.VerificationMethod{ID: kid, Controller: hDID(i)}
		d.doc.VerificationMethod = append(d.doc.VerificationMethod, vm)
		d.doc.CapabilityInvocation = append(d.doc.CapabilityInvocation, did.VerificationRelationship{VerificationMethod: vm})
	}
	return d
}

// outcome draws (once) how the resolver answers for document i.
func (g *hGraph) outcome(i int) int {
	d := &g.docs[i]
	if d.outcome == 0 {
		if g.errs {
			d.outcome = 1 + vChoice(4)
		} else {
			d.outcome = 1 + hE_ok
		}
	}
	return d.outcome - 1
}

func (g *hGraph) index(id did.DID) int {
	for i := 0; i < g.n; i++ {
		if hDID(i).Equals(id) {
			return i
		}
	}
	return g.n
}

func (g *hGraph) Resolve(id did.DID, _ *resolver.ResolveMetadata) (*did.Document, *resolver.DocumentMetadata, error) {
	g.calls++
	i := g.index(id)
	if i == g.n {
		return nil, nil, resolver.ErrNotFound
	}
	d := g.get(i)
	switch g.outcome(i) {
	case hE_notFound:
		return nil, nil, resolver.ErrNotFound
	case hE_deactivated:
		return nil, nil, resolver.ErrDeactivated
	case hE_failure:
		return nil, nil, hErrStorage
	}
	cp := d.doc
	return &cp, &resolver.DocumentMetadata{}, nil
}

func hDeactivatedShape(d *hGraphDoc) bool { return len(d.ctrl) == 0 && !d.hasKey }

// refUsable: reference semantics of "document i can act as a controller" (written from the Nuts
// RFC006 text, not from resolver.go): it resolves, and if it names controllers, at least one of them is an
// active controller in turn. fuel bounds the reference recursion on cyclic graphs; the result is only
// used on graphs where the traversal did not hit the depth limit.
func (g *hGraph) refUsable(i int, fuel int) bool {
	if i == g.n || fuel == 0 {
		return false
	}
	d := g.get(i)
	if g.outcome(i) != hE_ok {
		return false
	}
	if len(d.ctrl) == 0 {
		return true
	}
	for _, c := range d.ctrl {
		if c == i {
			if d.hasKey {
				return true
			}
			continue
		}
		if g.refUsable(c, fuel-1) && !hDeactivatedShape(g.get(c)) {
			return true
		}
	}
	return false
}

// maxCalls: the number of Resolve calls of a traversal that respects depth limit D with out-degree <= c.
func hMaxCalls(c, D int) int {
	total, level := 0, 1
	for d := 0; d < D; d++ {
		level *= c
		total += level
	}
	return total
}

// H09e: every controller graph, resolver always answers. H09ef: (smaller) graphs, resolver answers with the
// document, ErrNotFound, ErrDeactivated or a storage failure per document.
func H09e() { hControllerGraph("H09e", vParam("e_docs", 3), vParam("e_maxctrl", 2), false) }

func H09ef() { hControllerGraph("H09ef", vParam("e_fdocs", 2), vParam("e_fmaxctrl", 2), true) }

func hControllerGraph(id string, n, maxCtrl int, faults bool) {
	g := newHGraph(n, maxCtrl, faults)
	root := g.get(0)

	leaves, err := ResolveControllers(g, root.doc, nil)
	vObserve("calls", g.calls)
	vObserve("leaves", len(leaves))
	vObserve("failed", err != nil)

	// (1) the depth limit bounds the work on every graph, cyclic or not
	vAssert(g.calls <= hMaxCalls(maxCtrl, maxControllerDepth), id+".calls_bounded_by_depth_limit: more resolver calls than a traversal of depth 5 can make")
	if errors.Is(err, ErrNestedDocumentsTooDeep) {
		vCover("too-deep")
		vAssert(leaves == nil, id+".too_deep_returns_nothing: controllers returned together with the depth error")
		return
	}
	if err != nil {
		vCover("resolver-failure")
		vAssert(errors.Is(err, hErrStorage), id+".only_storage_errors_propagate: an error other than a resolver failure or the depth limit was returned")
		vAssert(leaves == nil, id+".failure_returns_nothing: controllers returned together with an error")
		return
	}
	vCover("resolved")
	// (2) every returned controller is a direct controller of the root (or the root itself), was
	// resolvable, and is not deactivated
	for _, l := range leaves {
		li := g.index(l.ID)
		vAssert(li < n, id+".leaf_in_world: returned a controller that no resolver call produced")
		ld := g.get(li)
		vAssert(!resolver.IsDeactivated(l) && !hDeactivatedShape(ld), id+".no_deactivated_leaf: a deactivated document was returned as controller")
		if li == 0 {
			vCover("self-controlled")
			self := len(root.ctrl) == 0
			for _, c := range root.ctrl {
				if c == 0 {
					self = true
				}
			}
			vAssert(self && root.hasKey, id+".self_leaf_only_if_self_controlled: root returned as its own controller without being self-controlled with keys")
		} else {
			vCover("other-controller")
			listed := false
			for _, c := range root.ctrl {
				if c == li {
					listed = true
				}
			}
			vAssert(listed, id+".leaf_is_listed_controller: returned a document that the root does not list as controller")
			vAssert(g.outcome(li) == hE_ok, id+".leaf_resolved: returned a controller the resolver did not return")
			vAssert(g.refUsable(li, maxControllerDepth+1), id+".leaf_has_active_controller: returned a controller none of whose own controllers is active")
		}
	}
	// (3) conversely: no eligible controller is dropped (no error occurred, depth limit not hit)
	if len(root.ctrl) == 0 {
		vAssert((len(leaves) == 1) == root.hasKey, id+".uncontrolled_doc_is_own_controller: a document without controller entries and with keys is not its own (only) controller")
	}
	for _, c := range root.ctrl {
		if c != 0 && c < n && g.refUsable(c, maxControllerDepth+1) && !hDeactivatedShape(g.get(c)) {
			found := false
			for _, l := range leaves {
				if g.index(l.ID) == c {
					found = true
				}
			}
			vAssert(found, id+".eligible_controller_returned: an active, resolvable controller was not returned")
		}
	}
}

func H09e_twin() {
	g := newHGraph(2, 1, false)
	root := g.get(0)
	_, err := ResolveControllers(g, root.doc, nil)
	if errors.Is(err, ErrNestedDocumentsTooDeep) && g.calls == 5 {
		vAssert(false, "H09e_twin.reach: reachable")
	}
}

func H09ef_twin() {
	g := newHGraph(2, 1, true)
	root := g.get(0)
	leaves, err := ResolveControllers(g, root.doc, nil)
	if err == nil && len(leaves) == 0 && len(root.ctrl) == 1 && root.ctrl[0] == 1 && g.outcome(1) == hE_deactivated {
		vAssert(false, "H09ef_twin.reach: reachable")
	}
}
