//go:build verif

package core

// C20 / H20c_core: ServerConfig.Load. Configuration keys that moved (network.{truststorefile,certkeyfile,certfile}, now
// tls.*) stop start-up in either mode; and ServerConfig.ServerURL applies the public-URL guard with the configured
// strict mode. koanf/pflag loading (reflection, files, environment) is stubbed: loadConfigMap does nothing and
// loadConfigIntoStruct fills the struct with the harness' symbolic values, so only what Load does with the loaded
// struct is covered, not the key-to-field mapping.

import (
	"github.com/knadh/koanf/v2"
	"github.com/spf13/pflag"
)

//verif:stub (*github.com/nuts-foundation/nuts-node/core.ServerConfig).loadConfigMap => hLoadConfigMap
//verif:stub github.com/nuts-foundation/nuts-node/core.loadConfigIntoStruct => hLoadConfigIntoStruct

var hLoaded ServerConfig

func hLoadConfigMap(ngc *ServerConfig, flags *pflag.FlagSet) error { return nil }

func hLoadConfigIntoStruct(target interface{}, configMap *koanf.Koanf) error {
	cfg := target.(*ServerConfig)
	cfg.Strictmode = hLoaded.Strictmode
	cfg.LegacyTLS = hLoaded.LegacyTLS
	cfg.TLS = hLoaded.TLS
	cfg.URL = hLoaded.URL
	return nil
}

func H20c_core() {
	hLoaded = ServerConfig{Strictmode: vBool()}
	vTag("network.certfile")
	hLoaded.LegacyTLS.CertFile = vString(vLen(0, 1))
	vTag("network.certkeyfile")
	hLoaded.LegacyTLS.CertKeyFile = vString(vLen(0, 1))
	vTag("network.truststorefile")
	hLoaded.LegacyTLS.TrustStoreFile = vString(vLen(0, 1))
	hLoaded.TLS.CertFile = vString(vLen(0, 1))
	hLoaded.TLS.CertKeyFile = vString(vLen(0, 1))
	cfg := NewServerConfig()
	err := cfg.Load(nil)
	moved := hLoaded.LegacyTLS.CertFile != "" || hLoaded.LegacyTLS.CertKeyFile != "" || hLoaded.LegacyTLS.TrustStoreFile != ""
	if moved {
		vCover("moved-key-used")
		if hLoaded.Strictmode {
			vCover("moved-key-used:strict")
		} else {
			vCover("moved-key-used:lenient")
		}
		vAssert(err != nil, "H20c_core.moved_keys_stop_startup: a moved configuration key (network.certfile/certkeyfile/truststorefile) did not stop start-up")
	} else {
		vCover("no-moved-key")
		vAssert(err == nil, "H20c_core.current_keys_accepted: a configuration without moved keys was refused")
		vAssert(cfg.TLS.Enabled() == (hLoaded.TLS.CertFile != "" || hLoaded.TLS.CertKeyFile != ""), "H20c_core.tls_enabled: TLS is not reported enabled exactly when a certificate or key file is configured")
	}
}

func H20c_core_twin() {
	hLoaded = ServerConfig{}
	hLoaded.LegacyTLS.CertFile = vString(vLen(0, 1))
	if NewServerConfig().Load(nil) == nil {
		vAssert(false, "H20c_core_twin.reach: reachable")
	}
}

// H20c_url: ServerConfig.ServerURL applies the public-URL guard with the configured strict mode (wiring; the guard
// itself is H20a's subject).
func H20c_url() {
	letter := string([]byte{'a' + byte(vRange(0, 25))})
	choice := vChoice(7)
	url := []string{"", "https://" + letter + ".nl", "http://" + letter + ".nl", "https://localhost", "https://10.0.0.1:8443", "https://" + letter + ".test/x", "ftp://" + letter + ".nl"}[choice]
	cfg := NewServerConfig()
	vAssert(cfg.Strictmode, "H20c_url.strict_by_default: strict mode is not the default")
	cfg.Strictmode = vBool()
	cfg.URL = url
	u, err := cfg.ServerURL()
	vAssert((u == nil) != (err == nil), "H20c_url.result_xor_error: both or neither of URL and error")
	if cfg.Strictmode {
		vCover("strict")
		vAssert((err == nil) == (choice == 1), "H20c_url.strict_public_https_only: strict mode accepts exactly the public https URL")
	} else {
		vCover("lenient")
		vAssert((err == nil) == (choice >= 1 && choice <= 5), "H20c_url.lenient_http_or_https: non-strict mode accepts exactly the http(s) URLs with a host")
	}
}

func H20c_url_twin() {
	cfg := NewServerConfig()
	cfg.URL = "https://" + string([]byte{'a' + byte(vRange(0, 25))}) + ".nl"
	if u, err := cfg.ServerURL(); err == nil && u != nil {
		vAssert(false, "H20c_url_twin.reach: reachable")
	}
}
