//go:build verif

package core

// C20 / H20a, H20a2: the public-URL guard core.ParsePublicURL(s, strict).
//
// H20a  quantifies over *structured* URL texts  scheme "://" [userinfo "@"] host [":" port] [tail]  whose pieces are
//       symbolic within an alphabet, so the harness knows - independently of net/url - which scheme and host the text
//       denotes, and judges the verdict of ParsePublicURL against reference predicates over those pieces.
// H20a2 quantifies over "https://" ++ prefix ++ k arbitrary ASCII bytes ++ suffix and judges the verdict against the
//       same reference predicates applied to the URL that ParsePublicURL returned (the value every caller dials).
//
// Reference (written from the property text and the RFCs, not from core/url.go):
//   - IP literal: RFC 3986 IPv4address (four dec-octets, no leading zeros, each <= 255) or an RFC 3986/6874
//     IP-literal in brackets (IPv6 address, optionally with a zone identifier);
//   - reserved: the last label (a single trailing root dot ignored, case-insensitive) is one of the reserved TLDs
//     of RFC 2606 / RFC 6761/6762 / draft-chapin-rfc2606bis-00 that the guard documents, or the last two labels
//     are example.com / example.net / example.org;
//   - the host that is *dialed* is the host after the UTS-46 mapping net/http applies before it connects
//     (net/http.canonicalAddr -> idnaASCIIFromURL -> idna.Lookup.ToASCII): fullwidth forms U+FF01..U+FF5E map to
//     ASCII U+0021..U+007E, and U+3002 / U+FF0E / U+FF61 map to '.'. Only this fragment of UTS-46 is modelled.

// independent copies of the documented lists
var hReservedTLDs = []string{"corp", "example", "home", "host", "invalid", "lan", "local", "localdomain", "localhost", "test"}
var hReservedSLDs = []string{"example.com", "example.net", "example.org"}

func hLowerByte(c byte) byte {
	if c >= 'A' && c <= 'Z' {
		c += 'a' - 'A'
	}
	return c
}

// hEqFold: s equals the lower-case word w, ignoring ASCII case (no early exit: stays one symbolic condition).
func hEqFold(s, w string) bool {
	if len(s) != len(w) {
		return false
	}
	eq := true
	for i := 0; i < len(s); i++ {
		eq = eq && hLowerByte(s[i]) == w[i]
	}
	return eq
}

func hInFold(s string, words []string) bool {
	in := false
	for _, w := range words {
		in = in || hEqFold(s, w)
	}
	return in
}

// hRefDecOctet: RFC 3986 dec-octet.
func hRefDecOctet(l string) bool {
	if len(l) < 1 || len(l) > 3 {
		return false
	}
	ok := true
	v := 0
	for i := 0; i < len(l); i++ {
		ok = ok && l[i] >= '0' && l[i] <= '9'
		v = v*10 + int(l[i]-'0')
	}
	if len(l) > 1 {
		ok = ok && l[0] != '0'
	}
	return ok && v <= 255
}

// hRefIPv4: the labels (host text split on dots) form an RFC 3986 IPv4address.
func hRefIPv4(labels []string) bool {
	if len(labels) != 4 {
		return false
	}
	ok := true
	for _, l := range labels {
		ok = ok && hRefDecOctet(l)
	}
	return ok
}

// hRefReserved: reserved last label / second-level name; one trailing root label is ignored.
func hRefReserved(labels []string) bool {
	n := len(labels)
	if n > 1 && labels[n-1] == "" {
		n--
	}
	if n == 0 || len(labels[n-1]) == 0 {
		return false
	}
	if hInFold(labels[n-1], hReservedTLDs) {
		return true
	}
	if n >= 2 {
		return hInFold(labels[n-2]+"."+labels[n-1], hReservedSLDs)
	}
	return false
}

// hCased returns w (lower-case letters) with symbolic letter case: any mix if len(w) <= full, else one of
// lower / Capitalised / UPPER (per-byte case costs a fork per byte inside strings.ToLower).
func hCased(w string, full int) string {
	b := make([]byte, len(w))
	if len(w) <= full {
		for i := 0; i < len(w); i++ {
			c := vU8()
			vAssume(c == w[i] || (w[i] >= 'a' && w[i] <= 'z' && c == w[i]-32))
			b[i] = c
		}
		return string(b)
	}
	k0 := vRange(0, 1)
	kr := vRange(0, 1)
	vAssume(kr <= k0)
	for i := 0; i < len(w); i++ {
		k := kr
		if i == 0 {
			k = k0
		}
		if w[i] >= 'a' && w[i] <= 'z' {
			b[i] = w[i] - byte(32*k)
		} else {
			b[i] = w[i]
		}
	}
	return string(b)
}

const (
	hLower       = iota // a-z
	hLetters            // a-z A-Z
	hAlnumLower         // a-z 0-9 -
	hAlnumBoth          // a-z A-Z 0-9 - _
	hSchemeChars        // a-z A-Z 0-9 + - .
	hDigits
	hHex      // 0-9 a-f
	hHexUpper // A-F
)

// hSymText: n symbolic bytes of a character class (every class of a byte is a separate path family inside
// net/url, so the classes are kept as narrow as the tier allows).
func hSymText(n int, class int) string {
	b := make([]byte, n)
	for i := 0; i < n; i++ {
		c := vU8()
		lower := c >= 'a' && c <= 'z'
		upper := c >= 'A' && c <= 'Z'
		digit := c >= '0' && c <= '9'
		switch class {
		case hLower:
			vAssume(lower)
		case hLetters:
			vAssume(lower || upper)
		case hAlnumLower:
			vAssume(lower || digit || c == '-')
		case hAlnumBoth:
			vAssume(lower || upper || digit || c == '-' || c == '_')
		case hSchemeChars:
			vAssume(lower || upper || digit || c == '+' || c == '-' || c == '.')
		case hDigits:
			vAssume(digit)
		case hHex:
			vAssume(digit || c >= 'a' && c <= 'f')
		case hHexUpper:
			vAssume(c >= 'A' && c <= 'F')
		}
		b[i] = c
	}
	return string(b)
}

// hWide: UTF-8 of the fullwidth form U+FF00+(c-0x20) of the ASCII character c (0x21..0x7E).
func hWide(c byte) string {
	if c < 0x60 {
		return string([]byte{0xEF, 0xBC, 0x80 + (c - 0x20)})
	}
	return string([]byte{0xEF, 0xBD, 0x80 + (c - 0x60)})
}

type hHost struct {
	text     string   // as written in the URL (with brackets for IP-literals)
	hostname string   // what url.URL.Hostname() must return (brackets stripped, zone unescaped)
	labels   []string // ASCII image of the dialed host split on dots (nil for bracketed literals)
	ipv6     bool     // bracketed IPv6 literal (all generated bodies are valid IPv6 addresses)
	zone     bool
	mapped   bool // contains characters that net/http maps to ASCII before dialing
	plain    bool // non-empty labels only, no trailing dot: the converse (must be accepted) applies
}

func hJoin(labels []string) string {
	s := ""
	for i, l := range labels {
		if i > 0 {
			s += "."
		}
		s += l
	}
	return s
}

// hGenRegName: [label "."]* last-label ["."], the last label arbitrary, a reserved TLD or a reserved second-level name.
// Symbolic bytes: labels a-z (wide > 0: a-z 0-9 -), last label a-z A-Z.
func hGenRegName() hHost {
	labelClass, tldClass := hLower, hLetters
	if vParam("wide", 0) > 0 {
		labelClass = hAlnumLower
	}
	var labels []string
	plain := true
	nl := vLen(0, vParam("labels", 1))
	for i := 0; i < nl; i++ {
		l := hSymText(vLen(0, vParam("lab", 1)), labelClass)
		if len(l) == 0 {
			plain = false
		}
		labels = append(labels, l)
	}
	switch vChoice(3) {
	case 0: // arbitrary last label
		l := hSymText(vLen(0, vParam("tld", 3)), tldClass)
		if len(l) == 0 {
			plain = false
		}
		labels = append(labels, l)
	case 1:
		vCover("gen:reserved-tld")
		labels = append(labels, hCased(hReservedTLDs[vChoice(len(hReservedTLDs))], vParam("fullcase", 3)))
	case 2:
		vCover("gen:reserved-sld")
		labels = append(labels, hCased("example", 0), hCased([]string{"com", "net", "org"}[vChoice(3)], vParam("fullcase", 3)-1))
	}
	if vBool() {
		vCover("gen:trailing-dot")
		labels = append(labels, "")
		plain = false
	}
	t := hJoin(labels)
	return hHost{text: t, hostname: t, labels: labels, plain: plain}
}

// hGenRepresentative: a few fixed-shape hosts, used where another part of the URL text is varied.
func hGenRepresentative() hHost {
	switch vChoice(6) {
	case 0:
		l := []string{hSymText(1, hLower), "nl"}
		return hHost{text: hJoin(l), hostname: hJoin(l), labels: l, plain: true}
	case 1:
		l := []string{hCased("localhost", 0)}
		return hHost{text: l[0], hostname: l[0], labels: l, plain: true}
	case 2:
		l := []string{"www", "example", "org"}
		return hHost{text: hJoin(l), hostname: hJoin(l), labels: l, plain: true}
	case 3:
		l := []string{"10", hSymText(1, hDigits), "0", "1"}
		return hHost{text: hJoin(l), hostname: hJoin(l), labels: l, plain: true}
	case 4:
		return hHost{text: "[::1]", hostname: "::1", ipv6: true}
	}
	return hHost{}
}

func hGenIPv4() hHost {
	var labels []string
	shape := [][4]int{{1, 1, 1, 1}, {3, 1, 1, 1}, {2, 2, 2, 2}, {1, 1, 1, 3}, {3, 3, 3, 3}}[vChoice(vParam("v4shapes", 2))]
	for i := 0; i < 4; i++ {
		labels = append(labels, hSymText(shape[i], hDigits))
	}
	t := hJoin(labels)
	return hHost{text: t, hostname: t, labels: labels, plain: true}
}

func hGenIPv6() hHost {
	h := func() string { return hSymText(1, hHex) }
	var body string
	switch vChoice(vParam("v6shapes", 5)) {
	case 0:
		body = "::1"
	case 1:
		body = "::"
	case 2:
		body = h() + "::" + h()
	case 3:
		body = "fe80::" + h()
	case 4:
		body = "::ffff:" + hSymText(1, hDigits) + "." + hSymText(1, hDigits) + "." + hSymText(1, hDigits) + "." + hSymText(1, hDigits)
	case 5:
		body = h() + ":" + hSymText(1, hHexUpper) + ":0:0:0:0:0:" + h()
	case 6:
		body = h() + hSymText(1, hHexUpper) + "0" + h() + "::"
	}
	host := hHost{ipv6: true}
	zl := vLen(0, vParam("zone", 1))
	if zl > 0 {
		z := hSymText(zl, hLower)
		host.zone = true
		host.text = "[" + body + "%25" + z + "]"
		host.hostname = body + "%" + z
	} else {
		host.text = "[" + body + "]"
		host.hostname = body
	}
	return host
}

// hGenMapped: hosts written with characters that net/http maps to ASCII (UTS-46) before it dials.
func hGenMapped() hHost {
	var labels []string
	switch vChoice(5) {
	case 0:
		labels = []string{hSymText(1, hDigits), hSymText(1, hDigits), hSymText(1, hDigits), hSymText(1, hDigits)}
	case 1:
		labels = []string{"127", "0", "0", "1"}
	case 2:
		labels = []string{"localhost"}
	case 3:
		labels = []string{"a", "example", "com"}
	case 4:
		labels = []string{hSymText(1, hLower), "nl"} // harmless
	}
	text := ""
	switch vChoice(4) {
	case 0: // every character in its fullwidth form, dots included
		for i, l := range labels {
			if i > 0 {
				text += hWide('.')
			}
			for j := 0; j < len(l); j++ {
				text += hWide(l[j])
			}
		}
	case 1: // ASCII labels, ideographic full stop U+3002 as separator
		for i, l := range labels {
			if i > 0 {
				text += "\xe3\x80\x82"
			}
			text += l
		}
		if len(labels) == 1 { // no separator to replace: widen the first character instead
			text = hWide(labels[0][0]) + labels[0][1:]
		}
	case 2: // halfwidth ideographic full stop U+FF61 as separator
		for i, l := range labels {
			if i > 0 {
				text += "\xef\xbd\xa1"
			}
			text += l
		}
		if len(labels) == 1 {
			text = labels[0][:len(labels[0])-1] + hWide(labels[0][len(labels[0])-1])
		}
	case 3: // only the last label in fullwidth form
		for i, l := range labels {
			if i > 0 {
				text += "."
			}
			if i == len(labels)-1 {
				for j := 0; j < len(l); j++ {
					text += hWide(l[j])
				}
			} else {
				text += l
			}
		}
	}
	return hHost{text: text, hostname: text, labels: labels, mapped: true}
}

// H20a: see file comment. Three sub-spaces: the host varied (scheme http/https), the scheme varied (representative
// hosts), the text around the host varied (representative hosts).
func H20a() {
	scheme := "https"
	var host hHost
	pre, post := "", ""
	switch vChoice(3) {
	case 0:
		vCover("space:host")
		if vParam("httphost", 0) > 0 && vBool() {
			scheme = "http"
		}
		switch vChoice(4) {
		case 0:
			vCover("kind:reg-name")
			host = hGenRegName()
		case 1:
			vCover("kind:ipv4")
			host = hGenIPv4()
		case 2:
			vCover("kind:ipv6")
			host = hGenIPv6()
		case 3:
			vCover("kind:idna-mapped")
			host = hGenMapped()
		}
	case 1:
		vCover("space:scheme")
		switch vChoice(3) {
		case 0:
			scheme = hCased("https", 0)
		case 1:
			scheme = hCased("http", 0)
		case 2:
			scheme = hSymText(vLen(0, vParam("sch", 2)), hSchemeChars)
		}
		host = hGenRepresentative()
	case 2:
		vCover("space:decoration")
		host = hGenRepresentative()
		// text around the host that does not change which host the URL denotes
		switch vChoice(6) {
		case 0:
			post = ":" + hSymText(vLen(0, 2), hDigits)
		case 1:
			post = "/" + hSymText(1, hAlnumBoth)
		case 2:
			post = "?" + hSymText(1, hAlnumBoth)
		case 3:
			post = "#" + hSymText(1, hAlnumBoth)
		case 4:
			pre = hSymText(1, hAlnumBoth) + "@"
		case 5:
			pre = hSymText(1, hLower) + ":" + hSymText(1, hLower) + "@"
			post = ":" + hSymText(1, hDigits) + "/" + hSymText(1, hLower) + "?" + hSymText(1, hLower) + "#" + hSymText(1, hLower)
		}
	}
	isHTTPS := hEqFold(scheme, "https")
	isHTTP := hEqFold(scheme, "http")
	s := scheme + "://" + pre + host.text + post

	hasHost := host.hostname != ""
	isIP := host.ipv6 || hRefIPv4(host.labels)
	reserved := !host.ipv6 && hRefReserved(host.labels)

	strict := vBool()
	u, err := ParsePublicURL(s, strict)
	accepted := err == nil
	if accepted {
		vAssert(u != nil, "H20a.accept_returns_url: accepted but no URL returned")
		vAssert(hEqFold(u.Scheme, "https") == isHTTPS && hEqFold(u.Scheme, "http") == isHTTP, "H20a.result_scheme: returned URL has another scheme than the input text")
		vAssert(u.Hostname() == host.hostname, "H20a.result_host: returned URL names another host than the input text")
	}
	if strict {
		if accepted {
			vCover("strict:accepted")
			vAssert(isHTTPS, "H20a.strict_https_only: strict mode accepted a public URL whose scheme is not https")
			vAssert(hasHost, "H20a.strict_has_host: strict mode accepted a public URL without host")
			if isIP {
				switch {
				case host.zone:
					vClass("IPv6 literal with zone identifier")
				case host.ipv6:
					vClass("IPv6 literal")
				case host.mapped:
					vClass("IPv4 address written with characters net/http maps to ASCII (UTS-46)")
				default:
					vClass("IPv4 address")
				}
				vAssert(false, "H20a.strict_host_not_ip: strict mode accepted a public URL whose host is an IP address")
			}
			if reserved {
				if host.mapped {
					vClass("reserved name written with characters net/http maps to ASCII (UTS-46)")
				} else {
					vClass("reserved name")
				}
				vAssert(false, "H20a.strict_host_not_reserved: strict mode accepted a public URL whose host is a reserved name")
			}
		} else {
			vCover("strict:rejected")
			if isHTTPS && hasHost && !isIP && !reserved && host.plain && !host.mapped {
				vAssert(false, "H20a.strict_accepts_public_https: strict mode rejected an https URL with a public, non-reserved host name")
			}
		}
	} else {
		if accepted {
			vCover("lenient:accepted")
			vAssert(isHTTP || isHTTPS, "H20a.lenient_only_http_https: non-strict mode accepted a scheme other than http/https")
			vAssert(hasHost, "H20a.lenient_has_host: non-strict mode accepted a URL without host")
			if isIP {
				vCover("lenient:accepted-ip")
			}
			if reserved {
				vCover("lenient:accepted-reserved")
			}
		} else {
			vCover("lenient:rejected")
			vAssert(!((isHTTP || isHTTPS) && hasHost), "H20a.lenient_accepts_http_https: non-strict mode rejected an http(s) URL with a host")
		}
	}
}

func H20a_twin() {
	u, err := ParsePublicURL("https://"+hSymText(2, hLower)+"."+hSymText(2, hLetters), true)
	if err == nil && u.Hostname() != "" {
		vAssert(false, "H20a_twin.reach: reachable")
	}
}

// ---- H20a2: arbitrary bytes ---------------------------------------------------------------------------------

// hSplitDots: reference split of a host name on '.'.
func hSplitDots(h string) []string {
	var out []string
	start := 0
	for i := 0; i < len(h); i++ {
		if h[i] == '.' {
			out = append(out, h[start:i])
			start = i + 1
		}
	}
	return append(out, h[start:])
}

func hHasColon(h string) bool {
	for i := 0; i < len(h); i++ {
		if h[i] == ':' {
			return true
		}
	}
	return false
}

// H20a2: "https://" ++ pre ++ k arbitrary ASCII bytes ++ suf. Whatever the bytes make of the text (user info, port,
// path, query, fragment, escapes, brackets): the URL that strict mode returns - the value every caller dials - must
// be https and must not name an IP address or a reserved host; non-strict mode must return an https URL with a host.
func H20a2() {
	pre, suf := "", ""
	switch vChoice(9) {
	case 0:
	case 1:
		suf = "localhost"
	case 2:
		suf = ".test"
	case 3:
		suf = "example.com"
	case 4:
		pre, suf = "[::1", "]"
	case 5:
		pre = "127.0.0."
	case 6:
		pre = "localhost"
	case 7:
		pre = "nuts.nl"
	case 8:
		pre, suf = "[::1%25", "]"
	}
	k := vLen(0, vParam("k", 2))
	mid := vString(k)
	for i := 0; i < k; i++ {
		vAssume(mid[i] < 0x80)
	}
	s := "https://" + pre + mid + suf
	strict := vBool()
	u, err := ParsePublicURL(s, strict)
	if err != nil {
		vCover("rejected")
		return
	}
	vAssert(u != nil && u.Scheme == "https", "H20a2.result_scheme: returned URL is not https although the text starts with https://")
	h := u.Hostname()
	vAssert(h != "", "H20a2.has_host: accepted a URL without host")
	if !strict {
		vCover("lenient:accepted")
		return
	}
	vCover("strict:accepted")
	if hHasColon(h) {
		// only a bracketed literal can contain ':'. Judged only where the harness knows it to be a valid address.
		if h == "::1" || (len(h) > 4 && h[:4] == "::1%") {
			if len(h) > 3 {
				vClass("IPv6 literal with zone identifier")
			} else {
				vClass("IPv6 literal")
			}
			vAssert(false, "H20a2.strict_host_not_ip: strict mode accepted a public URL whose host is an IP address")
		}
		vCover("strict:accepted-bracketed-other")
		return
	}
	labels := hSplitDots(h)
	if hRefIPv4(labels) {
		vClass("IPv4 address")
		vAssert(false, "H20a2.strict_host_not_ip: strict mode accepted a public URL whose host is an IP address")
	}
	if hRefReserved(labels) {
		vClass("reserved name")
		vAssert(false, "H20a2.strict_host_not_reserved: strict mode accepted a public URL whose host is a reserved name")
	}
}

func H20a2_twin() {
	u, err := ParsePublicURL("https://nuts.nl/"+string([]byte{'a' + byte(vRange(0, 25))}), true)
	if err == nil && u.Path != "" {
		vAssert(false, "H20a2_twin.reach: reachable")
	}
}
