//go:build verif

package core

import (
	"net"
	"strings"
)

func hWide(c byte) string {
	// fullwidth form U+FF00+(c-0x20): EF BC 80+(c-0x20) for c<0x60 ; EF BD 80+(c-0x60) otherwise
	if c < 0x60 {
		return string([]byte{0xEF, 0xBC, 0x80 + (c - 0x20)})
	}
	return string([]byte{0xEF, 0xBD, 0x80 + (c - 0x60)})
}

func HpWide() {
	n := vParam("n", 2)
	s := ""
	for i := 0; i < n; i++ {
		c := vU8()
		vAssume(c >= 'a' && c <= 'z' || c >= '0' && c <= '9' || c >= 'A' && c <= 'Z')
		s += hWide(c)
	}
	if strings.ToLower(s) == "ab" {
		vCover("res")
	}
	if net.ParseIP(s) != nil {
		vCover("ip")
	}
}
