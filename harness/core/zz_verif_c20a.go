//go:build verif

package core

func H20probe() {
	n := vLen(0, vParam("n", 3))
	s := "https://" + vString(n)
	strict := vBool()
	u, err := ParsePublicURL(s, strict)
	if err == nil {
		vCover("accepted")
		vAssert(u != nil, "H20probe.nonnil: nil url")
	} else {
		vCover("rejected")
	}
}

func H20probe_twin() {
	u, err := ParsePublicURL("https://"+vString(2), true)
	if err == nil && u != nil {
		vAssert(false, "H20probe_twin.reach: reachable")
	}
}
