//go:build verif

package core

import (
	"github.com/knadh/koanf/v2"
	"github.com/spf13/pflag"
)

// The koanf merge of the flag values (reflection) is not the subject: loading succeeds.
//verif:stub (*github.com/knadh/koanf/v2.Koanf).Load => hKoanfLoad

// pflag.CommandLine = NewFlagSet(os.Args[0], ...) cannot be initialised (no os.Args in the engine); it is not used here.
//verif:initok github.com/spf13/pflag

func hKoanfLoad(ko *koanf.Koanf, p koanf.Provider, pa koanf.Parser, opts ...koanf.Option) error {
	return nil
}

// H20g: "secrets on the command line are refused" (core/config.go:loadFromFlagSet). A real pflag.FlagSet with
// nflags flags whose names sort before, between and after the secret ones; every flag is set on the command
// line or not (every combination): loading fails iff some flag whose name ends in "token" or "password" was
// set, whatever else was set and wherever the secret flag sorts.
func H20g() {
	names := []string{"auth.accesstokenlifespan", "crypto.vault.token", "datadir", "storage.redis.password", "strictmode", "url", "zz.sentinel.password"}
	secret := []bool{false, true, false, true, false, false, true}
	n := vParam("nflags", 7)
	if n > len(names) {
		n = len(names)
	}
	flags := pflag.NewFlagSet("test", pflag.ContinueOnError)
	for i := 0; i < n; i++ {
		flags.String(names[i], "default", "usage")
	}
	anySecretSet, anySet := false, false
	for i := 0; i < n; i++ {
		vTag("set")
		if vBool() {
			err := flags.Set(names[i], "value")
			vAssert(err == nil, "H20g.flag_settable: harness could not set a flag")
			anySet = true
			anySecretSet = anySecretSet || secret[i]
		}
	}
	err := loadFromFlagSet(koanf.New("."), flags)
	if anySecretSet {
		vCover("secret-on-command-line")
		vAssert(err != nil, "H20g.secret_flag_refused: a secret set on the command line was accepted")
	} else {
		vCover("no-secret-on-command-line")
		vAssert(err == nil, "H20g.plain_flags_accepted: command line without secrets was refused")
	}
	_ = anySet
}

func H20g_twin() {
	flags := pflag.NewFlagSet("test", pflag.ContinueOnError)
	flags.String("crypto.vault.token", "", "usage")
	flags.String("url", "", "usage")
	_ = flags.Set("crypto.vault.token", "x")
	_ = flags.Set("url", "y")
	if err := loadFromFlagSet(koanf.New("."), flags); err != nil {
		vAssert(false, "H20g_twin.reach: reachable")
	}
}
