//go:build verif

package storage

// C20 / H20c_storage: storage.Configure -> initSQLDatabase. Strict mode refuses an implicit (empty)
// storage.sql.connection before a SQL connection is opened; with strict mode off the same setting passes the guard and
// the SQLite database in the data directory is opened; an explicit connection string is opened in either mode.
// Stubbed (recording): the data directory probe, the BBolt database, goose.OpenDBWithDriver (returns an error, so the
// run ends right after the guard: gorm, the SQL drivers and the migrations are not interpreted).

import (
	"database/sql"
	"errors"
	"sync"

	"github.com/nuts-foundation/go-stoabs"
	"github.com/nuts-foundation/nuts-node/core"
)

//verif:stub github.com/nuts-foundation/nuts-node/storage.confirmWriteAccess => hConfirmWriteAccess
//verif:stub github.com/nuts-foundation/nuts-node/storage.createBBoltDatabase => hCreateBBolt
//verif:stub github.com/pressly/goose/v3.OpenDBWithDriver => hOpenDB

var (
	hEvents   []string
	hDriver   string
	hDBString string
)

var hErrStop = errors.New("harness: no SQL driver")

func hConfirmWriteAccess(datadir string) error {
	hEvents = append(hEvents, "datadir")
	return nil
}

func hCreateBBolt(datadir string, config BBoltConfig) (*bboltDatabase, error) {
	hEvents = append(hEvents, "bbolt")
	return &bboltDatabase{datadir: datadir, config: config}, nil
}

func hOpenDB(driver string, dbstring string) (*sql.DB, error) {
	hEvents = append(hEvents, "sql-open")
	hDriver, hDBString = driver, dbstring
	return nil, hErrStop
}

func hHas(ev string) bool {
	for _, e := range hEvents {
		if e == ev {
			return true
		}
	}
	return false
}

func H20c_storage() {
	prefix := []string{"", "sqlite:", "mysql://", "postgres://", "sqlserver://", "azuresql://"}[vChoice(6)]
	vTag("connection")
	conn := prefix + vString(vLen(0, vParam("tail", 2)))
	strict := vBool()
	datadir := "/d" + string([]byte{'a' + byte(vRange(0, 3))})
	e := &engine{storesMux: &sync.Mutex{}, stores: map[string]stoabs.Store{}, config: DefaultConfig()}
	e.config.SQL.ConnectionString = conn
	err := e.Configure(core.ServerConfig{Strictmode: strict, Datadir: datadir})
	vAssert(err != nil, "H20c_storage.stub_stops: Configure went past the stubbed SQL driver")
	opened := hHas("sql-open")
	if conn == "" {
		if strict {
			vCover("strict:implicit")
			vAssert(!opened, "H20c_storage.strict_implicit_refused: strict mode opened a SQL database although storage.sql.connection is not set")
			vAssert(!errors.Is(err, hErrStop), "H20c_storage.strict_implicit_refused_error: the refusal is not reported by the guard")
		} else {
			vCover("lenient:implicit")
			vAssert(opened && hDriver == "sqlite", "H20c_storage.lenient_implicit_sqlite: non-strict mode did not fall back to SQLite")
			vAssert(hDBString == "file:"+datadir+"/sqlite.db?_pragma=foreign_keys(1)&journal_mode(WAL)", "H20c_storage.lenient_sqlite_in_datadir: the default SQLite database is not the one in the data directory")
		}
		return
	}
	vCover("explicit")
	vAssert(opened, "H20c_storage.explicit_accepted: an explicit connection string was not opened (strict or not)")
	if prefix != "" {
		vCover("explicit:known-driver")
		vAssert(hDriver+":" == prefix || hDriver+"://" == prefix, "H20c_storage.explicit_driver: the driver is not the one named by the connection string")
	}
}

func H20c_storage_twin() {
	e := &engine{storesMux: &sync.Mutex{}, stores: map[string]stoabs.Store{}, config: DefaultConfig()}
	e.config.SQL.ConnectionString = vString(1)
	err := e.Configure(core.ServerConfig{Strictmode: true, Datadir: "/d"})
	if errors.Is(err, hErrStop) && hHas("sql-open") {
		vAssert(false, "H20c_storage_twin.reach: reachable")
	}
}
