//go:build verif

package storage

import (
	"context"
	"time"

	"github.com/eko/gocache/lib/v4/cache"
	"github.com/eko/gocache/lib/v4/store"
)

// hStore is a cache back end (store.StoreInterface) whose Get/Set/Delete are atomic steps and
// scheduling points. Delete of a missing key succeeds (as go-cache and Redis DEL do) unless
// deleteMissFails is set (memcached reports a cache miss).
type hStore struct {
	store.StoreInterface
	entries         []hStoreEntry
	deleteMissFails bool
	ttls            []time.Duration
}

type hStoreEntry struct {
	key string
	val any
}

func (s *hStore) Get(ctx context.Context, key any) (any, error) {
	vYield()
	vAtomicBegin()
	defer vAtomicEnd()
	for _, e := range s.entries {
		if e.key == key.(string) {
			return e.val, nil
		}
	}
	return nil, store.NotFoundWithCause(nil)
}

func (s *hStore) Set(ctx context.Context, key any, value any, options ...store.Option) error {
	vYield()
	vAtomicBegin()
	defer vAtomicEnd()
	o := store.ApplyOptions(options...)
	s.ttls = append(s.ttls, o.Expiration)
	for i := range s.entries {
		if s.entries[i].key == key.(string) {
			s.entries[i].val = value
			return nil
		}
	}
	s.entries = append(s.entries, hStoreEntry{key.(string), value})
	return nil
}

func (s *hStore) Delete(ctx context.Context, key any) error {
	vYield()
	vAtomicBegin()
	defer vAtomicEnd()
	for i := range s.entries {
		if s.entries[i].key == key.(string) {
			s.entries = append(s.entries[:i:i], s.entries[i+1:]...)
			return nil
		}
	}
	if s.deleteMissFails {
		return store.NotFoundWithCause(nil)
	}
	return nil
}

func (s *hStore) GetType() string { return "harness" }

// H05a: a one-time value redeemed with the real SessionStoreImpl.GetAndDelete by n concurrent
// requests: at most one redemption succeeds, under every schedule of the store operations.
func H05a() {
	back := &hStore{}
	if vParam("memcached", 0) == 1 {
		back.deleteMissFails = vBool()
	}
	// the real in-memory session database over the fake cache back end; like the request handlers,
	// every request obtains its own store handle with GetStore
	db := &InMemorySessionDatabase{underlying: cache.New[[]byte](back)}
	vAssert(db.GetStore(time.Minute, "oauth", "code").Put("c", "session") == nil, "H05a.put: cannot store the one-time value")

	n := vParam("threads", 2)
	ok := make([]bool, n)
	for i := 0; i < n; i++ {
		i := i
		vGo(func() {
			st := db.GetStore(time.Minute, "oauth", "code")
			var target string
			if err := st.GetAndDelete("c", &target); err == nil {
				vAssert(target == "session", "H05a.value: redeemed value differs from the stored one")
				ok[i] = true
			}
		})
	}
	vWait()
	successes := 0
	for _, b := range ok {
		if b {
			successes++
		}
	}
	if successes >= 1 {
		vCover("redeemed")
	}
	vClass("GetAndDelete/Get||Get")
	vAssert(successes <= 1, "H05a.at_most_once: two concurrent redemptions of one one-time value both succeeded")
	vAssert(successes >= 1, "H05a.at_least_once: a stored one-time value could not be redeemed by anyone")
	// and it is gone afterwards
	var again string
	vAssert(db.GetStore(time.Minute, "oauth", "code").GetAndDelete("c", &again) != nil, "H05a.sequential_replay: a redeemed one-time value was honoured again")
}

func H05a_twin() {
	back := &hStore{}
	db := &InMemorySessionDatabase{underlying: cache.New[[]byte](back)}
	st := db.GetStore(time.Minute, "x")
	_ = st.Put("c", "v")
	n := 0
	vGo(func() {
		var t string
		if st.GetAndDelete("c", &t) == nil {
			n++
		}
	})
	vWait()
	if n == 1 {
		vAssert(false, "H05a_twin.reach: reachable")
	}
}
