//go:build verif

package oauth

import (
	"context"
	"crypto"
	"errors"
	"fmt"
	"strings"
	"time"

	"github.com/lestrrat-go/jwx/v2/jwa"
	"github.com/lestrrat-go/jwx/v2/jws"
	"github.com/lestrrat-go/jwx/v2/jwt"
	"github.com/nuts-foundation/go-did/vc"
	"github.com/nuts-foundation/nuts-node/jsonld"
	"github.com/nuts-foundation/nuts-node/vcr"
	"github.com/nuts-foundation/nuts-node/vdr/resolver"
	"github.com/piprate/json-gold/ld"
)

// C17, slice r4jwx (4): auth/services/oauth/authz_server.go - the v1 JWT bearer grant:
// parseAndValidateJwtBearerToken + validateIssuer in the order validateAccessTokenRequest runs them,
// through the real crypto.ParseJWT / JWTKidAlg / jwx.IsAlgorithmSupported.

func hgAsymmetricJWA(s string) bool {
	switch s {
	case "RS256", "RS384", "RS512",
		"ES256", "ES384", "ES512", "ES256K",
		"PS256", "PS384", "PS512",
		"EdDSA":
		return true
	}
	return false
}

//verif:stub github.com/lestrrat-go/jwx/v2/jws.ParseString => hgJWSParseString
//verif:stub github.com/lestrrat-go/jwx/v2/jwt.ParseString => hgJWTParseString
//verif:stub (github.com/nuts-foundation/nuts-node/jsonld.Reader).Read => hgRead

// hgRead: the organisation credential found for the requester expands to a document with a name and a
// city (JSON-LD expansion itself is out of scope here): a document whose every path yields "org".
func hgRead(r jsonld.Reader, source interface{}) (jsonld.Document, error) {
	return jsonld.Document{"org"}, nil
}

type hgHeaders struct {
	jws.Headers
	alg, kid string
}

func (h *hgHeaders) Algorithm() jwa.SignatureAlgorithm { return jwa.SignatureAlgorithm(h.alg) }
func (h *hgHeaders) KeyID() string                     { return h.kid }

var hgJWSFail bool
var hgSigs []*hgHeaders
var hgParseArgs []string

func hgJWSParseString(src string) (*jws.Message, error) {
	hgParseArgs = append(hgParseArgs, src)
	if hgJWSFail {
		return nil, errors.New("harness: not a JWS")
	}
	m := jws.NewMessage()
	for _, h := range hgSigs {
		m.AppendSignature(jws.NewSignature().SetProtectedHeaders(h))
	}
	return m, nil
}

type hgToken struct {
	jwt.Token
	iss string
}

func (t *hgToken) Issuer() string      { return t.iss }
func (t *hgToken) IssuedAt() time.Time { return time.Unix(1000, 0).UTC() }

type hgJWTCall struct {
	s      string
	algs   []string
	keys   []interface{}
	verify bool
}

var hgJWTCalls []hgJWTCall
var hgVerifies bool
var hgTheToken *hgToken

func hgJWTParseString(s string, options ...jwt.ParseOption) (jwt.Token, error) {
	call := hgJWTCall{s: s, verify: true}
	for _, o := range options {
		id := fmt.Sprintf("%T", o.Ident())
		if strings.HasSuffix(id, "jwt.identKey") {
			a, _ := vGetField(o.Value(), "alg").(jwa.SignatureAlgorithm)
			call.algs = append(call.algs, string(a))
			call.keys = append(call.keys, vGetField(o.Value(), "key"))
		} else if strings.HasSuffix(id, "jwt.identVerify") {
			call.verify = o.Value().(bool)
		}
	}
	hgJWTCalls = append(hgJWTCalls, call)
	if !call.verify || hgVerifies {
		return hgTheToken, nil
	}
	return nil, errors.New("harness: could not verify message using any of the signatures or keys")
}

// resolver.KeyResolver contract: ResolveKeyByID looks up the key with that id - in the DID document of
// the DID the key id itself names - for the given relation; the resolver knows nothing of the JWT's iss.
type hgPub struct{ kid string }

type hgResolveCall struct {
	kid string
	rel resolver.RelationType
	ok  bool
}

type hgKeyResolver struct {
	resolver.KeyResolver
	calls []hgResolveCall
}

func (r *hgKeyResolver) ResolveKeyByID(keyID string, metadata *resolver.ResolveMetadata, relationType resolver.RelationType) (crypto.PublicKey, error) {
	vTag("keyFound")
	ok := vBool()
	r.calls = append(r.calls, hgResolveCall{kid: keyID, rel: relationType, ok: ok})
	if !ok {
		return nil, resolver.ErrKeyNotFound
	}
	return hgPub{kid: keyID}, nil
}

type hgFinder struct {
	vcr.Finder
	subjects []string
}

func (f *hgFinder) Search(ctx context.Context, searchTerms []vcr.SearchTerm, allowUntrusted bool, resolveTime *time.Time) ([]vc.VerifiableCredential, error) {
	for _, t := range searchTerms {
		if s, ok := t.Value.(string); ok {
			f.subjects = append(f.subjects, s)
		}
	}
	return []vc.VerifiableCredential{{}}, nil
}

type hgJSONLD struct{ jsonld.JSONLD }

func (hgJSONLD) DocumentLoader() ld.DocumentLoader { return nil }

func hgBeforeHash(s string) string {
	for i := 0; i < len(s); i++ {
		if s[i] == '#' {
			return s[:i]
		}
	}
	return s
}

// H17g: the requester of a v1 bearer grant is established (both steps succeed) => the token carries
// exactly one signature with an algorithm of the asymmetric reference set, the received string was
// verified with the key resolved for the kid of that signature, and that kid is a key OF THE ISSUER:
// the DID it names (everything before '#') is the token's iss - the DID that becomes the requester.
// iss and kid are drawn from concrete representatives (two DIDs, a non-DID, an empty kid).
func H17g() {
	vTag("parseFails")
	hgJWSFail = vBool()
	n := vLen(0, vParam("maxsigs", 2))
	kids := []string{"did:nuts:a#k", "did:nuts:b#k", "did:nuts:a", ""}
	for i := 0; i < n; i++ {
		h := &hgHeaders{}
		vTag("alg")
		h.alg = vString(5)
		h.kid = kids[vChoice(len(kids))]
		hgSigs = append(hgSigs, h)
	}
	vTag("verifies")
	hgVerifies = vBool()
	iss := []string{"did:nuts:a", "did:nuts:b", "x"}[vChoice(3)]
	hgTheToken = &hgToken{iss: iss}
	kr := &hgKeyResolver{}
	fi := &hgFinder{}
	s := &authzServer{keyResolver: kr, vcFinder: fi, jsonldManager: hgJSONLD{}}
	vctx := &validationContext{rawJwtBearerToken: "tok"}

	err := s.parseAndValidateJwtBearerToken(vctx)
	if err == nil {
		vCover("signature-accepted")
		err = s.validateIssuer(vctx)
	}
	for _, a := range hgParseArgs {
		vAssert(a == "tok", "H17g.parses_received_bytes: the headers inspected are not those of the received bearer token")
	}
	if err != nil {
		vCover("rejected")
		found := true
		for _, c := range kr.calls {
			found = found && c.ok
		}
		if !hgJWSFail && n == 1 && hgVerifies && found {
			h := hgSigs[0]
			vAssert(!(h.alg == "ES256" && h.kid == "did:nuts:a#k" && iss == "did:nuts:a"), "H17g.clean_grant_accepted: rejected a single-signature ES256 grant signed with a key of its issuer")
		}
		return
	}
	vCover("accepted")
	vAssert(!hgJWSFail && n == 1, "H17g.exactly_one_signature: accepted a bearer grant that does not carry exactly one signature")
	if n != 1 {
		return
	}
	h := hgSigs[0]
	vAssert(hgAsymmetricJWA(h.alg), "H17g.alg_asymmetric: accepted a bearer grant whose alg is outside the asymmetric reference set")
	vAssert(len(hgJWTCalls) == 1 && len(kr.calls) >= 1, "H17g.verified_once: accepted a bearer grant without key resolution and exactly one verification")
	if len(hgJWTCalls) != 1 || len(kr.calls) < 1 {
		return
	}
	c := hgJWTCalls[0]
	vAssert(c.s == "tok" && c.verify && hgVerifies, "H17g.signature_verifies: accepted a bearer grant whose received bytes were not verified successfully")
	vAssert(kr.calls[0].kid == h.kid && kr.calls[0].ok, "H17g.key_for_kid_of_signature: the key resolver was not asked (successfully) for the kid of the signature's protected header")
	vAssert(len(c.keys) == 1 && c.keys[0] == interface{}(hgPub{kid: h.kid}), "H17g.verified_with_resolved_key: bearer grant verified with a key other than the one resolved for its kid")
	vAssert(len(c.algs) == 1 && c.algs[0] == h.alg, "H17g.verified_with_header_alg: bearer grant verified under another algorithm than the one that passed the allow-list")
	for _, k := range kr.calls {
		vAssert(k.kid == h.kid && k.ok && k.rel == resolver.AssertionMethod, "H17g.only_signer_key_resolved: a key other than the signer's assertion key was resolved, or resolution failed")
	}
	vAssert(vctx.requester != nil && vctx.requester.String() == iss, "H17g.requester_is_iss: the requester established is not the token's iss")
	vAssert(len(fi.subjects) == 1 && fi.subjects[0] == iss, "H17g.organization_of_iss: organisation credentials were not searched for the token's iss")
	if hgBeforeHash(h.kid) != iss {
		vClass("signed with a key of another DID than iss")
	}
	vAssert(hgBeforeHash(h.kid) == iss, "H17g.key_of_issuer_did: accepted a bearer grant signed with a key that does not belong to the DID named in iss (the requester)")
}

func H17g_twin() {
	h := &hgHeaders{alg: vString(5), kid: "did:nuts:a#k"}
	hgSigs = []*hgHeaders{h}
	hgVerifies = true
	hgTheToken = &hgToken{iss: "did:nuts:a"}
	s := &authzServer{keyResolver: &hgKeyResolver{}, vcFinder: &hgFinder{}, jsonldManager: hgJSONLD{}}
	vctx := &validationContext{rawJwtBearerToken: "tok"}
	if s.parseAndValidateJwtBearerToken(vctx) == nil && s.validateIssuer(vctx) == nil && h.alg[0] == 'P' && len(vctx.requesterOrganizationIdentities) == 1 {
		vAssert(false, "H17g_twin.reach: reachable")
	}
}
