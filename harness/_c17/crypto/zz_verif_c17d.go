//go:build verif

package crypto

import (
	"context"
	"crypto"
	"errors"
	"fmt"
	"strings"

	"github.com/lestrrat-go/jwx/v2/jwa"
	"github.com/lestrrat-go/jwx/v2/jws"
	"github.com/lestrrat-go/jwx/v2/jwt"
)

// C17, slice r4jwx (1): crypto/jwx.go - JWTKidAlg, ParseJWT, ExtractProtectedHeaders, ParseJWS and the
// key-lookup callback (PublicKeyFunc) they are given.

// hdAsymmetricJWA is the reference set, written down independently of the code under test: every
// digital-signature (asymmetric) "alg" value registered for JWS - RFC 7518 section 3.1 (RS*, ES*, PS*),
// RFC 8037 (EdDSA), RFC 8812 (ES256K).
func hdAsymmetricJWA(s string) bool {
	switch s {
	case "RS256", "RS384", "RS512",
		"ES256", "ES384", "ES512", "ES256K",
		"PS256", "PS384", "PS512",
		"EdDSA":
		return true
	}
	return false
}

// hdForbiddenLookalike: s equals none/HS256/HS384/HS512 after ASCII case folding and removal of
// spaces, tabs, CR, LF and NUL bytes.
func hdForbiddenLookalike(s string) bool {
	var folded []byte
	for i := 0; i < len(s); i++ {
		c := s[i]
		if c == ' ' || c == '\t' || c == '\r' || c == '\n' || c == 0 {
			continue
		}
		if c >= 'A' && c <= 'Z' {
			c += 'a' - 'A'
		}
		folded = append(folded, c)
	}
	switch string(folded) {
	case "none", "hs256", "hs384", "hs512":
		return true
	}
	return false
}

// ---------------------------------------------------------------------------------------------
// jwx stand-ins.
// jws.Parse / jws.ParseString contract (jws/jws.go, jws/message.go): input whose first non-space byte is
// '{' is parsed as JSON serialisation (general: n signatures; flattened: 1), everything else as compact
// serialisation (exactly 1 signature). Signatures come in serialisation order, each with non-nil
// protected headers whose registered parameters are typed (alg jwa.SignatureAlgorithm, kid string).
// jwt.ParseString(s, opts...) contract: when verification is enabled (default; the LAST jwt.WithVerify
// wins) it succeeds iff a signature of s verifies with a key given by jwt.WithKey(alg, key) under alg.
// jws.NewVerifier(alg) contract: a verifier for a registered algorithm, error otherwise.
// jws.Verifier.Verify(data, sig, key): nil iff sig is a signature over exactly data under key.

//verif:stub github.com/lestrrat-go/jwx/v2/jws.ParseString => hdJWSParseString
//verif:stub github.com/lestrrat-go/jwx/v2/jws.Parse => hdJWSParse
//verif:stub github.com/lestrrat-go/jwx/v2/jwt.ParseString => hdJWTParseString
//verif:stub github.com/lestrrat-go/jwx/v2/jws.NewVerifier => hdNewVerifier

type hdHeaders struct {
	jws.Headers
	alg, kid       string
	hasAlg, hasKid bool
	asMapFails     bool
}

func (h *hdHeaders) Algorithm() jwa.SignatureAlgorithm {
	if h.hasAlg {
		return jwa.SignatureAlgorithm(h.alg)
	}
	return ""
}
func (h *hdHeaders) KeyID() string {
	if h.hasKid {
		return h.kid
	}
	return ""
}
func (h *hdHeaders) AsMap(ctx context.Context) (map[string]interface{}, error) {
	if h.asMapFails {
		return nil, errors.New("harness: AsMap failed")
	}
	m := map[string]interface{}{}
	if h.hasAlg {
		m["alg"] = jwa.SignatureAlgorithm(h.alg)
	}
	if h.hasKid {
		m["kid"] = h.kid
	}
	return m, nil
}

type hdSig struct {
	h   *hdHeaders
	sig []byte
}

var hdJWSFail bool
var hdSigs []hdSig
var hdPayload = []byte("payload")
var hdParseArgs []string

func hdMessage() *jws.Message {
	m := jws.NewMessage().SetPayload(hdPayload)
	for _, s := range hdSigs {
		m.AppendSignature(jws.NewSignature().SetProtectedHeaders(s.h).SetSignature(s.sig))
	}
	return m
}

func hdJWSParseString(src string) (*jws.Message, error) {
	hdParseArgs = append(hdParseArgs, src)
	if hdJWSFail {
		return nil, errors.New("harness: not a JWS")
	}
	return hdMessage(), nil
}

func hdJWSParse(src []byte, options ...jws.ParseOption) (*jws.Message, error) {
	return hdJWSParseString(string(src))
}

// hdSymHeaders: alg absent or an arbitrary string of 4, 5 or 6 bytes (none, HS256, ES256, EdDSA, ES256K
// and every other string of those lengths); kid absent or one arbitrary byte.
func hdSymHeaders() *hdHeaders {
	h := &hdHeaders{}
	switch vChoice(4) {
	case 0:
	case 1:
		h.hasAlg = true
		vTag("alg")
		h.alg = vString(4)
	case 2:
		h.hasAlg = true
		vTag("alg")
		h.alg = vString(5)
	case 3:
		h.hasAlg = true
		vTag("alg")
		h.alg = vString(6)
	}
	vTag("hasKid")
	h.hasKid = vBool()
	vTag("kid")
	h.kid = vString(1)
	return h
}

// the key-lookup callback: one distinct key object per kid it is asked for; fails by verdict.
type hdKey struct{ kid string }

type hdLookup struct {
	asked  []string
	failed []bool
}

func (l *hdLookup) f(kid string) (crypto.PublicKey, error) {
	l.asked = append(l.asked, kid)
	vTag("lookupFails")
	fail := vBool()
	l.failed = append(l.failed, fail)
	if fail {
		return nil, errors.New("harness: key not found")
	}
	return hdKey{kid: kid}, nil
}

type hdToken struct{ jwt.Token }

type hdJWTCall struct {
	s      string
	algs   []string
	keys   []interface{}
	verify bool
}

var hdJWTCalls []hdJWTCall
var hdVerifies bool
var hdTheToken = &hdToken{}

func hdJWTParseString(s string, options ...jwt.ParseOption) (jwt.Token, error) {
	call := hdJWTCall{s: s, verify: true}
	for _, o := range options {
		// (the engine prints %T with the full package path, Go with the package name: accept both)
		id := fmt.Sprintf("%T", o.Ident())
		if strings.HasSuffix(id, "jwt.identKey") {
			a, _ := vGetField(o.Value(), "alg").(jwa.SignatureAlgorithm)
			call.algs = append(call.algs, string(a))
			call.keys = append(call.keys, vGetField(o.Value(), "key"))
		} else if strings.HasSuffix(id, "jwt.identVerify") {
			call.verify = o.Value().(bool)
		}
	}
	hdJWTCalls = append(hdJWTCalls, call)
	if !call.verify || hdVerifies {
		return hdTheToken, nil
	}
	return nil, errors.New("harness: could not verify message using any of the signatures or keys")
}

// ---------------------------------------------------------------------------------------------
// H17d: ParseJWT (+ JWTKidAlg) on a parse result with n = 0..maxsigs signatures.
// accepted => the received string was parsed, exactly one signature, alg in the asymmetric reference
// set, the callback was asked exactly once - for the kid of that signature's protected header - and did
// not fail, and the received string was verified (verification not switched off by a caller option)
// with exactly the callback's key under the header's alg.
func H17d() {
	vTag("parseFails")
	hdJWSFail = vBool()
	n := vLen(0, vParam("maxsigs", 3))
	for i := 0; i < n; i++ {
		hdSigs = append(hdSigs, hdSig{h: hdSymHeaders()})
	}
	vTag("verifies")
	hdVerifies = vBool()
	l := &hdLookup{}
	var opts []jwt.ParseOption
	vTag("callerDisablesVerify")
	if vBool() {
		vCover("caller-option-verify-false")
		opts = append(opts, jwt.WithVerify(false))
	}
	tok, err := ParseJWT("tok", l.f, opts...)
	for _, a := range hdParseArgs {
		vAssert(a == "tok", "H17d.parses_received_bytes: ParseJWT inspected the headers of something else than the received string")
	}
	lookupFailed := false
	for _, f := range l.failed {
		lookupFailed = lookupFailed || f
	}
	if err != nil {
		vCover("rejected")
		vAssert(tok == nil, "H17d.no_token_on_error: ParseJWT returned a token together with an error")
		if lookupFailed {
			vCover("rejected-lookup-error")
		}
		if !hdJWSFail && n == 1 && hdVerifies && !lookupFailed {
			h := hdSigs[0].h
			vAssert(!(h.hasAlg && h.alg == "ES256"), "H17d.clean_es256_accepted: rejected a single-signature ES256 token that verifies under the looked-up key")
		}
		return
	}
	vCover("accepted")
	vAssert(tok != nil, "H17d.result: ParseJWT returned neither token nor error")
	vAssert(!hdJWSFail && len(hdParseArgs) >= 1, "H17d.unparsable_rejected: accepted a token that is not a JWS")
	if n == 0 {
		vClass("no signature")
	} else if n >= 2 {
		vClass("JSON-serialised JWS with more than one signature")
	}
	vAssert(n == 1, "H17d.exactly_one_signature: ParseJWT accepts a JWS that does not carry exactly one signature")
	if n != 1 {
		return
	}
	h := hdSigs[0].h
	vAssert(h.hasAlg && hdAsymmetricJWA(h.alg), "H17d.alg_asymmetric: accepted a token whose alg is absent or outside the asymmetric reference set")
	vAssert(!hdForbiddenLookalike(h.alg), "H17d.none_mac_rejected: accepted a token with alg none/HS* or a case/space variant")
	vAssert(!lookupFailed, "H17d.lookup_error_aborts: accepted a token although the key lookup failed")
	vAssert(len(l.asked) == 1 && l.asked[0] == h.KeyID(), "H17d.key_for_kid_of_signature: the key lookup was not asked exactly once for the kid of the signature's protected header")
	vAssert(len(hdJWTCalls) == 1, "H17d.verified_once: accepted a token without exactly one verification")
	if len(hdJWTCalls) != 1 {
		return
	}
	c := hdJWTCalls[0]
	vAssert(c.s == "tok", "H17d.verify_received_bytes: verification ran on something else than the received string")
	vAssert(c.verify, "H17d.verification_enabled: accepted a token with signature verification switched off")
	vAssert(hdVerifies, "H17d.signature_verifies: accepted a token whose signature does not verify")
	vAssert(len(c.keys) == 1 && c.keys[0] == interface{}(hdKey{kid: h.KeyID()}), "H17d.verified_with_lookup_key: token verified with a key other than the one the callback returned for its kid")
	vAssert(len(c.algs) == 1 && c.algs[0] == h.alg, "H17d.verified_with_header_alg: token verified under another algorithm than the one that passed the allow-list")
	vAssert(tok == jwt.Token(hdTheToken), "H17d.result_is_verified_token: returned token is not the verified one")
}

func H17d_twin() {
	h := hdSymHeaders()
	hdSigs = []hdSig{{h: h}}
	hdVerifies = true
	l := &hdLookup{}
	if _, err := ParseJWT("tok", l.f); err == nil && h.alg[0] == 'P' && h.hasKid {
		vAssert(false, "H17d_twin.reach: reachable")
	}
}

// H17d_lookup: a failing key lookup aborts ParseJWT before any verification is attempted (history:
// the callback is the only key source, so nothing may be verified without its answer).
func H17d_lookup() {
	h := hdSymHeaders()
	hdSigs = []hdSig{{h: h}}
	vTag("verifies")
	hdVerifies = vBool()
	l := &hdLookup{}
	tok, err := ParseJWT("tok", l.f)
	if len(l.failed) > 0 && l.failed[0] {
		vCover("lookup-failed")
		vAssert(err != nil && tok == nil, "H17d_lookup.error_aborts: ParseJWT succeeded although the key lookup failed")
		vAssert(len(hdJWTCalls) == 0, "H17d_lookup.no_verification_without_key: a verification was attempted although the key lookup failed")
		vAssert(len(l.asked) == 1, "H17d_lookup.asked_once: the key lookup was retried after it failed")
	} else if err == nil {
		vCover("lookup-ok-accepted")
	}
}

func H17d_lookup_twin() {
	hdSigs = []hdSig{{h: hdSymHeaders()}}
	l := &hdLookup{}
	if _, err := ParseJWT("tok", l.f); err != nil && len(l.failed) == 1 && l.failed[0] {
		vAssert(false, "H17d_lookup_twin.reach: reachable")
	}
}

// H17d_kidalg: JWTKidAlg returns kid and alg of the ONLY signature, or fails.
func H17d_kidalg() {
	vTag("parseFails")
	hdJWSFail = vBool()
	n := vLen(0, vParam("maxsigs", 3))
	for i := 0; i < n; i++ {
		hdSigs = append(hdSigs, hdSig{h: hdSymHeaders()})
	}
	kid, alg, err := JWTKidAlg("tok")
	vAssert(len(hdParseArgs) == 1 && hdParseArgs[0] == "tok", "H17d_kidalg.parses_received_bytes: JWTKidAlg did not parse exactly the string it was given")
	if err != nil {
		vCover("rejected")
		vAssert(kid == "" && alg == "", "H17d_kidalg.no_result_on_error: JWTKidAlg returned header values together with an error")
		vAssert(hdJWSFail || n != 1, "H17d_kidalg.single_signature_accepted: JWTKidAlg refused a JWS with exactly one signature")
		return
	}
	vCover("accepted")
	vAssert(!hdJWSFail, "H17d_kidalg.unparsable_rejected: JWTKidAlg succeeded on something that is not a JWS")
	if n >= 2 {
		vClass("JSON-serialised JWS with more than one signature")
	}
	vAssert(n == 1, "H17d_kidalg.exactly_one_signature: JWTKidAlg succeeds on a JWS that does not carry exactly one signature")
	if n != 1 {
		return
	}
	h := hdSigs[0].h
	vAssert(kid == h.KeyID() && string(alg) == string(h.Algorithm()), "H17d_kidalg.headers_of_the_signature: JWTKidAlg did not return kid and alg of the signature's protected header")
}

func H17d_kidalg_twin() {
	h := hdSymHeaders()
	hdSigs = []hdSig{{h: h}}
	if kid, alg, err := JWTKidAlg("tok"); err == nil && kid != "" && len(alg) == 5 && alg[0] == 'H' {
		vAssert(false, "H17d_kidalg_twin.reach: reachable")
	}
}

// H17d_hdrs: ExtractProtectedHeaders: the empty string and unparsable input give an empty map (as
// documented); a parsed JWS gives the protected headers of its ONLY signature, and is refused with
// ErrorInvalidNumberOfSignatures when it does not carry exactly one.
func H17d_hdrs() {
	vTag("parseFails")
	hdJWSFail = vBool()
	n := vLen(0, vParam("maxsigs", 3))
	for i := 0; i < n; i++ {
		h := hdSymHeaders()
		vTag("asMapFails")
		h.asMapFails = vBool()
		hdSigs = append(hdSigs, hdSig{h: h})
	}
	vTag("emptyInput")
	in := "tok"
	if vBool() {
		in = ""
	}
	m, err := ExtractProtectedHeaders(in)
	for _, a := range hdParseArgs {
		vAssert(a == in, "H17d_hdrs.parses_received_bytes: ExtractProtectedHeaders parsed something else than the string it was given")
	}
	if in == "" || hdJWSFail {
		vCover("not-a-jws")
		vAssert(err == nil && m != nil && len(m) == 0, "H17d_hdrs.unparsable_is_empty: no empty header map for the empty string / unparsable input")
		return
	}
	if n != 1 {
		vCover("rejected-signature-count")
		vAssert(m == nil && errors.Is(err, ErrorInvalidNumberOfSignatures), "H17d_hdrs.exactly_one_signature: ExtractProtectedHeaders returns headers for a JWS that does not carry exactly one signature")
		return
	}
	h := hdSigs[0].h
	if h.asMapFails {
		vCover("rejected-asmap")
		vAssert(m == nil && err != nil, "H17d_hdrs.asmap_error: header conversion error swallowed")
		return
	}
	vCover("accepted")
	vAssert(err == nil && m != nil, "H17d_hdrs.single_signature_accepted: headers of a single-signature JWS refused")
	kid, hasKid := m["kid"]
	vAssert(hasKid == h.hasKid && (!hasKid || kid == interface{}(h.kid)), "H17d_hdrs.kid_of_the_signature: kid is not the one of the signature's protected header")
	alg, hasAlg := m["alg"]
	vAssert(hasAlg == h.hasAlg && (!hasAlg || alg == interface{}(jwa.SignatureAlgorithm(h.alg))), "H17d_hdrs.alg_of_the_signature: alg is not the one of the signature's protected header")
}

func H17d_hdrs_twin() {
	h := hdSymHeaders()
	hdSigs = []hdSig{{h: h}}
	if m, err := ExtractProtectedHeaders("tok"); err == nil && len(m) == 2 {
		vAssert(false, "H17d_hdrs_twin.reach: reachable")
	}
}

// ---------------------------------------------------------------------------------------------
// H17d_jws: ParseJWS. The received token is one of three concrete serialisations; jws.SplitCompact
// (bytes.Split) is the real one.
//   form 0  compact "h.b.s": jws.Parse yields exactly one signature (contract); the JWS signing input
//           (RFC 7515 5.2 step 8) is "h.b".
//   form 1  JSON serialisation without a '.' in its text: 1..maxsigs signatures (jwx refuses an empty list).
//   form 2  JSON serialisation whose text contains two or more '.' (in an unprotected header value or
//           an unknown member, which jwx ignores): 1..maxsigs signatures.
//   For the JSON forms the signing input of signature i is ASCII(BASE64URL(protected_i)) '.' BASE64URL(payload),
//   here the concrete string "Pi.B" - it is never a prefix of the token text, which starts with '{'.
// accepted => exactly one signature, alg in the reference set, verifier built for that alg, key = the
// callback's answer for the kid of THAT signature, signature bytes = that signature's, data = the JWS
// signing input of the received token, returned payload = the payload of the parsed message.

const (
	hdCompact   = "h.b.s"
	hdJSONNoDot = `{"payload":"B","signatures":[]}`
	hdJSONDots  = `{"payload":"B","signatures":[],"x":"a.b.c"}`
)

type hdVerifyCall struct {
	alg       string
	data, sig []byte
	key       interface{}
	ok        bool
}

var hdVerifyCalls []*hdVerifyCall

type hdVerifier struct{ alg string }

func (v *hdVerifier) Verify(data []byte, sig []byte, key interface{}) error {
	c := &hdVerifyCall{alg: v.alg, data: append([]byte(nil), data...), sig: sig, key: key}
	vTag("signatureVerifies")
	c.ok = vBool()
	hdVerifyCalls = append(hdVerifyCalls, c)
	if c.ok {
		return nil
	}
	return errors.New("harness: signature does not verify")
}

func hdNewVerifier(alg jwa.SignatureAlgorithm) (jws.Verifier, error) {
	// registered in jwx: all of jwa's signature algorithms except none
	switch string(alg) {
	case "RS256", "RS384", "RS512", "ES256", "ES384", "ES512", "ES256K", "PS256", "PS384", "PS512", "EdDSA", "HS256", "HS384", "HS512":
		return &hdVerifier{alg: string(alg)}, nil
	}
	return nil, errors.New("harness: unsupported signature algorithm")
}

func hdSigningInput(form, i int) string {
	if form == 0 {
		return "h.b"
	}
	return "P" + string(rune('0'+i)) + ".B"
}

func H17d_jws() {
	vTag("parseFails")
	hdJWSFail = vBool()
	form := vChoice(3)
	token := hdCompact
	n := 1
	switch form {
	case 0:
		vCover("form-compact")
	case 1:
		vCover("form-json")
		token = hdJSONNoDot
		n = vLen(1, vParam("maxsigs", 3))
	case 2:
		vCover("form-json-with-dots")
		token = hdJSONDots
		n = vLen(1, vParam("maxsigs", 3))
	}
	for i := 0; i < n; i++ {
		hdSigs = append(hdSigs, hdSig{h: hdSymHeaders(), sig: []byte{'S', byte('0' + i)}})
	}
	l := &hdLookup{}
	payload, err := ParseJWS([]byte(token), l.f)
	for _, a := range hdParseArgs {
		vAssert(a == token, "H17d_jws.parses_received_bytes: ParseJWS parsed something else than the bytes it was given")
	}
	if err != nil {
		vCover("rejected")
		vAssert(payload == nil, "H17d_jws.no_payload_on_error: ParseJWS returned a payload together with an error")
		if form == 0 && !hdJWSFail && len(hdVerifyCalls) == 1 && hdVerifyCalls[0].ok && !l.failed[0] {
			h := hdSigs[0].h
			vAssert(!(h.hasAlg && h.alg == "ES256"), "H17d_jws.clean_es256_accepted: rejected a compact ES256 JWS that verifies under the looked-up key")
		}
		return
	}
	vCover("accepted")
	vAssert(!hdJWSFail && len(hdParseArgs) >= 1, "H17d_jws.unparsable_rejected: accepted something that is not a JWS")
	if n >= 2 {
		vClass("JSON-serialised JWS with more than one signature")
	} else if form != 0 {
		vClass("JSON-serialised JWS with one signature")
	}
	vAssert(n == 1, "H17d_jws.exactly_one_signature: ParseJWS accepts a JWS that does not carry exactly one signature")
	vAssert(len(hdVerifyCalls) == n && len(l.asked) == n, "H17d_jws.every_signature_verified: accepted a JWS without one key lookup and one verification per signature")
	if len(hdVerifyCalls) != n || len(l.asked) != n {
		return
	}
	for i := 0; i < n; i++ {
		h, c := hdSigs[i].h, hdVerifyCalls[i]
		vAssert(h.hasAlg && hdAsymmetricJWA(h.alg) && !hdForbiddenLookalike(h.alg), "H17d_jws.alg_asymmetric: accepted a signature whose alg is absent or outside the asymmetric reference set")
		vAssert(c.alg == h.alg, "H17d_jws.verified_with_header_alg: signature verified under another algorithm than the one that passed the allow-list")
		vAssert(!l.failed[i], "H17d_jws.lookup_error_aborts: accepted a JWS although a key lookup failed")
		vAssert(l.asked[i] == h.KeyID(), "H17d_jws.key_for_kid_of_signature: the key lookup was not asked for the kid of this signature's protected header")
		vAssert(c.key == interface{}(hdKey{kid: h.KeyID()}), "H17d_jws.verified_with_lookup_key: signature verified with a key other than the one the callback returned for its kid")
		vAssert(c.ok, "H17d_jws.signature_verifies: accepted a JWS with a signature that does not verify")
		vAssert(string(c.sig) == string(hdSigs[i].sig), "H17d_jws.signature_bytes: verified other signature bytes than those of this signature")
		vAssert(string(c.data) == hdSigningInput(form, i), "H17d_jws.verified_signing_input: the bytes verified are not the JWS signing input (protected header '.' payload) of the received token")
	}
	vAssert(string(payload) == string(hdPayload), "H17d_jws.payload_of_message: returned payload is not the payload of the parsed JWS")
}

func H17d_jws_twin() {
	h := hdSymHeaders()
	hdSigs = []hdSig{{h: h, sig: []byte("S0")}}
	l := &hdLookup{}
	if p, err := ParseJWS([]byte(hdCompact), l.f); err == nil && len(p) == 7 && h.alg[0] == 'P' {
		vAssert(false, "H17d_jws_twin.reach: reachable")
	}
}
