//go:build verif

package iam

import (
	"context"
	"crypto"
	"errors"
	"fmt"
	"net/url"
	"strings"

	"github.com/lestrrat-go/jwx/v2/jwa"
	"github.com/lestrrat-go/jwx/v2/jwk"
	"github.com/lestrrat-go/jwx/v2/jws"
	"github.com/lestrrat-go/jwx/v2/jwt"
	"github.com/nuts-foundation/nuts-node/auth"
	iamclient "github.com/nuts-foundation/nuts-node/auth/client/iam"
	"github.com/nuts-foundation/nuts-node/auth/oauth"
	"github.com/nuts-foundation/nuts-node/vdr/resolver"
)

// C17, slice r4jwx (2): auth/api/iam/jar.go - jar.Parse / jar.validate, through the real crypto.ParseJWT /
// JWTKidAlg / jwx.IsAlgorithmSupported. The jwx parser, the signature verdict, the DID key resolver, the
// client's OpenID configuration (published key set) and jwk.FromRaw are harness value objects.

func heAsymmetricJWA(s string) bool {
	switch s {
	case "RS256", "RS384", "RS512",
		"ES256", "ES384", "ES512", "ES256K",
		"PS256", "PS384", "PS512",
		"EdDSA":
		return true
	}
	return false
}

//verif:stub github.com/lestrrat-go/jwx/v2/jws.ParseString => heJWSParseString
//verif:stub github.com/lestrrat-go/jwx/v2/jwt.ParseString => heJWTParseString
//verif:stub github.com/lestrrat-go/jwx/v2/jwk.FromRaw => heFromRaw

// --- jws.ParseString: see harness/_c17/crypto (same contract) ---------------------------------

type heHeaders struct {
	jws.Headers
	alg, kid string
	hasKid   bool
}

func (h *heHeaders) Algorithm() jwa.SignatureAlgorithm { return jwa.SignatureAlgorithm(h.alg) }
func (h *heHeaders) KeyID() string {
	if h.hasKid {
		return h.kid
	}
	return ""
}

var heJWSFail bool
var heSigs []*heHeaders
var heParseArgs []string

func heJWSParseString(src string) (*jws.Message, error) {
	heParseArgs = append(heParseArgs, src)
	if heJWSFail {
		return nil, errors.New("harness: not a JWS")
	}
	m := jws.NewMessage()
	for _, h := range heSigs {
		m.AppendSignature(jws.NewSignature().SetProtectedHeaders(h))
	}
	return m, nil
}

// alg an arbitrary 5-byte string (ES256, HS256, PS512, EdDSA, ...; other lengths: H17a_jwx / H17d),
// kid absent or one arbitrary byte.
func heSymHeaders() *heHeaders {
	h := &heHeaders{}
	vTag("alg")
	h.alg = vString(5)
	vTag("hasKid")
	h.hasKid = vBool()
	vTag("kid")
	h.kid = vString(1)
	return h
}

// --- jwt.ParseString: verdict; claims of the request object -------------------------------------

type heToken struct {
	jwt.Token
	claims map[string]interface{}
}

func (t *heToken) AsMap(ctx context.Context) (map[string]interface{}, error) { return t.claims, nil }

type heJWTCall struct {
	s      string
	algs   []string
	keys   []interface{}
	verify bool
}

var heJWTCalls []heJWTCall
var heVerifies bool
var heTheToken *heToken

func heJWTParseString(s string, options ...jwt.ParseOption) (jwt.Token, error) {
	call := heJWTCall{s: s, verify: true}
	for _, o := range options {
		id := fmt.Sprintf("%T", o.Ident())
		if strings.HasSuffix(id, "jwt.identKey") {
			a, _ := vGetField(o.Value(), "alg").(jwa.SignatureAlgorithm)
			call.algs = append(call.algs, string(a))
			call.keys = append(call.keys, vGetField(o.Value(), "key"))
		} else if strings.HasSuffix(id, "jwt.identVerify") {
			call.verify = o.Value().(bool)
		}
	}
	heJWTCalls = append(heJWTCalls, call)
	if !call.verify || heVerifies {
		return heTheToken, nil
	}
	return nil, errors.New("harness: could not verify message using any of the signatures or keys")
}

// --- DID key resolver: a key (identified by its RFC 7638 thumbprint tp) per key id, or not found ----

type hePub struct{ tp uint8 }

type heResolveCall struct {
	kid     string
	hasMeta bool
	rel     resolver.RelationType
}

type heKeyResolver struct {
	resolver.KeyResolver
	calls  []heResolveCall
	failed []bool
	keys   []hePub
	fixed  *hePub // when set: always found, this key
}

func (r *heKeyResolver) ResolveKeyByID(keyID string, metadata *resolver.ResolveMetadata, relationType resolver.RelationType) (crypto.PublicKey, error) {
	r.calls = append(r.calls, heResolveCall{kid: keyID, hasMeta: metadata != nil, rel: relationType})
	if r.fixed != nil {
		r.failed = append(r.failed, false)
		r.keys = append(r.keys, *r.fixed)
		return *r.fixed, nil
	}
	vTag("resolveFails")
	fail := vBool()
	r.failed = append(r.failed, fail)
	if fail {
		r.keys = append(r.keys, hePub{})
		return nil, resolver.ErrKeyNotFound
	}
	vTag("resolvedKeyThumbprint")
	k := hePub{tp: vU8()}
	r.keys = append(r.keys, k)
	return k, nil
}

// --- jwk.FromRaw / jwk.Key.Thumbprint: the thumbprint is a function of the key material -----------

type heJWK struct {
	jwk.Key
	kid     string
	tp      uint8
	tpFails bool
}

func (k *heJWK) KeyID() string { return k.kid }
func (k *heJWK) Thumbprint(h crypto.Hash) ([]byte, error) {
	if k.tpFails {
		return nil, errors.New("harness: thumbprint failed")
	}
	return []byte{k.tp}, nil
}

func heFromRaw(raw interface{}) (jwk.Key, error) {
	if p, ok := raw.(hePub); ok {
		return &heJWK{tp: p.tp}, nil
	}
	return nil, errors.New("harness: invalid key type")
}

// --- the client's published key set (OpenID configuration) and request_uri fetches ----------------

type heJWKSet = jwk.Set // (jwk.Set has a method named Set: embed under another field name)

type heSet struct {
	heJWKSet
	keys []*heJWK
}

// jwx contract: the first key of the set whose kid equals the argument
func (s *heSet) LookupKeyID(kid string) (jwk.Key, bool) {
	for _, k := range s.keys {
		if k.kid == kid {
			return k, true
		}
	}
	return nil, false
}

type heClient struct {
	iamclient.Client
	cfgAsked   []string
	cfgFails   bool
	set        *heSet
	getAsked   []string
	postAsked  []string
	postMeta   []string
	fetchFails bool
}

// contract (auth/client/iam: oauth.IssuerIdToWellKnown): fails for an issuer that is not a URL, in particular "".
func (c *heClient) OpenIDConfiguration(ctx context.Context, issuer string) (*oauth.OpenIDConfiguration, error) {
	c.cfgAsked = append(c.cfgAsked, issuer)
	if issuer == "" || c.cfgFails {
		return nil, errors.New("harness: failed to retrieve remote OpenID configuration")
	}
	return &oauth.OpenIDConfiguration{JWKs: c.set}, nil
}
func (c *heClient) RequestObjectByGet(ctx context.Context, requestURI string) (string, error) {
	c.getAsked = append(c.getAsked, requestURI)
	if c.fetchFails {
		return "", errors.New("harness: fetch failed")
	}
	return "tokG", nil
}
func (c *heClient) RequestObjectByPost(ctx context.Context, requestURI string, walletMetadata oauth.AuthorizationServerMetadata) (string, error) {
	c.postAsked = append(c.postAsked, requestURI)
	c.postMeta = append(c.postMeta, walletMetadata.Issuer)
	if c.fetchFails {
		return "", errors.New("harness: fetch failed")
	}
	return "tokP", nil
}

type heAuth struct {
	auth.AuthenticationServices
	c *heClient
}

func (a heAuth) IAMClient() iamclient.Client { return a.c }

// heClaim: a claim value as jwx hands it over: absent, a string (one arbitrary byte), a one- or
// two-element string array, or a number.
func heClaim(m map[string]interface{}, name string) (asString string, present bool) {
	switch vChoice(5) {
	case 0:
		return "", false
	case 1:
		vTag(name)
		s := vString(1)
		m[name] = s
		return s, true
	case 2:
		vTag(name)
		s := vString(1)
		m[name] = []string{s}
		return s, true
	case 3:
		m[name] = []string{"a", "b"}
		return "", true
	}
	m[name] = float64(1)
	return "", true
}

// ---------------------------------------------------------------------------------------------
// H17e: jar.validate on a request object with n = 0..maxsigs signatures.
// accepted => exactly one signature with an algorithm of the asymmetric reference set; the received
// string was verified under that algorithm with the key the DID key resolver returned for the kid of
// that signature; the client_id claim of the verified object (a string, or a one-element array - the
// documented reading of oauthParameters) equals the client_id of the request; the published key set
// asked for is the one of exactly that client_id, and it contains a key with the signer's kid whose
// thumbprint equals the thumbprint of the key the signature was verified with. Conversely a request
// meeting all of this is accepted.
func H17e() {
	vTag("parseFails")
	heJWSFail = vBool()
	n := vLen(0, vParam("maxsigs", 2))
	for i := 0; i < n; i++ {
		heSigs = append(heSigs, heSymHeaders())
	}
	vTag("verifies")
	heVerifies = vBool()
	claims := map[string]interface{}{}
	cidClaim, cidPresent := heClaim(claims, "client_id")
	issClaim, _ := heClaim(claims, "iss")
	heTheToken = &heToken{claims: claims}
	vTag("clientIDParam")
	clientID := vString(vLen(0, 1))
	kr := &heKeyResolver{}
	cl := &heClient{set: &heSet{}}
	vTag("configFails")
	cl.cfgFails = vBool()
	nk := vLen(0, vParam("setkeys", 2))
	for i := 0; i < nk; i++ {
		k := &heJWK{}
		vTag("setKid")
		k.kid = vString(1)
		vTag("setKeyThumbprint")
		k.tp = vU8()
		vTag("setKeyThumbprintFails")
		k.tpFails = vBool()
		cl.set.keys = append(cl.set.keys, k)
	}
	j := jar{auth: heAuth{c: cl}, keyResolver: kr}

	params, err := j.validate(context.Background(), "tok", clientID)

	for _, a := range heParseArgs {
		vAssert(a == "tok", "H17e.parses_received_bytes: the headers inspected are not those of the received request object")
	}
	if err != nil {
		vCover("rejected")
		vAssert(params == nil, "H17e.no_params_on_error: validate returned parameters together with an error")
		if !heJWSFail && n == 1 && heVerifies && len(kr.failed) == 1 && !kr.failed[0] && !cl.cfgFails && clientID != "" && nk == 1 {
			h, k := heSigs[0], cl.set.keys[0]
			_, isString := claims["client_id"].(string)
			clean := h.alg == "ES256" && isString && cidClaim == clientID && k.kid == h.KeyID() && !k.tpFails && k.tp == kr.keys[0].tp
			vAssert(!clean, "H17e.clean_request_accepted: rejected a single-signature ES256 request object signed with the client's published key")
		}
		return
	}
	vCover("accepted")
	vAssert(!heJWSFail && len(heParseArgs) >= 1, "H17e.unparsable_rejected: accepted a request object that is not a JWS")
	if n >= 2 {
		vClass("JSON-serialised JWS with more than one signature")
	}
	vAssert(n == 1, "H17e.exactly_one_signature: accepted a request object that does not carry exactly one signature")
	if n != 1 {
		return
	}
	h := heSigs[0]
	vAssert(heAsymmetricJWA(h.alg), "H17e.alg_asymmetric: accepted a request object whose alg is outside the asymmetric reference set")
	vAssert(len(kr.calls) == 1 && !kr.failed[0], "H17e.key_resolved: accepted a request object without exactly one successful key resolution")
	if len(kr.calls) != 1 {
		return
	}
	vAssert(kr.calls[0].kid == h.KeyID(), "H17e.key_for_kid_of_signature: the key resolver was not asked for the kid of the signature's protected header")
	vAssert(len(heJWTCalls) == 1, "H17e.verified_once: accepted a request object without exactly one verification")
	if len(heJWTCalls) != 1 {
		return
	}
	c := heJWTCalls[0]
	vAssert(c.s == "tok" && c.verify && heVerifies, "H17e.signature_verifies: accepted a request object whose received bytes were not verified successfully")
	vAssert(len(c.keys) == 1 && c.keys[0] == interface{}(kr.keys[0]), "H17e.verified_with_resolved_key: request object verified with a key other than the one resolved for its kid")
	vAssert(len(c.algs) == 1 && c.algs[0] == h.alg, "H17e.verified_with_header_alg: request object verified under another algorithm than the one that passed the allow-list")
	// client binding
	vAssert(cidPresent && cidClaim == clientID, "H17e.client_id_claim_matches: the client_id claim of the signed request object is not the client_id of the request")
	vAssert(clientID != "", "H17e.client_id_not_empty: accepted a request without client_id")
	vAssert(len(cl.cfgAsked) == 1 && cl.cfgAsked[0] == clientID && !cl.cfgFails, "H17e.key_set_of_client: the published key set consulted is not the one of the request's client_id")
	owned := false
	for _, k := range cl.set.keys {
		if k.kid == h.KeyID() && !k.tpFails && k.tp == kr.keys[0].tp {
			owned = true
		}
	}
	vAssert(owned, "H17e.signer_key_published_by_client: the key the signature was verified with is not in the client's published key set under the signer's kid")
	// the parameters handed on are the verified claims
	vAssert(len(params) == len(claims), "H17e.params_are_verified_claims: returned parameters are not the claims of the verified request object")
	for k, v := range claims {
		_, ok := params[k]
		vAssert(ok, "H17e.params_are_verified_claims: returned parameters are not the claims of the verified request object")
		_ = v
	}
	if issClaim != cidClaim {
		// informational: RFC 9101 leaves iss optional; the property binds the key to client_id only
		vCover("accepted-iss-differs-from-client_id")
	}
	if kr.calls[0].rel == resolver.AssertionMethod && !kr.calls[0].hasMeta {
		vCover("resolved-as-assertion-method-now")
	}
}

func H17e_twin() {
	h := heSymHeaders()
	heSigs = []*heHeaders{h}
	heVerifies = true
	heTheToken = &heToken{claims: map[string]interface{}{"client_id": "c"}}
	kr := &heKeyResolver{}
	k := &heJWK{kid: vString(1), tp: vU8()}
	cl := &heClient{set: &heSet{keys: []*heJWK{k}}}
	j := jar{auth: heAuth{c: cl}, keyResolver: kr}
	if p, err := j.validate(context.Background(), "tok", "c"); err == nil && p != nil && h.alg[0] == 'P' && k.tp == 7 {
		vAssert(false, "H17e_twin.reach: reachable")
	}
}

// ---------------------------------------------------------------------------------------------
// H17e_parse: jar.Parse - which request object is validated, and how it was obtained.
// Everything behind the choice is clean (every candidate object "tokR" (by value), "tokG" (fetched by
// GET), "tokP" (fetched by POST) is a single-signature ES256 object of client "c" signed with c's
// published key), so that acceptance depends only on Parse's own decisions.
//  - request and request_uri together, or neither: refused;
//  - request: validated as given, nothing fetched;
//  - request_uri with request_uri_method absent/"" or "get": fetched by GET from exactly that URI;
//    "post": by POST from exactly that URI with the node's own metadata; any other method (also other
//    letter case): refused without fetching; a failed fetch: refused;
//  - the object validated is exactly the one given/fetched, against the client_id of the query.
func H17e_parse() {
	q := url.Values{}
	vTag("hasRequest")
	hasReq := vBool()
	if hasReq {
		q.Set(oauth.RequestParam, "tokR")
	}
	vTag("hasRequestURI")
	hasURI := vBool()
	if hasURI {
		q.Set(oauth.RequestURIParam, "uri")
	}
	method := ""
	vTag("hasMethod")
	hasMethod := vBool()
	if hasMethod {
		vTag("method")
		method = vString(vLen(0, vParam("methodbytes", 4)))
		q.Set(oauth.RequestURIMethodParam, method)
	}
	vTag("clientIDParam")
	clientID := vString(1)
	q.Set(oauth.ClientIDParam, clientID)

	heSigs = []*heHeaders{{alg: "ES256", kid: "k", hasKid: true}}
	heVerifies = true
	heTheToken = &heToken{claims: map[string]interface{}{"client_id": "c"}}
	kr := &heKeyResolver{fixed: &hePub{tp: 7}}
	cl := &heClient{set: &heSet{keys: []*heJWK{{kid: "k", tp: 7}}}}
	vTag("fetchFails")
	cl.fetchFails = vBool()
	j := jar{auth: heAuth{c: cl}, keyResolver: kr}

	params, err := j.Parse(context.Background(), oauth.AuthorizationServerMetadata{Issuer: "me"}, q)

	fetches := len(cl.getAsked) + len(cl.postAsked)
	wantGet := !hasReq && hasURI && (method == "" || method == "get")
	wantPost := !hasReq && hasURI && method == "post"
	if err != nil {
		vCover("rejected")
		vAssert(params == nil, "H17e_parse.no_params_on_error: Parse returned parameters together with an error")
		if hasReq && hasURI {
			vCover("rejected-request-and-request_uri")
		}
		if !hasReq && !hasURI {
			vCover("rejected-unsigned")
		}
		if !hasReq && hasURI && !wantGet && !wantPost {
			vCover("rejected-method")
			vAssert(fetches == 0, "H17e_parse.unsupported_method_not_fetched: a request object was fetched for an unsupported request_uri_method")
		}
		if hasReq {
			vAssert(fetches == 0, "H17e_parse.by_value_not_fetched: a request object was fetched although one was passed by value")
		}
		return
	}
	vCover("accepted")
	vAssert(hasReq != hasURI, "H17e_parse.request_xor_request_uri: accepted a request with both or neither of request and request_uri")
	vAssert(len(heJWTCalls) == 1 && len(heParseArgs) >= 1, "H17e_parse.validated: accepted a request whose request object was not verified")
	if len(heJWTCalls) != 1 {
		return
	}
	got := heJWTCalls[0].s
	for _, a := range heParseArgs {
		vAssert(a == got, "H17e_parse.one_object: headers and signature of different objects were checked")
	}
	vAssert(len(cl.cfgAsked) == 1 && cl.cfgAsked[0] == clientID && clientID == "c", "H17e_parse.client_id_of_query: the request object was not validated against the client_id of the query")
	if hasReq {
		vCover("accepted-by-value")
		vAssert(got == "tokR" && fetches == 0, "H17e_parse.by_value: the object validated is not the one passed by value, or something was fetched")
		return
	}
	vAssert(!cl.fetchFails, "H17e_parse.fetch_failure_refused: accepted although fetching the request object failed")
	vAssert(wantGet || wantPost, "H17e_parse.method_supported: accepted an unsupported request_uri_method")
	if wantGet {
		vCover("accepted-get")
		vAssert(len(cl.getAsked) == 1 && cl.getAsked[0] == "uri" && len(cl.postAsked) == 0 && got == "tokG", "H17e_parse.get: request object not fetched exactly once by GET from the request_uri, or another object validated")
	}
	if wantPost {
		vCover("accepted-post")
		vAssert(len(cl.postAsked) == 1 && cl.postAsked[0] == "uri" && cl.postMeta[0] == "me" && len(cl.getAsked) == 0 && got == "tokP", "H17e_parse.post: request object not fetched exactly once by POST (with the node's metadata) from the request_uri, or another object validated")
	}
}

func H17e_parse_twin() {
	q := url.Values{}
	q.Set(oauth.RequestURIParam, "uri")
	m := vString(4)
	q.Set(oauth.RequestURIMethodParam, m)
	q.Set(oauth.ClientIDParam, "c")
	heSigs = []*heHeaders{{alg: "ES256", kid: "k", hasKid: true}}
	heVerifies = true
	heTheToken = &heToken{claims: map[string]interface{}{"client_id": "c"}}
	cl := &heClient{set: &heSet{keys: []*heJWK{{kid: "k", tp: 7}}}}
	j := jar{auth: heAuth{c: cl}, keyResolver: &heKeyResolver{fixed: &hePub{tp: 7}}}
	if _, err := j.Parse(context.Background(), oauth.AuthorizationServerMetadata{Issuer: "me"}, q); err == nil && m[0] == 'p' {
		vAssert(false, "H17e_parse_twin.reach: reachable")
	}
}
