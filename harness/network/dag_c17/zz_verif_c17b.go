//go:build verif

package dag

import (
	"errors"

	"github.com/lestrrat-go/jwx/v2/jwk"
	"github.com/lestrrat-go/jwx/v2/jws"
	"github.com/nuts-foundation/nuts-node/crypto/hash"
)

// H17b_dag runs the REAL dag.ParseTransaction (this directory is loaded instead of harness/network/dag,
// where ParseTransaction is replaced by the C06 stub). zz_verif_c17.go is a symlink to the file of the
// same name in harness/network/dag (shared value objects).
//
// jws.Parse stand-in. Contract of jwx (jws/message.go): signatures in serialisation order, every signature
// has non-nil protected headers, the payload is the decoded payload member. jwx itself never returns a
// message without signatures; n = 0 is included as an over-approximation.

//verif:stub github.com/lestrrat-go/jwx/v2/jws.Parse => h17JWSParse

var h17ParseFail bool
var h17Sigs []*h17Headers
var h17Payload []byte
var h17ParseArgs [][]byte

func h17JWSParse(src []byte, options ...jws.ParseOption) (*jws.Message, error) {
	h17ParseArgs = append(h17ParseArgs, src)
	if h17ParseFail {
		return nil, errors.New("harness: not a JWS")
	}
	m := jws.NewMessage()
	m.SetPayload(h17Payload)
	for _, h := range h17Sigs {
		m.AppendSignature(jws.NewSignature().SetProtectedHeaders(h))
	}
	return m, nil
}

const h17PayloadHex = "452d9e89d5bd5d9225fb6daecd579e7388a166c7661ca04e47fd3cd8446e4620"
const h17PrevHex = "3972dc9744f6499f0f9b2dbf76696f2ae7ad8af9b23dde66d6af86c9dfb36986"

// h17TxHeaders: protected headers of a transaction: alg / kid / jwk arbitrary (h17SymKeyHeaders), the
// RFC004 parameters well-formed unless `broken` names one to drop (0 none, 1 cty, 2 sigt, 3 ver, 4 prevs, 5 lc).
func h17TxHeaders(broken int) *h17Headers {
	h := h17SymKeyHeaders()
	h.private = map[string]interface{}{
		signingTimeHeader:  float64(1600000000),
		versionHeader:      float64(2),
		previousHeader:     []interface{}{h17PrevHex},
		lamportClockHeader: float64(1),
	}
	switch broken {
	case 1:
		h.cty = "nomime"
	case 2:
		delete(h.private, signingTimeHeader)
	case 3:
		h.private[versionHeader] = float64(3)
	case 4:
		h.private[previousHeader] = []interface{}{"zz"}
	case 5:
		h.private[lamportClockHeader] = "1"
	}
	return h
}

// H17b_dag: ParseTransaction on a jwx parse result with n = 0..maxsigs signatures.
// accepted => exactly one signature, alg in the asymmetric reference set, exactly one of jwk / kid, and
// the transaction keeps the received bytes (its reference is their SHA-256).
func H17b_dag() {
	vTag("parseFails")
	h17ParseFail = vBool()
	n := vLen(0, vParam("maxsigs", 3))
	broken := vChoice(6)
	for i := 0; i < n; i++ {
		b := 0
		if i == 0 {
			b = broken
		}
		h17Sigs = append(h17Sigs, h17TxHeaders(b))
	}
	h17Payload = []byte(h17PayloadHex)
	input := []byte("the.received.bytes")
	tx, err := ParseTransaction(input)
	vAssert(len(h17ParseArgs) == 1 && string(h17ParseArgs[0]) == "the.received.bytes", "H17b_dag.parses_received_bytes: ParseTransaction did not parse exactly the bytes it was given")
	if err != nil {
		vCover("rejected")
		vAssert(tx == nil, "H17b_dag.no_result_on_error: ParseTransaction returned a transaction together with an error")
		if !h17ParseFail && n == 1 && broken == 0 {
			h := h17Sigs[0]
			vAssert(!(h.alg == "ES256" && h.hasJWK != (h.hasKid && h.kid != "")), "H17b_dag.wellformed_accepted: rejected a well-formed single-signature ES256 transaction")
		}
		return
	}
	vCover("accepted")
	vAssert(tx != nil && !h17ParseFail, "H17b_dag.unparsable_rejected: accepted input that is not a JWS")
	if n >= 2 {
		vClass("JSON-serialised JWS with more than one signature")
	}
	vAssert(n == 1, "H17b_dag.exactly_one_signature: ParseTransaction accepts a JWS that does not carry exactly one signature")
	vAssert(broken == 0, "H17b_dag.mandatory_headers: accepted a transaction with a missing or malformed RFC004 header")
	h := h17Sigs[0]
	vAssert(h17AsymmetricJWA(h.alg), "H17b_dag.alg_asymmetric: accepted a transaction whose alg is outside the asymmetric reference set")
	vAssert(h.hasJWK != (h.hasKid && h.kid != ""), "H17b_dag.kid_xor_jwk: accepted a transaction with both or neither of jwk and kid")
	if h.hasJWK {
		vAssert(tx.SigningKey() == jwk.Key(h.key), "H17b_dag.embedded_key_is_header_jwk: signing key is not the embedded jwk of the protected header")
	} else {
		vAssert(tx.SigningKey() == nil && tx.SigningKeyID() == h.kid, "H17b_dag.kid_is_header_kid: signing key id is not the kid of the protected header")
	}
	vAssert(tx.SigningAlgorithm() == h.alg, "H17b_dag.alg_is_header_alg: signing algorithm is not the alg of the protected header")
	vAssert(string(tx.Data()) == "the.received.bytes" && tx.Ref() == hash.SHA256Sum(input), "H17b_dag.keeps_received_bytes: transaction data/reference are not the received bytes / their SHA-256")
}

func H17b_dag_twin() {
	h17Sigs = []*h17Headers{h17TxHeaders(0)}
	h17Payload = []byte(h17PayloadHex)
	tx, err := ParseTransaction([]byte("x"))
	if err == nil && tx.Clock() == 1 && tx.SigningKeyID() != "" && len(tx.Previous()) == 1 {
		vAssert(false, "H17b_dag_twin.reach: reachable")
	}
}
