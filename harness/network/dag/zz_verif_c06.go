//go:build verif

package dag

import (
	"context"
	"errors"

	"github.com/nuts-foundation/go-stoabs"
	"github.com/nuts-foundation/nuts-node/crypto/hash"
	"github.com/nuts-foundation/nuts-node/network/dag/tree"
	"github.com/prometheus/client_golang/prometheus"
)

//verif:stub github.com/nuts-foundation/nuts-node/network/dag.ParseTransaction => hParseTx
//verif:stub (*github.com/nuts-foundation/nuts-node/network/dag/tree.Iblt).bucketIndices => hBucketIndices

// hBucketIndices: with exactly six buckets the real function necessarily returns a permutation
// of 0..5 (six distinct indices below six); bucket updates commute, so the fixed order is equivalent.
func hBucketIndices(i *tree.Iblt, h uint64) []uint32 { return []uint32{0, 1, 2, 3, 4, 5} }

func vHash(k int) hash.SHA256Hash {
	var h hash.SHA256Hash
	b := vBytes(k)
	for i := 0; i < k; i++ {
		h[i] = b[i]
	}
	return h
}

// vRef is a transaction reference: never the all-zero hash (a SHA-256 output).
func vRef(k int) hash.SHA256Hash {
	h := vHash(k)
	vAssume(h != hash.SHA256Hash{})
	return h
}

// Transaction value objects. Data() is a self-describing encoding (instead of a signed JWS) that the
// ParseTransaction stub decodes: ref(32) clock(4) payloadhash(32) nprev(1) prevs(32 each).
func hNewTx(ref hash.SHA256Hash, clock uint32, payloadHash hash.SHA256Hash, prevs []hash.SHA256Hash) *transaction {
	data := make([]byte, 0, 69+32*len(prevs))
	data = append(data, ref[:]...)
	data = append(data, byte(clock>>24), byte(clock>>16), byte(clock>>8), byte(clock))
	data = append(data, payloadHash[:]...)
	data = append(data, byte(len(prevs)))
	for _, p := range prevs {
		data = append(data, p[:]...)
	}
	return &transaction{ref: ref, lamportClock: clock, payload: payloadHash, prevs: prevs, data: data, version: 2}
}

func hParseTx(input []byte) (Transaction, error) {
	if len(input) < 69 {
		return nil, errors.New("harness: not a transaction")
	}
	n := int(input[68])
	if len(input) != 69+32*n {
		return nil, errors.New("harness: not a transaction")
	}
	var ref, ph hash.SHA256Hash
	copy(ref[:], input[0:32])
	clock := uint32(input[32])<<24 | uint32(input[33])<<16 | uint32(input[34])<<8 | uint32(input[35])
	copy(ph[:], input[36:68])
	prevs := make([]hash.SHA256Hash, n)
	for i := 0; i < n; i++ {
		copy(prevs[i][:], input[69+32*i:69+32*i+32])
	}
	return &transaction{ref: ref, lamportClock: clock, payload: ph, prevs: prevs, data: append([]byte(nil), input...), version: 2}, nil
}

// hNewState builds the real state on the fake KV with the real prev-verifier, a signature verifier with
// a harness-chosen verdict, and small pages so that page boundaries are crossed.
func hNewState(kv stoabs.KVStore, leafSize uint32, sigVerdict func(Transaction) bool) *state {
	s := &state{
		db:           kv,
		graph:        newDAG(kv),
		payloadStore: NewPayloadStore(),
		xorTree:      newTreeStore(xorShelf, tree.New(tree.NewXor(), leafSize)),
		ibltTree:     newTreeStore(ibltShelf, tree.New(tree.NewIblt(6), leafSize)),
		transactionCount: &hCounter{},
	}
	s.txVerifiers = []Verifier{
		NewPrevTransactionsVerifier(),
		func(_ stoabs.ReadTx, t Transaction) error {
			if !sigVerdict(t) {
				return errors.New("harness: signature verification failed")
			}
			return nil
		},
	}
	return s
}

// hCounter is a prometheus.Counter that only counts.
type hCounter struct {
	prometheus.Counter
	n int
}

func (c *hCounter) Inc()          { c.n++ }
func (c *hCounter) Add(f float64) {}

type hRecorder struct {
	events []Event
}

func (r *hRecorder) receive(e Event) (bool, error) {
	r.events = append(r.events, e)
	return true, nil
}

// hHistory adds k valid transactions through the real Add (so only reachable states are built):
// a root and then transactions whose prevs are nondeterministically chosen earlier transactions.
func hHistory(s *state, k, hb int) []*transaction {
	ctx := context.Background()
	var txs []*transaction
	for i := 0; i < k; i++ {
		ref := vRef(hb)
		for _, o := range txs {
			vAssume(ref != o.ref)
		}
		var prevs []hash.SHA256Hash
		clock := uint32(0)
		if i > 0 {
			p1 := txs[vChoice(i)]
			prevs = append(prevs, p1.ref)
			clock = p1.lamportClock + 1
			if i > 1 && vBool() {
				p2 := txs[vChoice(i)]
				if p2 != p1 {
					prevs = append(prevs, p2.ref)
					if p2.lamportClock+1 > clock {
						clock = p2.lamportClock + 1
					}
				}
			}
		}
		tx := hNewTx(ref, clock, hash.SHA256Hash{}, prevs)
		err := s.Add(ctx, tx, nil)
		vAssert(err == nil, "H06.history_valid_tx_accepted: a valid transaction was rejected")
		txs = append(txs, tx)
	}
	return txs
}

func hXorOf(txs []*transaction, maxClock uint32) hash.SHA256Hash {
	var x hash.SHA256Hash
	for _, t := range txs {
		if t.lamportClock <= maxClock {
			for i := range x {
				x[i] ^= t.ref[i]
			}
		}
	}
	return x
}

// hCheckDerived asserts C08: digests, listing, highest clock, head and count equal what the set implies.
func hCheckDerived(id string, s *state, kv *hKV, txs []*transaction, leafSize uint32) {
	ctx := context.Background()
	high := uint32(0)
	for _, t := range txs {
		if t.lamportClock > high {
			high = t.lamportClock
		}
	}
	// XOR for an arbitrary requested clock
	q := uint32(vRange(0, int(high)+1))
	x, c := s.XOR(q)
	vAssert(c <= high, id+".xor_clock_le_high: XOR() reports a clock above the highest stored clock")
	vAssert(x == hXorOf(txs, c), id+".xor_matches_set: XOR() digest is not the XOR of stored refs with clock <= reported clock")
	if q >= high {
		vAssert(c == high, id+".xor_full_at_high: XOR(q>=highest) does not report the highest clock")
	} else {
		pageEnd := (q/leafSize+1)*leafSize - 1
		vAssert(c >= q && c <= pageEnd || c == high, id+".xor_clock_in_page: XOR(q) reports a clock outside q's page")
	}
	// highest clock, head, count
	var head hash.SHA256Hash
	var lcHigh uint32
	var count uint64
	_ = kv.Read(ctx, func(tx stoabs.ReadTx) error {
		head, _ = s.graph.getHead(tx)
		lcHigh = s.graph.getHighestClockValue(tx)
		count = s.graph.getNumberOfTransactions(tx)
		return nil
	})
	vAssert(lcHigh == high, id+".lc_high: stored highest clock differs from the maximum stored clock")
	vAssert(s.lamportClockHigh.Load() == high, id+".lc_high_mem: in-memory highest clock differs from the maximum stored clock")
	vAssert(count == uint64(len(txs)), id+".tx_count: stored transaction count differs from the number of stored transactions")
	headOK := false
	for _, t := range txs {
		if t.ref == head && t.lamportClock == high {
			headOK = true
		}
	}
	vAssert(headOK, id+".head_has_max_clock: head is not a stored transaction with the highest clock")
	// clock-ordered listing without duplicates
	list, err := s.FindBetweenLC(ctx, 0, high+1)
	vAssert(err == nil, id+".listing_ok: FindBetweenLC failed")
	vAssert(len(list) == len(txs), id+".listing_complete: listing misses or duplicates transactions")
	for i := 0; i+1 < len(list); i++ {
		a, b := list[i], list[i+1]
		vAssert(a.Clock() < b.Clock() || (a.Clock() == b.Clock() && a.Ref().Compare(b.Ref()) < 0),
			id+".listing_ordered: listing is not ordered by clock then ref")
	}
}

// H06a: admission rule. After a reachable history, one probe Add with arbitrary ref, clock, prevs
// (known or unknown), payload and signature verdict.
func H06a() {
	leafSize := uint32(2)
	hb := vParam("hashbytes", 1)
	k := vLen(1, vParam("k", 2))
	kv := newHKV()
	sigOK := true
	s := hNewState(kv, leafSize, func(Transaction) bool { return sigOK })
	// two persistent subscribers with the type filters every real subscriber uses
	rec, recPl := &hRecorder{}, &hRecorder{}
	n, err := s.Notifier("txsub", rec.receive, WithPersistency(kv), WithSelectionFilter(func(e Event) bool { return e.Type == TransactionEventType }))
	vAssert(err == nil && n != nil, "H06a.notifier: cannot register notifier")
	n, err = s.Notifier("plsub", recPl.receive, WithPersistency(kv), WithSelectionFilter(func(e Event) bool { return e.Type == PayloadEventType }))
	vAssert(err == nil && n != nil, "H06a.notifier: cannot register notifier")
	txs := hHistory(s, k, hb)
	vAssert(len(rec.events) == k && len(recPl.events) == 0, "H06a.history_notified_once: history transactions were not notified exactly once each")

	// the probe
	ctx := context.Background()
	before := kv.snapshot()
	notifiedBefore := len(rec.events)
	plBefore := len(recPl.events)
	ref := vRef(hb)
	clock := uint32(vRange(0, 4))
	np := vLen(0, 2)
	var prevs []hash.SHA256Hash
	allPrevsKnown := true
	maxPrev := -1
	for i := 0; i < np; i++ {
		if vBool() {
			p := txs[vChoice(k)]
			prevs = append(prevs, p.ref)
			if int(p.lamportClock) > maxPrev {
				maxPrev = int(p.lamportClock)
			}
		} else {
			u := vHash(hb)
			known := false
			for _, t := range txs {
				if t.ref == u {
					known = true
					if int(t.lamportClock) > maxPrev {
						maxPrev = int(t.lamportClock)
					}
				}
			}
			if !known {
				allPrevsKnown = false
			}
			prevs = append(prevs, u)
		}
	}
	withPayload := vBool()
	var payload []byte
	declared := vHash(1)
	if withPayload {
		// concrete payload, declared hash either its real hash or another value (SHA-256 of symbolic bytes is an
		// uninterpreted function in the engine: a model could let it "collide" with the declared hash, and such a
		// counterexample does not replay)
		payload = []byte{7}
		vTag("declared_matches")
		if vBool() {
			declared = hash.SHA256Sum(payload)
		}
	}
	sigOK = vBool()
	probe := hNewTx(ref, clock, declared, prevs)

	wasPresent := false
	for _, t := range txs {
		if t.ref == ref {
			wasPresent = true
		}
	}
	err = s.Add(ctx, probe, payload)
	nowPresent, _ := s.IsPresent(ctx, ref)

	if wasPresent {
		vCover("resubmitted")
		vAssert(err == nil, "H06a.resubmit_ok: re-submitting a present transaction failed")
		vAssert(hKVSameState(before, kv.snapshot()), "H06a.resubmit_changes_nothing: re-submitting a present transaction changed storage")
		vAssert(len(rec.events) == notifiedBefore && len(recPl.events) == plBefore, "H06a.resubmit_notifies_noone: re-submitting a present transaction notified a subscriber")
		return
	}
	admitted := err == nil && nowPresent
	if admitted {
		vCover("admitted")
		vAssert(allPrevsKnown, "H06a.prevs_present: admitted a transaction with a missing previous transaction")
		vAssert(int(clock) == maxPrev+1, "H06a.clock_is_max_prev_plus_one: admitted a transaction whose clock is not 1 + highest prev clock")
		vAssert(np > 0, "H06a.root_unique: admitted a second root transaction")
		vAssert(sigOK, "H06a.signature_verified: admitted a transaction whose signature did not verify")
		if withPayload {
			vCover("admitted-with-payload")
			vAssert(hash.SHA256Sum(payload) == declared, "H06a.payload_hash: admitted a payload that does not hash to the declared payload hash")
			vAssert(len(rec.events) == notifiedBefore+1 && len(recPl.events) == plBefore+1, "H06a.admit_notifies_tx_and_payload: admission with payload did not notify transaction and payload subscribers once each")
		} else {
			vAssert(len(rec.events) == notifiedBefore+1 && len(recPl.events) == plBefore, "H06a.admit_notifies_once: admission did not notify exactly once")
		}
		vAssert(rec.events[notifiedBefore].Hash == ref, "H06a.admit_notifies_ref: notification is not for the admitted transaction")
		hCheckDerived("H06a.after", s, kv, append(txs, probe), leafSize)
	} else {
		vCover("rejected")
		vAssert(err != nil, "H06a.reject_reports_error: transaction neither stored nor rejected with an error")
		vAssert(!nowPresent, "H06a.reject_not_present: rejected transaction is present")
		vAssert(hKVSameState(before, kv.snapshot()), "H06a.reject_leaves_no_trace: rejected transaction changed storage")
		vAssert(len(rec.events) == notifiedBefore && len(recPl.events) == plBefore, "H06a.reject_notifies_noone: rejected transaction notified a subscriber")
		hCheckDerived("H06a.afterreject", s, kv, txs, leafSize)
		// conversely: a transaction satisfying every rule is admitted
		valid := allPrevsKnown && np > 0 && int(clock) == maxPrev+1 && sigOK && (!withPayload || hash.SHA256Sum(payload) == declared)
		vAssert(!valid, "H06a.valid_is_admitted: a transaction satisfying every admission rule was rejected")
	}
}

func H06a_twin() {
	kv := newHKV()
	s := hNewState(kv, 2, func(Transaction) bool { return true })
	txs := hHistory(s, 2, 1)
	probe := hNewTx(vHash(1), uint32(vRange(0, 3)), hash.SHA256Hash{}, []hash.SHA256Hash{txs[1].ref})
	if s.Add(context.Background(), probe, nil) == nil {
		if ok, _ := s.IsPresent(context.Background(), probe.ref); ok && probe.ref != txs[0].ref && probe.ref != txs[1].ref {
			vAssert(false, "H06a_twin.reach: reachable")
		}
	}
}

// H08c: derived state after every reachable history of k transactions.
func H08c() {
	leafSize := uint32(2)
	hb := vParam("hashbytes", 1)
	k := vLen(1, vParam("k8", 3))
	kv := newHKV()
	s := hNewState(kv, leafSize, func(Transaction) bool { return true })
	txs := hHistory(s, k, hb)
	hCheckDerived("H08c", s, kv, txs, leafSize)
	// restart: a new state on the same store answers identically
	s2 := hNewState(kv, leafSize, func(Transaction) bool { return true })
	s2.loadState(context.Background())
	hCheckDerived("H08c.restart", s2, kv, txs, leafSize)
	if k >= 3 {
		vCover("k3")
	}
}

func H08c_twin() {
	kv := newHKV()
	s := hNewState(kv, 2, func(Transaction) bool { return true })
	txs := hHistory(s, 3, 1)
	_, c := s.XOR(0)
	if c == 1 && txs[2].lamportClock == 2 {
		vAssert(false, "H08c_twin.reach: reachable")
	}
}

// H06c: payload substitution. A payload P is already in the payload store (an admitted transaction carried it).
// A second, otherwise valid transaction declares hash(P) and is offered with P, with another payload, or without
// payload: offered bytes that do not hash to the declared hash are refused - the transaction is not admitted,
// storage is unchanged, nobody is notified - also when the declared hash is one the node already knows; and what
// subscribers and readers get for hash(P) is always P.
func H06c() {
	kv := newHKV()
	ctx := context.Background()
	s := hNewState(kv, 2, func(Transaction) bool { return true })
	rec, recPl := &hRecorder{}, &hRecorder{}
	_, err := s.Notifier("txsub", rec.receive, WithPersistency(kv), WithSelectionFilter(func(e Event) bool { return e.Type == TransactionEventType }))
	vAssert(err == nil, "H06c.notifier: cannot register notifier")
	_, err = s.Notifier("plsub", recPl.receive, WithPersistency(kv), WithSelectionFilter(func(e Event) bool { return e.Type == PayloadEventType }))
	vAssert(err == nil, "H06c.notifier: cannot register notifier")

	p := []byte{7}
	declared := hash.SHA256Sum(p)
	root := hNewTx(vRef(1), 0, declared, nil)
	vAssert(s.Add(ctx, root, p) == nil, "H06c.root_admitted: valid root with payload refused")
	child := hNewTx(vRef(1), 1, declared, []hash.SHA256Hash{root.ref})
	vAssume(child.ref != root.ref)

	var offered []byte
	vTag("offered")
	mode := vChoice(3)
	switch mode {
	case 0:
		offered = []byte{7}
	case 1:
		// (concrete: SHA-256 of symbolic bytes is an uninterpreted function in the engine, which could "collide")
		vTag("other_payload")
		offered = []byte{byte(8 + vChoice(2)*120)}
	}
	before := kv.snapshot()
	nTx, nPl := len(rec.events), len(recPl.events)
	err = s.Add(ctx, child, offered)
	present, _ := s.IsPresent(ctx, child.ref)
	switch mode {
	case 0, 2:
		vCover("consistent-offer")
		vAssert(err == nil && present, "H06c.valid_admitted: a valid transaction with a known payload hash was refused")
	case 1:
		vCover("substituted-payload")
		vAssert(err != nil, "H06c.substitute_refused: a payload that does not hash to the declared (already known) payload hash was accepted")
		vAssert(!present, "H06c.substitute_not_admitted: a transaction offered with a substituted payload was admitted")
		vAssert(hKVSameState(before, kv.snapshot()), "H06c.substitute_leaves_no_trace: refused transaction changed storage")
		vAssert(len(rec.events) == nTx && len(recPl.events) == nPl, "H06c.substitute_notifies_noone: refused transaction notified a subscriber")
	}
	for _, e := range recPl.events {
		vAssert(len(e.Payload) == 1 && e.Payload[0] == 7, "H06c.subscribers_get_declared_payload: a payload event carries bytes that do not hash to the transaction's payload hash")
	}
	got, rerr := s.ReadPayload(ctx, declared)
	vAssert(rerr == nil && len(got) == 1 && got[0] == 7, "H06c.stored_payload_intact: the stored payload for the hash changed")
}

func H06c_twin() {
	kv := newHKV()
	ctx := context.Background()
	s := hNewState(kv, 2, func(Transaction) bool { return true })
	p := []byte{7}
	root := hNewTx(vRef(1), 0, hash.SHA256Sum(p), nil)
	if s.Add(ctx, root, p) == nil {
		child := hNewTx(vRef(1), 1, hash.SHA256Sum(p), []hash.SHA256Hash{root.ref})
		if child.ref != root.ref && s.Add(ctx, child, []byte{8}) != nil {
			vAssert(false, "H06c_twin.reach: reachable")
		}
	}
}

// H06d: the very first transaction. On an empty DAG a root is offered with a payload that does not hash to the
// declared hash (refused), then the same root with the right payload (admitted), then the node restarts: after
// the refusal nothing is stored and every digest is that of the empty set; after the admission and after the
// restart digests, listing, head and counters are those of the one-transaction DAG.
func H06d() {
	kv := newHKV()
	ctx := context.Background()
	leafSize := uint32(2)
	s := hNewState(kv, leafSize, func(Transaction) bool { return true })
	p := []byte{7}
	root := hNewTx(vRef(1), 0, hash.SHA256Sum(p), nil)
	before := kv.snapshot()
	err := s.Add(ctx, root, []byte{8})
	present, _ := s.IsPresent(ctx, root.ref)
	vAssert(err != nil && !present, "H06d.substitute_refused: a root offered with a payload that does not hash to the declared hash was admitted")
	vAssert(hKVSameState(before, kv.snapshot()), "H06d.reject_leaves_no_trace: refused root changed storage")
	// the empty set: zero digests at clock 0, nothing listed, no head
	x, c := s.XOR(uint32(vRange(0, 5)))
	vAssert(x == hash.SHA256Hash{} && c == 0, "H06d.afterreject.xor_matches_set: after a refused root the XOR digest is not that of the empty set")
	ib, _ := s.IBLT(0)
	vAssert(ib.Empty(), "H06d.afterreject.iblt_matches_set: after a refused root the IBLT is not empty")
	list, lerr := s.FindBetweenLC(ctx, 0, 10)
	vAssert(lerr == nil && len(list) == 0, "H06d.afterreject.listing_complete: after a refused root a transaction is listed")
	head, herr := s.Head(ctx)
	vAssert(herr == nil && head == hash.SHA256Hash{}, "H06d.afterreject.head: after a refused root there is a head")
	vAssert(s.Add(ctx, root, p) == nil, "H06d.valid_root_admitted: valid root refused after an earlier refused attempt")
	hCheckDerived("H06d.after", s, kv, []*transaction{root}, leafSize)
	s2 := hNewState(kv, leafSize, func(Transaction) bool { return true })
	s2.loadState(ctx)
	hCheckDerived("H06d.restart", s2, kv, []*transaction{root}, leafSize)
	vCover("done")
}

func H06d_twin() {
	kv := newHKV()
	s := hNewState(kv, 2, func(Transaction) bool { return true })
	root := hNewTx(vRef(1), 0, hash.SHA256Sum([]byte{7}), nil)
	if s.Add(context.Background(), root, []byte{byte(7 + vChoice(2))}) != nil {
		vAssert(false, "H06d_twin.reach: reachable")
	}
}

// H06e: a rejected transaction leaves no trace - also not in what later admissions are judged against. After a
// valid root, a transaction X is offered that passes every verifier but is refused in the write phase (its payload
// does not hash to the declared hash, or it is a second root); then a transaction Y that names X as its only
// previous transaction, with the clock that would fit (X's clock + 1). Y must be refused (its prev is absent),
// nothing of X or Y is stored, and storage and digests are those of the one-transaction DAG - on the same state
// object (same verifier instances) that judged X.
func H06e() {
	kv := newHKV()
	ctx := context.Background()
	leafSize := uint32(2)
	s := hNewState(kv, leafSize, func(Transaction) bool { return true })
	p := []byte{7}
	root := hNewTx(vRef(1), 0, hash.SHA256Sum(p), nil)
	vAssert(s.Add(ctx, root, p) == nil, "H06e.root_admitted: valid root refused")
	var x *transaction
	var xPayload []byte
	if vBool() {
		vCover("rejected-payload-mismatch")
		x = hNewTx(vRef(1), 1, hash.SHA256Sum([]byte{9}), []hash.SHA256Hash{root.ref})
		xPayload = []byte{8}
	} else {
		vCover("rejected-second-root")
		x = hNewTx(vRef(1), 0, hash.SHA256Sum([]byte{9}), nil)
		xPayload = []byte{9}
	}
	vAssume(x.ref != root.ref)
	before := kv.snapshot()
	errX := s.Add(ctx, x, xPayload)
	presentX, _ := s.IsPresent(ctx, x.ref)
	vAssert(errX != nil && !presentX, "H06e.x_refused: a transaction with a wrong payload / a second root was admitted")
	vAssert(hKVSameState(before, kv.snapshot()), "H06e.reject_leaves_no_trace: refused transaction changed storage")
	y := hNewTx(vRef(1), x.lamportClock+1, hash.SHA256Sum([]byte{5}), []hash.SHA256Hash{x.ref})
	vAssume(y.ref != root.ref && y.ref != x.ref)
	errY := s.Add(ctx, y, nil)
	presentY, _ := s.IsPresent(ctx, y.ref)
	vAssert(errY != nil && !presentY, "H06e.child_of_rejected_refused: a transaction whose previous transaction was refused (and is absent) entered the DAG")
	vAssert(hKVSameState(before, kv.snapshot()), "H06e.child_leaves_no_trace: refused child of a refused transaction changed storage")
	hCheckDerived("H06e.after", s, kv, []*transaction{root}, leafSize)
	vCover("done")
}

func H06e_twin() {
	kv := newHKV()
	ctx := context.Background()
	s := hNewState(kv, 2, func(Transaction) bool { return true })
	p := []byte{7}
	root := hNewTx(vRef(1), 0, hash.SHA256Sum(p), nil)
	if s.Add(ctx, root, p) == nil {
		y := hNewTx(vRef(1), 1, hash.SHA256Sum([]byte{5}), []hash.SHA256Hash{root.ref})
		if y.ref != root.ref && s.Add(ctx, y, nil) == nil {
			vAssert(false, "H06e_twin.reach: reachable")
		}
	}
}
