//go:build verif

package dag

import (
	"context"
	"errors"
	"time"

	"github.com/avast/retry-go/v4"
	"github.com/nuts-foundation/go-stoabs"
	"github.com/nuts-foundation/nuts-node/crypto/hash"
)

//verif:stub github.com/avast/retry-go/v4.Do => hRetryDo

// hRetryDo models retry.Do by its documented contract: call fn up to `attempts` times until it
// returns nil or an Unrecoverable error; delays are not waited for but recorded.
type hRetryCall struct {
	attempts uint
	delay    time.Duration
	maxDelay time.Duration
	calls    int
}

var hRetryLog []*hRetryCall

func hRetryDo(fn retry.RetryableFunc, opts ...retry.Option) error {
	cfg := &retry.Config{}
	for _, o := range opts {
		o(cfg)
	}
	rc := &hRetryCall{
		attempts: vGetField(cfg, "attempts").(uint),
		delay:    vGetField(cfg, "delay").(time.Duration),
		maxDelay: vGetField(cfg, "maxDelay").(time.Duration),
	}
	hRetryLog = append(hRetryLog, rc)
	var err error
	for i := uint(0); i < rc.attempts; i++ {
		rc.calls++
		err = fn()
		if err == nil {
			return nil
		}
		if !retry.IsRecoverable(err) {
			return err
		}
	}
	return err
}

// H14a: retry() arithmetic for every Retries value and retry delay up to one hour.
func H14a() {
	hRetryLog = nil
	delay := time.Duration(vRange(1, int(time.Hour)))
	r := vRange(-3, 25)
	calls := 0
	n := &notifier{name: "n", retryDelay: delay, ctx: context.Background(), receiver: func(Event) (bool, error) {
		calls++
		return true, nil
	}}
	n.retry(Event{Retries: r})
	vWait()
	if r >= 0 && r <= 18 {
		vCover("retried")
		vAssert(len(hRetryLog) == 1, "H14a.retry_scheduled: an event within the retry budget was not rescheduled")
		rc := hRetryLog[0]
		vAssert(rc.attempts == uint(19-r), "H14a.attempts: remaining attempts differ from maxRetries - (Retries+1)")
		// delay = retryDelay * 2^(Retries+1), computed without overflow
		want := delay
		for i := 0; i < r+1; i++ {
			want *= 2
		}
		vAssert(rc.delay == want && rc.delay > 0, "H14a.delay_growth: initial delay is not retryDelay*2^(Retries+1) (overflow?)")
		vAssert(rc.delay >= 2*delay, "H14a.delay_monotone: delay does not grow with the retry count")
		vAssert(calls == 1, "H14a.notified_again: rescheduled event was not delivered again")
	} else {
		vCover("not-retried")
		vAssert(len(hRetryLog) == 0, "H14a.budget_spent_no_retry: an event outside the retry budget was rescheduled")
	}
}

func H14a_twin() {
	hRetryLog = nil
	n := &notifier{name: "n", retryDelay: time.Second, ctx: context.Background(), receiver: func(Event) (bool, error) { return true, nil }}
	n.retry(Event{Retries: vRange(0, 30)})
	vWait()
	if len(hRetryLog) == 1 && hRetryLog[0].attempts == 1 {
		vAssert(false, "H14a_twin.reach: reachable")
	}
}

// H14b: one notifyNow step as a state-machine step over the store.
func H14b() {
	hRetryLog = nil
	kv := newHKV()
	ctx := context.Background()
	outcome := vChoice(4) // 0 done, 1 incomplete, 2 error, 3 fatal
	calls := 0
	n := NewNotifier("sub", func(e Event) (bool, error) {
		calls++
		switch outcome {
		case 0:
			return true, nil
		case 1:
			return false, nil
		case 2:
			return false, errors.New("receiver error")
		}
		return false, EventFatal{errors.New("fatal")}
	}, WithPersistency(kv), WithContext(ctx)).(*notifier)

	tx := hNewTx(vRef(1), 0, [32]byte{}, nil)
	ev := Event{Type: TransactionEventType, Hash: tx.ref, Transaction: tx, Retries: vRange(0, 25)}
	stored := vBool()
	if stored {
		err := kv.Write(ctx, func(wtx stoabs.WriteTx) error { return n.Save(wtx, ev) })
		vAssert(err == nil, "H14b.save_ok: Save failed")
	}
	err := n.notifyNow(ev)

	var after *Event
	_ = kv.ReadShelf(ctx, n.shelfName(), func(r stoabs.Reader) error {
		after, _ = n.readEvent(r, ev.Hash)
		return nil
	})
	failed, ferr := n.GetFailedEvents()
	vAssert(ferr == nil, "H14b.failed_events_ok: GetFailedEvents failed")
	if !stored {
		vCover("job-absent")
		vAssert(calls == 0, "H14b.absent_not_delivered: receiver called for an event without a stored job")
		vAssert(err == nil, "H14b.absent_no_error: absent job reported an error")
		return
	}
	vAssert(calls == 1, "H14b.delivered_once: receiver not called exactly once for a stored job")
	switch outcome {
	case 0:
		vCover("done")
		vAssert(err == nil, "H14b.done_no_error: completed delivery returned an error")
		vAssert(after == nil, "H14b.done_job_deleted: completed job is still stored")
	case 1, 2:
		vCover("retryable")
		vAssert(err != nil && retry.IsRecoverable(err), "H14b.retryable_error: incomplete/failed delivery is not reported as retryable")
		vAssert(after != nil, "H14b.retryable_job_kept: job of an incomplete/failed delivery vanished")
		if after != nil {
			vAssert(after.Retries == ev.Retries+1, "H14b.retries_incremented: retry count not incremented")
			vAssert(after.Error != "", "H14b.error_recorded: error text not recorded")
		}
	case 3:
		vCover("fatal")
		vAssert(err != nil && !retry.IsRecoverable(err), "H14b.fatal_unrecoverable: fatal error is retried")
		vAssert(after != nil, "H14b.fatal_job_kept: fatally failed job vanished instead of staying visible")
		if after != nil {
			vAssert(after.Retries >= retriesFailedThreshold, "H14b.fatal_visible_as_failed: fatally failed job is not visible as failed")
			vAssert(len(failed) == 1, "H14b.fatal_listed: fatally failed job not listed by GetFailedEvents")
		}
	}
}

func H14b_twin() {
	kv := newHKV()
	n := NewNotifier("sub", func(e Event) (bool, error) { return vBool(), nil }, WithPersistency(kv)).(*notifier)
	tx := hNewTx(vRef(1), 0, [32]byte{}, nil)
	ev := Event{Type: TransactionEventType, Hash: tx.ref, Transaction: tx}
	_ = kv.Write(context.Background(), func(wtx stoabs.WriteTx) error { return n.Save(wtx, ev) })
	if n.notifyNow(ev) != nil {
		vAssert(false, "H14b_twin.reach: reachable")
	}
}

// H14c: at-least-once delivery across a process stop at an arbitrary point of Add / delivery,
// followed by a restart (new state and notifier on the same store, Notifier.Run()).
func H14c() {
	hRetryLog = nil
	leafSize := uint32(2)
	kv := newHKV()
	ctx := context.Background()
	s := hNewState(kv, leafSize, func(Transaction) bool { return true })
	deliveries := 0
	completedBeforeStop := false
	recvFailsFirst := vBool() // subscriber fails its first call with a retryable error
	stopInReceiver := false
	recv := func(e Event) (bool, error) {
		if stopInReceiver {
			stopInReceiver = false
			vStop() // process stops during delivery, before completion is recorded
		}
		deliveries++
		if recvFailsFirst {
			recvFailsFirst = false
			return false, errors.New("try again")
		}
		return true, nil
	}
	selects := vBool() // whether the subscriber's filter selects the event
	filter := func(e Event) bool { return selects && e.Type == TransactionEventType }
	_, err := s.Notifier("sub", recv, WithPersistency(kv), WithSelectionFilter(filter))
	vAssert(err == nil, "H14c.notifier: cannot register")

	root := hNewTx(vRef(1), 0, [32]byte{}, nil)
	mode := vChoice(4)
	switch mode {
	case 0:
		vCover("stop-at-write")
		kv.crashAt = kv.writes + vRange(1, vParam("maxwrites", 12))
	case 1:
		vCover("stop-after-commit")
		kv.crashAfterCommit = true
	case 2:
		vCover("stop-in-receiver")
		stopInReceiver = true
	case 3:
		vCover("no-stop")
	}
	stopped := vRunUntilStop(func() {
		_ = s.Add(ctx, root, nil)
		vWait()
	})
	if stopped {
		kv.mu.TryLock()
		kv.mu.Unlock()
	}
	kv.crashAt, kv.crashAfterCommit, stopInReceiver = 0, false, false
	deliveredBefore := deliveries
	jobStoredBefore := false
	_ = kv.ReadShelf(ctx, "_sub_jobs", func(r stoabs.Reader) error {
		_, e := r.Get(stoabs.BytesKey(root.ref.Slice()))
		jobStoredBefore = e == nil
		return nil
	})
	if deliveredBefore > 0 && !jobStoredBefore {
		completedBeforeStop = true
	}
	if stopped {
		vCover("stopped")
	}

	// restart
	s2 := hNewState(kv, leafSize, func(Transaction) bool { return true })
	s2.loadState(ctx)
	n2, err := s2.Notifier("sub", recv, WithPersistency(kv), WithSelectionFilter(filter))
	vAssert(err == nil, "H14c.notifier2: cannot register after restart")
	vAssert(n2.Run() == nil, "H14c.run_ok: Notifier.Run failed after restart")
	vWait()

	admitted, _ := s2.IsPresent(ctx, root.ref)
	jobStored := false
	_ = kv.ReadShelf(ctx, "_sub_jobs", func(r stoabs.Reader) error {
		_, e := r.Get(stoabs.BytesKey(root.ref.Slice()))
		jobStored = e == nil
		return nil
	})
	if admitted && selects {
		vCover("admitted-selected")
		vAssert(deliveries >= 1 || jobStored, "H14c.at_least_once: an admitted, selected transaction was neither delivered nor left as a stored job")
		vAssert(deliveries >= 1, "H14c.delivered_after_restart: an admitted, selected transaction was never delivered although the subscriber succeeds")
	}
	if !admitted {
		vCover("not-admitted")
		vAssert(deliveries == 0, "H14c.not_admitted_not_delivered: a transaction that was not admitted was delivered")
		vAssert(!jobStored, "H14c.not_admitted_no_job: a transaction that was not admitted left a subscriber job")
	}
	if !selects {
		vAssert(deliveries == 0, "H14c.filter_respected: an event the filter rejects was delivered")
	}
	if completedBeforeStop {
		vCover("completed-before-stop")
		vAssert(deliveries == deliveredBefore, "H14c.no_redelivery_after_completion: a completed event was delivered again after restart")
	}
}

func H14c_twin() {
	kv := newHKV()
	s := hNewState(kv, 2, func(Transaction) bool { return true })
	n := 0
	_, _ = s.Notifier("sub", func(Event) (bool, error) { n++; return true, nil }, WithPersistency(kv))
	kv.crashAfterCommit = vBool()
	vRunUntilStop(func() { _ = s.Add(context.Background(), hNewTx(vRef(1), 0, [32]byte{}, nil), nil) })
	if n == 0 {
		vAssert(false, "H14c_twin.reach: reachable")
	}
}

// H14d: payload events. Two transactions admitted without payload (private transactions: the payload arrives
// later through WritePayload), or one of them admitted together with its payload; the two payloads are equal or
// different. A persistent subscriber that selects payload events and always succeeds must be handed, for EACH of
// the two transactions, an event carrying that transaction's reference and exactly its payload - also when the
// payload bytes are already in the payload store because another transaction has the same payload.
func H14d() {
	hRetryLog = nil
	kv := newHKV()
	ctx := context.Background()
	s := hNewState(kv, 2, func(Transaction) bool { return true })
	rec := &hRecorder{}
	filter := func(e Event) bool { return e.Type == PayloadEventType }
	_, err := s.Notifier("sub", rec.receive, WithPersistency(kv), WithSelectionFilter(filter))
	vAssert(err == nil, "H14d.notifier: cannot register")

	p1 := []byte{0x50, 1}
	p2 := []byte{0x50, 2}
	vTag("same_payload")
	if vBool() {
		vCover("same-payload")
		p2 = []byte{0x50, 1}
	} else {
		vCover("different-payloads")
	}
	root := hNewTx(vRef(1), 0, hash.SHA256Sum(p1), nil)
	child := hNewTx(vRef(1), 1, hash.SHA256Sum(p2), []hash.SHA256Hash{root.ref})
	vAssume(child.ref != root.ref)

	vTag("root_with_payload")
	rootWithPayload := vBool()
	if rootWithPayload {
		vAssert(s.Add(ctx, root, p1) == nil, "H14d.add_root: valid root with payload refused")
	} else {
		vAssert(s.Add(ctx, root, nil) == nil, "H14d.add_root: valid root refused")
	}
	vAssert(s.Add(ctx, child, nil) == nil, "H14d.add_child: valid child refused")
	if !rootWithPayload {
		vAssert(s.WritePayload(ctx, root, root.payload, p1) == nil, "H14d.write_root: WritePayload failed")
	}
	vAssert(s.WritePayload(ctx, child, child.payload, p2) == nil, "H14d.write_child: WritePayload failed")
	vWait()

	for i, t := range []*transaction{root, child} {
		want := p1
		if i == 1 {
			want = p2
		}
		n := 0
		for _, e := range rec.events {
			if e.Hash == t.ref {
				n++
				vAssert(e.Type == PayloadEventType, "H14d.filter_respected: subscriber got an event its filter rejects")
				vAssert(len(e.Payload) == len(want) && e.Payload[0] == want[0] && e.Payload[1] == want[1], "H14d.event_carries_payload: payload event does not carry the transaction's payload")
			}
		}
		if i == 0 {
			vAssert(n >= 1, "H14d.root_payload_delivered: payload of an admitted transaction never reached the subscriber")
		} else {
			vAssert(n >= 1, "H14d.second_payload_delivered: payload of an admitted transaction never reached the subscriber (same payload as an earlier transaction?)")
		}
	}
	// nothing is left behind as a pending job once the subscriber completed
	pending := 0
	_ = kv.ReadShelf(ctx, "_sub_jobs", func(r stoabs.Reader) error {
		return r.Iterate(func(stoabs.Key, []byte) error { pending++; return nil }, stoabs.BytesKey{})
	})
	vAssert(pending == 0, "H14d.completed_jobs_removed: completed deliveries left stored jobs")
}

func H14d_twin() {
	kv := newHKV()
	ctx := context.Background()
	s := hNewState(kv, 2, func(Transaction) bool { return true })
	rec := &hRecorder{}
	_, _ = s.Notifier("sub", rec.receive, WithPersistency(kv), WithSelectionFilter(func(e Event) bool { return e.Type == PayloadEventType }))
	p := []byte{0x50, 1}
	root := hNewTx(vRef(1), 0, hash.SHA256Sum(p), nil)
	_ = s.Add(ctx, root, nil)
	_ = s.WritePayload(ctx, root, root.payload, p)
	vWait()
	if len(rec.events) == 1 && rec.events[0].Hash == root.ref {
		vAssert(false, "H14d_twin.reach: reachable")
	}
}

// H14e: the retry budget across a restart. A job with Retries = r recorded before the stop is found by
// Notifier.Run() after the restart; the subscriber fails the start-up attempt with a retryable error and succeeds
// from then on. As long as the budget (maxRetries attempts) is not spent by the start-up attempt, the event goes
// back into the retry loop and is delivered; otherwise it stays stored and visible as failed.
func H14e() {
	hRetryLog = nil
	kv := newHKV()
	ctx := context.Background()
	calls := 0
	recv := func(Event) (bool, error) {
		calls++
		if calls == 1 {
			return false, errors.New("try again")
		}
		return true, nil
	}
	n := NewNotifier("sub", recv, WithPersistency(kv), WithContext(ctx)).(*notifier)
	tx := hNewTx(vRef(1), 0, [32]byte{}, nil)
	vTag("retries")
	r := vRange(0, 25)
	ev := Event{Type: TransactionEventType, Hash: tx.ref, Transaction: tx, Retries: r}
	vAssert(kv.Write(ctx, func(wtx stoabs.WriteTx) error { return n.Save(wtx, ev) }) == nil, "H14e.save_ok: Save failed")

	vAssert(n.Run() == nil, "H14e.run_ok: Run failed")
	vWait()

	var after *Event
	_ = kv.ReadShelf(ctx, n.shelfName(), func(rd stoabs.Reader) error {
		after, _ = n.readEvent(rd, ev.Hash)
		return nil
	})
	failed, ferr := n.GetFailedEvents()
	vAssert(ferr == nil, "H14e.failed_events_ok: GetFailedEvents failed")
	vAssert(calls >= 1, "H14e.attempted_at_startup: a stored job was not attempted at start-up")
	if r+1 < maxRetries {
		vCover("budget-left")
		vAssert(calls >= 2, "H14e.retried_while_budget_left: a job with retry budget left was abandoned after the start-up attempt")
		vAssert(after == nil, "H14e.completed_job_removed: job still stored after the subscriber completed")
	} else {
		vCover("budget-spent")
		vAssert(after != nil, "H14e.undelivered_stays_stored: an undelivered event vanished")
		vAssert(len(failed) == 1, "H14e.undelivered_visible_as_failed: an undelivered event with spent budget is not reported as failed")
	}
}

func H14e_twin() {
	kv := newHKV()
	ctx := context.Background()
	calls := 0
	n := NewNotifier("sub", func(Event) (bool, error) { calls++; return calls > 1, nil }, WithPersistency(kv), WithContext(ctx)).(*notifier)
	tx := hNewTx(vRef(1), 0, [32]byte{}, nil)
	ev := Event{Type: TransactionEventType, Hash: tx.ref, Transaction: tx, Retries: vRange(0, 25)}
	_ = kv.Write(ctx, func(wtx stoabs.WriteTx) error { return n.Save(wtx, ev) })
	_ = n.Run()
	vWait()
	if calls == 2 {
		vAssert(false, "H14e_twin.reach: reachable")
	}
}

// H14f: a completed delivery is not repeated - also not for a transaction WITH payload that is submitted twice
// concurrently. Two goroutines Add the same root transaction and its payload; two persistent subscribers (one per
// event type, as the real subscribers register) complete at their first call. Under every schedule within the
// preemption bound: each subscriber is called exactly once, no job record is left behind once completion was
// recorded (a record re-created by the loser of the race would be delivered again by Notifier.Run at the next
// start), and after a restart Run() calls nobody.
func H14f() {
	hRetryLog = nil
	kv := newHKV()
	ctx := context.Background()
	s := hNewState(kv, 2, func(Transaction) bool { return true })
	txRec, plRec := &hRecorder{}, &hRecorder{}
	_, err := s.Notifier("txsub", txRec.receive, WithPersistency(kv), WithSelectionFilter(func(e Event) bool { return e.Type == TransactionEventType }))
	vAssert(err == nil, "H14f.notifier: cannot register")
	_, err = s.Notifier("plsub", plRec.receive, WithPersistency(kv), WithSelectionFilter(func(e Event) bool { return e.Type == PayloadEventType }))
	vAssert(err == nil, "H14f.notifier: cannot register")
	payload := []byte{0x50, 1}
	root := hNewTx(vRef(1), 0, hash.SHA256Sum(payload), nil)
	var errA, errB error
	vGo(func() { errA = s.Add(ctx, root, payload) })
	vGo(func() { errB = s.Add(ctx, root, payload) })
	vWait()
	vCover("done")
	vAssert(errA == nil && errB == nil, "H14f.both_ok: concurrent Add of a valid transaction with payload failed")
	vAssert(len(txRec.events) == 1 && len(plRec.events) == 1, "H14f.delivered_once: a subscriber was not called exactly once for a transaction submitted twice")
	for _, shelf := range []string{"_txsub_jobs", "_plsub_jobs"} {
		left := 0
		_ = kv.ReadShelf(ctx, shelf, func(r stoabs.Reader) error {
			return r.Iterate(func(k stoabs.Key, v []byte) error {
				left++
				return nil
			}, stoabs.BytesKey{})
		})
		vAssert(left == 0, "H14f.no_job_after_completion: a job record exists after the subscriber's completion was recorded")
	}
	// restart: nothing is delivered again
	s2 := hNewState(kv, 2, func(Transaction) bool { return true })
	s2.loadState(ctx)
	n1, err := s2.Notifier("txsub", txRec.receive, WithPersistency(kv), WithSelectionFilter(func(e Event) bool { return e.Type == TransactionEventType }))
	vAssert(err == nil && n1.Run() == nil, "H14f.run_ok: Notifier.Run failed after restart")
	n2, err := s2.Notifier("plsub", plRec.receive, WithPersistency(kv), WithSelectionFilter(func(e Event) bool { return e.Type == PayloadEventType }))
	vAssert(err == nil && n2.Run() == nil, "H14f.run_ok: Notifier.Run failed after restart")
	vAssert(len(txRec.events) == 1 && len(plRec.events) == 1, "H14f.not_called_again_after_restart: a completed event was delivered again after a restart")
}

func H14f_twin() {
	kv := newHKV()
	ctx := context.Background()
	s := hNewState(kv, 2, func(Transaction) bool { return true })
	plRec := &hRecorder{}
	_, _ = s.Notifier("plsub", plRec.receive, WithPersistency(kv), WithSelectionFilter(func(e Event) bool { return e.Type == PayloadEventType }))
	payload := []byte{0x50, 1}
	root := hNewTx(vRef(1), 0, hash.SHA256Sum(payload), nil)
	if s.Add(ctx, root, payload) == nil && len(plRec.events) == 1 {
		vAssert(false, "H14f_twin.reach: reachable")
	}
}
