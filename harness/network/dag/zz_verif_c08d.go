//go:build verif

package dag

import (
	"context"

	"github.com/nuts-foundation/nuts-node/crypto/hash"
)

// hValidNext builds a valid successor of the current history (prev = a chosen stored transaction).
func hValidNext(txs []*transaction, hb int) *transaction {
	ref := vRef(hb)
	for _, o := range txs {
		vAssume(ref != o.ref)
	}
	p := txs[vChoice(len(txs))]
	return hNewTx(ref, p.lamportClock+1, hash.SHA256Hash{}, []hash.SHA256Hash{p.ref})
}

// H08d: a storage fault at an arbitrary write operation inside Add, a failing commit, or a process
// stop (panic out of the store) at an arbitrary write operation - followed by the rollback hook and,
// for the stop, a restart on the same store. Digests, head, counters must equal the committed set.
func H08d() {
	leafSize := uint32(2)
	hb := vParam("hashbytes", 1)
	k := vLen(1, vParam("kd", 2))
	kv := newHKV()
	s := hNewState(kv, leafSize, func(Transaction) bool { return true })
	txs := hHistory(s, k, hb)
	next := hValidNext(txs, hb)
	ctx := context.Background()

	mode := vChoice(3)
	at := kv.writes + vRange(1, vParam("maxwrites", 12))
	switch mode {
	case 0:
		vCover("fault")
		kv.failAt = at
	case 1:
		vCover("commit-fails")
		kv.commitFails = true
	case 2:
		vCover("crash")
		kv.crashAt = at
	}
	var err error
	crashed := vRunUntilStop(func() { err = s.Add(ctx, next, nil) })
	if crashed {
		kv.mu.TryLock() // the stopped process held the store lock; release it for the restart
		kv.mu.Unlock()
	}
	kv.failAt, kv.crashAt = 0, 0
	present, _ := s.IsPresent(ctx, next.ref)
	if crashed {
		vCover("crashed")
		vAssert(!present, "H08d.crash_not_committed: a transaction whose write transaction was interrupted is present")
		// restart from disk
		s2 := hNewState(kv, leafSize, func(Transaction) bool { return true })
		s2.loadState(ctx)
		hCheckDerived("H08d.restart", s2, kv, txs, leafSize)
		// and a repeated attempt can succeed
		vAssert(s2.Add(ctx, next, nil) == nil, "H08d.retry_after_crash: re-adding after restart failed")
		hCheckDerived("H08d.restart_retry", s2, kv, append(txs, next), leafSize)
		return
	}
	if err != nil {
		vCover("rolled-back")
		vAssert(!present, "H08d.rollback_not_present: failed Add left the transaction present")
		hCheckDerived("H08d.rollback", s, kv, txs, leafSize)
		// retry succeeds and yields the state of the full set
		vAssert(s.Add(ctx, next, nil) == nil, "H08d.retry_after_rollback: re-adding after a rolled-back Add failed")
		hCheckDerived("H08d.rollback_retry", s, kv, append(txs, next), leafSize)
	} else {
		vCover("fault-not-hit")
		vAssert(present, "H08d.success_present: successful Add did not store the transaction")
		hCheckDerived("H08d.nofault", s, kv, append(txs, next), leafSize)
	}
}

func H08d_twin() {
	kv := newHKV()
	s := hNewState(kv, 2, func(Transaction) bool { return true })
	txs := hHistory(s, 1, 1)
	next := hValidNext(txs, 1)
	kv.failAt = kv.writes + vRange(1, 12)
	if s.Add(context.Background(), next, nil) != nil {
		vAssert(false, "H08d_twin.reach: reachable")
	}
}

// H06b: two goroutines add the same transaction, or two siblings, concurrently. Scheduling points are
// the store lock, the tree-store mutexes and the atomics; the schedule is a symbolic choice.
func H06b() {
	leafSize := uint32(2)
	hb := vParam("hashbytes", 1)
	kv := newHKV()
	s := hNewState(kv, leafSize, func(Transaction) bool { return true })
	rec := &hRecorder{}
	_, err := s.Notifier("txsub", rec.receive, WithPersistency(kv), WithSelectionFilter(func(e Event) bool { return e.Type == TransactionEventType }))
	vAssert(err == nil, "H06b.notifier: cannot register notifier")
	txs := hHistory(s, 1, hb)
	a := hValidNext(txs, hb)
	b := a
	same := vBool()
	if !same {
		b = hValidNext(txs, hb)
		vAssume(b.ref != a.ref)
		vCover("siblings")
	} else {
		vCover("same-tx")
	}
	ctx := context.Background()
	n0 := len(rec.events)
	var errA, errB error
	vGo(func() { errA = s.Add(ctx, a, nil) })
	vGo(func() { errB = s.Add(ctx, b, nil) })
	vWait()
	vAssert(errA == nil && errB == nil, "H06b.both_ok: concurrent Add of valid transactions failed")
	if same {
		vAssert(len(rec.events) == n0+1, "H06b.same_notified_once: a transaction submitted twice concurrently was notified more or less than once")
		vAssert(s.transactionCount.(*hCounter).n == 2, "H06b.same_counted_once: a transaction submitted twice concurrently was counted more or less than once")
		hCheckDerived("H06b.same", s, kv, append(txs, a), leafSize)
	} else {
		vAssert(len(rec.events) == n0+2, "H06b.siblings_notified_once_each: concurrent siblings were not notified exactly once each")
		hCheckDerived("H06b.siblings", s, kv, append(txs, a, b), leafSize)
	}
	// after a restart the digests are still those of the stored set
	s2 := hNewState(kv, leafSize, func(Transaction) bool { return true })
	s2.loadState(ctx)
	if same {
		hCheckDerived("H06b.restart", s2, kv, append(txs, a), leafSize)
	} else {
		hCheckDerived("H06b.restart", s2, kv, append(txs, a, b), leafSize)
	}
}

func H06b_twin() {
	kv := newHKV()
	s := hNewState(kv, 2, func(Transaction) bool { return true })
	txs := hHistory(s, 1, 1)
	a := hValidNext(txs, 1)
	order := 0
	vGo(func() { _ = s.Add(context.Background(), a, nil); if order == 0 { order = 1 } })
	vGo(func() { _ = s.Add(context.Background(), a, nil); if order == 0 { order = 2 } })
	vWait()
	if order == 2 {
		vAssert(false, "H06b_twin.reach: reachable")
	}
}

// H08g: two goroutines add the same transaction, or two siblings, concurrently (every schedule within the
// preemption bound): afterwards digests, listing, highest clock, head and count equal what the stored set
// implies - in the running state and after a restart from the store.
func H08g() {
	leafSize := uint32(2)
	hb := vParam("hashbytes", 1)
	kv := newHKV()
	s := hNewState(kv, leafSize, func(Transaction) bool { return true })
	txs := hHistory(s, 1, hb)
	a := hValidNext(txs, hb)
	b := a
	same := vBool()
	if !same {
		b = hValidNext(txs, hb)
		vAssume(b.ref != a.ref)
		vCover("siblings")
	} else {
		vCover("same-tx")
	}
	ctx := context.Background()
	vGo(func() { _ = s.Add(ctx, a, nil) })
	vGo(func() { _ = s.Add(ctx, b, nil) })
	vWait()
	set := append(txs, a)
	if !same {
		set = append(set, b)
	}
	hCheckDerived("H08g", s, kv, set, leafSize)
	s2 := hNewState(kv, leafSize, func(Transaction) bool { return true })
	s2.loadState(ctx)
	hCheckDerived("H08g.restart", s2, kv, set, leafSize)
}

func H08g_twin() {
	kv := newHKV()
	s := hNewState(kv, 2, func(Transaction) bool { return true })
	txs := hHistory(s, 1, 1)
	a := hValidNext(txs, 1)
	n := 0
	vGo(func() { _ = s.Add(context.Background(), a, nil); n++ })
	vGo(func() { _ = s.Add(context.Background(), a, nil); n++ })
	vWait()
	if n == 2 {
		vAssert(false, "H08g_twin.reach: reachable")
	}
}

// H08r: the repair sweep (xorTreeRepair.checkPage) visits every page. For an arbitrary highest clock and an
// arbitrary current page of the sweep (within the DAG), one real checkPage step on an (empty, consistent) store
// moves the cursor to the next page while there is one - also when the highest clock is the first clock of the
// last page - and back to page 0 after the last page: so a sweep 0, 1, .., lastPage covers the page of every
// stored transaction, and a damaged digest on any page is reached.
func H08r() {
	kv := newHKV()
	s := hNewState(kv, PageSize, func(Transaction) bool { return true })
	f := &xorTreeRepair{state: s, circuitState: circuitRed}
	vTag("highest_clock")
	high := vU32()
	vAssume(high < 1<<31)
	vTag("current_page")
	cur := vU32()
	lastPage := high / PageSize
	vAssume(cur <= lastPage)
	s.lamportClockHigh.Store(high)
	f.currentPage = cur
	f.checkPage()
	if cur < lastPage {
		vCover("advance")
		if high%PageSize == 0 && cur+1 == lastPage {
			vCover("last-page-holds-only-the-highest-clock")
		}
		vAssert(f.currentPage == cur+1, "H08r.sweep_advances: the repair sweep does not move on to the next page although the DAG has one (that page is never checked)")
	} else {
		vCover("wrap")
		vAssert(f.currentPage == 0, "H08r.sweep_wraps: the repair sweep does not start over after the last page")
	}
}

func H08r_twin() {
	kv := newHKV()
	s := hNewState(kv, PageSize, func(Transaction) bool { return true })
	f := &xorTreeRepair{state: s, circuitState: circuitRed}
	s.lamportClockHigh.Store(uint32(vRange(0, 2000)))
	f.currentPage = 1
	f.checkPage()
	if f.currentPage == 2 {
		vAssert(false, "H08r_twin.reach: reachable")
	}
}
