//go:build verif

package dag

import (
	"crypto"
	"crypto/ecdsa"
	"crypto/rsa"
	"errors"
	"time"

	ssi "github.com/nuts-foundation/go-did"
	"github.com/nuts-foundation/go-did/did"
	"github.com/nuts-foundation/nuts-node/vdr/resolver"
)

// ECIES itself is not the subject: the ciphertext is the key's number followed by the plaintext, or an error.
//verif:stub github.com/nuts-foundation/nuts-node/crypto.EciesEncrypt => hEciesEncrypt

var hEciesFails bool
var hEciesKeys []*ecdsa.PublicKey

func hEciesEncrypt(key *ecdsa.PublicKey, plaintext []byte) ([]byte, error) {
	if hEciesFails {
		return nil, errors.New("harness: ecies failure")
	}
	idx := byte(255)
	for i, k := range hEciesKeys {
		if k == key {
			idx = byte(i)
		}
	}
	return append([]byte{idx}, plaintext...), nil
}

// hPALResolver: key agreement key per participant: an EC key, a deactivated document, another resolution error, or
// a key of another type.
type hPALResolver struct {
	resolver.KeyResolver
	outcome map[string]int
	keys    map[string]*ecdsa.PublicKey
}

func (r *hPALResolver) ResolveKey(id did.DID, _ *time.Time, rel resolver.RelationType) (string, crypto.PublicKey, error) {
	switch r.outcome[id.String()] {
	case 1:
		return "", nil, resolver.ErrDeactivated
	case 2:
		return "", nil, resolver.ErrNotFound
	case 3:
		return "", &rsa.PublicKey{}, nil
	}
	return id.String() + "#k", r.keys[id.String()], nil
}

// H15h (C15): the participant list header of a private transaction (PAL.Encrypt, used by
// network.CreateTransaction, which decides "private" on the number of participants and publishes the payload to
// everybody when the header is empty). For 1..n participants whose key agreement key resolves, is deactivated,
// cannot be resolved or has another type: a header is produced only if every participant has a usable key; it
// then has one entry per participant, each holding the complete participant list; in every other case the call
// fails - it never yields a shorter or empty header for a non-empty list.
func H15h() {
	n := vLen(1, vParam("participants", 3))
	res := &hPALResolver{outcome: map[string]int{}, keys: map[string]*ecdsa.PublicKey{}}
	hEciesKeys = nil
	var pal PAL
	allOK := true
	want := ""
	for i := 0; i < n; i++ {
		d := did.DID{Method: "nuts", ID: string(rune('a' + i)), DecodedID: string(rune('a' + i))}
		pal = append(pal, d)
		vTag("key_outcome")
		o := vChoice(4)
		res.outcome[d.String()] = o
		k := &ecdsa.PublicKey{}
		res.keys[d.String()] = k
		hEciesKeys = append(hEciesKeys, k)
		allOK = allOK && o == 0
		if i > 0 {
			want += "\n"
		}
		want += d.String()
	}
	vTag("ecies_fails")
	hEciesFails = vBool()
	header, err := pal.Encrypt(res)
	if err == nil {
		vCover("header-produced")
		vAssert(allOK && !hEciesFails, "H15h.header_needs_every_key: a participant list header was produced although a participant has no usable key agreement key")
		vAssert(len(header) == n, "H15h.one_entry_per_participant: the header does not have one entry per participant (an empty header makes the transaction public)")
		for i, ct := range header {
			vAssert(len(ct) > 0 && int(ct[0]) == i, "H15h.entry_for_participant_key: header entry is not encrypted with the participant's key")
			vAssert(string(ct[1:]) == want, "H15h.entry_holds_whole_list: a header entry does not hold the complete participant list")
		}
	} else {
		vCover("refused")
		vAssert(header == nil, "H15h.error_without_header: error together with a header")
		vAssert(!allOK || hEciesFails, "H15h.valid_list_encrypted: a list of participants with usable keys was refused")
	}
	_ = ssi.URI{}
}

func H15h_twin() {
	d := did.DID{Method: "nuts", ID: "a", DecodedID: "a"}
	k := &ecdsa.PublicKey{}
	hEciesKeys = []*ecdsa.PublicKey{k}
	hEciesFails = false
	res := &hPALResolver{outcome: map[string]int{d.String(): vChoice(2)}, keys: map[string]*ecdsa.PublicKey{d.String(): k}}
	if h, err := (PAL{d}).Encrypt(res); err == nil && len(h) == 1 {
		vAssert(false, "H15h_twin.reach: reachable")
	}
}
