//go:build verif

package dag

import (
	crypto2 "crypto"
	"crypto/ecdsa"
	"errors"
	"fmt"
	"strings"

	"github.com/lestrrat-go/jwx/v2/jwa"
	"github.com/lestrrat-go/jwx/v2/jwk"
	"github.com/lestrrat-go/jwx/v2/jws"
	"github.com/nuts-foundation/nuts-node/crypto/hash"
)

// C17 harnesses for network/dag: algorithm allow-list (H17a_dag), key-source decision of the parser
// (H17c_dag) and of the signature verifier (H17c_dagverify). This file is also loaded (through a symlink)
// by harness/network/dag_c17, which adds the signature-count harness on the REAL ParseTransaction
// (here ParseTransaction is replaced by the C06 stub).

// h17AsymmetricJWA is the reference set, written down independently of the code under test: every
// digital-signature (asymmetric) "alg" value registered for JWS - RFC 7518 section 3.1 (RS*, ES*, PS*),
// RFC 8037 (EdDSA), RFC 8812 (ES256K).
func h17AsymmetricJWA(s string) bool {
	switch s {
	case "RS256", "RS384", "RS512",
		"ES256", "ES384", "ES512", "ES256K",
		"PS256", "PS384", "PS512",
		"EdDSA":
		return true
	}
	return false
}

// h17ForbiddenLookalike: s equals none/HS256/HS384/HS512 after ASCII case folding and removal of
// spaces, tabs, CR, LF and NUL bytes (the case/space variants named by the property).
func h17ForbiddenLookalike(s string) bool {
	var folded []byte
	for i := 0; i < len(s); i++ {
		c := s[i]
		if c == ' ' || c == '\t' || c == '\r' || c == '\n' || c == 0 {
			continue
		}
		if c >= 'A' && c <= 'Z' {
			c += 'a' - 'A'
		}
		folded = append(folded, c)
	}
	switch string(folded) {
	case "none", "hs256", "hs384", "hs512":
		return true
	}
	return false
}

// jws.Headers value object. Contract of jwx (jws/headers_gen.go): registered parameters are typed -
// Get("jwk") yields a jwk.Key, Get("kid") a string ("" when the JSON says "kid": ""), Algorithm() a
// jwa.SignatureAlgorithm ("" when absent); private parameters (sigt, ver, prevs, pal, lc) carry whatever
// JSON value was sent: float64, string, []interface{}, ...
type h17Key struct {
	jwk.Key
	raw     crypto2.PublicKey
	private bool
}

func (k *h17Key) Raw(v interface{}) error {
	if p, ok := v.(*crypto2.PublicKey); ok {
		*p = k.raw
		return nil
	}
	return errors.New("harness: raw key type mismatch")
}

type h17Headers struct {
	jws.Headers
	alg, cty, kid  string
	hasKid, hasJWK bool
	key            *h17Key
	private        map[string]interface{}
}

func (h *h17Headers) Algorithm() jwa.SignatureAlgorithm { return jwa.SignatureAlgorithm(h.alg) }
func (h *h17Headers) ContentType() string               { return h.cty }
func (h *h17Headers) KeyID() string {
	if h.hasKid {
		return h.kid
	}
	return ""
}
func (h *h17Headers) JWK() jwk.Key {
	if h.hasJWK {
		return h.key
	}
	return nil
}
func (h *h17Headers) Get(name string) (interface{}, bool) {
	switch name {
	case jws.JWKKey:
		if h.hasJWK {
			return jwk.Key(h.key), true
		}
		return nil, false
	case jws.KeyIDKey:
		if h.hasKid {
			return h.kid, true
		}
		return nil, false
	case jws.AlgorithmKey:
		if h.alg != "" {
			return jwa.SignatureAlgorithm(h.alg), true
		}
		return nil, false
	case jws.ContentTypeKey:
		if h.cty != "" {
			return h.cty, true
		}
		return nil, false
	}
	v, ok := h.private[name]
	return v, ok
}

// h17SymKeyHeaders: alg arbitrary 5 bytes, kid absent / "" / one arbitrary byte, jwk absent or present.
func h17SymKeyHeaders() *h17Headers {
	h := &h17Headers{cty: "application/did+json"}
	vTag("alg")
	h.alg = vString(5)
	vTag("hasKid")
	h.hasKid = vBool()
	vTag("kid")
	h.kid = vString(vLen(0, 1))
	vTag("hasJWK")
	h.hasJWK = vBool()
	h.key = &h17Key{}
	return h
}

// H17a_dag: isAlgoAllowed and parseSigningAlgorithm for ALL strings up to `algbytes` bytes.
func H17a_dag() {
	n := vLen(0, vParam("algbytes", 6))
	vTag("alg")
	s := vString(n)
	ok := isAlgoAllowed(jwa.SignatureAlgorithm(s))
	err := parseSigningAlgorithm(&transaction{}, &h17Headers{alg: s}, nil)
	vAssert(ok == (err == nil), "H17a_dag.step_uses_allowlist: parseSigningAlgorithm and isAlgoAllowed disagree")
	if ok {
		vCover("accepted")
		vAssert(h17AsymmetricJWA(s), "H17a_dag.accepted_is_asymmetric: isAlgoAllowed accepts an algorithm outside the asymmetric reference set")
		vAssert(!h17ForbiddenLookalike(s), "H17a_dag.none_mac_rejected: isAlgoAllowed accepts none/HS* or a case/space variant")
	} else {
		vCover("rejected")
	}
}

func H17a_dag_twin() {
	s := vString(5)
	if parseSigningAlgorithm(&transaction{}, &h17Headers{alg: s}, nil) == nil && s[0] == 'P' {
		vAssert(false, "H17a_dag_twin.reach: reachable")
	}
}

// H17c_dag: parseSignatureParams (RFC004 3.1): accepted <=> exactly one of jwk / non-empty kid is given;
// the transaction then carries exactly that key source and the algorithm of the protected header.
func H17c_dag() {
	h := h17SymKeyHeaders()
	tx := &transaction{}
	err := parseSignatureParams(tx, h, nil)
	byKid := h.hasKid && h.kid != ""
	if err == nil {
		vCover("accepted")
		vAssert(h.hasJWK != byKid, "H17c_dag.kid_xor_jwk: accepted a transaction with both or neither of jwk and kid")
		if h.hasJWK {
			vCover("accepted-jwk")
			vAssert(tx.SigningKey() == jwk.Key(h.key) && tx.SigningKeyID() == "", "H17c_dag.embedded_key_is_header_jwk: signing key is not the embedded jwk of the protected header")
		} else {
			vCover("accepted-kid")
			vAssert(tx.SigningKey() == nil && tx.SigningKeyID() == h.kid, "H17c_dag.kid_is_header_kid: signing key id is not the kid of the protected header")
		}
		vAssert(tx.SigningAlgorithm() == h.alg, "H17c_dag.alg_is_header_alg: signing algorithm is not the alg of the protected header")
	} else {
		vCover("rejected")
		vAssert(h.hasJWK == byKid, "H17c_dag.xor_accepted: rejected a transaction carrying exactly one of jwk and kid")
	}
}

func H17c_dag_twin() {
	h := h17SymKeyHeaders()
	tx := &transaction{}
	if parseSignatureParams(tx, h, nil) == nil && tx.signingKeyID != "" && h.alg[0] == 'P' {
		vAssert(false, "H17c_dag_twin.reach: reachable")
	}
}

// ---------------------------------------------------------------------------------------------
// H17c_dagverify: NewTransactionSignatureVerifier. jws.Verify stand-in with a harness-chosen verdict;
// the algorithm and key are recovered from the REAL option object built by the real jws.WithKey.

//verif:stub github.com/lestrrat-go/jwx/v2/jws.Verify => h17JWSVerify

type h17VerifyCall struct {
	data []byte
	alg  string
	key  interface{}
}

var h17VerifyCalls []h17VerifyCall
var h17VerifyOK bool

func h17JWSVerify(buf []byte, options ...jws.VerifyOption) ([]byte, error) {
	c := h17VerifyCall{data: buf}
	for _, o := range options {
		// (the engine prints %T with the full package path, Go with the package name: accept both)
		if strings.HasSuffix(fmt.Sprintf("%T", o.Ident()), "jws.identKey") {
			if a, ok := vGetField(o.Value(), "alg").(jwa.SignatureAlgorithm); ok {
				c.alg = string(a)
			}
			c.key = vGetField(o.Value(), "key")
		}
	}
	h17VerifyCalls = append(h17VerifyCalls, c)
	if h17VerifyOK {
		return []byte("payload"), nil
	}
	return nil, errors.New("harness: could not verify message using any of the signatures or keys")
}

type h17PubKey struct{ id int }

type h17Resolver struct {
	found bool
	key   *h17PubKey
	kids  []string
	prevs [][]hash.SHA256Hash
}

func (r *h17Resolver) ResolvePublicKey(kid string, refs []hash.SHA256Hash) (crypto2.PublicKey, error) {
	r.kids = append(r.kids, kid)
	r.prevs = append(r.prevs, refs)
	if r.found {
		return r.key, nil
	}
	return nil, errors.New("harness: key not found in DID document")
}

func H17c_dagverify() {
	embedded := &h17Key{raw: &h17PubKey{id: 1}}
	res := &h17Resolver{key: &h17PubKey{id: 2}}
	vTag("resolverFinds")
	res.found = vBool()
	vTag("signatureVerifies")
	h17VerifyOK = vBool()
	vTag("alg")
	alg := vString(5)
	prevs := []hash.SHA256Hash{{1}, {2}}
	tx := &transaction{signingAlgorithm: jwa.SignatureAlgorithm(alg), prevs: prevs, data: []byte("the.received.bytes"), ref: hash.SHA256Hash{9}}
	byJWK := vBool()
	if byJWK {
		tx.signingKey = embedded
	} else {
		tx.signingKeyID = "did:nuts:x#k"
	}
	err := NewTransactionSignatureVerifier(res)(nil, tx)
	if err != nil {
		vCover("rejected")
		vAssert(!(h17VerifyOK && (byJWK || res.found)), "H17c_dagverify.valid_accepted: rejected a transaction whose signature verifies under the right key")
		return
	}
	vCover("accepted")
	vAssert(h17VerifyOK && len(h17VerifyCalls) == 1, "H17c_dagverify.verified: accepted a transaction whose signature was not verified")
	c := h17VerifyCalls[0]
	vAssert(string(c.data) == "the.received.bytes", "H17c_dagverify.verify_received_bytes: verification ran on something else than the transaction's received bytes")
	vAssert(c.alg == alg, "H17c_dagverify.verify_with_parsed_alg: verification used another algorithm than the (allow-listed) alg of the protected header")
	if byJWK {
		vCover("accepted-embedded-key")
		vAssert(c.key == interface{}(embedded.raw), "H17c_dagverify.embedded_key_used: transaction with embedded jwk verified with another key")
		vAssert(len(res.kids) == 0, "H17c_dagverify.no_resolution_for_embedded: resolver consulted for a transaction with embedded key")
	} else {
		vCover("accepted-resolved-key")
		vAssert(res.found && c.key == interface{}(crypto2.PublicKey(res.key)), "H17c_dagverify.resolved_key_used: transaction with kid verified with a key that was not resolved from the DID document")
		vAssert(len(res.kids) == 1 && res.kids[0] == "did:nuts:x#k", "H17c_dagverify.resolved_by_kid: key resolved under another kid than the transaction's")
		vAssert(len(res.prevs) == 1 && len(res.prevs[0]) == 2 && res.prevs[0][0] == prevs[0] && res.prevs[0][1] == prevs[1], "H17c_dagverify.resolved_at_prevs: key not resolved at the transaction's previous transactions")
	}
}

// ---------------------------------------------------------------------------------------------
// H17c_dag_privjwk: "embedded private keys are refused". A transaction whose protected header embeds a
// PRIVATE JWK goes through the two places that look at the embedded key - parseSignatureParams and the
// signature verifier (signature verdict: verifies, which is what jwx answers for a private key: it uses
// crypto.Signer.Public()). The private fake looks private under every check jwx offers: it implements
// jwk.ECDSAPrivateKey, Raw(&ecdsa.PrivateKey) succeeds, Raw(&interface{}) and Raw(&crypto.Signer) yield *ecdsa.PrivateKey.
type h17PrivKey struct{ jwk.ECDSAPrivateKey }

func (k *h17PrivKey) Raw(v interface{}) error {
	switch p := v.(type) {
	case *ecdsa.PrivateKey:
		return nil
	case *crypto2.PublicKey: // = *interface{}
		*p = &ecdsa.PrivateKey{}
		return nil
	case *crypto2.Signer: // jwx assigns the raw key when it is assignable to the target: a private key is a crypto.Signer
		*p = &ecdsa.PrivateKey{}
		return nil
	}
	return errors.New("harness: raw key type mismatch")
}

type h17PubJWK struct{ jwk.ECDSAPublicKey }

func (k *h17PubJWK) Raw(v interface{}) error {
	switch p := v.(type) {
	case *ecdsa.PublicKey:
		return nil
	case *crypto2.PublicKey:
		*p = &ecdsa.PublicKey{}
		return nil
	}
	return errors.New("harness: raw key type mismatch")
}

type h17JWKHeaders struct {
	h17Headers
	embedded jwk.Key
}

func (h *h17JWKHeaders) JWK() jwk.Key { return h.embedded }
func (h *h17JWKHeaders) Get(name string) (interface{}, bool) {
	if name == jws.JWKKey {
		return h.embedded, true
	}
	return h.h17Headers.Get(name)
}

func H17c_dag_privjwk() {
	h := &h17JWKHeaders{h17Headers: h17Headers{alg: "ES256", cty: "application/did+json"}}
	vTag("embeddedKeyIsPrivate")
	private := vBool()
	if private {
		h.embedded = &h17PrivKey{}
	} else {
		h.embedded = &h17PubJWK{}
	}
	tx := &transaction{data: []byte("the.received.bytes")}
	if err := parseSignatureParams(tx, h, nil); err != nil {
		vCover("rejected-by-parser")
		vAssert(private, "H17c_dag_privjwk.public_jwk_parsed: parser rejected a transaction embedding a public jwk")
		return
	}
	h17VerifyOK = true
	if err := NewTransactionSignatureVerifier(&h17Resolver{})(nil, tx); err != nil {
		vCover("rejected-by-verifier")
		vAssert(private, "H17c_dag_privjwk.public_jwk_verified: verifier rejected a transaction embedding a public jwk")
		return
	}
	vCover("accepted")
	if private {
		vClass("transaction embeds the signer's private key as jwk")
	}
	vAssert(!private, "H17c_dag_privjwk.private_jwk_refused: a transaction embedding a PRIVATE key as jwk passes parser and signature verifier")
}

func H17c_dag_privjwk_twin() {
	h := &h17JWKHeaders{h17Headers: h17Headers{alg: "ES256"}, embedded: &h17PubJWK{}}
	tx := &transaction{data: []byte("d")}
	h17VerifyOK = vBool()
	if parseSignatureParams(tx, h, nil) == nil && NewTransactionSignatureVerifier(&h17Resolver{})(nil, tx) == nil {
		vAssert(false, "H17c_dag_privjwk_twin.reach: reachable")
	}
}

func H17c_dagverify_twin() {
	res := &h17Resolver{key: &h17PubKey{id: 2}, found: true}
	h17VerifyOK = vBool()
	tx := &transaction{signingAlgorithm: jwa.ES256, signingKeyID: "k", data: []byte("d")}
	if NewTransactionSignatureVerifier(res)(nil, tx) == nil && len(res.kids) == 1 {
		vAssert(false, "H17c_dagverify_twin.reach: reachable")
	}
}
