//go:build verif

package tree

// H19b: set-reconciliation filters received from peers. UnmarshalBinary on arbitrary bytes of every
// length up to a bound, then validate/Subtract against a local IBLT and Decode: never panics, never
// loops (the engine's unwinding bound turns a hang into a failure), wrong shapes are rejected.
func H19b() {
	n := vLen(0, vParam("maxbytes", 90))
	data := vBytes(n)
	remote := &Iblt{}
	err := remote.UnmarshalBinary(data)
	if n%bucketBytes != 0 {
		vCover("bad-length")
		vAssert(err != nil, "H19b.bad_length_rejected: IBLT with a length that is not a multiple of the bucket size was accepted")
		return
	}
	vAssert(err == nil, "H19b.well_sized_accepted: well-sized IBLT rejected")
	vAssert(remote.numBuckets() == n/bucketBytes, "H19b.bucket_count: wrong number of buckets after unmarshal")
	// round trip
	out, merr := remote.MarshalBinary()
	vAssert(merr == nil && len(out) == n, "H19b.marshal_roundtrip_len: Marshal(Unmarshal(x)) has a different length")
	for i := 0; i < n; i++ {
		vAssert(out[i] == data[i], "H19b.marshal_roundtrip: Marshal(Unmarshal(x)) != x")
	}
	local := NewIblt(vParam("localbuckets", 6))
	serr := local.Subtract(remote)
	if remote.numBuckets() != local.numBuckets() {
		vCover("shape-mismatch")
		vAssert(serr != nil, "H19b.shape_mismatch_rejected: IBLT with a different number of buckets was accepted by Subtract")
		return
	}
	vCover("same-shape")
	vAssert(serr == nil, "H19b.same_shape_accepted: same-shape IBLT rejected")
	if vParam("decode", 0) == 1 {
		_, _, _ = local.Decode()
		vCover("decoded")
	}
}

func H19b_twin() {
	data := vBytes(bucketBytes)
	r := &Iblt{}
	if r.UnmarshalBinary(data) == nil && r.buckets[0].count == 7 {
		vAssert(false, "H19b_twin.reach: reachable")
	}
}
