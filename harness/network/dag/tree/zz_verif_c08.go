//go:build verif

package tree

import (
	"github.com/nuts-foundation/nuts-node/crypto/hash"
)

// vHash returns a transaction reference whose first k bytes are symbolic and the rest zero.
// (The code under test treats all 32 bytes uniformly in byte loops.)
func vHash(k int) hash.SHA256Hash {
	var h hash.SHA256Hash
	b := vBytes(k)
	for i := 0; i < k; i++ {
		h[i] = b[i]
	}
	return h
}

func xorInto(acc *hash.SHA256Hash, h hash.SHA256Hash) {
	for i := range acc {
		acc[i] ^= h[i]
	}
}

// H08a: the Xor tree (real Insert/reRoot/getNextNode/newBranch/ZeroTo/Root/Updates/Load/DropLeaves)
// after k causally ordered inserts of symbolic refs at symbolic clocks.
//
// Precondition (DAG invariant established by C06): the first transaction has clock 0 and every
// later clock is at most 1 + the highest clock inserted so far (a transaction's clock is
// 1 + the highest clock of its prevs, which are present).
func H08a() {
	leafSize := uint32(2)
	if vParam("leaf4", 0) == 1 && vBool() {
		leafSize = 4
	}
	k := vLen(1, vParam("k", 3))
	hb := vParam("hashbytes", 2)

	tr := New(NewXor(), leafSize).(*tree)
	store := map[uint32][]byte{} // what treeStore.writeWithoutLock persists

	refs := make([]hash.SHA256Hash, k)
	clocks := make([]uint32, k)
	var high uint32
	for i := 0; i < k; i++ {
		refs[i] = vHash(hb)
		c := uint32(vRange(0, int(high)+1))
		if i == 0 {
			vAssume(c == 0)
		}
		c = uint32(vConc(int(c)))
		clocks[i] = c
		if c > high {
			high = c
		}
		tr.Insert(refs[i], c)
		// persist like treeStore.writeWithoutLock
		dirty, orphaned := tr.Updates()
		tr.ResetUpdates()
		vAssert(len(orphaned) == 0, "H08a.no_orphans_on_insert: Insert orphaned a leaf")
		for key, data := range dirty {
			store[key] = data
		}
	}
	if high >= leafSize {
		vCover("crossed-page")
	}
	if high >= 2*leafSize {
		vCover("re-rooted-twice")
	}

	// Root() is the XOR of all refs
	var all hash.SHA256Hash
	for i := 0; i < k; i++ {
		xorInto(&all, refs[i])
	}
	root := tr.Root().(*Xor)
	vAssert(hash.SHA256Hash(*root) == all, "H08a.root_is_xor_of_all: Root() differs from the XOR of all inserted refs")

	// ZeroTo(q) for an arbitrary query clock
	q := uint32(vRange(0, int(high)+int(leafSize)+1))
	checkZeroTo(tr, "H08a", q, leafSize, refs, clocks)

	// a fresh tree loaded from the persisted leaves answers identically
	tr2 := New(NewXor(), leafSize).(*tree)
	err := tr2.Load(store)
	vAssert(err == nil, "H08a.load_ok: Load() of persisted leaves failed")
	root2 := tr2.Root().(*Xor)
	vAssert(hash.SHA256Hash(*root2) == all, "H08a.load_root: reloaded tree has a different root")
	d1, c1 := tr.ZeroTo(q)
	d2, c2 := tr2.ZeroTo(q)
	vAssert(c1 == c2, "H08a.load_zeroto_clock: reloaded tree returns a different clock for ZeroTo")
	vAssert(*d1.(*Xor) == *d2.(*Xor), "H08a.load_zeroto_data: reloaded tree returns a different digest for ZeroTo")

	// DropLeaves keeps all answers at the coarser page size
	if vParam("drop", 1) == 1 && !tr.root.isLeaf() {
		vCover("dropleaves")
		tr.DropLeaves()
		root3 := tr.Root().(*Xor)
		vAssert(hash.SHA256Hash(*root3) == all, "H08a.drop_root: DropLeaves changed the root")
		checkZeroTo(tr, "H08a.drop", q, 2*leafSize, refs, clocks)
	}
}

// checkZeroTo asserts the documented contract of ZeroTo against the reference computed from the
// inserted set: the digest covers exactly the refs with clock <= returned clock, the returned clock
// ends a page, does not exceed the end of the page q is on, and no inserted ref lies between the
// returned clock and the end of q's page.
func checkZeroTo(tr *tree, id string, q, leafSize uint32, refs []hash.SHA256Hash, clocks []uint32) {
	data, lc := tr.ZeroTo(q)
	pageEnd := (q/leafSize+1)*leafSize - 1
	vAssert(lc <= pageEnd, id+".zeroto_clock_le_pageend: ZeroTo returned a clock beyond the requested page")
	vAssert((lc+1)%leafSize == 0, id+".zeroto_clock_ends_page: ZeroTo returned a clock that does not end a page")
	var upToLC, upToPage hash.SHA256Hash
	for i := range refs {
		if clocks[i] <= lc {
			xorInto(&upToLC, refs[i])
		}
		if clocks[i] <= pageEnd {
			xorInto(&upToPage, refs[i])
		}
	}
	got := hash.SHA256Hash(*data.(*Xor))
	vAssert(got == upToLC, id+".zeroto_digest_matches_clock: ZeroTo digest is not the XOR of refs with clock <= returned clock")
	vAssert(got == upToPage, id+".zeroto_digest_covers_page: ZeroTo digest misses or adds refs of the requested page range")
}

// H08a_twin: vacuity witness.
func H08a_twin() {
	tr := New(NewXor(), 2).(*tree)
	r := vHash(1)
	c := uint32(vRange(0, 5))
	tr.Insert(r, c)
	_, lc := tr.ZeroTo(c)
	if lc >= 3 {
		vAssert(false, "H08a_twin.reach: reachable")
	}
}

// H08e: restart, then insert, then restart again. A tree of L leaves (1..leaves; one symbolic ref per leaf, so
// also leaf counts that are not a power of two) is persisted and loaded into a fresh tree; one more symbolic ref
// is inserted at a symbolic clock (any existing page or the next one); Root() and ZeroTo(q) of the loaded tree
// equal what the set implies for every query clock, and so do those of a third tree loaded from what was persisted.
func H08e() {
	leafSize := uint32(2)
	L := vLen(1, vParam("leaves", 4))
	hb := vParam("hashbytes", 1)
	tr := New(NewXor(), leafSize).(*tree)
	store := map[uint32][]byte{}
	persist := func(t *tree) {
		dirty, _ := t.Updates()
		t.ResetUpdates()
		for key, data := range dirty {
			store[key] = data
		}
	}
	var refs []hash.SHA256Hash
	var clocks []uint32
	for i := 0; i < L; i++ {
		r := vHash(hb)
		c := uint32(i) * leafSize
		tr.Insert(r, c)
		persist(tr)
		refs = append(refs, r)
		clocks = append(clocks, c)
	}
	if L == 3 {
		vCover("three-leaves")
	}
	// restart
	tr2 := New(NewXor(), leafSize).(*tree)
	vAssert(tr2.Load(store) == nil, "H08e.load_ok: Load() of persisted leaves failed")
	// one more transaction
	r := vHash(hb)
	c := uint32(vConc(vRange(0, int(uint32(L)*leafSize))))
	tr2.Insert(r, c)
	persist(tr2)
	refs = append(refs, r)
	clocks = append(clocks, c)
	if c/leafSize == uint32(L)-1 {
		vCover("insert-on-last-page")
	}
	var all hash.SHA256Hash
	for i := range refs {
		xorInto(&all, refs[i])
	}
	vAssert(hash.SHA256Hash(*tr2.Root().(*Xor)) == all, "H08e.root_after_restart_insert: Root() after restart + insert differs from the XOR of all refs")
	q := uint32(vRange(0, int(uint32(L)*leafSize)+1))
	checkZeroTo(tr2, "H08e", q, leafSize, refs, clocks)
	// second restart: what was persisted is consistent too
	tr3 := New(NewXor(), leafSize).(*tree)
	vAssert(tr3.Load(store) == nil, "H08e.load2_ok: second Load() failed")
	vAssert(hash.SHA256Hash(*tr3.Root().(*Xor)) == all, "H08e.root_after_second_restart: persisted leaves do not add up to the XOR of all refs")
	checkZeroTo(tr3, "H08e.restart2", q, leafSize, refs, clocks)
}

func H08e_twin() {
	tr := New(NewXor(), 2).(*tree)
	store := map[uint32][]byte{}
	for i := 0; i < 3; i++ {
		tr.Insert(vHash(1), uint32(2*i))
		dirty, _ := tr.Updates()
		tr.ResetUpdates()
		for k, d := range dirty {
			store[k] = d
		}
	}
	tr2 := New(NewXor(), 2).(*tree)
	if tr2.Load(store) == nil && len(store) == 3 {
		vAssert(false, "H08e_twin.reach: reachable")
	}
}
