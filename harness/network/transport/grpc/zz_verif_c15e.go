//go:build verif

package grpc

import (
	"crypto/x509"
	"strings"

	ssi "github.com/nuts-foundation/go-did"
	"github.com/nuts-foundation/go-did/did"
	"github.com/nuts-foundation/nuts-node/network/transport"
)

// The package initialiser registers generated protobuf descriptors (reflection, unsafe): not modelled and not
// needed by the authenticator; its incompleteness is tolerated explicitly.
//verif:initok github.com/nuts-foundation/nuts-node/network/transport/grpc
//verif:initok google.golang.org/protobuf/internal/detrand
//verif:initok google.golang.org/protobuf/internal/filedesc

// hServices resolves the NutsComm service of the claimed node DID to a harness-chosen endpoint.
type hServices struct {
	endpoint string
	fail     bool
}

func (h hServices) Resolve(endpointURI ssi.URI, maxDepth int) (did.Service, error) {
	if h.fail {
		return did.Service{}, errHServices
	}
	return did.Service{Type: transport.NutsCommServiceType, ServiceEndpoint: h.endpoint}, nil
}

func (h hServices) ResolveEx(endpointURI ssi.URI, depth int, maxDepth int, documentCache map[string]*did.Document) (did.Service, error) {
	return h.Resolve(endpointURI, maxDepth)
}

type hErr string

func (e hErr) Error() string { return string(e) }

var errHServices = hErr("harness: service not found")

func vHostChars(n int) string {
	b := vBytes(n)
	for i := range b {
		// host name alphabet: lower-case letters, digits, '-', '.', '*'
		c := b[i]
		vAssume((c >= 'a' && c <= 'z') || (c >= '0' && c <= '9') || c == '-' || c == '.' || c == '*')
	}
	return string(b)
}

// refMatch: reference reading of RFC 6125 / x509 host matching for lower-case names: equal, or the SAN is
// "*." + rest and the host is one non-empty dot-free label + "." + rest.
func refMatch(san, host string) bool {
	if san == host {
		return true
	}
	if strings.HasPrefix(san, "*.") {
		rest := san[1:] // ".rest"
		if strings.HasSuffix(host, rest) {
			label := host[:len(host)-len(rest)]
			return label != "" && !strings.Contains(label, ".")
		}
	}
	return false
}

// H15e: the TLS authenticator marks a connection authenticated for the claimed node DID only if the
// peer presented a certificate one of whose DNS names matches the host of the DID's NutsComm endpoint.
func H15e() {
	host := vHostChars(vLen(1, vParam("hostlen", 4)))
	san := vHostChars(vLen(1, vParam("sanlen", 4)))
	// well-formed DNS names only (what a CA issues / a URL host can be): no empty labels, '*' only as a whole first label of the SAN
	vAssume(!strings.Contains(host, "*") && !strings.HasPrefix(host, ".") && !strings.HasSuffix(host, ".") && !strings.Contains(host, ".."))
	vAssume(!strings.HasPrefix(host, "-"))
	svc := hServices{endpoint: "grpc://" + host + ":5555", fail: vBool()}
	peer := transport.Peer{}
	hasCert := vBool()
	if hasCert {
		peer.Certificate = &x509.Certificate{DNSNames: []string{san}}
	}
	nodeDID := did.DID{Method: "nuts", ID: "victim"}
	out, err := NewTLSAuthenticator(svc).Authenticate(nodeDID, peer) // the constructor is the stable entry point
	if err == nil {
		vCover("authenticated")
		vAssert(out.Authenticated && out.NodeDID.ID == "victim", "H15e.marked: successful authentication did not mark the peer")
		vAssert(hasCert && !svc.fail, "H15e.needs_cert_and_service: authenticated without certificate or NutsComm service")
		vAssert(refMatch(san, host), "H15e.san_matches_nutscomm_host: authenticated although no DNS name of the certificate matches the NutsComm host")
	} else {
		vCover("refused")
		vAssert(!out.Authenticated, "H15e.refused_not_marked: refused peer is marked authenticated")
	}
}

func H15e_twin() {
	svc := hServices{endpoint: "grpc://a.b:5555"}
	peer := transport.Peer{Certificate: &x509.Certificate{DNSNames: []string{vHostChars(3)}}}
	if _, err := NewTLSAuthenticator(svc).Authenticate(did.DID{Method: "nuts", ID: "v"}, peer); err == nil {
		vAssert(false, "H15e_twin.reach: reachable")
	}
}
