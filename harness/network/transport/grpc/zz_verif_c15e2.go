//go:build verif

package grpc

import (
	"crypto/x509"
	"strings"

	ssi "github.com/nuts-foundation/go-did"
	"github.com/nuts-foundation/go-did/did"
	"github.com/nuts-foundation/nuts-node/network/transport"
)

// hServicesNow: the DID document as it is NOW - the harness changes it between two authentications.
type hServicesNow struct{ cur *hServices }

func (h hServicesNow) Resolve(endpointURI ssi.URI, maxDepth int) (did.Service, error) {
	return h.cur.Resolve(endpointURI, maxDepth)
}

func (h hServicesNow) ResolveEx(endpointURI ssi.URI, depth int, maxDepth int, documentCache map[string]*did.Document) (did.Service, error) {
	return h.cur.Resolve(endpointURI, maxDepth)
}

// H15e2: "verified node DID" means verified against the DID document as it is at the time of the connection. One
// authenticator (as built by NewTLSAuthenticator and kept by the connection manager for the life of the node)
// authenticates the same claimed node DID twice; between the two the DID document changes (NutsComm endpoint moved
// to another host, or service removed) and the second peer presents the same or another certificate. The second
// verdict must be the one a fresh authenticator would give on the current document: authenticated only if a DNS
// name of the presented certificate matches the CURRENT NutsComm host.
func H15e2() {
	n := vParam("hostlen2", 2)
	// first connection: concrete representatives (H15e decides a single authentication for all names)
	hostA := "a.b"
	sanA := []string{"a.b", "*.b", "c.d"}[vChoice(3)]
	// second connection: the document's host and the presented certificate are arbitrary
	hostB := vHostChars(vLen(1, n))
	sanB := sanA
	if vBool() {
		vCover("other-certificate")
		sanB = vHostChars(vLen(1, n))
	}
	vAssume(!strings.Contains(hostB, "*") && !strings.HasPrefix(hostB, ".") && !strings.HasSuffix(hostB, ".") && !strings.Contains(hostB, "..") && !strings.HasPrefix(hostB, "-"))
	if vBool() {
		vCover("host-unchanged")
		hostB = hostA
	}
	doc := &hServices{endpoint: "grpc://" + hostA + ":5555"}
	a := NewTLSAuthenticator(hServicesNow{cur: doc})
	nodeDID := did.DID{Method: "nuts", ID: "victim"}
	_, err1 := a.Authenticate(nodeDID, transport.Peer{Certificate: &x509.Certificate{DNSNames: []string{sanA}}})
	if err1 == nil {
		vCover("first-authenticated")
		vAssert(refMatch(sanA, hostA), "H15e2.first_san_matches: first authentication succeeded although no DNS name matches the NutsComm host")
	}
	// the DID document changes
	doc.endpoint = "grpc://" + hostB + ":5555"
	doc.fail = vBool()
	out2, err2 := a.Authenticate(nodeDID, transport.Peer{Certificate: &x509.Certificate{DNSNames: []string{sanB}}})
	if err2 == nil {
		vCover("second-authenticated")
		vAssert(out2.Authenticated && out2.NodeDID.ID == "victim", "H15e2.marked: successful authentication did not mark the peer")
		vAssert(!doc.fail && refMatch(sanB, hostB), "H15e2.verified_against_current_document: authenticated for a node DID whose current NutsComm host does not match the certificate")
	} else {
		vCover("second-refused")
		vAssert(!out2.Authenticated, "H15e2.refused_not_marked: refused peer is marked authenticated")
		vAssert(doc.fail || !refMatch(sanB, hostB), "H15e2.current_match_accepted: a peer whose certificate matches the current NutsComm host was refused")
	}
}

func H15e2_twin() {
	doc := &hServices{endpoint: "grpc://a.b:5555"}
	a := NewTLSAuthenticator(hServicesNow{cur: doc})
	peer := transport.Peer{Certificate: &x509.Certificate{DNSNames: []string{vHostChars(3)}}}
	if _, err := a.Authenticate(did.DID{Method: "nuts", ID: "v"}, peer); err == nil {
		doc.endpoint = "grpc://c.d:5555"
		if _, err := a.Authenticate(did.DID{Method: "nuts", ID: "v"}, peer); err != nil {
			vAssert(false, "H15e2_twin.reach: reachable")
		}
	}
}
