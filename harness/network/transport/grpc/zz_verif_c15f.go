//go:build verif

package grpc

import (
	"errors"

	"github.com/nuts-foundation/go-did/did"
	"github.com/nuts-foundation/nuts-node/network/transport"
)

// hAuth is an Authenticator with a harness-chosen verdict that records whom it was asked about.
type hAuth struct {
	approve bool
	asked   []transport.PeerID
}

func (a *hAuth) Authenticate(nodeDID did.DID, peer transport.Peer) (transport.Peer, error) {
	a.asked = append(a.asked, peer.ID)
	if !a.approve {
		return peer, errors.New("harness: certificate does not match")
	}
	peer.NodeDID = nodeDID
	peer.Authenticated = true
	return peer, nil
}

// hConn is an existing connection of the connection list.
type hConn struct {
	Connection
	peer      transport.Peer
	connected bool
}

func (c *hConn) Peer() transport.Peer { return c.peer }
func (c *hConn) IsConnected() bool    { return c.connected }
func (c *hConn) IsAuthenticated() bool { return c.peer.Authenticated }

// H15f: the connection manager marks a NEW connection as authenticated for a claimed node DID only if the
// authenticator approved THIS connection - whatever other connections (also authenticated ones of the same
// DID) exist already.
func H15f() {
	victim := did.DID{Method: "nuts", ID: "victim"}
	a := &hAuth{approve: vBool()}
	m := &grpcConnectionManager{authenticator: a, connections: &connectionList{}}
	if vBool() {
		vCover("existing-connection")
		ex := &hConn{connected: vBool(), peer: transport.Peer{ID: "rightful", NodeDID: victim, Authenticated: vBool()}}
		if vBool() {
			ex.peer.NodeDID = did.DID{Method: "nuts", ID: "other"}
		}
		m.connections.list = append(m.connections.list, ex)
	}
	claimed := victim
	anonymous := vBool()
	if anonymous {
		claimed = did.DID{}
	}
	out, err := m.authenticate(claimed, transport.Peer{ID: "new"})
	if out.Authenticated {
		vCover("authenticated")
		vAssert(err == nil, "H15f.no_error: authenticated with an error")
		vAssert(!anonymous && a.approve && len(a.asked) == 1 && a.asked[0] == "new",
			"H15f.authenticated_by_own_credentials: a connection was marked authenticated without the authenticator approving this connection")
	} else {
		vCover("not-authenticated")
		if !anonymous {
			vAssert(!a.approve || err != nil, "H15f.approved_is_authenticated: an approved connection is not marked authenticated")
			if !a.approve {
				vAssert(err == ErrNodeDIDAuthFailed, "H15f.refusal_reported: failed authentication not reported to the peer")
			}
		}
	}
}

func H15f_twin() {
	a := &hAuth{approve: vBool()}
	m := &grpcConnectionManager{authenticator: a, connections: &connectionList{}}
	if out, _ := m.authenticate(did.DID{Method: "nuts", ID: "v"}, transport.Peer{ID: "n"}); out.Authenticated {
		vAssert(false, "H15f_twin.reach: reachable")
	}
}
