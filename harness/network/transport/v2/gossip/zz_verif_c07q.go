//go:build verif

package gossip

import (
	"github.com/nuts-foundation/nuts-node/crypto/hash"
)

func vHash(k int) hash.SHA256Hash {
	var h hash.SHA256Hash
	b := vBytes(k)
	for i := 0; i < k; i++ {
		h[i] = b[i]
	}
	return h
}

// H07q: the per-peer gossip queue always advertises the node's LATEST digest and clock, whatever was
// enqueued, received or dropped because the queue is full (small capacity so that the full case is reached):
// a stale advertisement makes a peer believe it is in sync and stops convergence. Queued refs are never
// refs the peer is known to have, never duplicated, and at most the capacity.
func H07q() {
	pq := newPeerQueue()
	pq.maxSize = vParam("cap", 2)
	n := vLen(1, vParam("ops", 3))
	var lastXor hash.SHA256Hash
	var lastClock uint32
	var known []hash.SHA256Hash
	enq := false
	for i := 0; i < n; i++ {
		if vBool() {
			lastXor = vHash(1)
			lastClock = vU32()
			k := vLen(0, 2)
			refs := make([]hash.SHA256Hash, k)
			for j := range refs {
				refs[j] = vHash(1)
			}
			pq.enqueue(lastClock, lastXor, refs...)
			enq = true
		} else {
			r := vHash(1)
			pq.logReceivedTransactions(r)
			known = append(known, r)
		}
	}
	refs, xor, clock := pq.enqueued()
	if enq {
		vCover("enqueued")
		vAssert(xor == lastXor && clock == lastClock, "H07q.latest_digest_advertised: queue advertises a stale digest/clock")
	}
	if len(refs) >= pq.maxSize {
		vCover("full")
	}
	vAssert(len(refs) <= pq.maxSize, "H07q.capacity: queue exceeds its capacity")
	for i := range refs {
		for j := 0; j < i; j++ {
			vAssert(refs[i] != refs[j], "H07q.no_duplicates: a ref is queued twice")
		}
	}
}

func H07q_twin() {
	pq := newPeerQueue()
	pq.maxSize = 1
	pq.enqueue(1, vHash(1), vHash(1))
	pq.enqueue(2, vHash(1), vHash(1))
	if r, _, c := pq.enqueued(); len(r) == 1 && c == 2 {
		vAssert(false, "H07q_twin.reach: reachable")
	}
}
