//go:build verif

package v2

import (
	"context"
	"errors"
	"strings"

	"github.com/nuts-foundation/go-did/did"
	"github.com/nuts-foundation/nuts-node/crypto"
	"github.com/nuts-foundation/nuts-node/crypto/hash"
	"github.com/nuts-foundation/nuts-node/network/dag"
	"github.com/nuts-foundation/nuts-node/network/dag/tree"
	"github.com/nuts-foundation/nuts-node/network/transport"
	"github.com/nuts-foundation/nuts-node/network/transport/grpc"
	"github.com/nuts-foundation/nuts-node/vdr/resolver"
)

// The protobuf runtime registration of the generated message types (reflection, unsafe) is not needed by the
// handlers: the message structs are used as plain Go values.
//verif:stub github.com/nuts-foundation/nuts-node/network/transport/v2.file_transport_v2_protocol_proto_init => noop
//verif:stub github.com/nuts-foundation/nuts-node/network/transport/grpc.file_transport_grpc_testprotocol_proto_init => noop

// ---------------------------------------------------------------------------------------------
// Fakes shared by the C15 and C07 harnesses of this package.
// ---------------------------------------------------------------------------------------------

// hTx is a dag.Transaction value object (the handlers only use Ref, PAL, PayloadHash, Data, Clock).
type hTx struct {
	dag.Transaction
	ref         hash.SHA256Hash
	payloadHash hash.SHA256Hash
	clock       uint32
	pal         [][]byte
	data        []byte
}

func (t *hTx) Ref() hash.SHA256Hash         { return t.ref }
func (t *hTx) PayloadHash() hash.SHA256Hash { return t.payloadHash }
func (t *hTx) Clock() uint32                { return t.clock }
func (t *hTx) PAL() [][]byte                { return t.pal }
func (t *hTx) Data() []byte                 { return t.data }

type hPayload struct {
	hash hash.SHA256Hash
	data []byte
}

type hWrite struct {
	tx   dag.Transaction
	hash hash.SHA256Hash
	data []byte
}

type hRangeCall struct{ start, end uint32 }

// hState is a dag.State that answers from value lists and records what the handlers do with it.
type hState struct {
	dag.State
	txs      []*hTx
	payloads []hPayload
	// faults: when set, the corresponding read fails with a storage error (not the not-found sentinel)
	getFails, readFails, writeFails, presentFails, findFails bool
	// digests
	xor   hash.SHA256Hash
	clock uint32
	iblt  *tree.Iblt
	// Add verdict per call: nil or the error to return
	addErr func(tx dag.Transaction) error
	// records
	writes      []hWrite
	adds        []dag.Transaction
	addPayloads [][]byte
	ranges      []hRangeCall
	xorReqs     []uint32
	ibltReqs    []uint32
	correct     int
	incorrect   int
}

var errHStorage = errors.New("harness: storage failure")

func (s *hState) GetTransaction(_ context.Context, ref hash.SHA256Hash) (dag.Transaction, error) {
	if s.getFails {
		return nil, errHStorage
	}
	for _, t := range s.txs {
		if t.ref == ref {
			return t, nil
		}
	}
	return nil, dag.ErrTransactionNotFound
}

func (s *hState) IsPresent(_ context.Context, ref hash.SHA256Hash) (bool, error) {
	if s.presentFails {
		return false, errHStorage
	}
	for _, t := range s.txs {
		if t.ref == ref {
			return true, nil
		}
	}
	return false, nil
}

func (s *hState) ReadPayload(_ context.Context, h hash.SHA256Hash) ([]byte, error) {
	if s.readFails {
		return nil, errHStorage
	}
	for _, p := range s.payloads {
		if p.hash == h {
			return p.data, nil
		}
	}
	return nil, dag.ErrPayloadNotFound
}

func (s *hState) WritePayload(_ context.Context, tx dag.Transaction, h hash.SHA256Hash, data []byte) error {
	if s.writeFails {
		return errHStorage
	}
	s.writes = append(s.writes, hWrite{tx: tx, hash: h, data: data})
	return nil
}

func (s *hState) FindBetweenLC(_ context.Context, start, end uint32) ([]dag.Transaction, error) {
	s.ranges = append(s.ranges, hRangeCall{start, end})
	if s.findFails {
		return nil, errHStorage
	}
	// contract of dag.State.FindBetweenLC: the transactions with start <= clock < end, ordered by clock
	var sel []*hTx
	for _, t := range s.txs {
		if t.clock >= start && t.clock < end {
			i := len(sel)
			sel = append(sel, t)
			for i > 0 && sel[i-1].clock > t.clock {
				sel[i] = sel[i-1]
				i--
			}
			sel[i] = t
		}
	}
	var out []dag.Transaction
	for _, t := range sel {
		out = append(out, t)
	}
	return out, nil
}

func (s *hState) Add(_ context.Context, tx dag.Transaction, payload []byte) error {
	if s.addErr != nil {
		if err := s.addErr(tx); err != nil {
			return err
		}
	}
	s.adds = append(s.adds, tx)
	s.addPayloads = append(s.addPayloads, payload)
	return nil
}

func (s *hState) XOR(req uint32) (hash.SHA256Hash, uint32) {
	s.xorReqs = append(s.xorReqs, req)
	return s.xor, s.clock
}

func (s *hState) IBLT(req uint32) (tree.Iblt, uint32) {
	s.ibltReqs = append(s.ibltReqs, req)
	if s.iblt == nil {
		return *tree.NewIblt(dag.IbltNumBuckets), s.clock
	}
	return *(s.iblt.Clone().(*tree.Iblt)), s.clock
}

func (s *hState) CorrectStateDetected()   { s.correct++ }
func (s *hState) IncorrectStateDetected() { s.incorrect++ }

// hConn is a grpc.Connection (interface with unexported methods: embedded nil interface) that records sends.
type hConn struct {
	grpc.Connection
	peer     transport.Peer
	sent     []*Envelope
	softFlag []bool
	sendErr  error
}

func (c *hConn) Peer() transport.Peer { return c.peer }
func (c *hConn) Send(_ grpc.Protocol, envelope interface{}, ignoreSoftLimit bool) error {
	c.sent = append(c.sent, envelope.(*Envelope))
	c.softFlag = append(c.softFlag, ignoreSoftLimit)
	return c.sendErr
}

// hNotifier is the private payload job queue: only Finished is used by the handlers.
type hNotifier struct {
	dag.Notifier
	finished []hash.SHA256Hash
	err      error
}

func (n *hNotifier) Finished(ref hash.SHA256Hash) error {
	n.finished = append(n.finished, ref)
	return n.err
}

func hHash(k int) hash.SHA256Hash {
	var h hash.SHA256Hash
	b := vBytes(k)
	for i := 0; i < k; i++ {
		h[i] = b[i]
	}
	return h
}

// hRefBytes is a reference field as it arrives in a protobuf message: any length 0..33 is possible on the
// wire; the harnesses use the lengths that make a difference to hash.FromSlice (absent, short, exact, long).
func hRefBytes(h hash.SHA256Hash, shape int) []byte {
	switch shape {
	case 0:
		return nil
	case 1:
		return h[:31] // too short: FromSlice pads with zero
	case 2:
		return append(h[:], vU8()) // too long: FromSlice truncates
	}
	return h[:]
}

// ---------------------------------------------------------------------------------------------
// PAL model
// ---------------------------------------------------------------------------------------------

// Participant pool: did:nuts:a, did:nuts:b, did:nuts:c. Peer and node DIDs are did:nuts:<one symbolic byte>,
// so they range over the pool members and over every DID outside the pool.
func hPoolID(i int) string { return "did:nuts:" + string(rune('a'+i)) }

func hDID(i int) did.DID {
	return did.DID{Method: "nuts", ID: string(rune('a' + i)), DecodedID: string(rune('a' + i))}
}

func hSymDID() did.DID {
	id := vString(1)
	return did.DID{Method: "nuts", ID: id, DecodedID: id}
}

// hResolver resolves only the node DID, to a document with the configured key agreement key ids.
type hResolver struct {
	resolver.DIDResolver
	node  did.DID
	kids  []string
	fails bool
	calls int
}

func (r *hResolver) Resolve(id did.DID, _ *resolver.ResolveMetadata) (*did.Document, *resolver.DocumentMetadata, error) {
	r.calls++
	if r.fails || !id.Equals(r.node) {
		return nil, nil, resolver.ErrNotFound
	}
	doc := &did.Document{ID: r.node}
	for _, kid := range r.kids {
		u := did.DIDURL{DID: r.node, Fragment: kid}
		doc.KeyAgreement = append(doc.KeyAgreement, did.VerificationRelationship{VerificationMethod: &did.VerificationMethod{ID: u, Controller: r.node}})
	}
	return doc, &resolver.DocumentMetadata{}, nil
}

// Outcomes of one decryption attempt (ciphertext i, key j).
const (
	hDecWrongKey   = 0 // ECIES failure: ciphertext is not for this key
	hDecKeyMissing = 1 // the private key is not in the key store (crypto.ErrPrivateKeyNotFound)
	hDecOK         = 2 // plaintext
)

// hDecrypter is the key store. The outcome of decrypting ciphertext i (identified by its first byte) with
// key j (identified by the fragment of the key id) is the harness-chosen matrix cell m[i][j]; a successful
// attempt returns the plaintext. Contract of crypto.Decrypter: an error comes with no plaintext.
type hDecrypter struct {
	crypto.Decrypter
	m         [][]int
	plaintext []byte
	kids      []string // key ids tried
	okCount   int
}

func (d *hDecrypter) Decrypt(_ context.Context, kid string, ct []byte) ([]byte, error) {
	d.kids = append(d.kids, kid)
	j := 0
	if strings.HasSuffix(kid, "#k2") {
		j = 1
	} else if strings.HasSuffix(kid, "#k3") {
		j = 2
	}
	switch d.m[int(ct[0])][j] {
	case hDecKeyMissing:
		return nil, crypto.ErrPrivateKeyNotFound
	case hDecOK:
		d.okCount++
		return d.plaintext, nil
	}
	return nil, errors.New("harness: ecies: invalid message")
}

// hDecMatrix draws the outcome matrix (symbolic cells) and returns it with the two order-independent facts
// the oracle uses: some own key decrypts some ciphertext / some attempted key may be missing.
func hDecMatrix(npal, nkids int) (m [][]int, couldDecrypt, anyMissing bool) {
	for i := 0; i < npal; i++ {
		row := make([]int, nkids)
		for j := 0; j < nkids; j++ {
			row[j] = vRange(0, 2)
			couldDecrypt = couldDecrypt || row[j] == hDecOK
			anyMissing = anyMissing || row[j] == hDecKeyMissing
		}
		m = append(m, row)
	}
	return
}

// hPlaintext draws the participant list the author of the transaction encrypted: any non-empty subset of the
// first `pool` pool members in pool order (the author is untrusted: the list need not contain the node that can
// decrypt it), or a plaintext that is not a list of DIDs, or an empty plaintext.
func hPlaintext(pool int) (list []did.DID, plaintext []byte, wellFormed bool) {
	switch vChoice(3) {
	case 1:
		return nil, []byte("did:nuts:a\nnot a did"), false
	case 2:
		return nil, []byte{}, false
	}
	var parts []string
	for i := 0; i < pool; i++ {
		if vChoice(2) == 1 {
			list = append(list, hDID(i))
			parts = append(parts, hPoolID(i))
		}
	}
	if len(parts) == 0 {
		// an empty list encrypts to the empty plaintext
		return nil, []byte{}, false
	}
	return list, []byte(strings.Join(parts, "\n")), true
}

func hListContains(list []did.DID, d did.DID) bool {
	for _, x := range list {
		if x.Method == d.Method && x.ID == d.ID {
			return true
		}
	}
	return false
}

// hPeer draws the peer of the connection: did:nuts:<any byte> or no DID, with the authenticated flag arbitrary
// (an unauthenticated peer may claim any DID - that is the point).
func hPeer() transport.Peer {
	p := transport.Peer{ID: "peer", Address: "addr"}
	if vChoice(2) == 1 {
		vTag("peerDID")
		p.NodeDID = hSymDID()
	}
	vTag("authenticated")
	p.Authenticated = vBool()
	// grpc authenticator contract (transport.Peer doc): Authenticated is true only when NodeDID is set
	vAssume(!p.Authenticated || !p.NodeDID.Empty())
	return p
}

var hKidNames = []string{"k1", "k2", "k3"}

// ---------------------------------------------------------------------------------------------
// H15a handleTransactionPayloadQuery
// ---------------------------------------------------------------------------------------------

func H15a() {
	hb := vParam("hb15", 1)
	ctx := context.Background()

	// Two scenario families keep the product of concretised choices small:
	// rich  - the stored private transaction is queried with a well-shaped reference; everything about the
	//         participant list, keys, node and peer varies;
	// plain - reference shape, unknown references, storage failure and public transactions vary, the
	//         participant list is fixed.
	rich := vChoice(2) == 1
	tx := &hTx{ref: hHash(hb), payloadHash: hHash(1)}
	st := &hState{txs: []*hTx{tx}}
	var npal, nkids, shape int
	nodeSet := true
	nodeDID := hDID(0)
	qref := hHash(hb)
	var list []did.DID
	var plaintext []byte
	var wellFormed bool
	if rich {
		vCover("rich")
		npal = vLen(1, vParam("npal", 2))
		nkids = vLen(0, vParam("nkids", 2))
		nodeSet = vChoice(2) == 1
		if nodeSet {
			vTag("nodeDID")
			nodeDID = hSymDID()
		} else {
			nodeDID = did.DID{}
		}
		list, plaintext, wellFormed = hPlaintext(vParam("pool", 2))
		shape = 3
		vAssume(qref == tx.ref)
	} else {
		npal = vLen(0, 1)
		nkids = 1
		list, plaintext, wellFormed = []did.DID{hDID(0), hDID(1)}, []byte("did:nuts:a\ndid:nuts:b"), true
		shape = vChoice(4)
		vTag("getFails")
		st.getFails = vBool()
	}
	for i := 0; i < npal; i++ {
		tx.pal = append(tx.pal, []byte{byte(i), vU8()})
	}
	payload := []byte{vU8(), 7}
	vTag("payloadPresent")
	payloadPresent := vBool()
	if payloadPresent {
		st.payloads = []hPayload{{hash: tx.payloadHash, data: payload}}
	}
	vTag("readFails")
	st.readFails = vBool()
	res := &hResolver{node: nodeDID, kids: hKidNames[:nkids]}
	vTag("resolveFails")
	res.fails = vBool()
	m, couldDecrypt, anyMissing := hDecMatrix(npal, nkids)
	dec := &hDecrypter{plaintext: plaintext, m: m}
	peer := hPeer()
	conn := &hConn{peer: peer}
	p := &protocol{state: st, nodeDID: nodeDID, didResolver: res, decrypter: dec, ctx: ctx}

	// the query, in any wire shape
	msg := &TransactionPayloadQuery{ConversationID: vBytes(1), TransactionRef: hRefBytes(qref, shape)}
	err := p.handleTransactionPayloadQuery(ctx, conn, &Envelope{Message: &Envelope_TransactionPayloadQuery{TransactionPayloadQuery: msg}})

	// a reference field that is not 32 bytes is malformed (F-38: it used to be padded / truncated): refused, nothing sent
	if len(msg.TransactionRef) != hash.SHA256HashSize {
		vCover("malformed-reference-length")
		vAssert(err != nil && len(conn.sent) == 0, "H15a.malformed_reference_rejected: payload query with a reference field that is not 32 bytes was answered")
		return
	}
	// --- reference predicates (independent of the order in which the handler tries things) ---
	found := !st.getFails && hash.FromSlice(msg.TransactionRef) == tx.ref
	private := len(tx.pal) > 0
	ownDecrypt := nodeSet && !res.fails && couldDecrypt
	mayServe := !private || (peer.Authenticated && ownDecrypt && wellFormed && hListContains(list, peer.NodeDID))
	mustServe := !private || (mayServe && !anyMissing)

	vAssert(len(conn.sent) <= 1, "H15a.at_most_one_response: more than one response to a payload query")
	dataSent := false
	for _, e := range conn.sent {
		r := e.GetTransactionPayload()
		vAssert(r != nil, "H15a.response_type: response to a payload query is not a TransactionPayload")
		vAssert(string(r.TransactionRef) == string(msg.TransactionRef), "H15a.response_ref: response does not echo the queried reference")
		if len(r.Data) > 0 {
			dataSent = true
			vCover("payload-sent")
			// whatever is sent is the payload of the queried, stored transaction
			vAssert(found, "H15a.payload_of_queried_tx: payload sent for a reference that is not the stored transaction")
			vAssert(payloadPresent && string(r.Data) == string(payload), "H15a.payload_is_stored_payload: data sent is not the stored payload")
			if private {
				vCover("private-payload-sent")
				vAssert(peer.Authenticated, "H15a.private_needs_authenticated_peer: private payload sent over an unauthenticated connection")
				vAssert(wellFormed && hListContains(list, peer.NodeDID), "H15a.private_needs_listed_peer: private payload sent to a peer whose node DID is not on the decrypted participant list")
				vAssert(ownDecrypt, "H15a.private_needs_own_decryption: private payload sent by a node that cannot decrypt the participant list with a key agreement key of its own node DID")
				for _, k := range dec.kids {
					own := false
					for _, n := range hKidNames[:nkids] {
						own = own || k == nodeDID.String()+"#"+n
					}
					vAssert(own, "H15a.only_own_keys_tried: decryption attempted with a key that is not a key agreement key of the node DID")
				}
			} else {
				vCover("public-payload-sent")
				vAssert(len(dec.kids) == 0 && res.calls == 0, "H15a.public_no_decrypt: decryption attempted for a public transaction")
			}
		} else {
			vCover("empty-response")
		}
	}
	// response discipline: silence only because the storage failed (then the error is reported)
	if len(conn.sent) == 0 {
		vCover("no-response")
		payloadUnreadable := st.readFails || !payloadPresent
		vAssert(err != nil, "H15a.silence_is_error: no response and no error")
		vAssert(st.getFails || (found && mayServe && payloadUnreadable), "H15a.exactly_one_response: a payload query got no response although the storage did not fail")
		if found && !st.readFails && !payloadPresent {
			vCover("payload-missing-locally")
		}
	} else {
		vAssert(err == nil, "H15a.send_result_returned: response sent but an error returned")
	}
	// converse (no over-blocking): an entitled peer gets the payload when it is there
	if found && mustServe && payloadPresent && !st.readFails {
		if private {
			vCover("entitled-peer")
		}
		vAssert(dataSent, "H15a.entitled_peer_served: an entitled peer was refused the payload")
	}
	if private && found && !mayServe {
		vCover("not-entitled")
		vAssert(len(conn.sent) == 1 && !dataSent, "H15a.not_entitled_gets_empty: a peer that is not entitled did not get the empty response")
	}
	if !found && !st.getFails {
		vCover("unknown-tx")
		vAssert(len(conn.sent) == 1 && !dataSent, "H15a.unknown_tx_empty: query for an unknown transaction not answered with an empty response")
	}
}

func H15a_twin() {
	ctx := context.Background()
	tx := &hTx{ref: hHash(1), payloadHash: hHash(1), pal: [][]byte{{0, vU8()}}}
	st := &hState{txs: []*hTx{tx}, payloads: []hPayload{{hash: tx.payloadHash, data: []byte{1}}}}
	node := hDID(0)
	m, _, _ := hDecMatrix(1, 1)
	dec := &hDecrypter{plaintext: []byte("did:nuts:a\ndid:nuts:b"), m: m}
	conn := &hConn{peer: transport.Peer{ID: "p", NodeDID: hDID(1), Authenticated: vBool()}}
	p := &protocol{state: st, nodeDID: node, didResolver: &hResolver{node: node, kids: []string{"k1"}}, decrypter: dec, ctx: ctx}
	msg := &TransactionPayloadQuery{TransactionRef: hRefBytes(hHash(1), 3)}
	_ = p.handleTransactionPayloadQuery(ctx, conn, &Envelope{Message: &Envelope_TransactionPayloadQuery{TransactionPayloadQuery: msg}})
	if len(conn.sent) == 1 && len(conn.sent[0].GetTransactionPayload().Data) > 0 {
		vAssert(false, "H15a_twin.reach: reachable")
	}
}

// ---------------------------------------------------------------------------------------------
// H15b collectTransactionList, directly and through the list-query and range-query handlers
// ---------------------------------------------------------------------------------------------

// hTxList builds n stored transactions: element i has data {i, sym}, a symbolic clock below 4 (duplicates
// allowed), is public or private, and its payload is present or not.
func hTxList(st *hState, n, hb int) (present []bool) {
	for i := 0; i < n; i++ {
		tx := &hTx{ref: hHash(hb), payloadHash: hash.SHA256Hash{byte(i + 1), vU8()}, data: []byte{byte(i), vU8()}}
		tx.ref[31] = byte(i + 1) // distinct transactions have distinct references
		tx.clock = uint32(vRange(0, 3))
		if vChoice(2) == 1 {
			tx.pal = [][]byte{{byte(i), vU8()}}
		}
		st.txs = append(st.txs, tx)
		vTag("payloadPresent")
		pp := vBool()
		present = append(present, pp)
		if pp {
			st.payloads = append(st.payloads, hPayload{hash: tx.payloadHash, data: []byte{byte(0x80 + i), vU8()}})
		}
	}
	return
}

func hStoredPayload(st *hState, tx *hTx) []byte {
	for _, p := range st.payloads {
		if p.hash == tx.payloadHash {
			return p.data
		}
	}
	return nil
}

// hCheckNetworkTx is the C15 claim for one element of an outgoing transaction list.
func hCheckNetworkTx(id string, st *hState, ntx *Transaction) {
	vAssert(len(ntx.Data) == 2 && int(ntx.Data[0]) < len(st.txs), id+".element_is_stored_tx: list element is not a stored transaction")
	tx := st.txs[int(ntx.Data[0])]
	vAssert(string(ntx.Data) == string(tx.data), id+".element_data: list element data differs from the stored transaction")
	if len(tx.pal) > 0 {
		vCover("private-element")
		vAssert(len(ntx.Payload) == 0, id+".private_payload_not_listed: a transaction list element with a participant list carries a payload")
	} else {
		vCover("public-element")
		vAssert(string(ntx.Payload) == string(hStoredPayload(st, tx)) && len(ntx.Payload) > 0, id+".public_payload_listed: public transaction listed without its stored payload")
	}
}

func H15b() {
	hb := vParam("hb15", 1)
	ctx := context.Background()
	n := vLen(0, vParam("n15b", 2))
	st := &hState{}
	present := hTxList(st, n, hb)
	vTag("readFails")
	st.readFails = vBool()
	conn := &hConn{peer: hPeer()}
	p := &protocol{state: st, ctx: ctx, cMan: newConversationManager(maxValidity)}
	p.sender = p

	mode := vChoice(3)
	var err error
	var elements []*Transaction
	var input []*hTx // the transactions the answer is about
	switch mode {
	case 0:
		vCover("direct")
		var in []dag.Transaction
		for _, t := range st.txs {
			in = append(in, t)
			input = append(input, t)
		}
		elements, err = p.collectTransactionList(ctx, in)
		if err == nil {
			vAssert(len(elements) == n, "H15b.direct_length: result length differs from input length")
			for i, e := range elements {
				vAssert(int(e.Data[0]) == i, "H15b.direct_order: result order differs from input order")
			}
		}
	case 1:
		vCover("list-query")
		// the peer asks for each stored transaction or not, plus possibly an unknown reference
		var refs [][]byte
		for _, t := range st.txs {
			if vChoice(2) == 1 {
				refs = append(refs, hRefBytes(t.ref, 3))
				input = append(input, t)
			}
		}
		malformed := false
		if vChoice(2) == 1 {
			u := hHash(hb) // last byte 0: unknown
			shape := vChoice(4)
			malformed = shape != 3
			refs = append(refs, hRefBytes(u, shape))
		}
		msg := &TransactionListQuery{ConversationID: vBytes(1), Refs: refs}
		err = p.handleTransactionListQuery(ctx, conn, &Envelope{Message: &Envelope_TransactionListQuery{TransactionListQuery: msg}})
		if malformed {
			// a reference field that is not 32 bytes (F-38): the query is refused as a whole, nothing is sent
			vCover("malformed-reference-length")
			vAssert(err != nil && len(conn.sent) == 0, "H15b.malformed_reference_rejected: list query with a reference field that is not 32 bytes was answered")
			return
		}
	case 2:
		vCover("range-query")
		start, end := uint32(vRange(0, 4)), uint32(vRange(0, 5))
		for _, t := range st.txs {
			if t.clock >= start && t.clock < end {
				input = append(input, t)
			}
		}
		msg := &TransactionRangeQuery{ConversationID: vBytes(1), Start: start, End: end}
		err = p.handleTransactionRangeQuery(ctx, conn, &Envelope{Message: &Envelope_TransactionRangeQuery{TransactionRangeQuery: msg}})
		if start >= end {
			vAssert(err != nil && len(conn.sent) == 0, "H15b.empty_range_rejected: empty range answered")
			return
		}
	}
	if mode != 0 {
		for _, e := range conn.sent {
			l := e.GetTransactionList()
			vAssert(l != nil, "H15b.response_type: answer is not a TransactionList")
			elements = append(elements, l.Transactions...)
		}
	}
	for _, e := range elements {
		hCheckNetworkTx("H15b", st, e)
	}
	// the answer fails exactly when a public payload cannot be read; otherwise it is complete and ordered by clock
	unreadable := false
	for _, t := range input {
		if len(t.pal) == 0 && (st.readFails || !present[int(t.data[0])]) {
			unreadable = true
		}
	}
	if unreadable {
		vCover("payload-unreadable")
		vAssert(err != nil && len(elements) == 0, "H15b.unreadable_fails: a transaction list was produced although a public payload could not be read")
	} else {
		vAssert(err == nil, "H15b.readable_succeeds: producing the transaction list failed without a storage failure")
		vAssert(len(elements) == len(input), "H15b.complete: the answer does not contain exactly the requested stored transactions")
		for _, t := range input {
			c := 0
			for _, e := range elements {
				if e.Data[0] == t.data[0] {
					c++
				}
			}
			vAssert(c == 1, "H15b.each_once: a requested stored transaction is missing from or duplicated in the answer")
		}
		if mode != 0 {
			for i := 0; i+1 < len(elements); i++ {
				vAssert(st.txs[int(elements[i].Data[0])].clock <= st.txs[int(elements[i+1].Data[0])].clock, "H15b.clock_order: answer is not ordered by clock")
			}
		}
	}
}

func H15b_twin() {
	ctx := context.Background()
	st := &hState{}
	hTxList(st, 2, 1)
	p := &protocol{state: st, ctx: ctx}
	res, err := p.collectTransactionList(ctx, []dag.Transaction{st.txs[0], st.txs[1]})
	if err == nil && len(res) == 2 && len(res[0].Payload) == 0 && len(res[1].Payload) > 0 {
		vAssert(false, "H15b_twin.reach: reachable")
	}
}

// ---------------------------------------------------------------------------------------------
// H15c handleTransactionPayload
// ---------------------------------------------------------------------------------------------

func H15c() {
	hb := vParam("hb15", 1)
	ctx := context.Background()
	ntx := vLen(0, vParam("n15c", 2))
	dl := vParam("dl15c", 2)
	st := &hState{}
	// every stored transaction commits to the hash of a payload of dl arbitrary bytes
	var payloads [][]byte
	for i := 0; i < ntx; i++ {
		pl := vBytes(dl)
		payloads = append(payloads, pl)
		tx := &hTx{ref: hHash(hb), payloadHash: hash.SHA256Sum(pl), data: []byte{byte(i)}}
		tx.ref[31] = byte(i + 1)
		if vChoice(2) == 1 {
			tx.pal = [][]byte{{byte(i)}}
		}
		st.txs = append(st.txs, tx)
	}
	vTag("getFails")
	st.getFails = vBool()
	vTag("writeFails")
	st.writeFails = vBool()
	conn := &hConn{peer: hPeer()}
	p := &protocol{state: st, ctx: ctx}
	// the payload job queue exists only when the node DID is configured (protocol.Configure)
	var jobs *hNotifier
	if vChoice(2) == 1 {
		jobs = &hNotifier{}
		p.privatePayloadReceiver = jobs
		p.nodeDID = hDID(0)
	} else {
		vClass("node DID not configured")
	}

	// the message: any reference (a stored one or not, any wire shape), any data of 0..dl bytes
	ref := hHash(hb)
	ref[31] = vU8()
	shape := vChoice(4)
	data := vBytes(vLen(0, dl))
	// sha256 is collision free on the inputs at hand (the engine models it as an uninterpreted function)
	for _, pl := range payloads {
		vAssume(string(data) == string(pl) || hash.SHA256Sum(data) != hash.SHA256Sum(pl))
	}
	msg := &TransactionPayload{ConversationID: vBytes(1), TransactionRef: hRefBytes(ref, shape), Data: data}
	err := p.handleTransactionPayload(ctx, conn, &Envelope{Message: &Envelope_TransactionPayload{TransactionPayload: msg}})

	// reference
	wireRef := hash.FromSlice(msg.TransactionRef)
	var target *hTx
	// a field denotes a transaction only if it is a reference, i.e. exactly 32 bytes (F-38: shorter and longer
	// fields used to be padded / truncated onto a stored transaction)
	wellFormed := len(msg.TransactionRef) == hash.SHA256HashSize
	for _, t := range st.txs {
		if t.ref == wireRef && wellFormed {
			target = t
		}
	}
	if !wellFormed {
		vCover("malformed-reference-length")
		vAssert(err != nil && len(st.writes) == 0, "H15c.malformed_reference_rejected: payload with a reference field that is not 32 bytes was not rejected")
	}
	vAssert(len(conn.sent) == 0, "H15c.no_answer: a received payload was answered with a message")
	vAssert(len(st.writes) <= 1, "H15c.at_most_one_write: more than one payload written")
	for _, w := range st.writes {
		vCover("written")
		vAssert(target != nil && w.tx == dag.Transaction(target), "H15c.tx_exists: payload stored for a transaction that is not in the DAG")
		vAssert(target != nil && hash.SHA256Sum(data) == target.payloadHash, "H15c.hash_matches: stored payload does not hash to the payload hash of the referenced transaction")
		vAssert(target != nil && w.hash == target.payloadHash, "H15c.stored_under_payload_hash: payload stored under a hash other than the transaction's payload hash")
		vAssert(string(w.data) == string(data) && len(data) > 0, "H15c.stored_data_is_received_data: stored bytes differ from the received bytes")
		vAssert(!wireRef.Empty(), "H15c.ref_required: payload stored for the empty reference")
	}
	if wireRef.Empty() || len(data) == 0 {
		vCover("rejected-empty")
		vAssert(err != nil && len(st.writes) == 0, "H15c.empty_rejected: message without reference or data was not rejected")
	}
	if target == nil && !st.getFails {
		vCover("unknown-tx")
		vAssert(err != nil && len(st.writes) == 0, "H15c.unknown_rejected: payload for an unknown transaction was not rejected")
	}
	if target != nil && len(data) > 0 && !st.getFails {
		if hash.SHA256Sum(data) == target.payloadHash {
			vCover("matching")
			if !st.writeFails {
				vAssert(len(st.writes) == 1, "H15c.matching_stored: a matching payload for a stored transaction was not stored")
				if jobs != nil {
					vAssert(len(jobs.finished) == 1 && jobs.finished[0] == target.ref && err == nil, "H15c.job_finished: payload job of the transaction was not marked finished")
				}
			} else {
				vAssert(err != nil, "H15c.write_failure_reported: storage failure not reported")
			}
		} else {
			vCover("mismatching")
			vAssert(err != nil && len(st.writes) == 0, "H15c.mismatch_rejected: payload with the wrong hash was not rejected")
		}
	}
	if jobs != nil && len(st.writes) == 0 {
		vAssert(len(jobs.finished) == 0, "H15c.job_kept: payload job finished although nothing was stored")
	}
}

func H15c_twin() {
	ctx := context.Background()
	tx := &hTx{ref: hHash(1), payloadHash: hash.SHA256Sum(vBytes(1))}
	tx.ref[31] = 1
	st := &hState{txs: []*hTx{tx}}
	p := &protocol{state: st, ctx: ctx, privatePayloadReceiver: &hNotifier{}}
	msg := &TransactionPayload{TransactionRef: hRefBytes(tx.ref, 3), Data: vBytes(1)}
	err := p.handleTransactionPayload(ctx, &hConn{}, &Envelope{Message: &Envelope_TransactionPayload{TransactionPayload: msg}})
	if err == nil && len(st.writes) == 1 {
		vAssert(false, "H15c_twin.reach: reachable")
	}
}

// ---------------------------------------------------------------------------------------------
// H15d dag.EncryptedPAL.Decrypt
// ---------------------------------------------------------------------------------------------

func H15d() {
	ctx := context.Background()
	npal := vLen(0, vParam("npald", 2))
	nkids := vLen(0, vParam("nkidsd", 2))
	var epal dag.EncryptedPAL
	for i := 0; i < npal; i++ {
		epal = append(epal, []byte{byte(i), vU8()})
	}
	var kids []string
	for j := 0; j < nkids; j++ {
		kids = append(kids, "did:nuts:a#"+hKidNames[j])
	}
	list, plaintext, wellFormed := hPlaintext(vParam("pool", 2))
	m, couldDecrypt, anyMissing := hDecMatrix(npal, nkids)
	dec := &hDecrypter{plaintext: plaintext, m: m}

	pal, err := epal.Decrypt(ctx, kids, dec)

	vAssert(dec.okCount <= 1, "H15d.stops_at_first_success: decryption continued after a success")
	vAssert(len(dec.kids) <= npal*nkids, "H15d.bounded_attempts: more attempts than (ciphertext, key) pairs")
	if err == nil && pal != nil {
		vCover("decrypted")
		vAssert(couldDecrypt && wellFormed, "H15d.list_needs_decryption: a participant list was returned although no key decrypts a ciphertext to a well-formed list")
		vAssert(len(pal) == len(list), "H15d.list_equals_plaintext: returned list differs from the encrypted list")
		for i := range pal {
			if i < len(list) {
				vAssert(pal[i].Method == list[i].Method && pal[i].ID == list[i].ID, "H15d.list_equals_plaintext: returned list differs from the encrypted list")
			}
		}
	}
	if err == nil && pal == nil {
		vCover("not-for-us")
		vAssert(!couldDecrypt || len(plaintext) == 0, "H15d.not_for_us_means_undecryptable: reported 'not for us' although a key decrypts a ciphertext")
		vAssert(!anyMissing || couldDecrypt, "H15d.missing_key_is_error: a missing private key was reported as 'not for us'")
	}
	if err != nil {
		vCover("error")
		vAssert(pal == nil, "H15d.error_without_list: error returned together with a list")
		vAssert(anyMissing || (couldDecrypt && !wellFormed && len(plaintext) > 0), "H15d.error_has_cause: error without a missing key or malformed list")
	}
	if couldDecrypt && !anyMissing {
		if wellFormed {
			vAssert(err == nil && pal != nil, "H15d.decryptable_is_decrypted: a decryptable well-formed list was not returned")
		} else if len(plaintext) > 0 {
			vCover("malformed")
			vAssert(err != nil, "H15d.malformed_rejected: malformed participant list accepted")
		}
	}
	if !couldDecrypt && anyMissing {
		vCover("key-missing")
		vAssert(err != nil, "H15d.missing_key_is_error: a missing private key was not reported")
	}
}

func H15d_twin() {
	m, _, _ := hDecMatrix(2, 1)
	dec := &hDecrypter{plaintext: []byte("did:nuts:b"), m: m}
	pal, err := dag.EncryptedPAL{{0}, {1}}.Decrypt(context.Background(), []string{"did:nuts:a#k1"}, dec)
	if err == nil && len(pal) == 1 && len(dec.kids) == 2 {
		vAssert(false, "H15d_twin.reach: reachable")
	}
}
