//go:build verif

package v2

import (
	"context"
	"errors"
	"strings"

	"github.com/nuts-foundation/go-did/did"
	"github.com/nuts-foundation/nuts-node/crypto"
	"github.com/nuts-foundation/nuts-node/crypto/hash"
	"github.com/nuts-foundation/nuts-node/network/dag"
	"github.com/nuts-foundation/nuts-node/network/dag/tree"
	"github.com/nuts-foundation/nuts-node/network/transport"
	"github.com/nuts-foundation/nuts-node/network/transport/grpc"
	"github.com/nuts-foundation/nuts-node/vdr/resolver"
)

// The protobuf runtime registration of the generated message types (reflection, unsafe) is not needed by the
// handlers: the message structs are used as plain Go values.
//verif:stub github.com/nuts-foundation/nuts-node/network/transport/v2.file_transport_v2_protocol_proto_init => noop

// ---------------------------------------------------------------------------------------------
// Fakes shared by the C15 and C07 harnesses of this package.
// ---------------------------------------------------------------------------------------------

// hTx is a dag.Transaction value object (the handlers only use Ref, PAL, PayloadHash, Data, Clock).
type hTx struct {
	dag.Transaction
	ref         hash.SHA256Hash
	payloadHash hash.SHA256Hash
	clock       uint32
	pal         [][]byte
	data        []byte
}

func (t *hTx) Ref() hash.SHA256Hash         { return t.ref }
func (t *hTx) PayloadHash() hash.SHA256Hash { return t.payloadHash }
func (t *hTx) Clock() uint32                { return t.clock }
func (t *hTx) PAL() [][]byte                { return t.pal }
func (t *hTx) Data() []byte                 { return t.data }

type hPayload struct {
	hash hash.SHA256Hash
	data []byte
}

type hWrite struct {
	tx   dag.Transaction
	hash hash.SHA256Hash
	data []byte
}

type hRangeCall struct{ start, end uint32 }

// hState is a dag.State that answers from value lists and records what the handlers do with it.
type hState struct {
	dag.State
	txs      []*hTx
	payloads []hPayload
	// faults: when set, the corresponding read fails with a storage error (not the not-found sentinel)
	getFails, readFails, writeFails, presentFails, findFails bool
	// digests
	xor   hash.SHA256Hash
	clock uint32
	iblt  *tree.Iblt
	// Add verdict per call: nil or the error to return
	addErr func(tx dag.Transaction) error
	// records
	writes      []hWrite
	adds        []dag.Transaction
	addPayloads [][]byte
	ranges      []hRangeCall
	xorReqs     []uint32
	ibltReqs    []uint32
	correct     int
	incorrect   int
}

var errHStorage = errors.New("harness: storage failure")

func (s *hState) GetTransaction(_ context.Context, ref hash.SHA256Hash) (dag.Transaction, error) {
	if s.getFails {
		return nil, errHStorage
	}
	for _, t := range s.txs {
		if t.ref == ref {
			return t, nil
		}
	}
	return nil, dag.ErrTransactionNotFound
}

func (s *hState) IsPresent(_ context.Context, ref hash.SHA256Hash) (bool, error) {
	if s.presentFails {
		return false, errHStorage
	}
	for _, t := range s.txs {
		if t.ref == ref {
			return true, nil
		}
	}
	return false, nil
}

func (s *hState) ReadPayload(_ context.Context, h hash.SHA256Hash) ([]byte, error) {
	if s.readFails {
		return nil, errHStorage
	}
	for _, p := range s.payloads {
		if p.hash == h {
			return p.data, nil
		}
	}
	return nil, dag.ErrPayloadNotFound
}

func (s *hState) WritePayload(_ context.Context, tx dag.Transaction, h hash.SHA256Hash, data []byte) error {
	if s.writeFails {
		return errHStorage
	}
	s.writes = append(s.writes, hWrite{tx: tx, hash: h, data: data})
	return nil
}

func (s *hState) FindBetweenLC(_ context.Context, start, end uint32) ([]dag.Transaction, error) {
	s.ranges = append(s.ranges, hRangeCall{start, end})
	if s.findFails {
		return nil, errHStorage
	}
	var out []dag.Transaction
	for _, t := range s.txs {
		if t.clock >= start && t.clock < end {
			out = append(out, t)
		}
	}
	return out, nil
}

func (s *hState) Add(_ context.Context, tx dag.Transaction, payload []byte) error {
	if s.addErr != nil {
		if err := s.addErr(tx); err != nil {
			return err
		}
	}
	s.adds = append(s.adds, tx)
	s.addPayloads = append(s.addPayloads, payload)
	return nil
}

func (s *hState) XOR(req uint32) (hash.SHA256Hash, uint32) {
	s.xorReqs = append(s.xorReqs, req)
	return s.xor, s.clock
}

func (s *hState) IBLT(req uint32) (tree.Iblt, uint32) {
	s.ibltReqs = append(s.ibltReqs, req)
	if s.iblt == nil {
		return *tree.NewIblt(dag.IbltNumBuckets), s.clock
	}
	return *(s.iblt.Clone().(*tree.Iblt)), s.clock
}

func (s *hState) CorrectStateDetected()   { s.correct++ }
func (s *hState) IncorrectStateDetected() { s.incorrect++ }

// hConn is a grpc.Connection (interface with unexported methods: embedded nil interface) that records sends.
type hConn struct {
	grpc.Connection
	peer     transport.Peer
	sent     []*Envelope
	softFlag []bool
	sendErr  error
}

func (c *hConn) Peer() transport.Peer { return c.peer }
func (c *hConn) Send(_ grpc.Protocol, envelope interface{}, ignoreSoftLimit bool) error {
	c.sent = append(c.sent, envelope.(*Envelope))
	c.softFlag = append(c.softFlag, ignoreSoftLimit)
	return c.sendErr
}

// hNotifier is the private payload job queue: only Finished is used by the handlers.
type hNotifier struct {
	dag.Notifier
	finished []hash.SHA256Hash
	err      error
}

func (n *hNotifier) Finished(ref hash.SHA256Hash) error {
	n.finished = append(n.finished, ref)
	return n.err
}

func hHash(k int) hash.SHA256Hash {
	var h hash.SHA256Hash
	b := vBytes(k)
	for i := 0; i < k; i++ {
		h[i] = b[i]
	}
	return h
}

// hRefBytes is a reference field as it arrives in a protobuf message: any length 0..33 is possible on the
// wire; the harnesses use the lengths that make a difference to hash.FromSlice (absent, short, exact, long).
func hRefBytes(h hash.SHA256Hash, shape int) []byte {
	switch shape {
	case 0:
		return nil
	case 1:
		return h[:31] // too short: FromSlice pads with zero
	case 2:
		return append(h[:], vU8()) // too long: FromSlice truncates
	}
	return h[:]
}

// ---------------------------------------------------------------------------------------------
// PAL model
// ---------------------------------------------------------------------------------------------

var hPoolIDs = []string{"did:nuts:a", "did:nuts:b", "did:nuts:c"}

func hDID(i int) did.DID { return did.DID{Method: "nuts", ID: hPoolIDs[i][9:], DecodedID: hPoolIDs[i][9:]} }

// hResolver resolves only the node DID, to a document with the configured key agreement key ids.
type hResolver struct {
	resolver.DIDResolver
	node  did.DID
	kids  []string
	fails bool
	calls int
}

func (r *hResolver) Resolve(id did.DID, _ *resolver.ResolveMetadata) (*did.Document, *resolver.DocumentMetadata, error) {
	r.calls++
	if r.fails || !id.Equals(r.node) {
		return nil, nil, resolver.ErrNotFound
	}
	doc := &did.Document{ID: r.node}
	for _, kid := range r.kids {
		u := did.DIDURL{DID: r.node, Fragment: kid}
		doc.KeyAgreement = append(doc.KeyAgreement, did.VerificationRelationship{VerificationMethod: &did.VerificationMethod{ID: u, Controller: r.node}})
	}
	return doc, &resolver.DocumentMetadata{}, nil
}

// Outcomes of one decryption attempt (ciphertext i, key j).
const (
	hDecWrongKey   = 0 // ECIES failure: ciphertext is not for this key
	hDecKeyMissing = 1 // the private key is not in the key store (crypto.ErrPrivateKeyNotFound)
	hDecOK         = 2 // plaintext
)

// hDecrypter is the key store. The outcome of decrypting ciphertext i (identified by its first byte) with
// key j (identified by the fragment of the key id) is the harness-chosen matrix cell m[i][j]; a successful
// attempt returns the plaintext. Contract of crypto.Decrypter: an error comes with no plaintext.
type hDecrypter struct {
	crypto.Decrypter
	m         [][]int
	plaintext []byte
	kids      []string // key ids tried
	okCount   int
}

func (d *hDecrypter) Decrypt(_ context.Context, kid string, ct []byte) ([]byte, error) {
	d.kids = append(d.kids, kid)
	j := 0
	if strings.HasSuffix(kid, "#k2") {
		j = 1
	}
	switch d.m[int(ct[0])][j] {
	case hDecKeyMissing:
		return nil, crypto.ErrPrivateKeyNotFound
	case hDecOK:
		d.okCount++
		return d.plaintext, nil
	}
	return nil, errors.New("harness: ecies: invalid message")
}

// hDecMatrix draws the outcome matrix (symbolic cells) and returns it with the two order-independent facts
// the oracle uses: some own key decrypts some ciphertext / some attempted key may be missing.
func hDecMatrix(npal, nkids int) (m [][]int, couldDecrypt, anyMissing bool) {
	for i := 0; i < npal; i++ {
		row := make([]int, nkids)
		for j := 0; j < nkids; j++ {
			row[j] = vRange(0, 2)
			couldDecrypt = couldDecrypt || row[j] == hDecOK
			anyMissing = anyMissing || row[j] == hDecKeyMissing
		}
		m = append(m, row)
	}
	return
}

// hPlaintext draws the participant list the author of the transaction encrypted: any subset of the pool in
// pool order (the author is untrusted: the list need not contain the node that can decrypt it), or - shape 1 -
// a plaintext that is not a list of DIDs, or - shape 2 - an empty plaintext.
func hPlaintext() (list []did.DID, plaintext []byte, wellFormed bool) {
	switch vChoice(3) {
	case 1:
		return nil, []byte("did:nuts:a\nnot a did"), false
	case 2:
		return nil, []byte{}, false
	}
	var parts []string
	for i := range hPoolIDs {
		if vBool() {
			list = append(list, hDID(i))
			parts = append(parts, hPoolIDs[i])
		}
	}
	if len(parts) == 0 {
		// an empty list encrypts to the empty plaintext
		return nil, []byte{}, false
	}
	return list, []byte(strings.Join(parts, "\n")), true
}

func hListContains(list []did.DID, d did.DID) bool {
	for _, x := range list {
		if x.Method == d.Method && x.ID == d.ID {
			return true
		}
	}
	return false
}

// hPeer draws the peer of the connection: pool member, a DID outside the pool, or no DID; with the
// authenticated flag arbitrary (an unauthenticated peer may claim any DID - that is the point).
func hPeer() transport.Peer {
	p := transport.Peer{ID: "peer", Address: "addr"}
	switch c := vChoice(5); c {
	case 3:
		p.NodeDID = did.DID{Method: "nuts", ID: "z", DecodedID: "z"}
	case 4:
		// no DID
	default:
		p.NodeDID = hDID(c)
	}
	vTag("authenticated")
	p.Authenticated = vBool()
	// grpc authenticator contract (transport.Peer doc): Authenticated is true only when NodeDID is set
	vAssume(!p.Authenticated || !p.NodeDID.Empty())
	return p
}

// ---------------------------------------------------------------------------------------------
// H15a handleTransactionPayloadQuery
// ---------------------------------------------------------------------------------------------

func H15a() {
	hb := vParam("hb15", 1)
	ctx := context.Background()

	// the DAG: one transaction, public or private (1..npal ciphertexts), payload present or not
	tx := &hTx{ref: hHash(hb), payloadHash: hHash(1)}
	npal := vLen(0, vParam("npal", 2))
	for i := 0; i < npal; i++ {
		tx.pal = append(tx.pal, []byte{byte(i), vU8()})
	}
	st := &hState{txs: []*hTx{tx}}
	payload := []byte{vU8(), 7}
	payloadPresent := vBool()
	if payloadPresent {
		st.payloads = []hPayload{{hash: tx.payloadHash, data: payload}}
	}
	vTag("getFails")
	st.getFails = vBool()
	vTag("readFails")
	st.readFails = vBool()

	// own node
	nodeSet := vBool()
	var nodeDID did.DID
	if nodeSet {
		nodeDID = hDID(vChoice(2))
	}
	nkids := vLen(0, vParam("nkids", 2))
	res := &hResolver{node: nodeDID, kids: []string{"k1", "k2"}[:nkids]}
	vTag("resolveFails")
	res.fails = vBool()

	// the participant list as encrypted by the (untrusted) author, and the key store's behaviour
	list, plaintext, wellFormed := hPlaintext()
	m, couldDecrypt, anyMissing := hDecMatrix(npal, nkids)
	dec := &hDecrypter{plaintext: plaintext, m: m}

	peer := hPeer()
	conn := &hConn{peer: peer}
	if vBool() {
		conn.sendErr = errors.New("harness: send failed")
	}

	p := &protocol{state: st, nodeDID: nodeDID, didResolver: res, decrypter: dec, ctx: ctx}

	// the query: the stored transaction's ref or any other, in any wire shape
	qref := hHash(hb)
	shape := vChoice(4)
	msg := &TransactionPayloadQuery{ConversationID: vBytes(1), TransactionRef: hRefBytes(qref, shape)}
	err := p.handleTransactionPayloadQuery(ctx, conn, &Envelope{Message: &Envelope_TransactionPayloadQuery{TransactionPayloadQuery: msg}})

	// --- reference predicates (independent of the order in which the handler tries things) ---
	found := !st.getFails && hash.FromSlice(msg.TransactionRef) == tx.ref
	private := len(tx.pal) > 0
	ownDecrypt := nodeSet && !res.fails && couldDecrypt
	mayServe := !private || (peer.Authenticated && ownDecrypt && wellFormed && hListContains(list, peer.NodeDID))
	mustServe := !private || (mayServe && !anyMissing)

	vAssert(len(conn.sent) <= 1, "H15a.at_most_one_response: more than one response to a payload query")
	dataSent := false
	for _, e := range conn.sent {
		r := e.GetTransactionPayload()
		vAssert(r != nil, "H15a.response_type: response to a payload query is not a TransactionPayload")
		vAssert(string(r.TransactionRef) == string(msg.TransactionRef), "H15a.response_ref: response does not echo the queried reference")
		if len(r.Data) > 0 {
			dataSent = true
			vCover("payload-sent")
			// whatever is sent is the payload of the queried, stored transaction
			vAssert(found, "H15a.payload_of_queried_tx: payload sent for a reference that is not the stored transaction")
			vAssert(payloadPresent && string(r.Data) == string(payload), "H15a.payload_is_stored_payload: data sent is not the stored payload")
			if private {
				vCover("private-payload-sent")
				vAssert(peer.Authenticated, "H15a.private_needs_authenticated_peer: private payload sent over an unauthenticated connection")
				vAssert(wellFormed && hListContains(list, peer.NodeDID), "H15a.private_needs_listed_peer: private payload sent to a peer whose node DID is not on the decrypted participant list")
				vAssert(ownDecrypt, "H15a.private_needs_own_decryption: private payload sent by a node that cannot decrypt the participant list with a key agreement key of its own node DID")
				vAssert(mayServe, "H15a.private_payload_guard: private payload sent although the peer is not entitled to it")
				for _, k := range dec.kids {
					vAssert(k == nodeDID.String()+"#k1" || k == nodeDID.String()+"#k2", "H15a.only_own_keys_tried: decryption attempted with a key that is not a key agreement key of the node DID")
				}
			} else {
				vCover("public-payload-sent")
				vAssert(len(dec.kids) == 0 && res.calls == 0, "H15a.public_no_decrypt: decryption attempted for a public transaction")
			}
		} else {
			vCover("empty-response")
		}
	}
	// response discipline: silence only because the storage failed (then the error is reported)
	if len(conn.sent) == 0 {
		vCover("no-response")
		payloadUnreadable := st.readFails || !payloadPresent
		vAssert(err != nil, "H15a.silence_is_error: no response and no error")
		vAssert(st.getFails || (found && mayServe && payloadUnreadable), "H15a.exactly_one_response: a payload query got no response although the storage did not fail")
		if found && !st.readFails && !payloadPresent {
			vCover("payload-missing-locally")
		}
	} else {
		vAssert(err == conn.sendErr, "H15a.send_result_returned: handler does not return the send result")
	}
	// converse (no over-blocking): an entitled peer gets the payload when it is there
	if found && mustServe && payloadPresent && !st.readFails {
		if private {
			vCover("entitled-peer")
		}
		vAssert(dataSent, "H15a.entitled_peer_served: an entitled peer was refused the payload")
	}
	if !found && !st.getFails {
		vCover("unknown-tx")
		vAssert(len(conn.sent) == 1 && !dataSent, "H15a.unknown_tx_empty: query for an unknown transaction not answered with an empty response")
	}
}

func H15a_twin() {
	ctx := context.Background()
	tx := &hTx{ref: hHash(1), payloadHash: hHash(1), pal: [][]byte{{0, vU8()}}}
	st := &hState{txs: []*hTx{tx}, payloads: []hPayload{{hash: tx.payloadHash, data: []byte{1}}}}
	node := hDID(0)
	m, _, _ := hDecMatrix(1, 1)
	dec := &hDecrypter{plaintext: []byte("did:nuts:a\ndid:nuts:b"), m: m}
	conn := &hConn{peer: transport.Peer{ID: "p", NodeDID: hDID(1), Authenticated: vBool()}}
	p := &protocol{state: st, nodeDID: node, didResolver: &hResolver{node: node, kids: []string{"k1"}}, decrypter: dec, ctx: ctx}
	msg := &TransactionPayloadQuery{TransactionRef: hRefBytes(hHash(1), 3)}
	_ = p.handleTransactionPayloadQuery(ctx, conn, &Envelope{Message: &Envelope_TransactionPayloadQuery{TransactionPayloadQuery: msg}})
	if len(conn.sent) == 1 && len(conn.sent[0].GetTransactionPayload().Data) > 0 {
		vAssert(false, "H15a_twin.reach: reachable")
	}
}
