//go:build verif

package v2

import (
	"context"
	"errors"
	"time"

	"github.com/nuts-foundation/nuts-node/crypto/hash"
	"github.com/nuts-foundation/nuts-node/network/dag"
	"github.com/nuts-foundation/nuts-node/network/dag/tree"
	"github.com/nuts-foundation/nuts-node/network/transport"
	"github.com/nuts-foundation/nuts-node/network/transport/grpc"
	"github.com/nuts-foundation/nuts-node/network/transport/v2/gossip"
)

// C07 step lemmas (NOT end-to-end convergence): every harness runs one real handler of protocol v2 on the fakes
// of zz_verif_c15.go, with the real conversation manager and the real senders behind it.

// Conversation ids: uuid.New() (crypto/rand) is replaced by a counter. Real ids are unique; so are these.
//verif:stub github.com/nuts-foundation/nuts-node/network/transport/v2.newConversationID => hNewCID

var hCIDCount int

func hNewCID() conversationID {
	hCIDCount++
	return conversationID("cid-" + string(rune('0'+hCIDCount)))
}

// The clock: whole seconds; every reading of time.Now advances it by a symbolic 0..hTick seconds (hTick = 0:
// time stands still - the handlers that only stamp an expiry do not depend on it).
var hNowSec int64 = 1700000000
var hTick int

func vhNow() time.Time {
	if hTick > 0 {
		hNowSec += int64(vRange(0, hTick))
	}
	return time.Unix(hNowSec, 0)
}

// Received transactions: dag.ParseTransaction (JWS parsing) is replaced by a decoder of the harness encoding
// {index, tag}: it yields the registered transaction value object or fails.
//verif:stub github.com/nuts-foundation/nuts-node/network/dag.ParseTransaction => hParseTx

var hParseTable []*hTx

// hzParse: decoder of the convergence harness (zz_verif_c07z.go) when set.
var hzParse func(input []byte) (dag.Transaction, error)

func hParseTx(input []byte) (dag.Transaction, error) {
	if hzParse != nil {
		return hzParse(input)
	}
	if len(input) == 2 && int(input[0]) < len(hParseTable) {
		if t := hParseTable[int(input[0])]; t.data[1] == input[1] {
			return t, nil
		}
	}
	return nil, errors.New("harness: not a transaction")
}

// hGossip is the gossip.Manager: records what the handler reports as received.
type hGossip struct {
	gossip.Manager
	received [][]hash.SHA256Hash
}

func (g *hGossip) GossipReceived(_ transport.Peer, refs ...hash.SHA256Hash) {
	g.received = append(g.received, append([]hash.SHA256Hash(nil), refs...))
}

func hProto(st *hState) (*protocol, *hConn, *hGossip) {
	g := &hGossip{}
	p := &protocol{state: st, ctx: context.Background(), cMan: newConversationManager(maxValidity), gManager: g}
	p.sender = p
	return p, &hConn{peer: transport.Peer{ID: "peer", Address: "addr"}}, g
}

// hClock draws a Lamport clock under the stated precondition of C07: clocks are below 2^31.
func hClock() uint32 {
	c := vU32()
	vAssume(c < 1<<31)
	return c
}

const hPage = 512 // independent of dag.PageSize on purpose (asserted equal below)

func hPageOf(c uint32) uint32 { return c >> 9 }

func hLive(p *protocol, cid []byte) *conversation { return p.cMan.conversations[string(cid)] }

// ---------------------------------------------------------------------------------------------
// H07a (L1) handleTransactionSet: paging arithmetic of the requester
// ---------------------------------------------------------------------------------------------

const (
	hSetInSync = iota
	hSetPeerHasMore
	hSetWeHaveMore
	hSetUndecodable
	hSetBadLength
	hSetBadBuckets
	hSetKinds
)

func H07a() {
	vAssert(dag.PageSize == hPage, "H07a.page_size: page size is not 512")
	st := &hState{xor: hHash(1), clock: hClock()}
	p, conn, _ := hProto(st)

	// we asked the peer for its state up to reqLC
	reqLC := hClock()
	vAssert(p.sender.sendState(conn, st.xor, reqLC) == nil && len(conn.sent) == 1 && conn.sent[0].GetState() != nil, "H07a.state_sent: State request not sent")
	ask := conn.sent[0].GetState()
	vAssert(ask.LC == reqLC && hLive(p, ask.ConversationID) != nil, "H07a.state_conversation: State request has no conversation")
	conn.sent = nil
	st.xorReqs = nil

	// the answer: for our conversation or any other id, any clocks, a filter of one of six kinds
	cid := vBytes(len(ask.ConversationID))
	msg := &TransactionSet{ConversationID: cid, LCReq: hClock(), LC: hClock()}
	missingRef := hash.SHA256Hash{1, 2, 3}
	local := tree.NewIblt(dag.IbltNumBuckets)
	peer := tree.NewIblt(dag.IbltNumBuckets)
	kind := vChoice(hSetKinds)
	switch kind {
	case hSetPeerHasMore:
		peer.Insert(missingRef)
	case hSetWeHaveMore:
		local.Insert(missingRef)
	}
	msg.IBLT, _ = peer.MarshalBinary()
	switch kind {
	case hSetUndecodable:
		msg.IBLT[0] = 2 // bucket 0: count 2, no key: never pure
	case hSetBadLength:
		msg.IBLT = msg.IBLT[1:]
	case hSetBadBuckets:
		msg.IBLT = msg.IBLT[44:]
	}
	st.iblt = local
	err := p.handleTransactionSet(context.Background(), conn, &Envelope{Message: &Envelope_TransactionSet{TransactionSet: msg}})

	solicited := string(cid) == string(ask.ConversationID) && msg.LCReq == reqLC
	if !solicited {
		vCover("unsolicited")
		vAssert(err != nil && len(conn.sent) == 0 && len(st.ibltReqs) == 0, "H07a.unsolicited_ignored: a TransactionSet that answers no State request was processed")
		vAssert(hLive(p, ask.ConversationID) != nil, "H07a.unsolicited_keeps_conversation: an unsolicited TransactionSet closed the open conversation")
		return
	}
	vAssert(hLive(p, ask.ConversationID) == nil, "H07a.conversation_closed: the State conversation stays open after its answer")
	minLC := msg.LC
	if msg.LCReq < minLC {
		minLC = msg.LCReq
	}
	if kind == hSetBadLength || kind == hSetBadBuckets {
		vCover("malformed-filter")
		vAssert(err != nil && len(conn.sent) == 0, "H07a.malformed_filter_rejected: malformed filter not rejected")
		return
	}
	vAssert(len(st.ibltReqs) == 1 && st.ibltReqs[0] == minLC, "H07a.compare_at_min_clock: own filter not taken at min(LC, LCReq)")
	vAssert(err == nil && len(conn.sent) <= 1, "H07a.at_most_one_request: more than one follow-up request")
	for _, e := range conn.sent {
		// every follow-up request opens a conversation
		var c []byte
		switch m := e.Message.(type) {
		case *Envelope_State:
			c = m.State.ConversationID
		case *Envelope_TransactionRangeQuery:
			c = m.TransactionRangeQuery.ConversationID
		case *Envelope_TransactionListQuery:
			c = m.TransactionListQuery.ConversationID
		}
		vAssert(len(c) > 0 && hLive(p, c) != nil, "H07a.followup_has_conversation: follow-up request without conversation")
	}
	switch kind {
	case hSetUndecodable:
		vAssert(len(conn.sent) == 1, "H07a.fallback_sent: no fallback after a failed decode")
		if minLC < hPage {
			vCover("fallback-first-page")
			q := conn.sent[0].GetTransactionRangeQuery()
			vAssert(q != nil && q.Start == 0 && q.End == hPage, "H07a.fallback_first_page: fallback below one page is not the range [0, PageSize)")
		} else {
			vCover("fallback-lower-page")
			s := conn.sent[0].GetState()
			vAssert(s != nil, "H07a.fallback_is_state: fallback is not a State request")
			if s != nil {
				vAssert(hPageOf(s.LC)+1 == hPageOf(minLC), "H07a.fallback_strictly_lower_page: fallback clock is not in the page directly below")
				vAssert(s.LC < minLC && s.LC&(hPage-1) == hPage-1, "H07a.fallback_page_end: fallback clock is not the last clock of the lower page")
				vAssert(hash.FromSlice(s.XOR) == st.xor, "H07a.fallback_own_xor: fallback State does not carry the own XOR")
			}
		}
	case hSetPeerHasMore:
		vCover("missing-requested")
		vAssert(len(conn.sent) == 1, "H07a.missing_requested: decoded missing transactions not requested")
		q := conn.sent[0].GetTransactionListQuery()
		vAssert(q != nil && len(q.Refs) == 1 && hash.FromSlice(q.Refs[0]) == missingRef, "H07a.missing_requested: decoded missing transactions not requested")
	default:
		// nothing missing within the compared range
		if hPageOf(msg.LC) > hPageOf(msg.LCReq) {
			vCover("next-range")
			vAssert(len(conn.sent) == 1, "H07a.next_range_requested: peer is ahead but no range requested")
			q := conn.sent[0].GetTransactionRangeQuery()
			vAssert(q != nil, "H07a.next_range_requested: peer is ahead but no range requested")
			if q != nil {
				vAssert(q.Start > msg.LCReq && q.Start-msg.LCReq <= hPage && q.Start&(hPage-1) == 0, "H07a.next_range_start: requested range does not start at the page after LCReq")
				if hPageOf(st.clock) > hPageOf(msg.LCReq) {
					vCover("next-range-one-page")
					vAssert(q.End-q.Start == hPage, "H07a.next_range_span: historical reconciliation does not ask for exactly one page")
				} else {
					vCover("next-range-two-pages")
					vAssert(q.End-q.Start == 2*hPage, "H07a.next_range_span: catching up does not ask for exactly two pages")
				}
				vAssert(q.End > q.Start, "H07a.next_range_nonempty: requested range is empty")
			}
		} else {
			vCover("peer-not-ahead")
			vAssert(len(conn.sent) == 0, "H07a.peer_not_ahead_silent: request sent although the peer is not ahead")
		}
	}
}

func H07a_twin() {
	st := &hState{xor: hHash(1), clock: hClock()}
	p, conn, _ := hProto(st)
	reqLC := hClock()
	_ = p.sender.sendState(conn, st.xor, reqLC)
	ask := conn.sent[0].GetState()
	peer := tree.NewIblt(dag.IbltNumBuckets)
	b, _ := peer.MarshalBinary()
	b[0] = 2
	msg := &TransactionSet{ConversationID: ask.ConversationID, LCReq: reqLC, LC: hClock(), IBLT: b}
	_ = p.handleTransactionSet(context.Background(), conn, &Envelope{Message: &Envelope_TransactionSet{TransactionSet: msg}})
	if len(conn.sent) == 2 && conn.sent[1].GetState() != nil && conn.sent[1].GetState().LC == 1023 {
		vAssert(false, "H07a_twin.reach: reachable")
	}
}

// ---------------------------------------------------------------------------------------------
// H07b (L2) handleTransactionRangeQuery: clipping, consistent with the requester's checkResponse
// ---------------------------------------------------------------------------------------------

// hPublicTxs stores n public transactions with payloads and clocks drawn by the callback.
func hPublicTxs(st *hState, n int, clock func() uint32) {
	hParseTable = nil
	for i := 0; i < n; i++ {
		tx := &hTx{payloadHash: hash.SHA256Hash{byte(i + 1)}, data: []byte{byte(i), vU8()}, clock: clock()}
		tx.ref[0], tx.ref[31] = vU8(), byte(i+1)
		st.txs = append(st.txs, tx)
		st.payloads = append(st.payloads, hPayload{hash: tx.payloadHash, data: []byte{byte(0x80 + i)}})
		hParseTable = append(hParseTable, tx)
	}
}

func H07b() {
	st := &hState{}
	n := vLen(0, vParam("n7b", 2))
	start, end := vU32(), vU32() // message fields: any value
	// stored clocks near the borders of the asked and of the clipped range (and anywhere else)
	hPublicTxs(st, n, func() uint32 { return vU32() })
	p, conn, _ := hProto(st)
	cid := vBytes(2)
	msg := &TransactionRangeQuery{ConversationID: cid, Start: start, End: end}
	err := p.handleTransactionRangeQuery(context.Background(), conn, &Envelope{Message: &Envelope_TransactionRangeQuery{TransactionRangeQuery: msg}})

	if start >= end {
		vCover("empty-range")
		vAssert(err != nil && len(conn.sent) == 0 && len(st.ranges) == 0, "H07b.empty_range_rejected: empty range not rejected")
		return
	}
	vAssert(err == nil, "H07b.nonempty_range_answered: a non-empty range was rejected")
	vAssert(len(st.ranges) == 1 && st.ranges[0].start == start, "H07b.range_start: answered range does not start at Start")
	noWrap := start < 1<<31 // stated precondition; above 2^32-1024 the limit wraps (observation)
	clipEnd := end
	if noWrap {
		if uint64(end) > uint64(start)+2*hPage {
			clipEnd = start + 2*hPage
			vCover("clipped")
		} else {
			vCover("not-clipped")
		}
		vAssert(st.ranges[0].end == clipEnd, "H07b.range_end: answered range does not end at min(End, Start + 2 pages)")
	}
	// what is sent: numbered messages of the asked conversation; every transaction passes the requester's check
	ask := &Envelope_TransactionRangeQuery{TransactionRangeQuery: &TransactionRangeQuery{Start: start, End: end}}
	total := 0
	for i, e := range conn.sent {
		l := e.GetTransactionList()
		vAssert(l != nil && string(l.ConversationID) == string(cid), "H07b.answer_conversation: answer is not a TransactionList of the asked conversation")
		vAssert(int(l.MessageNumber) == i+1 && int(l.TotalMessages) == len(conn.sent), "H07b.answer_numbering: message numbering is not 1..total")
		vAssert(ask.checkResponse(e.Message, handlerData{}) == nil, "H07b.answer_passes_requester_check: an answered transaction fails the requester's range check")
		total += len(l.Transactions)
		for _, ntx := range l.Transactions {
			c := st.txs[int(ntx.Data[0])].clock
			vAssert(c >= start && c < end, "H07b.answer_in_range: answered transaction outside the asked range")
		}
	}
	if noWrap {
		want := 0
		for _, t := range st.txs {
			if t.clock >= start && t.clock < clipEnd {
				want++
			}
		}
		vAssert(total == want, "H07b.answer_complete: answer does not contain every stored transaction of the clipped range exactly once")
		if want > 0 {
			vCover("answered")
		}
	}
}

func H07b_twin() {
	st := &hState{}
	hPublicTxs(st, 1, func() uint32 { return vU32() })
	p, conn, _ := hProto(st)
	msg := &TransactionRangeQuery{Start: 5, End: 5000}
	_ = p.handleTransactionRangeQuery(context.Background(), conn, &Envelope{Message: &Envelope_TransactionRangeQuery{TransactionRangeQuery: msg}})
	if len(conn.sent) == 1 && len(conn.sent[0].GetTransactionList().Transactions) == 1 && st.txs[0].clock == 1028 {
		vAssert(false, "H07b_twin.reach: reachable")
	}
}

// ---------------------------------------------------------------------------------------------
// H07c (L3) handleGossip decision table
// ---------------------------------------------------------------------------------------------

func H07c() {
	hb := vParam("hb7c", 2)
	st := &hState{xor: hHash(hb), clock: hClock()}
	nk := vLen(0, vParam("known7c", 1))
	for i := 0; i < nk; i++ {
		t := &hTx{ref: hHash(hb)}
		st.txs = append(st.txs, t)
	}
	p, conn, g := hProto(st)
	// the gossip: any XOR (any wire shape), any clock, 0..nrefs references
	peerXor := hHash(hb)
	msg := &Gossip{XOR: hRefBytes(peerXor, vChoice(4)), LC: hClock()}
	nr := vLen(0, vParam("refs7c", 2))
	var refs []hash.SHA256Hash
	for i := 0; i < nr; i++ {
		r := hHash(hb)
		refs = append(refs, r)
		msg.Transactions = append(msg.Transactions, hRefBytes(r, 3))
	}
	vTag("presentFails")
	st.presentFails = vBool()
	err := p.handleGossip(context.Background(), conn, &Envelope{Message: &Envelope_Gossip{Gossip: msg}})

	// an XOR field that is not 32 bytes is malformed (F-38: it used to be padded / truncated): the gossip is refused
	// and changes nothing - a malformed message slows convergence down like a lost one, it never steers it
	if len(msg.XOR) != hash.SHA256HashSize {
		vCover("malformed-xor-length")
		vAssert(err != nil && len(conn.sent) == 0 && st.correct == 0 && st.incorrect == 0, "H07c.malformed_xor_rejected: gossip with an XOR field that is not 32 bytes was acted upon")
		return
	}
	// reference
	wireXor := hash.FromSlice(msg.XOR)
	var unknown []hash.SHA256Hash
	distinct := true
	for i, r := range refs {
		known := false
		for _, t := range st.txs {
			known = known || t.ref == r
		}
		if !known {
			unknown = append(unknown, r)
		}
		for j := 0; j < i; j++ {
			distinct = distinct && refs[j] != r
		}
	}
	var want hash.SHA256Hash = st.xor
	for _, u := range unknown {
		for i := range want {
			want[i] ^= u[i]
		}
	}

	if wireXor == st.xor {
		vCover("in-sync")
		vAssert(err == nil && len(conn.sent) == 0, "H07c.equal_xor_silent: a message was sent although the XORs are equal")
		vAssert(st.correct == 1 && st.incorrect == 0, "H07c.equal_xor_correct_state: equal XORs not recorded as correct state")
		return
	}
	if nr > 0 {
		vAssert(len(g.received) == 1 && len(g.received[0]) == nr, "H07c.gossip_logged: received references not reported to the gossip manager")
	}
	if st.presentFails && nr > 0 {
		vCover("storage-failure")
		vAssert(err != nil && len(conn.sent) == 0, "H07c.storage_failure_reported: storage failure not reported")
		return
	}
	vAssert(err == nil && len(conn.sent) == 1, "H07c.exactly_one_request: differing XORs must lead to exactly one request (list query or State, never both)")
	if len(conn.sent) != 1 {
		return
	}
	lq, sq := conn.sent[0].GetTransactionListQuery(), conn.sent[0].GetState()
	vAssert((lq != nil) != (sq != nil), "H07c.exactly_one_request: differing XORs must lead to exactly one request (list query or State, never both)")
	if lq != nil {
		vCover("list-query")
		vAssert(len(lq.Refs) == len(unknown) && len(unknown) > 0, "H07c.query_exactly_unknown: list query does not ask for exactly the unknown gossiped references")
		for i := range lq.Refs {
			if i < len(unknown) {
				vAssert(hash.FromSlice(lq.Refs[i]) == unknown[i] && len(lq.Refs[i]) == 32, "H07c.query_exactly_unknown: list query does not ask for exactly the unknown gossiped references")
			}
		}
		vAssert(want == wireXor || msg.LC < st.clock, "H07c.query_only_when_sufficient: list query although the gossiped references do not explain the difference and the peer is not behind")
		vAssert(hLive(p, lq.ConversationID) != nil, "H07c.request_has_conversation: request without conversation")
	}
	if sq != nil {
		vCover("state")
		vAssert(hash.FromSlice(sq.XOR) == st.xor && sq.LC == st.clock, "H07c.state_own_digest: State request does not carry the own XOR and clock")
		vAssert(hLive(p, sq.ConversationID) != nil, "H07c.request_has_conversation: request without conversation")
	}
	if len(unknown) > 0 && distinct && want == wireXor {
		vCover("gossip-explains-difference")
		vAssert(lq != nil, "H07c.explained_difference_queried: the unknown gossiped references explain the whole difference but were not requested")
	}
	if len(unknown) > 0 && msg.LC < st.clock {
		vCover("peer-behind-with-news")
		vAssert(lq != nil, "H07c.peer_behind_news_queried: unknown references from a peer that is behind were not requested")
	}
	if len(unknown) == 0 {
		vCover("nothing-new")
		vAssert(sq != nil, "H07c.nothing_new_asks_state: XORs differ, nothing new gossiped, but no State requested")
		vAssert((st.incorrect == 1) == (msg.LC == st.clock), "H07c.incorrect_state_flag: incorrect-state detection not exactly at equal clocks with differing XOR")
	} else {
		vAssert(st.incorrect == 0, "H07c.incorrect_state_flag: incorrect state flagged although new references were gossiped")
	}
}

func H07c_twin() {
	st := &hState{xor: hHash(2), clock: hClock()}
	p, conn, _ := hProto(st)
	r := hHash(2)
	msg := &Gossip{XOR: hRefBytes(hHash(2), 3), LC: hClock(), Transactions: [][]byte{hRefBytes(r, 3)}}
	_ = p.handleGossip(context.Background(), conn, &Envelope{Message: &Envelope_Gossip{Gossip: msg}})
	if len(conn.sent) == 1 && conn.sent[0].GetTransactionListQuery() != nil && msg.LC > st.clock {
		vAssert(false, "H07c_twin.reach: reachable")
	}
}

// ---------------------------------------------------------------------------------------------
// H07d (L4) chunkTransactionList
// ---------------------------------------------------------------------------------------------

func hNetTxSize(t *Transaction) int { return len(t.Payload) + len(t.Data) + transactionListTXOverhead }

func H07d() {
	// message limit: overhead + 40 bytes of transactions, so that small concrete sizes cross it
	const room = 40
	grpc.MaxMessageSizeInBytes = transactionListMessageOverhead + room
	n := vLen(0, vParam("n7d", 3))
	var in []*Transaction
	oversize := false
	for i := 0; i < n; i++ {
		t := &Transaction{}
		switch vChoice(5) {
		case 0: // 10
			t.Data = make([]byte, 1)
		case 1: // 20
			t.Data, t.Payload = make([]byte, 5), make([]byte, 6)
		case 2: // 31
			t.Data = make([]byte, 22)
		case 3: // 40: exactly the limit
			t.Data, t.Payload = make([]byte, 30), make([]byte, 1)
		case 4: // 41: does not fit any message
			t.Payload = make([]byte, 32)
			oversize = true
		}
		in = append(in, t)
	}
	chunks := chunkTransactionList(in)

	// concatenation of the chunks is the input, in order
	k := 0
	for _, c := range chunks {
		for _, t := range c {
			vAssert(k < n && t == in[k], "H07d.chunks_concatenate_to_input: chunks do not concatenate to the input in order")
			k++
		}
	}
	vAssert(k == n, "H07d.chunks_concatenate_to_input: chunks do not concatenate to the input in order")
	for i, c := range chunks {
		size := 0
		for _, t := range c {
			size += hNetTxSize(t)
		}
		if len(c) > 1 {
			vCover("multi-element-chunk")
			vAssert(size <= room, "H07d.chunk_within_limit: a chunk with several transactions exceeds the message limit")
		}
		if !oversize {
			vAssert(len(c) > 0, "H07d.no_empty_chunk: empty chunk")
			vAssert(size <= room, "H07d.chunk_within_limit: a chunk exceeds the message limit although every transaction fits")
		}
		// no needless split: the next transaction would not have fitted
		if i+1 < len(chunks) && len(chunks[i+1]) > 0 {
			vAssert(size+hNetTxSize(chunks[i+1][0]) > room, "H07d.greedy: chunk closed although the next transaction would have fitted")
		}
	}
	if len(chunks) > 1 {
		vCover("several-chunks")
	}
	if oversize {
		vCover("oversize-transaction")
	}
	if n == 0 {
		vAssert(len(chunks) == 0, "H07d.empty_input: chunks for an empty list")
	}
}

func H07d_twin() {
	grpc.MaxMessageSizeInBytes = transactionListMessageOverhead + 40
	a, b := &Transaction{Data: make([]byte, vLen(20, 22))}, &Transaction{Data: make([]byte, 1)}
	if len(chunkTransactionList([]*Transaction{a, b})) == 2 {
		vAssert(false, "H07d_twin.reach: reachable")
	}
}

// ---------------------------------------------------------------------------------------------
// H07e (L5) conversation manager
// ---------------------------------------------------------------------------------------------

const (
	hAskState = iota
	hAskList
	hAskRange
)

func hPeerN(i int) transport.Peer {
	return transport.Peer{ID: transport.PeerID("peer" + string(rune('0'+i))), Address: "addr"}
}

func H07e() {
	// every clock reading is 0..40 s after the previous one (validity of a conversation: 30 s)
	hTick = 40
	cMan := newConversationManager(maxValidity)
	// a transaction the peer may answer with
	rtx := &hTx{ref: hHash(1), clock: vU32(), data: []byte{0, 0}}
	hParseTable = []*hTx{rtx}

	// the request
	kind := vChoice(3)
	var ask checkable
	askedRef := hHash(1)
	var askedLC, askedStart, askedEnd uint32
	switch kind {
	case hAskState:
		askedLC = vU32()
		ask = &Envelope_State{State: &State{LC: askedLC}}
	case hAskList:
		ask = &Envelope_TransactionListQuery{TransactionListQuery: &TransactionListQuery{Refs: [][]byte{askedRef.Slice()}}}
	case hAskRange:
		askedStart, askedEnd = vU32(), vU32()
		ask = &Envelope_TransactionRangeQuery{TransactionRangeQuery: &TransactionRangeQuery{Start: askedStart, End: askedEnd}}
	}
	// the harness reads the clock variable directly (no tick); the code under test reads it through time.Now
	t0 := hNowSec
	conv := cMan.startConversation(ask, hPeerN(1))
	vAssert(conv != nil && string(ask.conversationID()) == string(conv.conversationID) && len(conv.conversationID) > 0, "H07e.first_conversation_starts: first conversation with a peer refused or without id")
	t1 := hNowSec
	expiry := conv.expiry.Unix()
	vAssert(expiry >= t0+30 && expiry <= t1+30, "H07e.expiry_is_validity: conversation does not expire one validity period (30 s) after it started")

	// time passes: 0..70 s
	hNowSec += int64(vRange(0, 70))
	// what happens to it before the answer arrives
	live := true
	switch vChoice(4) {
	case 1:
		vCover("done")
		cMan.done(conv.conversationID)
		live = false
	case 2:
		vCover("evict")
		before := hNowSec
		cMan.evict()
		after := hNowSec
		live = len(cMan.conversations) == 1
		if before > expiry {
			vCover("evicted")
			vAssert(!live, "H07e.evict_removes_expired: an expired conversation survived eviction")
		} else if after <= expiry {
			vCover("evict-kept")
			vAssert(live, "H07e.evict_keeps_unexpired: an unexpired conversation was evicted")
		}
	case 3:
		vCover("done-other")
		cMan.done(conversationID(vString(len(conv.conversationID)) + "x"))
	}

	what := vChoice(3)
	if what == 0 {
		// an answer arrives: TransactionSet or TransactionList, for this conversation id or any other
		cid := vBytes(len(conv.conversationID))
		var resp conversationable
		isSet := vChoice(2) == 1
		nl := 0
		var lcReq uint32
		if isSet {
			lcReq = vU32()
			resp = &Envelope_TransactionSet{TransactionSet: &TransactionSet{ConversationID: cid, LCReq: lcReq}}
		} else {
			l := &TransactionList{ConversationID: cid}
			nl = vLen(0, 1)
			if nl == 1 {
				l.Transactions = []*Transaction{{Data: rtx.data}}
			}
			resp = &Envelope_TransactionList{TransactionList: l}
		}
		got, err := cMan.check(resp, handlerData{})
		if err == nil {
			vCover("accepted")
			vAssert(live && string(cid) == string(conv.conversationID) && got == conv, "H07e.accepted_needs_live_conversation: answer accepted without a live conversation of that id")
			switch kind {
			case hAskState:
				vAssert(isSet && lcReq == askedLC, "H07e.accepted_matches_request: accepted answer does not match the type and content of the request")
			case hAskList:
				vAssert(!isSet && (nl == 0 || rtx.ref == askedRef), "H07e.accepted_matches_request: accepted answer does not match the type and content of the request")
			case hAskRange:
				vAssert(!isSet && (nl == 0 || (rtx.clock >= askedStart && rtx.clock < askedEnd)), "H07e.accepted_matches_request: accepted answer does not match the type and content of the request")
			}
		} else {
			vCover("rejected")
			matches := false
			switch kind {
			case hAskState:
				matches = isSet && lcReq == askedLC
			case hAskList:
				matches = !isSet && (nl == 0 || rtx.ref == askedRef)
			case hAskRange:
				matches = !isSet && (nl == 0 || (rtx.clock >= askedStart && rtx.clock < askedEnd))
			}
			vAssert(!(live && string(cid) == string(conv.conversationID) && matches), "H07e.matching_answer_accepted: matching answer to a live conversation rejected")
		}
		vAssert(live == (len(cMan.conversations) == 1), "H07e.check_does_not_close: check changed the set of conversations")
		return
	}

	// a second request: same or other peer, any kind
	other := what == 2
	peer := hPeerN(1)
	if other {
		peer = hPeerN(2)
	}
	kind2 := vChoice(3)
	var ask2 checkable
	switch kind2 {
	case hAskState:
		ask2 = &Envelope_State{State: &State{}}
	case hAskList:
		ask2 = &Envelope_TransactionListQuery{TransactionListQuery: &TransactionListQuery{}}
	case hAskRange:
		ask2 = &Envelope_TransactionRangeQuery{TransactionRangeQuery: &TransactionRangeQuery{}}
	}
	before := hNowSec
	conv2 := cMan.startConversation(ask2, peer)
	after := hNowSec
	blocking := kind != hAskState && kind2 != hAskState && !other && live
	if conv2 == nil {
		vCover("blocked")
		vAssert(blocking, "H07e.blocked_only_by_live_blocking_conversation: request refused without a live blocking conversation with the same peer")
		vAssert(before < expiry, "H07e.unblocked_after_expiry: peer still blocked after the blocking conversation expired")
	} else {
		vCover("started")
		vAssert(conv2.conversationID != conv.conversationID, "H07e.fresh_id: conversation id reused")
		if blocking {
			vCover("unblocked-by-expiry")
			vAssert(after >= expiry, "H07e.blocks_while_live: second blocking request to the same peer accepted while the first is live and unexpired")
		}
	}
}

func H07e_twin() {
	hTick = 40
	cMan := newConversationManager(maxValidity)
	a := &Envelope_TransactionRangeQuery{TransactionRangeQuery: &TransactionRangeQuery{Start: 1, End: 2}}
	c1 := cMan.startConversation(a, hPeerN(1))
	c2 := cMan.startConversation(&Envelope_TransactionListQuery{TransactionListQuery: &TransactionListQuery{}}, hPeerN(1))
	if c1 != nil && c2 != nil && hNowSec >= c1.expiry.Unix() {
		vAssert(false, "H07e_twin.reach: reachable")
	}
}

// ---------------------------------------------------------------------------------------------
// H07f handleState: the responder side of a State request
// ---------------------------------------------------------------------------------------------

func H07f() {
	hb := vParam("hb7c", 2)
	st := &hState{xor: hHash(hb), clock: vU32()}
	local := tree.NewIblt(dag.IbltNumBuckets)
	if vChoice(2) == 1 {
		local.Insert(hash.SHA256Hash{9})
	}
	st.iblt = local
	p, conn, _ := hProto(st)
	cid := vBytes(2)
	msg := &State{ConversationID: cid, XOR: hRefBytes(hHash(hb), vChoice(4)), LC: vU32()}
	err := p.handleState(context.Background(), conn, &Envelope{Message: &Envelope_State{State: msg}})
	if len(msg.XOR) != hash.SHA256HashSize {
		// malformed XOR field (F-38): refused, not answered
		vCover("malformed-xor-length")
		vAssert(err != nil && len(conn.sent) == 0, "H07f.malformed_xor_rejected: State request with an XOR field that is not 32 bytes was answered")
		return
	}
	vAssert(err == nil, "H07f.no_error: handling a State request failed")
	if hash.FromSlice(msg.XOR) == st.xor {
		vCover("in-sync")
		vAssert(len(conn.sent) == 0, "H07f.equal_xor_silent: TransactionSet sent although the XORs are equal")
		return
	}
	vCover("answered")
	vAssert(len(conn.sent) == 1 && conn.sent[0].GetTransactionSet() != nil, "H07f.answered_once: a State request with a differing XOR is not answered by exactly one TransactionSet")
	a := conn.sent[0].GetTransactionSet()
	vAssert(string(a.ConversationID) == string(cid), "H07f.answer_conversation: answer does not carry the conversation id of the request")
	vAssert(a.LCReq == msg.LC && a.LC == st.clock, "H07f.answer_clocks: answer does not carry the requested clock and the own clock")
	vAssert(len(st.ibltReqs) == 1 && st.ibltReqs[0] == msg.LC, "H07f.answer_filter_at_requested_clock: filter not taken at the requested clock")
	want, _ := local.MarshalBinary()
	vAssert(string(a.IBLT) == string(want), "H07f.answer_filter: answer does not carry the own filter")
	// the requester accepts it (real checkResponse of the State request)
	ask := &Envelope_State{State: &State{LC: msg.LC}}
	vAssert(ask.checkResponse(conn.sent[0].Message, handlerData{}) == nil, "H07f.answer_passes_requester_check: answer fails the requester's check")
}

func H07f_twin() {
	st := &hState{xor: hHash(1), clock: vU32()}
	p, conn, _ := hProto(st)
	msg := &State{XOR: hRefBytes(hHash(1), 3), LC: vU32()}
	_ = p.handleState(context.Background(), conn, &Envelope{Message: &Envelope_State{State: msg}})
	if len(conn.sent) == 1 && conn.sent[0].GetTransactionSet().LCReq == 77 {
		vAssert(false, "H07f_twin.reach: reachable")
	}
}

// ---------------------------------------------------------------------------------------------
// H07g (L6) handleTransactionList: control flow over a fake state.Add
// ---------------------------------------------------------------------------------------------

func H07g() {
	st := &hState{xor: hHash(1), clock: hClock()}
	p, conn, _ := hProto(st)
	// the transactions a peer may send: public or private, with or without payload
	n := vLen(0, vParam("n7g", 2))
	hParseTable = nil
	var list []*Transaction
	for i := 0; i < n; i++ {
		tx := &hTx{ref: hash.SHA256Hash{byte(i + 1)}, data: []byte{byte(i), 0}, clock: hClock()}
		if vChoice(2) == 1 {
			tx.pal = [][]byte{{1}}
		}
		hParseTable = append(hParseTable, tx)
		ntx := &Transaction{Data: tx.data}
		if vChoice(2) == 1 {
			ntx.Payload = []byte{vU8()}
		}
		list = append(list, ntx)
	}
	// verdict of the DAG for each transaction: ok, missing prevs, or other failure
	verdict := make([]int, n)
	for i := range verdict {
		verdict[i] = vRange(0, 2)
	}
	errOther := errors.New("harness: invalid transaction")
	st.addErr = func(tx dag.Transaction) error {
		switch verdict[int(tx.Data()[0])] {
		case 1:
			return dag.ErrPreviousTransactionMissing
		case 2:
			return errOther
		}
		return nil
	}
	// we asked for a range that (may) cover them
	vAssert(p.sender.sendTransactionRangeQuery(conn, 0, 1<<31) == nil && len(conn.sent) == 1, "H07g.query_sent: range query not sent")
	askCID := conn.sent[0].GetTransactionRangeQuery().ConversationID
	conn.sent = nil
	cid := vBytes(len(askCID))
	total, number := uint32(vRange(0, 3)), uint32(vRange(0, 3))
	msg := &TransactionList{ConversationID: cid, Transactions: list, TotalMessages: total, MessageNumber: number}
	err := p.handleTransactionList(context.Background(), conn, &Envelope{Message: &Envelope_TransactionList{TransactionList: msg}})

	if string(cid) != string(askCID) {
		vCover("unsolicited")
		vAssert(err != nil && len(st.adds) == 0 && len(conn.sent) == 0, "H07g.unsolicited_adds_nothing: an unsolicited transaction list was processed")
		vAssert(hLive(p, askCID) != nil, "H07g.unsolicited_keeps_conversation: an unsolicited list closed the open conversation")
		return
	}
	// reference: transactions are added in list order until the first that cannot be
	stop, stopKind := n, 0
	for i := 0; i < n; i++ {
		public := len(hParseTable[i].pal) == 0
		if public && len(list[i].Payload) == 0 {
			stop, stopKind = i, 3
			break
		}
		if verdict[i] != 0 {
			stop, stopKind = i, verdict[i]
			break
		}
	}
	vAssert(len(st.adds) == stop, "H07g.adds_in_order_until_failure: transactions were not added in list order up to the first failure")
	for i, a := range st.adds {
		if i < stop {
			vAssert(a == dag.Transaction(hParseTable[i]) && string(st.addPayloads[i]) == string(list[i].Payload), "H07g.adds_in_order_until_failure: transactions were not added in list order up to the first failure")
		}
	}
	switch stopKind {
	case 0:
		vCover("all-added")
		vAssert(err == nil && len(conn.sent) == 0, "H07g.all_added_ok: complete list not handled silently")
		vAssert((hLive(p, askCID) == nil) == (number >= total), "H07g.conversation_closed_on_last_message: conversation not closed exactly on the last message")
	case 1:
		vCover("missing-prevs")
		vAssert(err == nil && hLive(p, askCID) == nil, "H07g.missing_prevs_closes_conversation: conversation stays open after missing prevs")
		vAssert(len(conn.sent) == 1 && conn.sent[0].GetState() != nil, "H07g.missing_prevs_asks_state: no State request after missing prevs")
		if len(conn.sent) == 1 && conn.sent[0].GetState() != nil {
			s := conn.sent[0].GetState()
			vAssert(hash.FromSlice(s.XOR) == st.xor && s.LC == st.clock, "H07g.missing_prevs_asks_state: State request does not carry own XOR and clock")
		}
	case 2:
		vCover("invalid-tx")
		vAssert(err != nil && len(conn.sent) == 0, "H07g.invalid_reported: failing transaction not reported")
	case 3:
		vCover("payload-missing")
		vAssert(err != nil && len(conn.sent) == 0, "H07g.public_needs_payload: public transaction without payload accepted")
	}
}

func H07g_twin() {
	st := &hState{xor: hHash(1), clock: hClock()}
	p, conn, _ := hProto(st)
	tx := &hTx{ref: hash.SHA256Hash{1}, data: []byte{0, 0}, clock: hClock()}
	hParseTable = []*hTx{tx}
	_ = p.sender.sendTransactionRangeQuery(conn, 0, 1<<31)
	askCID := conn.sent[0].GetTransactionRangeQuery().ConversationID
	msg := &TransactionList{ConversationID: askCID, Transactions: []*Transaction{{Data: tx.data, Payload: vBytes(1)}}, TotalMessages: 1, MessageNumber: 1}
	if p.handleTransactionList(context.Background(), conn, &Envelope{Message: &Envelope_TransactionList{TransactionList: msg}}) == nil && len(st.adds) == 1 && tx.clock == 99 {
		vAssert(false, "H07g_twin.reach: reachable")
	}
}
