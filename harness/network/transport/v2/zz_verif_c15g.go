//go:build verif

package v2

import (
	"context"
	"errors"

	"github.com/nuts-foundation/go-did/did"
	"github.com/nuts-foundation/nuts-node/crypto"
	"github.com/nuts-foundation/nuts-node/network/transport"
)

// hDecByCiphertext is the key store for H15g: the plaintext depends on the ciphertext (first byte): 0 is a header
// entry for another participant (not decryptable with this node's key), 1 and 2 decrypt to two different lists.
type hDecByCiphertext struct {
	crypto.Decrypter
	lists map[byte][]byte
	calls int
}

func (d *hDecByCiphertext) Decrypt(_ context.Context, kid string, ct []byte) ([]byte, error) {
	d.calls++
	if pt, ok := d.lists[ct[0]]; ok {
		return pt, nil
	}
	return nil, errors.New("harness: ecies: invalid message")
}

// H15g: two private transactions, several payload queries on one node (history, not a single step). The participant
// list header of a transaction has one ciphertext per participant; the first ciphertext of tx2 is byte-identical to
// the first ciphertext of tx1 (a sender can copy it) or not; the entries this node can decrypt give list1 =
// [node, bob] for tx1 and list2 = [node, eve] for tx2. Eve (authenticated) queries tx2 and tx1 in either order,
// each once or twice: she is sent the payload of tx2 and never the payload of tx1 - whatever the node remembers
// from earlier queries. Bob (authenticated, on list1 only) uses a connection that announces the same peer id as Eve's.
func H15g() {
	ctx := context.Background()
	node, bob, eve := hDID(0), hDID(1), hDID(4)
	tx1 := &hTx{ref: hHash(1), payloadHash: hHash(1), pal: [][]byte{{0, 9}, {1, 9}}}
	tx2 := &hTx{ref: hHash(1), payloadHash: hHash(1), pal: [][]byte{{0, 9}, {2, 9}}}
	vAssume(tx1.ref != tx2.ref && tx1.payloadHash != tx2.payloadHash)
	vTag("first_entry_copied")
	if !vBool() {
		tx2.pal[0] = []byte{3, 9}
	} else {
		vCover("first-entry-copied")
	}
	p1, p2 := []byte{1, 7}, []byte{2, 7}
	st := &hState{txs: []*hTx{tx1, tx2}, payloads: []hPayload{{hash: tx1.payloadHash, data: p1}, {hash: tx2.payloadHash, data: p2}}}
	res := &hResolver{node: node, kids: hKidNames[:1]}
	dec := &hDecByCiphertext{lists: map[byte][]byte{
		1: []byte(node.String() + "\n" + bob.String()),
		2: []byte(node.String() + "\n" + eve.String()),
	}}
	conn := &hConn{peer: transport.Peer{ID: "eve", Address: "addr", NodeDID: eve, Authenticated: true}}
	p := &protocol{state: st, nodeDID: node, didResolver: res, decrypter: dec, ctx: ctx}

	// a second connection: not authenticated, but its peer claims eve's node DID (an unauthenticated peer's DID is
	// whatever it says)
	connU := &hConn{peer: transport.Peer{ID: "mallory", Address: "addr2", NodeDID: eve, Authenticated: false}}
	query := func(t *hTx, c *hConn) {
		msg := &TransactionPayloadQuery{ConversationID: []byte{1}, TransactionRef: t.ref.Slice()}
		_ = p.handleTransactionPayloadQuery(ctx, c, &Envelope{Message: &Envelope_TransactionPayloadQuery{TransactionPayloadQuery: msg}})
	}
	vTag("order")
	nq := vLen(2, vParam("queries", 3))
	// a third connection: bob, authenticated, on list1 only - and announcing the SAME peer ID as eve's connection
	// (the peer ID is self-announced and not authenticated, so whatever the node remembers must not be keyed by it)
	connB := &hConn{peer: transport.Peer{ID: "eve", Address: "addr3", NodeDID: bob, Authenticated: true}}
	for i := 0; i < nq; i++ {
		c := conn
		vTag("connection")
		switch vChoice(3) {
		case 1:
			c = connU
		case 2:
			c = connB
		}
		vTag("which")
		if vBool() {
			query(tx2, c)
		} else {
			query(tx1, c)
		}
	}
	for _, e := range connU.sent {
		if r := e.GetTransactionPayload(); r != nil && len(r.Data) > 0 {
			vAssert(false, "H15g.unauthenticated_never_served: the payload of a private transaction was sent over an unauthenticated connection (after an earlier query by an authenticated participant)")
		}
	}
	if len(connU.sent) > 0 {
		vCover("unauthenticated-queried")
	}
	gotTx2 := false
	for _, e := range conn.sent {
		r := e.GetTransactionPayload()
		if r == nil || len(r.Data) == 0 {
			continue
		}
		if string(r.TransactionRef) == string(tx1.ref.Slice()) || (len(r.Data) == 2 && r.Data[0] == 1) {
			vAssert(false, "H15g.unlisted_peer_never_served: the payload of a private transaction was sent to a peer that is not on its participant list (after an earlier query for another transaction)")
		}
		if string(r.TransactionRef) == string(tx2.ref.Slice()) {
			gotTx2 = true
			vAssert(len(r.Data) == 2 && r.Data[0] == 2, "H15g.payload_of_queried_tx: data sent is not the payload of the queried transaction")
		}
	}
	if gotTx2 {
		vCover("listed-peer-served")
	}
	for _, e := range connB.sent {
		r := e.GetTransactionPayload()
		if r == nil || len(r.Data) == 0 {
			continue
		}
		vCover("second-participant-served")
		vAssert(string(r.TransactionRef) == string(tx1.ref.Slice()) && len(r.Data) == 2 && r.Data[0] == 1, "H15g.unlisted_peer_never_served: the payload of a private transaction was sent to a peer that is not on its participant list (after an earlier query by a listed peer announcing the same peer id)")
	}
	_ = did.DID{}
}

func H15g_twin() {
	ctx := context.Background()
	node, eve := hDID(0), hDID(4)
	tx2 := &hTx{ref: hHash(1), payloadHash: hHash(1), pal: [][]byte{{0, 9}, {2, 9}}}
	st := &hState{txs: []*hTx{tx2}, payloads: []hPayload{{hash: tx2.payloadHash, data: []byte{2, 7}}}}
	dec := &hDecByCiphertext{lists: map[byte][]byte{2: []byte(node.String() + "\n" + eve.String())}}
	conn := &hConn{peer: transport.Peer{ID: "eve", Address: "addr", NodeDID: eve, Authenticated: true}}
	p := &protocol{state: st, nodeDID: node, didResolver: &hResolver{node: node, kids: hKidNames[:1]}, decrypter: dec, ctx: ctx}
	msg := &TransactionPayloadQuery{ConversationID: []byte{1}, TransactionRef: tx2.ref.Slice()}
	_ = p.handleTransactionPayloadQuery(ctx, conn, &Envelope{Message: &Envelope_TransactionPayloadQuery{TransactionPayloadQuery: msg}})
	if len(conn.sent) == 1 && len(conn.sent[0].GetTransactionPayload().Data) == 2 {
		vAssert(false, "H15g_twin.reach: reachable")
	}
}
