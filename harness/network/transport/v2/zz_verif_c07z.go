//go:build verif

package v2

import (
	"context"
	"errors"

	"github.com/nuts-foundation/nuts-node/crypto/hash"
	"github.com/nuts-foundation/nuts-node/network/dag"
	"github.com/nuts-foundation/nuts-node/network/dag/tree"
	"github.com/nuts-foundation/nuts-node/network/transport"
	"github.com/nuts-foundation/nuts-node/network/transport/grpc"
	"github.com/nuts-foundation/nuts-node/network/transport/v2/gossip"
)

// ---------------------------------------------------------------------------------------------
// H07z: bounded end-to-end convergence of two nodes.
//
// Two real protocol instances (real handlers, real senders, real conversation manager, real gossip manager and
// queue) are wired back to back through an unreliable network that the harness controls: every message in flight
// can be delivered in any order, dropped or delivered twice (bounded budgets), the time between gossip ticks is a
// symbolic number of seconds (so conversations may or may not have expired), and the Lamport clocks of the
// transactions are symbolic (so the page of every transaction, and every clock comparison of the handlers, is
// decided by the solver). After the lossy phase a fair suffix follows (stale conversations expire, nothing is
// lost): at its end both nodes must hold the union. At every step: no node ever loses a transaction, admits one
// whose prevs it lacks or one outside the universe.
//
// The dag.State of each node is a truthful model written from the interface documentation of dag.State (XOR/IBLT of
// the transactions up to the closest clock, FindBetweenLC half-open and clock ordered, Add idempotent and refusing
// missing prevs, registered gossip observer); the digests are real tree.Xor / tree.Iblt values over real hashes.
// ---------------------------------------------------------------------------------------------

type hzTx struct {
	hTx
	idx   int
	prevs []hash.SHA256Hash
	pidx  []int
}

func (t *hzTx) Previous() []hash.SHA256Hash { return t.prevs }

type hzNode struct {
	idx   int
	p     *protocol
	st    *hzState
	conn  *hzConn // connection to the other node
	inbox []hzMsg
	gm    gossip.Manager
}

// hzMsg is a message in flight. asleep: see hzNet.run.
type hzMsg struct {
	e      *Envelope
	asleep bool
}

type hzConn struct {
	grpc.Connection
	peer transport.Peer
	dst  *hzNode
}

func (c *hzConn) Peer() transport.Peer { return c.peer }
func (c *hzConn) IsConnected() bool    { return true }
func (c *hzConn) Send(_ grpc.Protocol, envelope interface{}, _ bool) error {
	c.dst.inbox = append(c.dst.inbox, hzMsg{e: envelope.(*Envelope)})
	return nil
}

type hzConnList struct {
	grpc.ConnectionList
	c grpc.Connection
}

func (l hzConnList) Get(...grpc.Predicate) grpc.Connection { return l.c }

type hzState struct {
	dag.State
	node *hzNode
	univ []*hzTx
	has  []bool
	adds int
}

func (s *hzState) find(ref hash.SHA256Hash) *hzTx {
	for _, t := range s.univ {
		if t.ref == ref {
			return t
		}
	}
	return nil
}

func (s *hzState) GetTransaction(_ context.Context, ref hash.SHA256Hash) (dag.Transaction, error) {
	if t := s.find(ref); t != nil && s.has[t.idx] {
		return t, nil
	}
	return nil, dag.ErrTransactionNotFound
}

func (s *hzState) IsPresent(_ context.Context, ref hash.SHA256Hash) (bool, error) {
	t := s.find(ref)
	return t != nil && s.has[t.idx], nil
}

func hzPayload(i int) []byte { return []byte{0x50, byte(i)} }

func (s *hzState) ReadPayload(_ context.Context, h hash.SHA256Hash) ([]byte, error) {
	for _, t := range s.univ {
		if t.payloadHash == h && s.has[t.idx] {
			return hzPayload(t.idx), nil
		}
	}
	return nil, dag.ErrPayloadNotFound
}

func (s *hzState) FindBetweenLC(_ context.Context, start, end uint32) ([]dag.Transaction, error) {
	var sel []*hzTx
	for _, t := range s.univ {
		if s.has[t.idx] && t.clock >= start && t.clock < end {
			i := len(sel)
			sel = append(sel, t)
			for i > 0 && sel[i-1].clock > t.clock {
				sel[i] = sel[i-1]
				i--
			}
			sel[i] = t
		}
	}
	var out []dag.Transaction
	for _, t := range sel {
		out = append(out, t)
	}
	return out, nil
}

var errHzRejected = errors.New("harness: transaction rejected")

func (s *hzState) Add(_ context.Context, tx dag.Transaction, payload []byte) error {
	t := s.find(tx.Ref())
	vAssert(t != nil, "H07z.only_universe: a transaction outside the universe reaches State.Add")
	if t == nil {
		return errHzRejected
	}
	if s.has[t.idx] {
		return nil
	}
	for _, p := range t.pidx {
		if !s.has[p] {
			return dag.ErrPreviousTransactionMissing
		}
	}
	want := hzPayload(t.idx)
	if len(payload) != len(want) || payload[0] != want[0] || payload[1] != want[1] {
		return errHzRejected
	}
	s.has[t.idx] = true
	s.adds++
	// the "gossip" observer registered by protocol.Configure
	_, _ = s.node.p.gossipTransaction(dag.Event{Hash: t.ref})
	return nil
}

func (s *hzState) high() uint32 {
	var h uint32
	for _, t := range s.univ {
		if s.has[t.idx] && t.clock > h {
			h = t.clock
		}
	}
	return h
}

// closest: "the lowest of the upper limit of the page that contains the requested clock and the highest clock in
// the DAG" (dag.State)
func (s *hzState) closest(req uint32) uint32 {
	h := s.high()
	if req >= h {
		return h
	}
	upper := (req/hPage+1)*hPage - 1
	if upper < h {
		return upper
	}
	return h
}

func (s *hzState) XOR(req uint32) (hash.SHA256Hash, uint32) {
	c := s.closest(req)
	x := tree.NewXor()
	for _, t := range s.univ {
		if s.has[t.idx] && t.clock <= c {
			x.Insert(t.ref)
		}
	}
	return x.Hash(), c
}

func (s *hzState) IBLT(req uint32) (tree.Iblt, uint32) {
	c := s.closest(req)
	ib := tree.NewIblt(dag.IbltNumBuckets)
	for _, t := range s.univ {
		if s.has[t.idx] && t.clock <= c {
			ib.Insert(t.ref)
		}
	}
	return *ib, c
}

func (s *hzState) CorrectStateDetected()   {}
func (s *hzState) IncorrectStateDetected() {}

var hzUniv []*hzTx

func hzParseTx(input []byte) (dag.Transaction, error) {
	if len(input) == 2 && input[0] == 0x54 && int(input[1]) < len(hzUniv) {
		return hzUniv[int(input[1])], nil
	}
	return nil, errors.New("harness: not a transaction")
}

func hzRef(kind, i int) hash.SHA256Hash {
	return hash.SHA256Sum([]byte{byte(kind), byte(i), 0x7a})
}

// hzUniverse: T0 is the root. Branch shape: T1 and T2 are both children of T0 (two branches), T3 joins them, T4..
// extend the chain. Chain shape: every transaction is the child of the one before. Clocks: root 0, every other transaction lies gap_i >= 1 above its highest prev (a real DAG has gap 1;
// a larger gap stands for a run of transactions that both nodes already share and that are left out of the
// model), and no page is skipped.
func hzUniverse(n, maxgap int, chain bool) []*hzTx {
	var u []*hzTx
	for i := 0; i < n; i++ {
		t := &hzTx{idx: i}
		t.ref = hzRef(1, i)
		t.payloadHash = hzRef(2, i)
		t.data = []byte{0x54, byte(i)}
		switch {
		case i == 0:
		case chain:
			t.pidx = []int{i - 1}
		case i <= 2:
			t.pidx = []int{0}
		case i == 3:
			t.pidx = []int{1, 2}
		default:
			t.pidx = []int{i - 1}
		}
		var base uint32
		for _, p := range t.pidx {
			t.prevs = append(t.prevs, u[p].ref)
			if u[p].clock > base {
				base = u[p].clock
			}
		}
		if i > 0 {
			vTag("gap")
			gap := uint32(vRange(1, maxgap))
			t.clock = base + gap
			vAssume(t.clock/hPage <= base/hPage+1)
		}
		u = append(u, t)
	}
	return u
}

func hzNewNode(i int, univ []*hzTx) *hzNode {
	n := &hzNode{idx: i}
	n.st = &hzState{node: n, univ: univ, has: make([]bool, len(univ))}
	n.gm = gossip.NewManager(context.Background(), 0)
	n.p = &protocol{state: n.st, ctx: context.Background(), cMan: newConversationManager(maxValidity), gManager: n.gm}
	n.p.sender = n.p
	n.gm.RegisterSender(n.p.sendGossip)
	return n
}

func hzPeer(i int) transport.Peer {
	return transport.Peer{ID: transport.PeerID("node" + string(rune('A'+i))), Address: "addr" + string(rune('A'+i))}
}

// hzDispatch is protocol.handle without the goroutine of handleASync and the channel of the list handler (their
// only effect is the order in which messages are handled, which the harness chooses anyway).
func hzDispatch(n *hzNode, e *Envelope) {
	ctx := context.Background()
	switch e.Message.(type) {
	case *Envelope_Gossip:
		_ = n.p.handleGossip(ctx, n.conn, e)
	case *Envelope_State:
		_ = n.p.handleState(ctx, n.conn, e)
	case *Envelope_TransactionSet:
		_ = n.p.handleTransactionSet(ctx, n.conn, e)
	case *Envelope_TransactionListQuery:
		_ = n.p.handleTransactionListQuery(ctx, n.conn, e)
	case *Envelope_TransactionRangeQuery:
		_ = n.p.handleTransactionRangeQuery(ctx, n.conn, e)
	case *Envelope_TransactionList:
		_ = n.p.handleTransactionList(ctx, n.conn, e)
	}
}

type hzNet struct {
	nodes      [2]*hzNode
	drops      int
	dups       int
	deliveries int
	maxDeliv   int
	anyOrder   bool // fair suffix: every delivery order (otherwise in the order sent, per receiving node)
	univ       []*hzTx
	before     [2][]bool
}

func (nw *hzNet) snapshot() {
	for i, n := range nw.nodes {
		nw.before[i] = append([]bool(nil), n.st.has...)
	}
}

// safety after every handled message
func (nw *hzNet) checkSafety() {
	for i, n := range nw.nodes {
		for k, t := range nw.univ {
			vAssert(!nw.before[i][k] || n.st.has[k], "H07z.never_removes: a node lost a transaction")
			if n.st.has[k] {
				for _, p := range t.pidx {
					vAssert(n.st.has[p], "H07z.causally_complete: a node holds a transaction without its prevs")
				}
			}
		}
	}
}

// run delivers messages until the network is empty (or the delivery budget is used up: the path is then cut).
// lossy: messages may be dropped or duplicated within the budgets.
//
// Which message is handled next: any message in flight, up to commutation. Events (deliver, drop) at different
// nodes commute when the message was already in flight before the other event, so of all equivalent orders only
// those are explored in which no event at node B is directly or indirectly followed by an independent event at
// node A (lexicographic normal form of the trace; Anisimov/Knuth): a message for A that was in flight when an
// event at B happened is asleep until the next event at A. Every order per receiving node is still covered.
func (nw *hzNet) run(lossy bool) {
	nw.deliveries = 0
	for {
		na, nb := nw.nodes[0], nw.nodes[1]
		if len(na.inbox)+len(nb.inbox) == 0 {
			return
		}
		// a round of correct code ends after a handful of messages (at most 8 seen within the registered bounds); a
		// round that is still exchanging messages after maxDeliv events (default 20, plus 8 per duplicated message) is an endless exchange. After 10
		// events the remaining messages are handled in the order sent (no more order / loss choices).
		vAssert(nw.deliveries < nw.maxDeliv, "H07z.round_terminates: the exchange started by one gossip tick does not come to an end")
		if nw.deliveries >= nw.maxDeliv {
			vDone()
		}
		nw.deliveries++
		if nw.deliveries == 9 {
			vCover("more-than-8-events-in-a-round")
		}
		if nw.deliveries == 13 {
			vCover("more-than-12-events-in-a-round")
		}
		var cand []int // index into A's inbox, or len(A's inbox)+index into B's
		for i, m := range na.inbox {
			if !m.asleep {
				cand = append(cand, i)
			}
		}
		for i := range nb.inbox {
			cand = append(cand, len(na.inbox)+i)
		}
		if len(cand) == 0 {
			// only sleeping messages left: this order is equivalent to one explored elsewhere
			vDone()
		}
		k := cand[0]
		if (lossy || nw.anyOrder) && nw.deliveries <= 10 {
			vTag("next")
			k = cand[vChoice(len(cand))]
		}
		n := na
		if k >= len(na.inbox) {
			n = nb
			k -= len(na.inbox)
		}
		e := n.inbox[k].e
		fate := 0
		if lossy && (nw.drops > 0 || nw.dups > 0) && nw.deliveries <= 10 {
			vTag("fate") // 0 deliver, 1 drop, 2 deliver and keep a copy in flight
			fate = vChoice(3)
		}
		if fate == 1 && nw.drops == 0 || fate == 2 && nw.dups == 0 {
			vDone() // not a schedule within the budgets
		}
		if fate != 2 {
			n.inbox = append(append([]hzMsg(nil), n.inbox[:k]...), n.inbox[k+1:]...)
		}
		// an event at B puts A's messages in flight to sleep, an event at A wakes them
		for i := range na.inbox {
			na.inbox[i].asleep = n == nb
		}
		switch fate {
		case 1:
			nw.drops--
			vCover("dropped")
			continue
		case 2:
			nw.dups--
			vCover("duplicated")
		}
		nw.snapshot()
		hzDispatch(n, e)
		nw.checkSafety()
	}
}

func (nw *hzNet) tick() {
	for i, n := range nw.nodes {
		gossip.VerifTick(n.gm, hzPeer(1-i))
	}
}

func hzSetup(n, maxgap int, chain bool) *hzNet {
	hCIDCount = 0
	hTick = 0
	hNowSec = 1700000000
	univ := hzUniverse(n, maxgap, chain)
	hzUniv = univ
	hzParse = hzParseTx
	nw := &hzNet{univ: univ}
	for i := 0; i < 2; i++ {
		nw.nodes[i] = hzNewNode(i, univ)
	}
	for i := 0; i < 2; i++ {
		c := &hzConn{peer: hzPeer(1 - i), dst: nw.nodes[1-i]}
		nw.nodes[i].conn = c
		nw.nodes[i].p.connectionList = hzConnList{c: c}
	}
	return nw
}

// hzInitial: both nodes hold the root; every other transaction is held by either, both or none, closed under prevs.
func (nw *hzNet) initial() {
	for i, n := range nw.nodes {
		n.st.has[0] = true
		for k := 1; k < len(nw.univ); k++ {
			vTag("has")
			if vBool() {
				ok := true
				for _, p := range nw.univ[k].pidx {
					ok = ok && n.st.has[p]
				}
				if !ok {
					vDone() // not a causally complete DAG: not an initial state
				}
				n.st.has[k] = true
			}
		}
		_ = i
	}
	// the connection observer (protocol.connectionStateCallback, StateConnected)
	for i, n := range nw.nodes {
		xor, clock := n.st.XOR(dag.MaxLamportClock)
		gossip.VerifConnect(n.gm, hzPeer(1-i), xor, clock)
	}
}

// H07z and H07y are the same harness with separate bounds (parameter suffix z / y): H07z is the wider universe
// with one lossy round, H07y the smaller universe with more faults and more lossy rounds.
func H07z() { hzMain("z") }
func H07y() { hzMain("y") }

func hzMain(sfx string) {
	n := vParam("n"+sfx, 3)
	// shapez: 0 branch, 1 chain, 2 both
	chain := vParam("shape"+sfx, 2) == 1
	if vParam("shape"+sfx, 2) == 2 {
		vTag("chain")
		chain = vChoice(2) == 1
	}
	nw := hzSetup(n, vParam("maxgap"+sfx, 600), chain)
	nw.drops = vParam("drops"+sfx, 1)
	nw.dups = vParam("dups"+sfx, 0)
	nw.maxDeliv = vParam("deliv"+sfx, 20+8*nw.dups)
	nw.anyOrder = vParam("fairorder"+sfx, 0) != 0
	nw.initial()
	union := make([]bool, n)
	differ := false
	for k := range union {
		union[k] = nw.nodes[0].st.has[k] || nw.nodes[1].st.has[k]
		differ = differ || nw.nodes[0].st.has[k] != nw.nodes[1].st.has[k]
	}
	if differ {
		vCover("differ")
	}
	// new transactions created locally during the run (through the real observer -> gossip queue path)
	created := vParam("create"+sfx, 0)

	// lossy phase
	for r := 0; r < vParam("lossy"+sfx, 1); r++ {
		if created > 0 {
			// node 0 creates the next transaction it lacks whose prevs it has
			for k := 1; k < n; k++ {
				if !nw.nodes[0].st.has[k] {
					ok := true
					for _, p := range nw.univ[k].pidx {
						ok = ok && nw.nodes[0].st.has[p]
					}
					if ok {
						created--
						_ = nw.nodes[0].st.Add(context.Background(), nw.univ[k], hzPayload(k))
						union[k] = true
						vCover("created")
						break
					}
				}
			}
		}
		nw.tick()
		nw.run(true)
		// the gossip interval is 5 s by default, conversations live 30 s: any number of seconds may pass
		vTag("dt")
		hNowSec += int64(vRange(0, 40))
	}
	// fair suffix: every conversation of the lossy phase has expired; nothing is lost any more
	hNowSec += 31
	for r := 0; r < vParam("fair"+sfx, 2); r++ {
		nw.tick()
		nw.run(false)
		hNowSec += 31
	}
	for k := range union {
		vAssert(nw.nodes[0].st.has[k] == union[k], "H07z.converged_a: node A does not hold exactly the union after the fair suffix")
		vAssert(nw.nodes[1].st.has[k] == union[k], "H07z.converged_b: node B does not hold exactly the union after the fair suffix")
	}
	xa, _ := nw.nodes[0].st.XOR(dag.MaxLamportClock)
	xb, _ := nw.nodes[1].st.XOR(dag.MaxLamportClock)
	vAssert(xa == xb, "H07z.same_digest: digests differ after the fair suffix")
	if differ {
		vCover("converged-from-different")
	}
}

func H07y_twin() { H07z_twin() }

func H07z_twin() {
	nw := hzSetup(3, 1, false)
	nw.maxDeliv = 20
	nw.nodes[0].st.has[0], nw.nodes[1].st.has[0] = true, true
	nw.nodes[0].st.has[1] = true
	for i, n := range nw.nodes {
		xor, clock := n.st.XOR(dag.MaxLamportClock)
		gossip.VerifConnect(n.gm, hzPeer(1-i), xor, clock)
	}
	nw.tick()
	nw.run(false)
	if nw.nodes[1].st.has[1] && nw.nodes[1].st.adds == 1 {
		vAssert(false, "H07z_twin.reach: reachable")
	}
}
