//go:build verif

package http

import (
	nethttp "net/http"
	"net/url"
	"strings"

	"github.com/labstack/echo/v4"
	"github.com/nuts-foundation/nuts-node/core"
	"github.com/nuts-foundation/nuts-node/http/tokenV2"
)

//verif:stub github.com/nuts-foundation/nuts-node/http/tokenV2.NewFromFile => hNewFromFile

type hCapturedMW struct{}

func (hCapturedMW) Handler(next echo.HandlerFunc) echo.HandlerFunc { return next }

var hSkipper tokenV2.SkipperFunc

func hNewFromFile(skipper tokenV2.SkipperFunc, audience string, authorizedKeysPath string) (tokenV2.Middleware, error) {
	hSkipper = skipper
	return hCapturedMW{}, nil
}

// hCtx is an echo.Context that only knows its request.
type hCtx struct {
	echo.Context
	req *nethttp.Request
}

func (c hCtx) Request() *nethttp.Request { return c.req }

type hRouter struct {
	core.EchoRouter
	used int
}

func (r *hRouter) Add(method, path string, handler echo.HandlerFunc, middleware ...echo.MiddlewareFunc) *echo.Route {
	return nil
}
func (r *hRouter) Use(middleware ...echo.MiddlewareFunc) { r.used++ }

// routedPath is the path echo's router dispatches on (echo.GetPath): RawPath if set, else Path.
func routedPath(u *url.URL) string {
	p := u.RawPath
	if p == "" {
		p = u.Path
	}
	return p
}

var h04aSuffixes = []string{
	"/..%2F..", "/..%2f..%2f", "/x/..%2F..%2F..%2Fpublic", "/%2E%2E/public", "/%2e%2e%2fpublic", "/.%2E/.%2E/public",
	"/x%2F..%2F..%2F..", "%2F..%2Fpublic", "/..;/public", "/x/%2E/%2E%2E/%2E%2E/y",
}

// H04a: for every request target the HTTP server accepts (net/http applies url.ParseRequestURI to the
// request line), if the path echo routes on is /internal or lies below it, the auth skipper built by
// the real applyAuthMiddleware must NOT skip authentication.
func H04a() {
	pre := vLen(0, vParam("pre", 3))
	post := vLen(0, vParam("post", 1))
	vTag("pre")
	p := vString(pre)
	vTag("post")
	q := vString(post)
	// or one of the suffixes with encoded slashes and dot segments (the router dispatches on the escaped path, where
	// "..%2F.." is one segment that a :param route accepts; the decoded path leaves /internal)
	vTag("post_template")
	if t := vChoice(len(h04aSuffixes) + 1); t > 0 {
		vCover("suffix-template")
		q = h04aSuffixes[t-1]
	}
	target := p + "/internal" + q

	engine := Engine{server: NewMultiEcho()}
	router := &hRouter{}
	err := engine.applyAuthMiddleware(router, "/internal", AuthConfig{Type: BearerTokenAuthV2, Audience: "aud", AuthorizedKeysPath: "k"})
	vAssert(err == nil && hSkipper != nil && router.used == 1, "H04a.middleware_installed: auth middleware was not installed")

	u, perr := url.ParseRequestURI(target)
	if perr != nil {
		vCover("rejected-by-net/http")
		return
	}
	vCover("parsed")
	path := routedPath(u)
	routed := path == "/internal" || strings.HasPrefix(path, "/internal/")
	skip := hSkipper(hCtx{req: &nethttp.Request{RequestURI: target, URL: u}})
	if routed {
		vCover("routed-internal")
		if pre == 0 {
			vClass("origin-form")
		} else if strings.Contains(p, ":") {
			vClass("scheme-prefixed target")
		} else {
			vClass("other-prefix")
		}
		vAssert(!skip, "H04a.guard_covers_router: request routed to an /internal handler skips authentication")
	} else if !skip {
		vCover("guarded-not-routed")
	}
}

func H04a_twin() {
	u, err := url.ParseRequestURI("/" + vString(1) + "/internal")
	if err == nil && u.Path != "" {
		vAssert(false, "H04a_twin.reach: reachable")
	}
}
