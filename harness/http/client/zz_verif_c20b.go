//go:build verif

package client

// C20 / H20b: StrictHTTPClient.Do. In strict mode no request leaves over anything but https: neither is the
// underlying http.Client asked to perform one (H20b.strict_doer_https_only), nor does one reach the transport,
// i.e. the wire (H20b.strict_wire_https_only), whichever constructor made the client and whether strict mode was
// configured (http engine: client.StrictMode = config.Strictmode) before or after the client was made.
//
// net/http is not interpreted. (*http.Client).Do is replaced by a model of its documented contract (send through
// c.Transport; on a redirect response consult c.CheckRedirect - nil: follow, at most 10 - and send the follow-up
// request through the same transport); (*http.Transport).RoundTrip is the fake wire: it records the scheme and
// answers 200, or (at most `hops` times) a redirect to an http or https location. The package initialiser
// (clone of http.DefaultTransport, not interpretable) is replaced by an empty http.Transport.

import (
	"bytes"
	"crypto/tls"
	"errors"
	"io"
	"net/http"
	"net/url"
	"time"
)

//verif:initok github.com/nuts-foundation/nuts-node/http/client
//verif:stub (*net/http.Client).Do => hClientDo
//verif:stub (*net/http.Transport).RoundTrip => hRoundTrip
//verif:stub (*net/http.Transport).Clone => hClone

var (
	hDoSchemes     []string // schemes of the requests handed to http.Client.Do
	hWire          []string // schemes of the requests that reached the transport
	hRedirectsLeft int
)

func hClone(t *http.Transport) *http.Transport { return &http.Transport{} }

func hRoundTrip(t *http.Transport, req *http.Request) (*http.Response, error) {
	hWire = append(hWire, req.URL.Scheme)
	if hRedirectsLeft > 0 && vBool() {
		hRedirectsLeft--
		loc := "https://other.nl/next"
		if vBool() {
			loc = "http://other.nl/next"
		}
		h := http.Header{}
		h.Set("Location", loc)
		return &http.Response{StatusCode: http.StatusFound, Header: h, Request: req}, nil
	}
	return &http.Response{StatusCode: http.StatusOK, Header: http.Header{}, Request: req, Body: io.NopCloser(bytes.NewReader([]byte("ok")))}, nil
}

// hClientDo: http.Client.Do as documented (type Client, field CheckRedirect).
func hClientDo(c *http.Client, req *http.Request) (*http.Response, error) {
	hDoSchemes = append(hDoSchemes, req.URL.Scheme)
	rt := c.Transport
	if rt == nil {
		rt = &http.Transport{}
	}
	var via []*http.Request
	for {
		resp, err := rt.RoundTrip(req)
		if err != nil {
			return nil, err
		}
		loc := resp.Header.Get("Location")
		switch resp.StatusCode {
		case 301, 302, 303, 307, 308:
		default:
			return resp, nil
		}
		if loc == "" {
			return resp, nil
		}
		u, err := req.URL.Parse(loc)
		if err != nil {
			return nil, err
		}
		via = append(via, req)
		next := &http.Request{Method: "GET", URL: u, Header: req.Header.Clone()}
		if c.CheckRedirect != nil {
			err := c.CheckRedirect(next, via)
			// (net/http's package initialiser is not run in the engine: ErrUseLastResponse is nil there, so a nil
			// result must not be mistaken for it)
			if err != nil && err == http.ErrUseLastResponse {
				return resp, nil
			}
			if err != nil {
				return resp, &url.Error{Op: "Get", URL: loc, Err: err}
			}
		} else if len(via) >= 10 {
			return resp, &url.Error{Op: "Get", URL: loc, Err: errors.New("stopped after 10 redirects")}
		}
		req = next
	}
}

func hInitPackage() {
	SafeHttpTransport = &http.Transport{}
	DefaultCachingTransport = SafeHttpTransport
}

func hNewClient() *StrictHTTPClient {
	switch vChoice(4) {
	case 0:
		vCover("ctor:New")
		return New(5 * time.Second)
	case 1:
		vCover("ctor:NewWithCache")
		return NewWithCache(5 * time.Second)
	case 2:
		vCover("ctor:NewWithTLSConfig")
		return NewWithTLSConfig(5*time.Second, &tls.Config{})
	}
	vCover("ctor:NewWithCache+caching")
	// as http engine configureClient does when http.cache.maxbytes > 0
	DefaultCachingTransport = NewCachingTransport(SafeHttpTransport, 1000)
	return NewWithCache(5 * time.Second)
}

func H20b() {
	hInitPackage()
	strict := vBool()
	early := vBool()
	var c *StrictHTTPClient
	if early {
		vCover("configured-before-client-made")
		StrictMode = strict
		c = hNewClient()
	} else {
		vCover("configured-after-client-made")
		c = hNewClient()
		StrictMode = strict // http engine configureClient
	}
	vTag("scheme")
	scheme := vString(vLen(0, vParam("sch", 5)))
	isHTTPS := scheme == "https"
	hRedirectsLeft = vParam("hops", 1)
	req := &http.Request{Method: "GET", URL: &url.URL{Scheme: scheme, Host: "nuts.nl", Path: "/x"}, Header: http.Header{}}
	resp, err := c.Do(req)
	vAssert((resp == nil) != (err == nil), "H20b.result_xor_error: Do returns both or neither of response and error")

	if !strict {
		vCover("lenient")
		vAssert(len(hDoSchemes) == 1 && hDoSchemes[0] == scheme && len(hWire) >= 1, "H20b.lenient_passes: non-strict mode did not perform the request")
		return
	}
	if !isHTTPS {
		vCover("strict:not-https")
		vAssert(err != nil, "H20b.strict_refuses_plain: strict mode did not refuse a request that is not https")
	} else {
		vCover("strict:https")
		vAssert(len(hDoSchemes) == 1 && len(hWire) >= 1, "H20b.strict_https_passes: strict mode did not perform an https request")
	}
	for _, s := range hDoSchemes {
		vAssert(s == "https", "H20b.strict_doer_https_only: strict mode handed a request that is not https to the HTTP client")
	}
	for i, s := range hWire {
		if s != "https" {
			if i > 0 {
				vClass("redirect from https to http followed")
			} else {
				vClass("first request")
			}
			vAssert(false, "H20b.strict_wire_https_only: strict mode sent a request that is not https")
		}
	}
	if len(hWire) > 1 {
		vCover("strict:redirect-followed")
	}
}

func H20b_twin() {
	hInitPackage()
	StrictMode = true
	c := New(time.Second)
	_, err := c.Do(&http.Request{Method: "GET", URL: &url.URL{Scheme: vString(5), Host: "nuts.nl"}, Header: http.Header{}})
	if err == nil && len(hWire) == 1 {
		vAssert(false, "H20b_twin.reach: reachable")
	}
}
