//go:build verif

package http

import (
	"context"
	"strings"

	"github.com/labstack/echo/v4"
)

// hEcho is a listener fake that records the routes registered on it.
type hEcho struct {
	EchoServer
	name   string
	routes []string
}

func (e *hEcho) Add(method, path string, handler echo.HandlerFunc, middleware ...echo.MiddlewareFunc) *echo.Route {
	e.routes = append(e.routes, path)
	return &echo.Route{Method: method, Path: path}
}
func (e *hEcho) Use(middleware ...echo.MiddlewareFunc) {}
func (e *hEcho) Start(address string) error               { return nil }
func (e *hEcho) Shutdown(ctx context.Context) error       { return nil }

// H04b: MultiEcho route binding. Listeners are bound exactly as Engine.Configure does, for a symbolic
// listener configuration (same or different internal/public address). Then a route with a symbolic path
// around the four reserved first segments is added: a route under /internal, /status, /metrics or /health
// must never land on the public listener when the addresses differ; other routes land on the public one.
func H04b() {
	public, internal := "pub:80", "int:81"
	same := vBool()
	if same {
		internal = public
		vCover("same-address")
	} else {
		vCover("different-address")
	}
	m := NewMultiEcho()
	var created []*hEcho
	creator := func(ipHeader string) (EchoServer, error) {
		e := &hEcho{}
		created = append(created, e)
		return e, nil
	}
	vAssert(m.Bind(RootPath, public, creator, "") == nil, "H04b.bind_root: cannot bind root")
	for _, p := range []string{"/internal", "/status", "/health", "/metrics"} {
		vAssert(m.Bind(p, internal, creator, "") == nil, "H04b.bind_internal: cannot bind internal path")
	}
	pubSrv := m.interfaces[public].(*hEcho)
	intSrv := m.interfaces[internal].(*hEcho)

	// route path: slashes + [x] + reserved word with symbolic letter case + [y] + ["/" tail]
	words := []string{"internal", "status", "health", "metrics"}
	w := words[vChoice(vParam("words", 4))]
	seg := make([]byte, len(w))
	casebits := vParam("casebits", 8)
	for i := range seg {
		seg[i] = w[i]
		if i < casebits {
			seg[i] ^= vU8() & 0x20 // symbolic letter case, no fork
		}
	}
	vChar := func() string {
		c := vU8()
		vAssume(c < 0x80 && c != 0)
		return string([]byte{c})
	}
	path := strings.Repeat("/", vLen(0, vParam("slashes", 2)))
	if vBool() {
		path += vChar()
	}
	path += string(seg)
	if vBool() {
		path += vChar()
	}
	if vBool() {
		path += "/x"
	}
	m.Add("GET", path, nil)
	onPublic := len(pubSrv.routes) > 0 && pubSrv.routes[0] == path
	onInternal := len(intSrv.routes) > 0 && intSrv.routes[0] == path
	vAssert(onPublic || onInternal, "H04b.route_registered: route was not registered on any listener")

	// the path echo will route on is `path` itself (exact, case-sensitive)
	reserved := false
	for _, r := range words {
		if path == "/"+r || strings.HasPrefix(path, "/"+r+"/") {
			reserved = true
		}
	}
	if reserved {
		vCover("reserved-route")
		vAssert(onInternal, "H04b.reserved_on_internal: a route under a reserved path is not on the internal listener")
		if !same {
			vAssert(!onPublic, "H04b.reserved_not_public: a route under /internal, /status, /metrics or /health is served by the public listener")
		}
	} else {
		vCover("other-route")
	}
}

func H04b_twin() {
	m := NewMultiEcho()
	pub, in := &hEcho{}, &hEcho{}
	_ = m.Bind(RootPath, "a", func(string) (EchoServer, error) { return pub, nil }, "")
	_ = m.Bind("/internal", "b", func(string) (EchoServer, error) { return in, nil }, "")
	m.Add("GET", "/"+vString(1)+"nternal/x", nil)
	if len(in.routes) == 1 {
		vAssert(false, "H04b_twin.reach: reachable")
	}
}
