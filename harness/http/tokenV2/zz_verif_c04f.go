//go:build verif

package tokenV2

import (
	"time"

	"github.com/labstack/echo/v4"
)

//verif:stub github.com/nuts-foundation/nuts-node/http/tokenV2.parseAuthorizedKeys => hParseAuthorizedKeys

// hParseAuthorizedKeys: the ssh authorized_keys parser (x/crypto/ssh) is replaced by the harness' key list, so that
// the middleware is built by its real constructor New() (and carries whatever state New() sets up).
var hParsedKeys []authorizedKey

func hParseAuthorizedKeys(contents []byte) ([]authorizedKey, error) { return hParsedKeys, nil }

func hNewMiddleware(keys []authorizedKey) *middlewareImpl {
	hParsedKeys = keys
	mw, err := New(nil, "a", []byte("keys"))
	vAssert(err == nil, "H04f.constructed: New() failed")
	return mw.(*middlewareImpl)
}

// H04f: every request is authorised on its own merits. One middleware instance serves a granted request
// and then a second request with the SAME credential for which one of the checks now fails (the token
// expired in the meantime, the key was de-authorised, the signature no longer verifies): the second
// request must be refused - nothing learned from the first request may stand in for a check.
func H04f() {
	m := hNewMiddleware([]authorizedKey{{keyID: "k", comment: "u", jwkSet: &hSet{id: 0}}})
	hVerifies[0] = true
	hJWSSigs = []*hHeaders{{alg: "ES256"}}
	tok := &hToken{hasJti: true, hasIat: true, hasExp: true, hasNbf: true, hasAud: true, hasIss: true, hasSub: true, jti: "j", iss: "u", sub: "s", aud: []string{"a"}}
	tok.iat, tok.nbf, tok.exp = time.Unix(1000, 0).UTC(), time.Unix(1000, 0).UTC(), time.Unix(2000, 0).UTC()
	hTheToken, hTheSecs = tok, hTokenSecs{iat: 1000, nbf: 1000, exp: 2000}
	hUUIDOK, hTimeValid = true, true

	calls := 0
	next := func(c echo.Context) error { calls++; return nil }
	err := m.checkConnectionAuthorization(hCtxWithAuthorization("Bearer tok"), next)
	vAssert(err == nil && calls == 1, "H04f.first_granted: a fully valid request was refused")

	// second request, same credential, but something changed
	switch vChoice(3) {
	case 0:
		vCover("expired-meanwhile")
		hTimeValid = false
	case 1:
		vCover("no-longer-verifies")
		hVerifies[0] = false
	case 2:
		vCover("key-deauthorised")
		m.authorizedKeys = nil
	}
	hTheToken, hTheSecs = tok, hTokenSecs{iat: 1000, nbf: 1000, exp: 2000}
	err = m.checkConnectionAuthorization(hCtxWithAuthorization("Bearer tok"), next)
	vAssert(calls == 1, "H04f.second_request_checked: a request was granted on the strength of an earlier request with the same credential")
	vAssert(err != nil, "H04f.second_request_401: refused request did not yield an error response")
}

func H04f_twin() {
	m := hNewMiddleware([]authorizedKey{{keyID: "k", comment: "u", jwkSet: &hSet{id: 0}}})
	hVerifies[0] = vBool()
	hJWSSigs = []*hHeaders{{alg: "ES256"}}
	tok := &hToken{hasJti: true, hasIat: true, hasExp: true, hasNbf: true, hasAud: true, hasIss: true, hasSub: true, jti: "j", iss: "u", sub: "s", aud: []string{"a"}}
	tok.iat, tok.nbf, tok.exp = time.Unix(1000, 0).UTC(), time.Unix(1000, 0).UTC(), time.Unix(2000, 0).UTC()
	hTheToken, hTheSecs = tok, hTokenSecs{iat: 1000, nbf: 1000, exp: 2000}
	hUUIDOK, hTimeValid = true, true
	calls := 0
	_ = m.checkConnectionAuthorization(hCtxWithAuthorization("Bearer tok"), func(c echo.Context) error { calls++; return nil })
	if calls == 1 {
		vAssert(false, "H04f_twin.reach: reachable")
	}
}
