//go:build verif

package tokenV2

import (
	"fmt"

	"github.com/lestrrat-go/jwx/v2/jws"
	"github.com/lestrrat-go/jwx/v2/jwt"
)

func HT1() {
	o := jwt.WithKeySet(&hSet{id: 1}, jws.WithInferAlgorithmFromKey(true))
	s := fmt.Sprintf("%T", o.Ident())
	vAssert(false, "HT1.err: "+s+fmt.Sprintf("|%T", o.Value()))
}
