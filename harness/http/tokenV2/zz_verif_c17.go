//go:build verif

package tokenV2

import (
	"errors"

	"github.com/lestrrat-go/jwx/v2/cert"
	"github.com/lestrrat-go/jwx/v2/jwa"
	"github.com/lestrrat-go/jwx/v2/jwk"
	"github.com/lestrrat-go/jwx/v2/jws"
)

// hAsymmetricJWA is the reference set, written down independently of the code under test: every
// digital-signature (asymmetric) "alg" value registered for JWS - RFC 7518 section 3.1 (RS*, ES*, PS*),
// RFC 8037 (EdDSA), RFC 8812 (ES256K).
func hAsymmetricJWA(s string) bool {
	switch s {
	case "RS256", "RS384", "RS512",
		"ES256", "ES384", "ES512", "ES256K",
		"PS256", "PS384", "PS512",
		"EdDSA":
		return true
	}
	return false
}

// hForbiddenLookalike: s equals none/HS256/HS384/HS512 after ASCII case folding and removal of
// spaces, tabs, CR, LF and NUL bytes (the case/space variants named by the property).
func hForbiddenLookalike(s string) bool {
	var folded []byte
	for i := 0; i < len(s); i++ {
		c := s[i]
		if c == ' ' || c == '\t' || c == '\r' || c == '\n' || c == 0 {
			continue
		}
		if c >= 'A' && c <= 'Z' {
			c += 'a' - 'A'
		}
		folded = append(folded, c)
	}
	switch string(folded) {
	case "none", "hs256", "hs384", "hs512":
		return true
	}
	return false
}

// H17a_tokenv2: acceptableSignatureAlgorithm for ALL strings up to `algbytes` bytes.
func H17a_tokenv2() {
	n := vLen(0, vParam("algbytes", 6))
	vTag("alg")
	s := vString(n)
	if acceptableSignatureAlgorithm(jwa.SignatureAlgorithm(s)) {
		vCover("accepted")
		vAssert(hAsymmetricJWA(s), "H17a_tokenv2.accepted_is_asymmetric: acceptableSignatureAlgorithm accepts an algorithm outside the asymmetric reference set")
		vAssert(!hForbiddenLookalike(s), "H17a_tokenv2.none_mac_rejected: acceptableSignatureAlgorithm accepts none/HS* or a case/space variant")
	} else {
		vCover("rejected")
	}
}

func H17a_tokenv2_twin() {
	s := vString(5)
	if acceptableSignatureAlgorithm(jwa.SignatureAlgorithm(s)) && s[0] == 'P' {
		vAssert(false, "H17a_tokenv2_twin.reach: reachable")
	}
}

// ---------------------------------------------------------------------------------------------
// jws.ParseString stand-in. Contract of jwx (jws/message.go): a parsed message carries its signatures
// in serialisation order; every signature has non-nil protected headers (an empty header object when
// the "protected" member is absent); registered header parameters are typed (alg jwa.SignatureAlgorithm,
// jwk jwk.Key, jku/x5u/typ/kid string, x5c *cert.Chain). jwx itself never returns a message without
// signatures; n = 0 is included as an over-approximation.

//verif:stub github.com/lestrrat-go/jwx/v2/jws.ParseString => hJWSParseString

type hKey struct{ jwk.Key }

type hHeaders struct {
	jws.Headers
	alg                            string
	hasJWK, hasX5C, hasJKU, hasX5U bool
	jku, x5u                       string
}

func (h *hHeaders) Algorithm() jwa.SignatureAlgorithm { return jwa.SignatureAlgorithm(h.alg) }
func (h *hHeaders) JWK() jwk.Key {
	if h.hasJWK {
		return &hKey{}
	}
	return nil
}
func (h *hHeaders) JWKSetURL() string {
	if h.hasJKU {
		return h.jku
	}
	return ""
}
func (h *hHeaders) X509URL() string {
	if h.hasX5U {
		return h.x5u
	}
	return ""
}

// keySource: does the signature name its own verification key in any of the four ways
func (h *hHeaders) keySource() bool {
	return h.hasJWK || (h.hasJKU && h.jku != "") || h.hasX5C || (h.hasX5U && h.x5u != "")
}
func (h *hHeaders) X509CertChain() *cert.Chain {
	if h.hasX5C {
		return &cert.Chain{}
	}
	return nil
}

var hJWSFail bool
var hJWSSigs []*hHeaders
var hJWSArgs []string

func hJWSParseString(src string) (*jws.Message, error) {
	hJWSArgs = append(hJWSArgs, src)
	if hJWSFail {
		return nil, errors.New("harness: not a JWS")
	}
	m := jws.NewMessage()
	for _, h := range hJWSSigs {
		m.AppendSignature(jws.NewSignature().SetProtectedHeaders(h))
	}
	return m, nil
}

// hSymHeaders draws the protected headers of one signature: alg is absent or an arbitrary string of
// 4..6 bytes (none, HS256, ES256, EdDSA, ES256K and every other string of those lengths),
// jwk / x5c present or not, jku / x5u absent or one arbitrary byte (a present jku/x5u is never the empty
// string: jwx stores what the JSON says and an attacker gains nothing from "jku": "").
func hSymHeaders() *hHeaders {
	h := &hHeaders{}
	switch vChoice(4) {
	case 0:
	case 1:
		h.alg = vString(4)
	case 2:
		h.alg = vString(5)
	case 3:
		h.alg = vString(6)
	}
	vTag("hasJWK")
	h.hasJWK = vBool()
	vTag("hasJKU")
	h.hasJKU = vBool()
	vTag("jku")
	h.jku = vString(1)
	vTag("hasX5C")
	h.hasX5C = vBool()
	vTag("hasX5U")
	h.hasX5U = vBool()
	vTag("x5u")
	h.x5u = vString(1)
	return h
}

// H17b_tokenv2 + H17c_tokenv2: credentialIsSecure on a parse result with n = 0..maxsigs signatures.
// accepted => exactly one signature, its algorithm in the asymmetric reference set, and no signature
// names its own verification key (jwk, jku, x5c, x5u).
func H17b_tokenv2() {
	vTag("parseFails")
	hJWSFail = vBool()
	n := vLen(0, vParam("maxsigs", 3))
	for i := 0; i < n; i++ {
		hJWSSigs = append(hJWSSigs, hSymHeaders())
	}
	err := credentialIsSecure("tok")
	vAssert(len(hJWSArgs) == 1 && hJWSArgs[0] == "tok", "H17b_tokenv2.parses_received_bytes: credentialIsSecure did not parse exactly the credential it was given")
	if err != nil {
		vCover("rejected")
		// a compact, clean, single-signature ES256 token is not refused
		if !hJWSFail && n == 1 {
			h := hJWSSigs[0]
			vAssert(!(h.alg == "ES256" && !h.keySource()), "H17b_tokenv2.clean_es256_accepted: rejected a single-signature ES256 token without key headers")
		}
		return
	}
	vCover("accepted")
	vAssert(!hJWSFail, "H17b_tokenv2.unparsable_rejected: accepted a credential that is not a JWS")
	if n == 0 {
		vClass("no signature")
	} else if n >= 2 {
		vCover("accepted-multi-signature")
		vClass("JSON-serialised JWS with more than one signature")
	}
	vAssert(n == 1, "H17b_tokenv2.exactly_one_signature: credentialIsSecure accepts a JWS that does not carry exactly one signature")
	for _, h := range hJWSSigs {
		vAssert(hAsymmetricJWA(h.alg), "H17b_tokenv2.every_alg_asymmetric: accepted a signature whose alg is outside the asymmetric reference set")
		vAssert(!hForbiddenLookalike(h.alg) && h.alg != "", "H17b_tokenv2.none_mac_rejected: accepted a signature with alg none/HS*/absent")
		vAssert(!h.hasJWK, "H17c_tokenv2.no_embedded_jwk: accepted a signature carrying a jwk header")
		vAssert(!h.hasJKU, "H17c_tokenv2.no_jku: accepted a signature carrying a jku header")
		vAssert(!h.hasX5C, "H17c_tokenv2.no_x5c: accepted a signature carrying an x5c header")
		vAssert(!h.hasX5U, "H17c_tokenv2.no_x5u: accepted a signature carrying an x5u header")
	}
}

func H17b_tokenv2_twin() {
	h := hSymHeaders()
	hJWSSigs = []*hHeaders{h}
	if credentialIsSecure("tok") == nil && h.alg[0] == 'P' {
		vAssert(false, "H17b_tokenv2_twin.reach: reachable")
	}
}
