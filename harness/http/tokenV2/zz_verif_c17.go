//go:build verif

package tokenV2

import (
	"github.com/lestrrat-go/jwx/v2/jwa"
)

// hAsymmetricJWA is the reference set, written down independently of the code under test: every
// digital-signature (asymmetric) "alg" value registered for JWS - RFC 7518 section 3.1 (RS*, ES*, PS*),
// RFC 8037 (EdDSA), RFC 8812 (ES256K).
func hAsymmetricJWA(s string) bool {
	switch s {
	case "RS256", "RS384", "RS512",
		"ES256", "ES384", "ES512", "ES256K",
		"PS256", "PS384", "PS512",
		"EdDSA":
		return true
	}
	return false
}

// hForbiddenLookalike: s equals none/HS256/HS384/HS512 after ASCII case folding and removal of
// spaces, tabs, CR, LF and NUL bytes (the case/space variants named by the property).
func hForbiddenLookalike(s string) bool {
	var folded []byte
	for i := 0; i < len(s); i++ {
		c := s[i]
		if c == ' ' || c == '\t' || c == '\r' || c == '\n' || c == 0 {
			continue
		}
		if c >= 'A' && c <= 'Z' {
			c += 'a' - 'A'
		}
		folded = append(folded, c)
	}
	switch string(folded) {
	case "none", "hs256", "hs384", "hs512":
		return true
	}
	return false
}

// H17a_tokenv2: acceptableSignatureAlgorithm for ALL strings up to `algbytes` bytes.
func H17a_tokenv2() {
	n := vLen(0, vParam("algbytes", 6))
	vTag("alg")
	s := vString(n)
	if acceptableSignatureAlgorithm(jwa.SignatureAlgorithm(s)) {
		vCover("accepted")
		vAssert(hAsymmetricJWA(s), "H17a_tokenv2.accepted_is_asymmetric: acceptableSignatureAlgorithm accepts an algorithm outside the asymmetric reference set")
		vAssert(!hForbiddenLookalike(s), "H17a_tokenv2.none_mac_rejected: acceptableSignatureAlgorithm accepts none/HS* or a case/space variant")
	} else {
		vCover("rejected")
	}
}

func H17a_tokenv2_twin() {
	s := vString(5)
	if acceptableSignatureAlgorithm(jwa.SignatureAlgorithm(s)) && s[0] == 'P' {
		vAssert(false, "H17a_tokenv2_twin.reach: reachable")
	}
}
