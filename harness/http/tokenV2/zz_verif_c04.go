//go:build verif

package tokenV2

import (
	"context"
	"errors"
	"fmt"
	nethttp "net/http"
	"strings"
	"time"

	"github.com/google/uuid"
	"github.com/labstack/echo/v4"
	"github.com/lestrrat-go/jwx/v2/jwk"
	"github.com/lestrrat-go/jwx/v2/jwt"
	"github.com/nuts-foundation/nuts-node/audit"
	"github.com/nuts-foundation/nuts-node/core"
	"github.com/sirupsen/logrus"
)

// hCtx is an echo.Context that knows its request, records Set() calls and the response written.
type hCtx struct {
	echo.Context
	req      *nethttp.Request
	store    map[string]interface{}
	sets     int
	written  int
	respCode int
}

func (c *hCtx) Request() *nethttp.Request { return c.req }
func (c *hCtx) RealIP() string            { return "" }
func (c *hCtx) Set(key string, val interface{}) {
	if c.store == nil {
		c.store = map[string]interface{}{}
	}
	c.store[key] = val
	c.sets++
}
func (c *hCtx) Get(key string) interface{} { return c.store[key] }
func (c *hCtx) String(code int, s string) error {
	c.written++
	c.respCode = code
	return nil
}

func hCtxWithAuthorization(values ...string) *hCtx {
	h := nethttp.Header{}
	if len(values) > 0 {
		h["Authorization"] = values
	}
	return &hCtx{req: &nethttp.Request{Header: h}}
}

//verif:stub strings.Fields => hFields

// hFields models strings.Fields for ASCII input, written from its documentation ("splits the string s
// around each instance of one or more consecutive white space characters, as defined by unicode.IsSpace,
// returning a slice of substrings of s or an empty slice if s contains only white space"). The real
// function classifies bytes through a 256-entry table, which the engine can only explore by forking per
// table index; this model uses comparisons. unicode.IsSpace on ASCII = \t \n \v \f \r and space.
// Bytes >= 0x80 (multi-byte runes, U+0085/U+00A0 spaces) are outside the model.
func hFields(s string) []string {
	out := []string{}
	start := -1
	for i := 0; i < len(s); i++ {
		c := s[i]
		if c >= 0x80 {
			vCut("strings.Fields model is ASCII only")
		}
		if hIsASCIISpace(c) {
			if start >= 0 {
				out = append(out, s[start:i])
				start = -1
			}
		} else if start < 0 {
			start = i
		}
	}
	if start >= 0 {
		out = append(out, s[start:])
	}
	return out
}

func hIsASCIISpace(c byte) bool {
	return c == ' ' || c == '\t' || c == '\n' || c == '\v' || c == '\f' || c == '\r'
}

func hLowerASCII(c byte) byte {
	if c >= 'A' && c <= 'Z' {
		return c + ('a' - 'A')
	}
	return c
}

// hRefCredential is the reference for pure-ASCII header values: the value must consist of exactly two
// runs of non-whitespace separated (and optionally surrounded) by ASCII whitespace; the first run must
// be "bearer" in any letter case; the credential is the second run.
func hRefCredential(s string) string {
	var runs [][2]int
	i := 0
	for i < len(s) {
		for i < len(s) && hIsASCIISpace(s[i]) {
			i++
		}
		if i == len(s) {
			break
		}
		st := i
		for i < len(s) && !hIsASCIISpace(s[i]) {
			i++
		}
		runs = append(runs, [2]int{st, i})
	}
	if len(runs) != 2 {
		return ""
	}
	scheme := s[runs[0][0]:runs[0][1]]
	if len(scheme) != 6 {
		return ""
	}
	isBearer := true
	for k := 0; k < 6; k++ {
		isBearer = isBearer && hLowerASCII(scheme[k]) == "bearer"[k]
	}
	if !isBearer {
		return ""
	}
	return s[runs[1][0]:runs[1][1]]
}

// H04e: authenticationCredential for ALL Authorization header values up to `hdrbytes` bytes.
func H04e() {
	n := vLen(0, vParam("hdrbytes", 8))
	vTag("authorization")
	s := vString(n)
	for i := 0; i < n; i++ {
		vAssume(s[i] < 0x80)
	}
	got := authenticationCredential(hCtxWithAuthorization(s))
	vAssert(got == hRefCredential(s), "H04e.ascii_exact: credential differs from '<ws>* bearer <ws>+ token <ws>*' reference")
	if got != "" {
		vCover("credential")
		// whatever the bytes: the credential is a whitespace-free contiguous part of what was sent,
		// preceded by a first field that case-folds to "bearer"
		found := false
		for st := 0; st+len(got) <= n; st++ {
			if s[st:st+len(got)] == got {
				found = true
			}
		}
		vAssert(found, "H04e.credential_is_substring: credential is not a contiguous part of the header value")
		for i := 0; i < len(got); i++ {
			vAssert(!hIsASCIISpace(got[i]), "H04e.credential_no_space: credential contains whitespace")
		}
		vAssert(n >= 8, "H04e.scheme_required: credential extracted from a header too short to hold 'bearer x'")
	} else {
		vCover("no-credential")
	}
}

// H04e_bearer: the family the short strings of H04e cannot reach: <pre> ++ scheme ++ <post> with scheme
// one of bearer / BEARER / BeArEr, |pre| <= 1 and |post| <= postbytes arbitrary ASCII bytes (several
// credentials, trailing garbage, missing separator, ...).
func H04e_bearer() {
	pre := vString(vLen(0, 1))
	scheme := []string{"bearer", "BEARER", "BeArEr"}[vChoice(3)]
	vTag("post")
	post := vString(vLen(0, vParam("postbytes", 5)))
	s := pre + scheme + post
	for i := 0; i < len(s); i++ {
		vAssume(s[i] < 0x80)
	}
	got := authenticationCredential(hCtxWithAuthorization(s))
	want := hRefCredential(s)
	vAssert(got == want, "H04e_bearer.ascii_exact: credential differs from '<ws>* bearer <ws>+ token <ws>*' reference")
	if got != "" {
		vCover("credential")
	} else {
		vCover("no-credential")
	}
}

func H04e_bearer_twin() {
	post := vString(5)
	for i := 0; i < 5; i++ {
		vAssume(post[i] < 0x80)
	}
	if authenticationCredential(hCtxWithAuthorization("bearer"+post)) == "ab" {
		vAssert(false, "H04e_bearer_twin.reach: reachable")
	}
}

func H04e_twin() {
	s := vString(8)
	for i := 0; i < 8; i++ {
		vAssume(s[i] < 0x80)
	}
	if authenticationCredential(hCtxWithAuthorization(s)) == "x" && s[0] == 'B' {
		vAssert(false, "H04e_twin.reach: reachable")
	}
}

// ---------------------------------------------------------------------------------------------
// jwt.Token value object. Contract of jwx (jwt/token_gen.go): registered claims are typed - jti, iss,
// sub are strings, aud is []string, iat/exp/nbf are time.Time built as time.Unix(sec, 0).UTC() (default
// parse precision: whole seconds); Get(name) reports (value, true) iff the claim is present; the typed
// getters return the zero value when the claim is absent.
type hToken struct {
	jwt.Token
	hasJti, hasIat, hasExp, hasNbf, hasAud, hasIss, hasSub bool
	jti, iss, sub                                          string
	aud                                                    []string
	iat, exp, nbf                                          time.Time
}

func (t *hToken) Get(name string) (interface{}, bool) {
	switch name {
	case "jti":
		if t.hasJti {
			return t.jti, true
		}
	case "iat":
		if t.hasIat {
			return t.iat, true
		}
	case "exp":
		if t.hasExp {
			return t.exp, true
		}
	case "nbf":
		if t.hasNbf {
			return t.nbf, true
		}
	case "aud":
		if t.hasAud {
			return t.aud, true
		}
	case "iss":
		if t.hasIss {
			return t.iss, true
		}
	case "sub":
		if t.hasSub {
			return t.sub, true
		}
	}
	return nil, false
}
func (t *hToken) JwtID() string {
	if t.hasJti {
		return t.jti
	}
	return ""
}
func (t *hToken) Issuer() string {
	if t.hasIss {
		return t.iss
	}
	return ""
}
func (t *hToken) Subject() string {
	if t.hasSub {
		return t.sub
	}
	return ""
}
func (t *hToken) Audience() []string {
	if t.hasAud {
		return t.aud
	}
	return nil
}
func (t *hToken) IssuedAt() time.Time {
	if t.hasIat {
		return t.iat
	}
	return time.Time{}
}
func (t *hToken) Expiration() time.Time {
	if t.hasExp {
		return t.exp
	}
	return time.Time{}
}
func (t *hToken) NotBefore() time.Time {
	if t.hasNbf {
		return t.nbf
	}
	return time.Time{}
}

// hSec: a NumericDate in whole seconds. |sec| < 2^61 keeps time.Unix's internal offset addition and the
// reference arithmetic below free of int64 wrap-around (year 7e10; JSON numbers beyond are out of bounds).
func hSec() int64 {
	s := vI64()
	vAssume(s > -(1<<61) && s < (1<<61))
	return s
}

type hTokenSecs struct{ iat, exp, nbf int64 }

// hSymToken draws an arbitrary token: every mandatory claim present or absent, arbitrary times,
// sub/iss/jti strings of 0..1 / 1 / 0..2 symbolic bytes.
func hSymToken() (*hToken, hTokenSecs) {
	var sec hTokenSecs
	t := &hToken{}
	vTag("hasJti")
	t.hasJti = vBool()
	vTag("hasIat")
	t.hasIat = vBool()
	vTag("hasExp")
	t.hasExp = vBool()
	vTag("hasNbf")
	t.hasNbf = vBool()
	vTag("hasAud")
	t.hasAud = vBool()
	vTag("hasIss")
	t.hasIss = vBool()
	vTag("hasSub")
	t.hasSub = vBool()
	vTag("iat")
	sec.iat = hSec()
	vTag("exp")
	sec.exp = hSec()
	vTag("nbf")
	sec.nbf = hSec()
	t.iat = time.Unix(sec.iat, 0).UTC()
	t.exp = time.Unix(sec.exp, 0).UTC()
	t.nbf = time.Unix(sec.nbf, 0).UTC()
	t.jti = vString(vLen(0, 2))
	vTag("sub")
	t.sub = vString(vLen(0, 1))
	vTag("iss")
	t.iss = vString(1)
	t.aud = []string{"aud"}
	return t, sec
}

//verif:stub github.com/google/uuid.Parse => hUUIDParse

// uuid.Parse verdict: chosen by the harness; the argument is recorded so that the harness can check
// that the verdict was asked about the token's jti and nothing else.
var hUUIDOK bool
var hUUIDArgs []string

func hUUIDParse(s string) (uuid.UUID, error) {
	hUUIDArgs = append(hUUIDArgs, s)
	if hUUIDOK {
		return uuid.UUID{}, nil
	}
	return uuid.UUID{}, errors.New("harness: not a UUID")
}

const hMaxLifetimeSec = 88200 // 24.5 h

// The clock: whole seconds, chosen by the harness (the engine calls vhNow for time.Now); by default inside the
// window of the fixed tokens of the composition harnesses (iat = nbf = 1000, exp >= 2000). Drawn clocks are after
// 1970-01-01 (the claims they are compared with may lie anywhere).
var hNowSec int64 = 1500

func vhNow() time.Time { return time.Unix(hNowSec, 0).UTC() }

func hDrawNow() {
	vTag("now")
	hNowSec = hSec()
	vAssume(hNowSec >= 1)
}

// hBestPracticeRef is the property text: all seven mandatory claims present, jti is a UUID,
// exp - nbf <= 24.5 h, exp - iat <= 24.5 h, iat <= nbf, not expired at the clock, sub non-empty.
func hBestPracticeRef(t *hToken, sec hTokenSecs, jtiIsUUID bool) bool {
	return t.hasJti && t.hasIat && t.hasExp && t.hasNbf && t.hasAud && t.hasIss && t.hasSub &&
		jtiIsUUID &&
		sec.exp-sec.nbf <= hMaxLifetimeSec &&
		sec.exp-sec.iat <= hMaxLifetimeSec &&
		sec.iat <= sec.nbf &&
		hNowSec < sec.exp &&
		t.sub != ""
}

// H04c: bestPracticesCheck on an arbitrary jwt.Token value object. Run with -ints int.
func H04c() {
	hDrawNow()
	t, sec := hSymToken()
	vTag("jtiIsUUID")
	hUUIDOK = vBool()
	err := bestPracticesCheck(t)
	if err == nil {
		vCover("accepted")
		vAssert(t.hasJti && t.hasIat && t.hasExp && t.hasNbf && t.hasAud && t.hasIss && t.hasSub, "H04c.mandatory_claims: accepted a token lacking one of jti/iat/exp/nbf/aud/iss/sub")
		vAssert(len(hUUIDArgs) >= 1 && hUUIDArgs[0] == t.jti && hUUIDOK, "H04c.jti_uuid: accepted a token whose jti was not checked to be a UUID")
		vAssert(sec.exp-sec.nbf <= hMaxLifetimeSec, "H04c.exp_minus_nbf: accepted a token expiring more than 24.5h after nbf")
		vAssert(sec.exp-sec.iat <= hMaxLifetimeSec, "H04c.exp_minus_iat: accepted a token expiring more than 24.5h after iat")
		vAssert(sec.iat <= sec.nbf, "H04c.iat_le_nbf: accepted a token issued after its nbf")
		vAssert(t.sub != "", "H04c.sub_nonempty: accepted a token with empty sub")
		if sec.exp-sec.nbf == hMaxLifetimeSec {
			vCover("accepted-at-limit")
		}
	} else {
		vCover("rejected")
		// converse: a token that follows every rule is not refused
		vAssert(!hBestPracticeRef(t, sec, hUUIDOK), "H04c.conforming_accepted: rejected a token that satisfies every documented rule")
		if t.hasJti && t.hasIat && t.hasExp && t.hasNbf && t.hasAud && t.hasIss && t.hasSub && hUUIDOK {
			if sec.exp-sec.nbf > hMaxLifetimeSec {
				vCover("rejected-lifetime-nbf")
			} else if sec.exp-sec.iat > hMaxLifetimeSec {
				vCover("rejected-lifetime-iat")
			} else if sec.iat > sec.nbf {
				vCover("rejected-iat-after-nbf")
			} else if hNowSec >= sec.exp {
				vCover("rejected-expired")
			} else {
				vCover("rejected-empty-sub")
			}
		}
	}
}

func H04c_twin() {
	t, sec := hSymToken()
	hUUIDOK = true
	if bestPracticesCheck(t) == nil && sec.exp-sec.iat == hMaxLifetimeSec && sec.nbf == sec.iat+1 {
		vAssert(false, "H04c_twin.reach: reachable")
	}
}

// ---------------------------------------------------------------------------------------------
// H04d: composition of checkConnectionAuthorization.
//
// jwt.ParseString stand-in. Contract of jwx: with jwt.WithKeySet(set, ...) the call succeeds iff one of
// the message's signatures verifies under a key of `set`; the claims of the returned token are those of
// the payload and do not depend on the key. The verdict per authorised key is chosen by the harness; the
// key set is recovered from the REAL option object built by the real jwt.WithKeySet.
// jwt.Validate stand-in. Contract of jwx: the base validators (iat/exp/nbf against the clock) and then
// every validator passed as option must succeed. The base verdict is chosen by the harness; validators
// passed as options (the real object built by jwt.WithAudience) are run for real on the token.

//verif:stub github.com/lestrrat-go/jwx/v2/jwt.ParseString => hJWTParseString
//verif:stub github.com/lestrrat-go/jwx/v2/jwt.Validate => hJWTValidate

//verif:stub github.com/nuts-foundation/nuts-node/audit.Log => hAuditLog

// audit.Log stand-in: keeps the real function's preconditions (it panics on a context without audit info
// and on an empty actor, operation or event name) and drops the logrus plumbing, which the engine's
// logrus model (empty bodies, nil formatter) cannot initialise.
func hAuditLog(ctx context.Context, logger *logrus.Entry, eventName string) *logrus.Entry {
	info := audit.InfoFromContext(ctx)
	if info == nil {
		panic("audit: no audit info in context")
	}
	if info.Actor == "" {
		panic("audit: actor is empty")
	}
	if info.Operation == "" {
		panic("audit: operation is empty")
	}
	if eventName == "" {
		panic("audit: eventName is empty")
	}
	hAuditEvents = append(hAuditEvents, eventName)
	return nil
}

var hAuditEvents []string

type hJWKSet = jwk.Set // (alias: jwk.Set has a method named Set, which an embedded field "Set" would hide)

type hSet struct {
	hJWKSet
	id int
}

var hVerifies [3]bool // does the credential verify under authorised key i
var hTheToken *hToken
var hTheSecs hTokenSecs
var hJWTParseArgs []string
var hJWTParseKeys []int
var hTimeValid bool
var hValidated []jwt.Token

func hJWTParseString(s string, options ...jwt.ParseOption) (jwt.Token, error) {
	hJWTParseArgs = append(hJWTParseArgs, s)
	key := -1
	for _, o := range options {
		// (the engine prints %T with the full package path, Go with the package name: accept both)
		if strings.HasSuffix(fmt.Sprintf("%T", o.Ident()), "jwt.identKeySet") {
			set := vGetField(o.Value(), "set").(jwk.Set)
			key = set.(*hSet).id
		}
	}
	hJWTParseKeys = append(hJWTParseKeys, key)
	if key >= 0 && hVerifies[key] {
		if hTheToken == nil {
			// the claims are drawn when the code first gets to see them (keeps refused-earlier paths cheap)
			hTheToken, hTheSecs = hCompToken()
		}
		return hTheToken, nil
	}
	return nil, errors.New("harness: could not verify message using any of the signatures or keys")
}

// hTimeModel: instead of a free verdict, jwt.Validate's base validators as jwx v2 implements them (jwt/validate.go,
// isIssuedAtValid / isExpirationValid / isNotBeforeValid with the default clock truncated to seconds and no skew):
// each of iat, exp, nbf is checked only if the claim is neither the zero time nor Unix time 0 - a token with
// "exp": 0 is treated as a token without expiration - and then iat <= now, now < exp, nbf <= now.
var hTimeModel bool

const hZeroTimeSec = -62135596800 // time.Time{}.Unix()

func hJwxTimeValid(sec hTokenSecs) bool {
	chk := func(s int64) bool { return s != 0 && s != hZeroTimeSec }
	ok := true
	if chk(sec.iat) {
		ok = ok && sec.iat <= hNowSec
	}
	if chk(sec.exp) {
		ok = ok && hNowSec < sec.exp
	}
	if chk(sec.nbf) {
		ok = ok && sec.nbf <= hNowSec
	}
	return ok
}

func hJWTValidate(t jwt.Token, options ...jwt.ValidateOption) error {
	hValidated = append(hValidated, t)
	if hTimeModel {
		if !hJwxTimeValid(hTheSecs) {
			return errors.New("harness: time claims not satisfied")
		}
	} else if !hTimeValid {
		return errors.New("harness: \"exp\" not satisfied")
	}
	for _, o := range options {
		if v, ok := o.Value().(jwt.Validator); ok {
			if err := v.Validate(context.Background(), t); err != nil {
				return err
			}
		}
	}
	return nil
}

// hCompToken draws the token for the composition harness: at most one mandatory claim missing, nbf = iat,
// exp exactly at or one second beyond the 24.5 h limit, sub empty or one byte, arbitrary one-byte issuer,
// 0..2 one-byte audiences. (H04c covers bestPracticesCheck for arbitrary tokens.)
func hCompToken() (*hToken, hTokenSecs) {
	t := &hToken{hasJti: true, hasIat: true, hasExp: true, hasNbf: true, hasAud: true, hasIss: true, hasSub: true}
	switch vChoice(8) {
	case 0:
		t.hasJti = false
	case 1:
		t.hasIat = false
	case 2:
		t.hasExp = false
	case 3:
		t.hasNbf = false
	case 4:
		t.hasAud = false
	case 5:
		t.hasIss = false
	case 6:
		t.hasSub = false
	}
	sec := hTokenSecs{iat: 1000, nbf: 1000, exp: 1000 + hMaxLifetimeSec}
	if vBool() {
		sec.exp++
	}
	t.iat = time.Unix(sec.iat, 0).UTC()
	t.exp = time.Unix(sec.exp, 0).UTC()
	t.nbf = time.Unix(sec.nbf, 0).UTC()
	t.jti = "j"
	vTag("sub")
	t.sub = vString(vLen(0, 1))
	vTag("iss")
	t.iss = vString(1)
	na := vLen(0, 2)
	for i := 0; i < na; i++ {
		vTag("aud")
		t.aud = append(t.aud, vString(1))
	}
	return t, sec
}

// H04g: the validity window at the time of use, through the real checkConnectionAuthorization. One authorised
// key, a clean ES256 credential that verifies, a token with every claim in order whose iat / nbf / exp are
// arbitrary, an arbitrary clock, jwt.Validate with the time rules of jwx as implemented (hTimeModel): the request
// reaches the handler only inside the token's own window nbf <= now < exp, and that window is at most 24.5 h.
// Conversely a token with iat <= nbf <= now < exp within the limits is served.
func H04g() {
	hDrawNow()
	m := middlewareImpl{audience: "a", authorizedKeys: []authorizedKey{{keyID: "k", comment: "u", jwkSet: &hSet{id: 0}}}}
	hVerifies[0] = true
	hJWSSigs = []*hHeaders{{alg: "ES256"}}
	tok := &hToken{hasJti: true, hasIat: true, hasExp: true, hasNbf: true, hasAud: true, hasIss: true, hasSub: true, jti: "j", iss: "u", sub: "s", aud: []string{"a"}}
	var sec hTokenSecs
	vTag("iat")
	sec.iat = hSec()
	vTag("nbf")
	sec.nbf = hSec()
	vTag("exp")
	sec.exp = hSec()
	tok.iat, tok.nbf, tok.exp = time.Unix(sec.iat, 0).UTC(), time.Unix(sec.nbf, 0).UTC(), time.Unix(sec.exp, 0).UTC()
	hUUIDOK, hTimeModel = true, true
	hTheToken, hTheSecs = tok, sec
	ctx := hCtxWithAuthorization("Bearer tok")
	served := 0
	err := m.checkConnectionAuthorization(ctx, func(echo.Context) error { served++; return nil })
	hTimeModel = false
	if served > 0 {
		vCover("served")
		if sec.exp == 0 {
			vClass("exp is Unix time 0, which the JWT library treats as no expiration")
		} else if sec.exp == hZeroTimeSec {
			vClass("exp is the zero time, which the JWT library treats as no expiration")
		}
		vAssert(hNowSec < sec.exp, "H04g.not_expired: request served at or after the token's exp")
		vAssert(sec.nbf <= hNowSec || sec.nbf == 0 || sec.nbf == hZeroTimeSec, "H04g.not_before_respected: request served before the token's nbf")
		vAssert(sec.exp-sec.nbf <= hMaxLifetimeSec, "H04g.bounded_window: served token has a window of more than 24.5 h")
	} else {
		vCover("refused")
		vAssert(err != nil, "H04g.refusal_is_error: request not served but no error")
		conforming := sec.iat <= sec.nbf && sec.nbf <= hNowSec && hNowSec < sec.exp &&
			sec.exp-sec.nbf <= hMaxLifetimeSec && sec.exp-sec.iat <= hMaxLifetimeSec
		vAssert(!conforming, "H04g.conforming_served: a token inside its bounded window was refused")
	}
}

func H04g_twin() {
	hNowSec = 1700000000
	m := middlewareImpl{audience: "a", authorizedKeys: []authorizedKey{{keyID: "k", comment: "u", jwkSet: &hSet{id: 0}}}}
	hVerifies[0] = true
	hJWSSigs = []*hHeaders{{alg: "ES256"}}
	tok := &hToken{hasJti: true, hasIat: true, hasExp: true, hasNbf: true, hasAud: true, hasIss: true, hasSub: true, jti: "j", iss: "u", sub: "s", aud: []string{"a"}}
	sec := hTokenSecs{iat: 1699999000, nbf: 1699999000, exp: 1700000001}
	tok.iat, tok.nbf, tok.exp = time.Unix(sec.iat, 0).UTC(), time.Unix(sec.nbf, 0).UTC(), time.Unix(sec.exp, 0).UTC()
	hUUIDOK, hTimeModel = true, true
	hTheToken, hTheSecs = tok, sec
	served := 0
	_ = m.checkConnectionAuthorization(hCtxWithAuthorization("Bearer tok"), func(echo.Context) error { served++; return nil })
	hTimeModel = false
	if served == 1 {
		vAssert(false, "H04g_twin.reach: reachable")
	}
}

func H04d() {
	m := middlewareImpl{}
	var ctx *hCtx
	var tok *hToken
	var sec hTokenSecs
	var skipVerdict, skipperAsked bool
	nk, ns := 0, 0
	bearer, sigsClean := false, true

	// everything valid: one key "u", one clean ES256 signature, conforming token issued by "u" for "a"
	allValid := func() {
		m.audience = "a"
		m.authorizedKeys = []authorizedKey{{keyID: "k", comment: "u", jwkSet: &hSet{id: 0}}}
		nk, ns = 1, 1
		hVerifies[0] = true
		hJWSSigs = []*hHeaders{{alg: "ES256"}}
		tok = &hToken{hasJti: true, hasIat: true, hasExp: true, hasNbf: true, hasAud: true, hasIss: true, hasSub: true, jti: "j", iss: "u", sub: "s", aud: []string{"a"}}
		sec = hTokenSecs{iat: 1000, nbf: 1000, exp: 2000}
		tok.iat, tok.nbf, tok.exp = time.Unix(1000, 0).UTC(), time.Unix(1000, 0).UTC(), time.Unix(2000, 0).UTC()
		hUUIDOK, hTimeValid = true, true
	}

	mode := vChoice(6)
	switch mode {
	case 0: // skipper says skip: request without any credential
		vCover("mode-skip")
		skipVerdict = true
		m.skipper = func(echo.Context) bool { skipperAsked = true; return skipVerdict }
		allValid()
		ctx = hCtxWithAuthorization()
	case 1, 2, 3: // everything valid except the Authorization header
		vCover("mode-bad-header")
		allValid()
		switch mode {
		case 1:
			ctx = hCtxWithAuthorization()
		case 2:
			ctx = hCtxWithAuthorization("Basic tok")
		case 3:
			ctx = hCtxWithAuthorization("Bearer tok tok")
		}
	case 4, 5: // bearer credential; everything jwx reports about it is arbitrary
		vCover("mode-bearer")
		if mode == 5 {
			m.skipper = func(echo.Context) bool { skipperAsked = true; return false }
		}
		ctx = hCtxWithAuthorization("bEARER \ttok")
		bearer = true
		vTag("audience")
		m.audience = vString(1)
		nk = vLen(0, vParam("keys", 2))
		for i := 0; i < nk; i++ {
			vTag("comment")
			m.authorizedKeys = append(m.authorizedKeys, authorizedKey{keyID: "k", comment: vString(1), jwkSet: &hSet{id: i}})
			vTag("verifies")
			hVerifies[i] = vBool()
		}
		vTag("parseFails")
		hJWSFail = vBool()
		ns = vLen(0, vParam("maxsigs", 2))
		for i := 0; i < ns; i++ {
			// alg is ES256 or HS256 (first byte symbolic, no fork here), jwk present or not
			vTag("mac")
			mac := vBool()
			c := byte('E')
			if mac {
				c = 'H'
			}
			h := &hHeaders{alg: string([]byte{c, 'S', '2', '5', '6'})}
			vTag("hasJWK")
			h.hasJWK = vBool()
			sigsClean = sigsClean && !mac && !h.hasJWK
			hJWSSigs = append(hJWSSigs, h)
		}
		vTag("jtiIsUUID")
		hUUIDOK = vBool()
		vTag("timeValid")
		hTimeValid = vBool()
	}
	hTheToken, hTheSecs = tok, sec

	nextCalls := 0
	next := func(c echo.Context) error {
		nextCalls++
		vAssert(c == echo.Context(ctx), "H04d.next_gets_context: next handler invoked with another context")
		return nil
	}
	err := m.checkConnectionAuthorization(ctx, next)

	vAssert(nextCalls <= 1, "H04d.next_at_most_once: next handler invoked more than once")
	if nextCalls == 1 && m.skipper != nil && skipVerdict {
		vCover("skipped")
		vAssert(skipperAsked && err == nil, "H04d.skip_passes_through: skipped request did not pass straight through")
		vAssert(len(hJWTParseArgs) == 0, "H04d.skip_no_verification: skipped request was verified anyway")
		return
	}
	vAssert(m.skipper == nil || skipperAsked, "H04d.skipper_consulted: configured skipper was not consulted")
	// first authorised key under which the credential verifies
	signer := -1
	for i := nk - 1; i >= 0; i-- {
		if hVerifies[i] {
			signer = i
		}
	}
	tok, sec = hTheToken, hTheSecs
	if tok == nil {
		// the code never obtained a verified token
		vCover("denied-before-verification")
		vAssert(nextCalls == 0, "H04d.no_grant_without_token: handler reached although no token was verified")
		vAssert(!(bearer && !hJWSFail && ns == 1 && sigsClean && signer >= 0), "H04d.verifiable_token_verified: a hygienic credential that verifies under an authorised key was refused before verification")
		tok = &hToken{}
	}
	audOK := false
	for _, a := range tok.aud {
		if a == m.audience {
			audOK = true
		}
	}
	good := bearer && !hJWSFail && ns == 1 && sigsClean && signer >= 0 && hTimeValid && audOK &&
		hBestPracticeRef(tok, sec, hUUIDOK) && tok.iss == m.authorizedKeys[signer].comment
	if nextCalls == 1 {
		vCover("granted")
		vAssert(bearer, "H04d.bearer_required: request without a bearer credential reached the handler")
		vAssert(!hJWSFail && sigsClean && ns >= 1, "H04d.credential_secure: credential rejected by the JWS hygiene check reached the handler")
		if ns >= 2 {
			vCover("granted-multi-signature")
			vClass("JSON-serialised JWS with more than one signature")
		}
		vAssert(ns == 1, "H04d.exactly_one_signature: a bearer token carrying more than one signature reached the handler")
		vAssert(len(hJWSArgs) == 1 && hJWSArgs[0] == "tok", "H04d.hygiene_on_received_bytes: hygiene check ran on something else than the received credential")
		for _, a := range hJWTParseArgs {
			vAssert(a == "tok", "H04d.verify_received_bytes: signature verification ran on something else than the received credential")
		}
		signedBy := false
		for i := 0; i < nk; i++ {
			if hVerifies[i] && m.authorizedKeys[i].comment == tok.iss {
				signedBy = true
			}
		}
		vAssert(signer >= 0, "H04d.signed_by_authorised_key: token verified by no authorised key reached the handler")
		vAssert(tok.hasIss && signedBy, "H04d.issuer_is_key_owner: issuer is not the user name of an authorised key that verifies the token")
		vAssert(len(hValidated) >= 1 && hValidated[len(hValidated)-1] == jwt.Token(tok) && hTimeValid, "H04d.validated: token reached the handler without successful jwt.Validate")
		vAssert(audOK, "H04d.audience: token without the configured audience reached the handler")
		vAssert(hBestPracticeRef(tok, sec, hUUIDOK), "H04d.best_practices: token violating the claim rules reached the handler")
		vAssert(ctx.Get(core.UserContextKey) == tok.iss, "H04d.user_is_issuer: request user is not the token issuer")
		vAssert(err == nil && ctx.written == 0, "H04d.granted_returns_next: granted request did not return the handler's result")
	} else {
		vCover("denied")
		he, isHTTP := err.(*echo.HTTPError)
		vAssert(isHTTP && he != nil && he.Code == 401, "H04d.denied_is_401: refused request not answered with 401")
		vAssert(ctx.Get(core.UserContextKey) == "", "H04d.denied_no_user: refused request carries a user name")
		_, isWriter := ctx.Get(core.ErrorWriterContextKey).(*unauthorizedErrorWriter)
		vAssert(isWriter, "H04d.denied_uniform_body: refused request does not use the uniform 401 error writer")
		vAssert(!good, "H04d.valid_token_granted: a request satisfying every rule was refused")
		if bearer && !hJWSFail && ns == 1 && sigsClean {
			if signer < 0 {
				vCover("denied-no-key-verifies")
			} else if !hTimeValid || !audOK {
				vCover("denied-validate")
			} else if !hBestPracticeRef(tok, sec, hUUIDOK) {
				vCover("denied-best-practices")
			} else {
				vCover("denied-issuer")
			}
		}
	}
}

func H04d_twin() {
	m := middlewareImpl{audience: "a"}
	m.authorizedKeys = []authorizedKey{{keyID: "k", comment: vString(1), jwkSet: &hSet{id: 0}}, {keyID: "k", comment: vString(1), jwkSet: &hSet{id: 1}}}
	hVerifies[1] = true
	hJWSSigs = []*hHeaders{{alg: "ES256"}}
	tok, _ := hSymToken()
	tok.aud = []string{"b", "a"}
	hTheToken = tok
	hUUIDOK, hTimeValid = true, true
	ctx := hCtxWithAuthorization("Bearer tok")
	n := 0
	err := m.checkConnectionAuthorization(ctx, func(echo.Context) error { n++; return nil })
	if err == nil && n == 1 && len(hJWTParseKeys) == 2 && hJWTParseKeys[1] == 1 && ctx.Get(core.UserContextKey) == tok.iss {
		vAssert(false, "H04d_twin.reach: reachable")
	}
}
