//go:build verif

package tokenV2

import (
	nethttp "net/http"

	"github.com/labstack/echo/v4"
)

// hCtx is an echo.Context that knows its request, records Set() calls and the response written.
type hCtx struct {
	echo.Context
	req      *nethttp.Request
	store    map[string]interface{}
	sets     int
	written  int
	respCode int
}

func (c *hCtx) Request() *nethttp.Request { return c.req }
func (c *hCtx) RealIP() string            { return "" }
func (c *hCtx) Set(key string, val interface{}) {
	if c.store == nil {
		c.store = map[string]interface{}{}
	}
	c.store[key] = val
	c.sets++
}
func (c *hCtx) Get(key string) interface{} { return c.store[key] }
func (c *hCtx) String(code int, s string) error {
	c.written++
	c.respCode = code
	return nil
}

func hCtxWithAuthorization(values ...string) *hCtx {
	h := nethttp.Header{}
	if len(values) > 0 {
		h["Authorization"] = values
	}
	return &hCtx{req: &nethttp.Request{Header: h}}
}

func hIsASCIISpace(c byte) bool {
	return c == ' ' || c == '\t' || c == '\n' || c == '\v' || c == '\f' || c == '\r'
}

func hLowerASCII(c byte) byte {
	if c >= 'A' && c <= 'Z' {
		return c + ('a' - 'A')
	}
	return c
}

// hRefCredential is the reference for pure-ASCII header values: the value must consist of exactly two
// runs of non-whitespace separated (and optionally surrounded) by ASCII whitespace; the first run must
// be "bearer" in any letter case; the credential is the second run.
func hRefCredential(s string) string {
	var runs [][2]int
	i := 0
	for i < len(s) {
		for i < len(s) && hIsASCIISpace(s[i]) {
			i++
		}
		if i == len(s) {
			break
		}
		st := i
		for i < len(s) && !hIsASCIISpace(s[i]) {
			i++
		}
		runs = append(runs, [2]int{st, i})
	}
	if len(runs) != 2 {
		return ""
	}
	scheme := s[runs[0][0]:runs[0][1]]
	if len(scheme) != 6 {
		return ""
	}
	for k := 0; k < 6; k++ {
		if hLowerASCII(scheme[k]) != "bearer"[k] {
			return ""
		}
	}
	return s[runs[1][0]:runs[1][1]]
}

// H04e: authenticationCredential for ALL Authorization header values up to `hdrbytes` bytes.
func H04e() {
	n := vLen(0, vParam("hdrbytes", 8))
	vTag("authorization")
	s := vString(n)
	ascii := true
	for i := 0; i < n; i++ {
		if s[i] >= 0x80 {
			ascii = false
		}
	}
	got := authenticationCredential(hCtxWithAuthorization(s))
	if ascii {
		vCover("ascii")
		vAssert(got == hRefCredential(s), "H04e.ascii_exact: credential differs from '<ws>* bearer <ws>+ token <ws>*' reference on an ASCII header")
	}
	if got != "" {
		vCover("credential")
		// whatever the bytes: the credential is a whitespace-free contiguous part of what was sent,
		// preceded by a first field that case-folds to "bearer"
		found := false
		for st := 0; st+len(got) <= n; st++ {
			if s[st:st+len(got)] == got {
				found = true
			}
		}
		vAssert(found, "H04e.credential_is_substring: credential is not a contiguous part of the header value")
		for i := 0; i < len(got); i++ {
			vAssert(!hIsASCIISpace(got[i]), "H04e.credential_no_space: credential contains whitespace")
		}
		vAssert(n >= 8, "H04e.scheme_required: credential extracted from a header too short to hold 'bearer x'")
	} else {
		vCover("no-credential")
	}
}

func H04e_twin() {
	s := vString(8)
	if authenticationCredential(hCtxWithAuthorization(s)) == "x" && s[0] == 'B' {
		vAssert(false, "H04e_twin.reach: reachable")
	}
}
