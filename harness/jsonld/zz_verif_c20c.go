//go:build verif

package jsonld

// C20 / H20c_jsonld: jsonld.Configure. "Unrestricted remote JSON-LD contexts" are refused in strict mode: after the real
// Configure, the real loader chain (filter -> mapping -> cache -> embedded FS -> default loader) lets a context URL
// reach the one place where network / disk is touched (json-gold's DefaultDocumentLoader.LoadDocument, faked and
// recording) only if it is on jsonld.contexts.remoteallowlist or a key of jsonld.contexts.localmapping; with strict
// mode off the same URL is fetched.

import (
	"embed"
	"errors"
	"io/fs"

	"github.com/nuts-foundation/nuts-node/core"
	"github.com/piprate/json-gold/ld"
)

//verif:stub (*github.com/piprate/json-gold/ld.DefaultDocumentLoader).LoadDocument => hDefaultLoad
//verif:stub (embed.FS).Open => hEmbedOpen

var hLoads []string

func hDefaultLoad(dl *ld.DefaultDocumentLoader, u string) (*ld.RemoteDocument, error) {
	hLoads = append(hLoads, u)
	return &ld.RemoteDocument{DocumentURL: u, Document: map[string]interface{}{}}, nil
}

// hEmbedOpen: nothing is embedded; local files fall through to the (faked) default loader like remote ones.
// (The engine does not run the initialisers of os / internal/oserror, so the sentinel is supplied here.)
func hEmbedOpen(f embed.FS, name string) (fs.File, error) {
	if fs.ErrNotExist == nil {
		fs.ErrNotExist = errors.New("file does not exist")
	}
	return nil, &fs.PathError{Op: "open", Path: name, Err: fs.ErrNotExist}
}

// hContextURL: "https://" ++ 0..n lower-case letters.
func hContextURL(n int) string {
	k := vLen(0, n)
	b := make([]byte, k)
	for i := 0; i < k; i++ {
		c := vU8()
		vAssume(c >= 'a' && c <= 'z')
		b[i] = c
	}
	return "https://" + string(b)
}

func hContains(l []string, s string) bool {
	for _, x := range l {
		if x == s {
			return true
		}
	}
	return false
}

func H20c_jsonld() {
	n := vParam("n", 2)
	var cfg ContextsConfig
	na := vLen(0, vParam("allow", 2))
	for i := 0; i < na; i++ {
		vTag("allowed")
		cfg.RemoteAllowList = append(cfg.RemoteAllowList, hContextURL(n))
	}
	cfg.LocalFileMapping = map[string]string{}
	var keys, files []string
	nm := vLen(0, vParam("mapped", 1))
	for i := 0; i < nm; i++ {
		vTag("mappedkey")
		k := hContextURL(n)
		vAssume(!hContains(keys, k))
		f := "assets/contexts/" + string(rune('a'+i)) + ".ldjson"
		cfg.LocalFileMapping[k] = f
		keys = append(keys, k)
		files = append(files, f)
	}
	strict := vBool()
	j := &jsonld{config: Config{Contexts: cfg}}
	err := j.Configure(core.ServerConfig{Strictmode: strict})
	vAssert(err == nil && j.DocumentLoader() != nil, "H20c_jsonld.configure_ok: Configure failed on a valid configuration")
	// set-up may only touch the mapped files
	for _, l := range hLoads {
		vAssert(hContains(files, l), "H20c_jsonld.setup_loads_mapped_only: Configure loaded something else than the locally mapped files")
	}
	vAssert(len(hLoads) == nm, "H20c_jsonld.setup_preloads: Configure did not preload every locally mapped context exactly once")
	hLoads = nil

	vTag("probe")
	u := hContextURL(n)
	listed := hContains(cfg.RemoteAllowList, u)
	mapped := hContains(keys, u)
	doc, err := j.DocumentLoader().LoadDocument(u)
	vAssert((doc == nil) != (err == nil), "H20c_jsonld.result_xor_error: both or neither of document and error")
	if strict {
		if !listed && !mapped {
			vCover("strict:unlisted")
			if na == 0 {
				vClass("empty allow-list")
			}
			vAssert(err != nil && len(hLoads) == 0, "H20c_jsonld.strict_unlisted_refused: strict mode fetched a context that is neither on the allow-list nor locally mapped")
		} else {
			vCover("strict:listed")
			vAssert(err == nil, "H20c_jsonld.strict_listed_loaded: strict mode refused a listed context")
		}
	} else {
		if !listed && !mapped {
			vCover("lenient:unlisted")
			vAssert(err == nil && len(hLoads) == 1 && hLoads[0] == u, "H20c_jsonld.lenient_unlisted_loaded: non-strict mode did not fetch an unlisted context")
		} else {
			vCover("lenient:listed")
			vAssert(err == nil, "H20c_jsonld.lenient_listed_loaded: non-strict mode refused a listed context")
		}
	}
	// whatever the mode: what is fetched is the context asked for (or nothing: mapped contexts are cached by the set-up)
	for _, l := range hLoads {
		vAssert(l == u && !mapped, "H20c_jsonld.fetches_what_was_asked: fetched something else than the requested context")
	}
}

func H20c_jsonld_twin() {
	j := &jsonld{config: Config{Contexts: ContextsConfig{RemoteAllowList: []string{hContextURL(1)}}}}
	if j.Configure(core.ServerConfig{Strictmode: true}) == nil {
		if _, err := j.DocumentLoader().LoadDocument(hContextURL(1)); err == nil && len(hLoads) == 1 {
			vAssert(false, "H20c_jsonld_twin.reach: reachable")
		}
	}
}
