//go:build verif

package revocation

import (
	"encoding/json"
	"errors"

	ssi "github.com/nuts-foundation/go-did"
	"github.com/nuts-foundation/go-did/vc"
	"github.com/nuts-foundation/nuts-node/vcr/types"
	"gorm.io/gorm"
)

// H19p: StatusList2021.Verify - index handling. The credential under verification carries one StatusList2021Entry
// whose statusListIndex is ANY string of 0..idxbytes bytes (empty, signs, non-digits, leading zeros, values beyond
// the list) and which names one of two lists; both lists are stored and issued by this node (no download), have
// arbitrary bits and an arbitrary purpose; the named list has any length 0..listbytes bytes (also the empty list), the other one byte.
// (H11c of C11 covers the refresh/download decisions with a two-character index and two-byte lists; H11a the raw
// bit string. This harness adds the lengths they fix.)
//
// Real: Verify, statusList, strconv.Atoi, bitstring.bit. Stubbed by contract: loadCredential (row by primary key),
// isManaged, go-did unmarshalAnySliceToTarget (typed entries -> vc.CredentialStatus with the raw member).

//verif:stub (*github.com/nuts-foundation/nuts-node/vcr/revocation.StatusList2021).loadCredential => hpLoad
//verif:stub (*github.com/nuts-foundation/nuts-node/vcr/revocation.StatusList2021).isManaged => hpIsManaged
//verif:stub github.com/nuts-foundation/go-did/vc.unmarshalAnySliceToTarget => hpUnmarshalAnySlice

var hpURLs = [2]string{"https://issuer.example/statuslist/1", "https://issuer.example/statuslist/2"}

type hpList struct {
	bits       []byte
	revocation bool
}

var hpLists [2]hpList
var hpLoaded []string

func hpLoad(cs *StatusList2021, subjectID string) (*credentialRecord, error) {
	hpLoaded = append(hpLoaded, subjectID)
	for u := range hpURLs {
		if hpURLs[u] == subjectID {
			purpose := statusPurposeSuspension
			if hpLists[u].revocation {
				purpose = StatusPurposeRevocation
			}
			return &credentialRecord{SubjectID: subjectID, StatusPurpose: purpose, Bitstring: append(bitstring(nil), hpLists[u].bits...), Raw: "{}"}, nil
		}
	}
	return nil, gorm.ErrRecordNotFound
}

func hpIsManaged(cs *StatusList2021, subjectID string) bool { return true }

func hpUnmarshalAnySlice(s []interface{}, target interface{}) error {
	t, ok := target.(*[]vc.CredentialStatus)
	if !ok {
		vCut("harness: unmarshalAnySliceToTarget into an unexpected target type")
		return nil
	}
	var out []vc.CredentialStatus
	for _, e := range s {
		x, ok := e.(StatusList2021Entry)
		if !ok {
			return errors.New("json: cannot unmarshal into Go value of type vc.CredentialStatus")
		}
		st := vc.CredentialStatus{ID: ssi.MustParseURI(x.ID), Type: x.Type}
		raw, _ := json.Marshal(e)
		vSetField(&st, "raw", raw)
		out = append(out, st)
	}
	*t = out
	return nil
}

// hpAtoi: reference reading of a decimal integer as strconv.Atoi documents it: optional sign, one or more digits.
func hpAtoi(s []byte) (valid bool, v int) {
	i := 0
	neg := false
	if len(s) > 0 && (s[0] == '-' || s[0] == '+') {
		neg = s[0] == '-'
		i = 1
	}
	if i == len(s) {
		return false, 0
	}
	valid = true
	for ; i < len(s); i++ {
		d := int(s[i]) - '0'
		valid = valid && d >= 0 && d <= 9
		v = v*10 + d
	}
	if neg {
		v = -v
	}
	return valid, v
}

func H19p() {
	hpLoaded = nil
	u := vChoice(2)
	hpLists[u] = hpList{bits: vBytes(vLen(0, vParam("listbytes", 2))), revocation: vBool()}
	hpLists[1-u] = hpList{bits: vBytes(1), revocation: vBool()} // the list the credential does not name
	idx := vBytes(vLen(0, vParam("idxbytes", 3)))
	var c vc.VerifiableCredential
	c.CredentialStatus = []interface{}{StatusList2021Entry{
		ID: hpURLs[u] + "#e", Type: StatusList2021EntryType, StatusPurpose: StatusPurposeRevocation,
		StatusListIndex: string(idx), StatusListCredential: hpURLs[u],
	}}
	cs := &StatusList2021{}
	err := cs.Verify(c)

	vAssert(len(hpLoaded) == 1 && hpLoaded[0] == hpURLs[u], "H19p.consults_the_named_list: the list consulted is not the one the credential names")
	list := hpLists[u]
	valid, j := hpAtoi(idx)
	inRange := valid && j >= 0 && j < 8*len(list.bits)
	revoked := err != nil && errors.Is(err, types.ErrRevoked)
	if !list.revocation || !inRange {
		vCover("unusable")
		vAssert(err != nil && !revoked, "H19p.unusable_entry_is_error: index not a number, negative or beyond the list, or list of another purpose - and no plain error")
		if valid && j >= 8*len(list.bits) {
			vCover("beyond-list")
		}
		if valid && j < 0 {
			vCover("negative")
		}
		if !valid {
			vCover("not-a-number")
		}
		return
	}
	bit := (list.bits[j/8]>>uint(7-j%8))&1 == 1
	if bit {
		vCover("revoked")
		vAssert(revoked, "H19p.set_bit_is_revoked: the bit at the credential's index is set but the credential is not reported revoked")
	} else {
		vCover("not-revoked")
		vAssert(err == nil, "H19p.revoked_only_by_own_bit: the bit at the credential's own index is clear but the credential does not pass")
	}
}

func H19p_twin() {
	hpLoaded = nil
	hpLists[0] = hpList{bits: vBytes(2), revocation: true}
	var c vc.VerifiableCredential
	c.CredentialStatus = []interface{}{StatusList2021Entry{
		ID: hpURLs[0] + "#e", Type: StatusList2021EntryType, StatusPurpose: StatusPurposeRevocation,
		StatusListIndex: "1" + string(vBytes(1)), StatusListCredential: hpURLs[0],
	}}
	err := (&StatusList2021{}).Verify(c)
	if err != nil && errors.Is(err, types.ErrRevoked) {
		vAssert(false, "H19p_twin.reach: reachable")
	}
}
