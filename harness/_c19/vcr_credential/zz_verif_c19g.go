//go:build verif

package credential

import (
	ssi "github.com/nuts-foundation/go-did"
	"github.com/nuts-foundation/go-did/vc"
)

// H19g: the Nuts credential validators on credentials (received from the network or an API client) in
// which every optional member may be absent: rejected with an error, never a panic.
func H19g() {
	cred := vc.VerifiableCredential{}
	if vBool() {
		vCover("has-id")
		id := ssi.MustParseURI("did:nuts:abc#1")
		cred.ID = &id
	} else {
		vCover("no-id")
	}
	if vBool() {
		cred.Issuer = ssi.MustParseURI("did:nuts:abc")
	}
	if vBool() {
		cred.Type = append(cred.Type, vc.VerifiableCredentialTypeV1URI())
	}
	if vBool() {
		cred.Type = append(cred.Type, *NutsOrganizationCredentialTypeURI)
	}
	if vBool() {
		cred.Context = append(cred.Context, vc.VCContextV1URI(), NutsV1ContextURI)
	}
	if cred.ID != nil && cred.IsType(*NutsOrganizationCredentialTypeURI) && len(cred.Context) == 2 && cred.Issuer.String() != "" {
		vCut("credentialSubject unmarshalling (encoding/json) is not modelled")
	}
	var err error
	switch vChoice(3) {
	case 0:
		err = validateNutsCredentialID(cred)
		if cred.ID == nil {
			vAssert(err != nil, "H19g.id_required: Nuts credential without id accepted")
		}
	case 1:
		err = nutsOrganizationCredentialValidator{}.Validate(cred)
		vAssert(err != nil, "H19g.org_incomplete_rejected: incomplete organization credential accepted")
	case 2:
		err = nutsAuthorizationCredentialValidator{}.Validate(cred)
		vAssert(err != nil, "H19g.authz_incomplete_rejected: incomplete authorization credential accepted")
	}
	_ = err
}

func H19g_twin() {
	cred := vc.VerifiableCredential{}
	id := ssi.MustParseURI("did:nuts:abc#1")
	cred.ID = &id
	if vBool() {
		cred.Issuer = ssi.MustParseURI("did:nuts:abc")
	}
	if validateNutsCredentialID(cred) == nil {
		vAssert(false, "H19g_twin.reach: reachable")
	}
}
