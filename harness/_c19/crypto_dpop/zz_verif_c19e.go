//go:build verif

package dpop

import (
	"crypto"

	"github.com/lestrrat-go/jwx/v2/jwk"
	"github.com/lestrrat-go/jwx/v2/jws"
	"github.com/lestrrat-go/jwx/v2/jwt"
)

// hTok is a jwt.Token value object: the private claims htu/htm hold ANY JSON value (jwx does not type
// private claims): nil, bool, float64, string, array, object.
type hTok struct {
	jwt.Token
	claims map[string]interface{}
}

func (t *hTok) Get(name string) (interface{}, bool) {
	v, ok := t.claims[name]
	return v, ok
}

type hJWK struct{ jwk.Key }

func (k hJWK) Thumbprint(h crypto.Hash) ([]byte, error) { return []byte{1, 2, 3}, nil }

type hHdr struct{ jws.Headers }

func (h hHdr) JWK() jwk.Key { return hJWK{} }

func vJSONScalarOrMore() interface{} {
	switch vChoice(6) {
	case 0:
		return nil
	case 1:
		return vBool()
	case 2:
		return vF64()
	case 3:
		return vString(vLen(0, 1))
	case 4:
		return []interface{}{"x"}
	}
	return map[string]interface{}{"a": "b"}
}

// H19e: a DPoP proof (sent by an API client) whose htu / htm claims are absent or of any JSON type, and
// whose htu / request URL are arbitrary strings: HTU, HTM and Match never panic; Match succeeds only if
// method and stripped URLs are equal.
func H19e() {
	claims := map[string]interface{}{}
	if vBool() {
		vCover("htu-present")
		if vBool() {
			vCover("htu-url-string")
			vTag("htu")
			claims[HTUKey] = vString(vLen(0, vParam("urllen", 3)))
		} else {
			claims[HTUKey] = vJSONScalarOrMore()
		}
	}
	if vBool() {
		if vBool() {
			claims[HTMKey] = "POST"
		} else {
			claims[HTMKey] = vJSONScalarOrMore()
		}
	}
	d := DPoP{Token: &hTok{claims: claims}, Headers: hHdr{}}
	_ = d.HTU()
	_ = d.HTM()
	vTag("url")
	reqURL := vString(vLen(0, vParam("urllen", 3)))
	ok, err := d.Match("AQID", "POST", reqURL)
	if ok {
		vCover("matched")
		vAssert(err == nil, "H19e.match_no_error: Match returned true with an error")
		vAssert(d.HTM() == "POST", "H19e.method_equal: Match succeeded for a different method")
	} else {
		vCover("mismatch")
		vAssert(err != nil, "H19e.mismatch_reports_reason: Match returned false without a reason")
	}
}

func H19e_twin() {
	d := DPoP{Token: &hTok{claims: map[string]interface{}{HTUKey: "https://a/" + vString(1), HTMKey: "POST"}}, Headers: hHdr{}}
	if ok, _ := d.Match("AQID", "POST", "http://a:80/b?x"); ok {
		vAssert(false, "H19e_twin.reach: reachable")
	}
}
