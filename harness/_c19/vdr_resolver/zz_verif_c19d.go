//go:build verif

package resolver

import (
	"github.com/nuts-foundation/go-did/did"
)

// vJSON builds an arbitrary JSON-decoded value (what encoding/json yields for interface{}):
// nil, bool, float64, string, []interface{}, map[string]interface{} - nesting up to depth.
func vJSON(depth int) interface{} {
	n := 4
	if depth > 0 {
		n = 6
	}
	switch vChoice(n) {
	case 0:
		return nil
	case 1:
		return vBool()
	case 2:
		return vF64()
	case 3:
		return vString(vLen(0, 1))
	case 4:
		k := vLen(0, 1)
		out := make([]interface{}, k)
		for i := range out {
			out[i] = vJSON(depth - 1)
		}
		return out
	}
	m := map[string]interface{}{}
	// members: optionally "@base", optionally one other member
	if vBool() {
		m["@base"] = vJSON(depth - 1)
	}
	if vBool() {
		m["@vocab"] = vJSON(depth - 1)
	}
	return m
}

// H19d: DIDKeyResolver.baseUrl on a DID document (received from a remote did:web server or a peer) whose
// @context is any JSON array: never panics; a returned base URL is the string member "@base" of a context object.
func H19d() {
	k := vLen(0, 2)
	doc := &did.Document{}
	for i := 0; i < k; i++ {
		doc.Context = append(doc.Context, vJSON(1))
	}
	base := DIDKeyResolver{}.baseUrl(doc)
	if base != nil {
		vCover("has-base")
		found := false
		for _, c := range doc.Context {
			if m, ok := c.(map[string]interface{}); ok {
				if s, ok := m["@base"].(string); ok && s == *base {
					found = true
				}
			}
		}
		vAssert(found, "H19d.base_from_context: returned base URL is not a string @base member of the context")
	} else {
		vCover("no-base")
	}
}

func H19d_twin() {
	doc := &did.Document{Context: []interface{}{vJSON(1)}}
	if b := (DIDKeyResolver{}).baseUrl(doc); b != nil && *b == "x" {
		vAssert(false, "H19d_twin.reach: reachable")
	}
}
