//go:build verif

package resolver

import (
	"errors"
	"strings"

	ssi "github.com/nuts-foundation/go-did"
	"github.com/nuts-foundation/go-did/did"
)

// H19m*: DIDServiceResolver.Resolve / ResolveEx (vdr/resolver/service.go) over a fake DIDResolver that holds a
// world of at most three DID documents (received from peers / remote did:web servers, i.e. untrusted).
//
// Real: Resolve, ResolveEx, GetDIDFromURL, IsServiceReference, ValidateServiceReference, go-did ParseDIDURL
// (regexp), ssi.ParseURI / net/url, Service.UnmarshalServiceEndpoint (JSON through the identity codec; a JSON
// kind other than string unmarshalled into a string is an UnmarshalTypeError: engine file x_r4vdr_jsonkind.go).
//
// The world is generated lazily: a document is drawn when the resolver is asked for it the first time and is
// the same on every later request (the fake keeps it; independent of the documentCache of the code under test).

var hmDIDs = []string{"did:nuts:a", "did:nuts:b", "did:web:c.example"}

const hmUnknownDID = "did:nuts:unknown"

var hmTypes = []string{"t0", "t1"}

// endpoint kinds of the designated service of a document
const (
	hmPlain      = iota // "https://example.com/x"
	hmMapWithRef        // {"k": "<valid reference>"} - an object is never a reference
	hmRef               // valid reference to (doc, type); doc == len(world) means the unknown DID
	// below: only with param confusion=1 (H19m1)
	hmNull
	hmBool
	hmNumber
	hmEmptyString
	hmArrayEmpty
	hmArrayOneRef     // [ "<valid reference>" ]: go-did treats a one-element array as its element
	hmArrayTwoRefs    // [ ref, ref ]: not a string
	hmArrayOfArrayRef // [[ref]]
	hmArrayOneNumber
	hmBadPath          // did:nuts:a/other?type=t0
	hmNoType           // did:nuts:a/serviceEndpoint
	hmTwoTypes         // did:nuts:a/serviceEndpoint?type=t0&type=t1
	hmExtraParam       // did:nuts:a/serviceEndpoint?type=t0&x=1
	hmBareScheme       // "did:"
	hmBadEscape        // did:nuts:%zz/serviceEndpoint?type=t0
	hmBadQueryEscape   // did:nuts:a/serviceEndpoint?type=%zz
	hmWithFragment     // did:nuts:a/serviceEndpoint?type=t0#f   (RFC006: fragments shall not be used - not asserted either way)
	hmUpperCaseScheme  // DID:nuts:a/serviceEndpoint?type=t0 - not a reference (prefix is case-sensitive): plain endpoint
	hmLeadingSpace     // " did:nuts:a/serviceEndpoint?type=t0" - plain endpoint
	hmControlCharacter // "did:nuts:a/serviceEndpoint?type=t0\n" - url.Parse refuses control characters
	hmKinds
)

type hmSvc struct {
	id      string
	typ     string // 2 bytes, second symbolic
	kind    int
	tgtDoc  int
	tgtType int
}

type hmDoc struct {
	doc  *did.Document
	svcs []hmSvc
}

type hmWorld struct {
	DIDResolver
	n         int // documents that exist: hmDIDs[:n]
	confusion bool
	junk      int // 1: documents may carry a second service J
	docs      [3]*hmDoc
	calls     []string
}

func hmRefString(w *hmWorld, doc, typ int) string {
	d := hmUnknownDID
	if doc < w.n {
		d = hmDIDs[doc]
	}
	return d + "/serviceEndpoint?type=" + hmTypes[typ]
}

func (w *hmWorld) endpoint(self int, s *hmSvc) interface{} {
	nk := hmRef + 1
	if w.confusion {
		nk = hmKinds
	}
	s.kind = vChoice(nk)
	ref := func() string {
		s.tgtDoc = vChoice(w.n + 1)
		s.tgtType = vChoice(len(hmTypes))
		return hmRefString(w, s.tgtDoc, s.tgtType)
	}
	selfRef := hmDIDs[self] + "/serviceEndpoint?type=t0"
	switch s.kind {
	case hmPlain:
		return "https://example.com/x"
	case hmMapWithRef:
		return map[string]interface{}{"k": selfRef}
	case hmRef:
		return ref()
	case hmNull:
		return nil
	case hmBool:
		return vBool()
	case hmNumber:
		return vF64()
	case hmEmptyString:
		return ""
	case hmArrayEmpty:
		return []interface{}{}
	case hmArrayOneRef:
		return []interface{}{ref()}
	case hmArrayTwoRefs:
		return []interface{}{selfRef, selfRef}
	case hmArrayOfArrayRef:
		return []interface{}{[]interface{}{selfRef}}
	case hmArrayOneNumber:
		return []interface{}{vF64()}
	case hmBadPath:
		return hmDIDs[self] + "/other?type=t0"
	case hmNoType:
		return hmDIDs[self] + "/serviceEndpoint"
	case hmTwoTypes:
		return hmDIDs[self] + "/serviceEndpoint?type=t0&type=t1"
	case hmExtraParam:
		return hmDIDs[self] + "/serviceEndpoint?type=t0&x=1"
	case hmBareScheme:
		return "did:"
	case hmBadEscape:
		return "did:nuts:%zz/serviceEndpoint?type=t0"
	case hmBadQueryEscape:
		return hmDIDs[self] + "/serviceEndpoint?type=%zz"
	case hmWithFragment:
		return selfRef + "#f"
	case hmUpperCaseScheme:
		return "DID" + selfRef[3:]
	case hmLeadingSpace:
		return " " + selfRef
	case hmControlCharacter:
		return selfRef + "\n"
	}
	return nil
}

// generate draws document i: no service, a designated service X (arbitrary endpoint) alone, or (junk=1) together
// with a second service J (plain endpoint) before or after it. Service types are "t" + an arbitrary byte.
func (w *hmWorld) generate(i int) *hmDoc {
	d := &hmDoc{doc: &did.Document{ID: did.MustParseDID(hmDIDs[i])}}
	// 0: no services, 1: [X], 2: [J, X], 3: [X, J]
	shape := vChoice(2 + 2*w.junk)
	if shape == 0 {
		return d
	}
	x := hmSvc{id: hmDIDs[i] + "#x", typ: "t" + vString(1)}
	xe := w.endpoint(i, &x)
	j := hmSvc{id: hmDIDs[i] + "#j", typ: "t" + vString(1), kind: hmPlain}
	var je interface{} = "https://example.com/j"
	add := func(s hmSvc, e interface{}) {
		d.svcs = append(d.svcs, s)
		d.doc.Service = append(d.doc.Service, did.Service{ID: ssi.MustParseURI(s.id), Type: s.typ, ServiceEndpoint: e})
	}
	if shape == 1 {
		add(x, xe)
	} else if shape == 2 {
		add(j, je)
		add(x, xe)
	} else {
		add(x, xe)
		add(j, je)
	}
	return d
}

func (w *hmWorld) index(id string) int {
	for i := 0; i < w.n; i++ {
		if hmDIDs[i] == id {
			return i
		}
	}
	return -1
}

func (w *hmWorld) Resolve(id did.DID, md *ResolveMetadata) (*did.Document, *DocumentMetadata, error) {
	key := id.String()
	w.calls = append(w.calls, key)
	i := w.index(key)
	if i < 0 {
		return nil, nil, ErrNotFound
	}
	if w.docs[i] == nil {
		w.docs[i] = w.generate(i)
	}
	return w.docs[i].doc, &DocumentMetadata{}, nil
}

const (
	hmExpOK = iota
	hmExpTooDeep
	hmExpNotFound
	hmExpNoService
	hmExpBadReference
	hmExpNeverAsked
)

// hmWalk is the reference: follow the chain from (doc, typ) through the world as drawn, at most maxDepth lookups.
// Returns the expectation, the service the chain ends at, the number of references followed and the documents reached.
func hmWalk(w *hmWorld, doc, typ, maxDepth int) (exp int, end *hmSvc, hops int, reached [4]bool) {
	for lookups := 0; ; lookups++ {
		if lookups >= maxDepth {
			return hmExpTooDeep, nil, hops, reached
		}
		if doc >= w.n {
			return hmExpNotFound, nil, hops, reached
		}
		d := w.docs[doc]
		if d == nil {
			return hmExpNeverAsked, nil, hops, reached
		}
		reached[doc] = true
		var s *hmSvc
		for k := range d.svcs {
			if d.svcs[k].typ == hmTypes[typ] {
				s = &d.svcs[k]
				break
			}
		}
		if s == nil {
			return hmExpNoService, nil, hops, reached
		}
		switch s.kind {
		case hmRef, hmArrayOneRef:
			doc, typ = s.tgtDoc, s.tgtType
			hops++
		case hmBadPath, hmNoType, hmTwoTypes, hmExtraParam, hmBareScheme, hmBadEscape, hmBadQueryEscape, hmControlCharacter:
			return hmExpBadReference, nil, hops, reached
		case hmWithFragment:
			// a reference with a fragment: RFC006 forbids it, the validator does not look at it. Not part of C19:
			// whatever the code does (follow or refuse) is accepted; the walk follows it like the code under test.
			doc, typ = doc, 0
			hops++
		default:
			return hmExpOK, s, hops, reached
		}
	}
}

func hmCheck(id string, w *hmWorld, q, t, maxDepth int, svc did.Service, err error) {
	exp, end, hops, reached := hmWalk(w, q, t, maxDepth)
	if hops >= len(w.calls) && hops > 0 {
		vCover("document-seen-twice")
	}
	vAssert(exp != hmExpNeverAsked, id+".chain_documents_resolved: the walk reaches a document the resolver was never asked for")
	// termination within the documented depth: at most maxDepth documents are looked up, whatever the world
	bound := maxDepth
	if bound < 0 {
		bound = 0
	}
	vAssert(len(w.calls) <= bound, id+".lookups_bounded_by_max_depth: more documents were resolved than maxDepth allows")
	for _, c := range w.calls {
		if c == hmUnknownDID {
			vAssert(exp == hmExpNotFound, id+".only_chain_documents_resolved: a document that is not on the reference chain was resolved")
			continue
		}
		k := w.index(c)
		vAssert(k >= 0 && reached[k], id+".only_chain_documents_resolved: a document that is not on the reference chain was resolved")
	}
	if err == nil {
		vCover("resolved")
		vAssert(exp == hmExpOK, id+".service_only_from_complete_chain: a service was returned although the chain is too deep, broken, or ends in a malformed reference")
		if exp != hmExpOK {
			return
		}
		vAssert(hops < maxDepth, id+".references_within_max_depth: more references were followed than maxDepth allows")
		vAssert(svc.ID.String() == end.id, id+".service_is_chain_end: the returned service is not the service the reference chain ends at")
		vAssert(svc.Type == end.typ, id+".service_has_requested_type: the returned service is not of the type the last reference asks for")
		if s, isString := svc.ServiceEndpoint.(string); isString {
			vAssert(!strings.HasPrefix(s, "did:"), id+".result_is_not_a_reference: the returned service endpoint is itself a reference")
		}
		if hops > 0 {
			vCover("resolved-through-reference")
		}
		return
	}
	vAssert(svc.ID.String() == "" && svc.Type == "" && svc.ServiceEndpoint == nil, id+".error_returns_no_service: an error was returned together with a service")
	switch exp {
	case hmExpOK:
		vAssert(false, id+".complete_chain_resolves: a chain that ends at a non-reference within maxDepth lookups was refused")
	case hmExpTooDeep:
		vCover("too-deep")
		vAssert(errors.Is(err, ErrServiceReferenceToDeep), id+".too_deep_reported: a chain longer than maxDepth is not reported as ErrServiceReferenceToDeep")
	case hmExpNotFound:
		vCover("unknown-did")
		vAssert(errors.Is(err, ErrNotFound), id+".unknown_did_reported: a reference to an unknown DID does not report the resolver's error")
	case hmExpNoService:
		vCover("no-such-service")
		vAssert(errors.Is(err, ErrServiceNotFound), id+".missing_service_reported: a reference to a missing service is not reported as ErrServiceNotFound")
	case hmExpBadReference:
		vCover("malformed-reference")
	}
}

// H19m: chains, cycles, self references, references to unknown DIDs - endpoints are plain strings, objects or
// valid references. maxDepth is arbitrary (also zero and negative).
func H19m() {
	w := &hmWorld{n: vParam("docs", 2), junk: vParam("junk", 0)}
	q := vChoice(w.n + 1)
	t := vChoice(len(hmTypes))
	maxDepth := vRange(-1, vParam("maxdepth", 4))
	query := ssi.MustParseURI(hmRefString(w, q, t))
	svc, err := DIDServiceResolver{Resolver: w}.Resolve(query, maxDepth)
	hmCheck("H19m", w, q, t, maxDepth, svc, err)
	if len(w.calls) >= 3 {
		vCover("three-lookups")
	}
}

func H19m_twin() {
	w := &hmWorld{n: 1}
	_, err := DIDServiceResolver{Resolver: w}.Resolve(ssi.MustParseURI("did:nuts:a/serviceEndpoint?type=t0"), 2)
	if err != nil && errors.Is(err, ErrServiceReferenceToDeep) && len(w.calls) == 1 {
		vAssert(false, "H19m_twin.reach: reachable")
	}
}

// H19m1: type confusion. One or two documents whose designated service endpoint is any JSON type or a malformed
// reference; default depth.
func H19m1() {
	w := &hmWorld{n: vParam("cdocs", 1), confusion: true, junk: 1}
	q := 0
	t := vChoice(len(hmTypes))
	maxDepth := DefaultMaxServiceReferenceDepth
	query := ssi.MustParseURI(hmRefString(w, q, t))
	svc, err := DIDServiceResolver{Resolver: w}.Resolve(query, maxDepth)
	hmCheck("H19m1", w, q, t, maxDepth, svc, err)
	if err == nil {
		switch svc.ServiceEndpoint.(type) {
		case nil:
			vCover("returned-null")
		case bool:
			vCover("returned-bool")
		case float64:
			vCover("returned-number")
		case []interface{}:
			vCover("returned-array")
		case map[string]interface{}:
			vCover("returned-object")
		}
	}
}

func H19m1_twin() {
	w := &hmWorld{n: 1, confusion: true, junk: 1}
	_, err := DIDServiceResolver{Resolver: w}.Resolve(ssi.MustParseURI("did:nuts:a/serviceEndpoint?type=t0"), 5)
	var qe ServiceQueryError
	if err != nil && errors.As(err, &qe) && w.docs[0] != nil && len(w.docs[0].svcs) == 2 && w.docs[0].svcs[0].kind == hmTwoTypes {
		vAssert(false, "H19m1_twin.reach: reachable")
	}
}

// H19m2: IsServiceReference / ssi.ParseURI / ValidateServiceReference / GetDIDFromURL on the strings obtained from
// the valid reference "did:nuts:a/serviceEndpoint?type=t0" by inserting 0..symbytes arbitrary bytes at one of a few
// positions (inside the id, at the id/path boundary, at the end of the path, inside the query key, at the end).
var hm2Splits = []int{9, 10, 26, 30, 34}

const hm2Valid = "did:nuts:a/serviceEndpoint?type=t0"

func H19m2() {
	cut := hm2Splits[vChoice(len(hm2Splits))]
	k := vLen(0, vParam("symbytes", 1))
	s := hm2Valid[:cut] + vString(k) + hm2Valid[cut:]
	hm2Check(s)
}

func hm2Check(s string) {
	vAssert(IsServiceReference(s), "H19m2.did_prefix_is_reference: a string starting with did: is not seen as a reference")
	d, err := GetDIDFromURL(s)
	if err == nil {
		vCover("did-url")
		ds := d.String()
		if !d.Empty() {
			vAssert(strings.HasPrefix(s, ds), "H19m2.did_is_prefix_of_url: the DID taken from a DID URL is not the leading part of that URL")
			if len(s) > len(ds) && strings.HasPrefix(s, ds) {
				c := s[len(ds)]
				vAssert(c == '/' || c == '?' || c == '#', "H19m2.did_ends_at_delimiter: the DID taken from a DID URL ends in the middle of the identifier")
			}
		}
	} else {
		vCover("not-a-did-url")
	}
	u, perr := ssi.ParseURI(s)
	if perr != nil {
		vCover("not-a-uri")
		return
	}
	if ValidateServiceReference(*u) == nil {
		vCover("valid-reference")
		// as ResolveEx does: the DID is taken from the parsed URI's string form (which re-escapes the fragment)
		d2, err2 := GetDIDFromURL(u.String())
		vAssert(err2 == nil && !d2.Empty() && strings.HasPrefix(s, d2.String()), "H19m2.valid_reference_has_did: a reference was accepted that carries no DID")
		vAssert(strings.Contains(s, "/serviceEndpoint?"), "H19m2.valid_reference_has_service_path: a reference was accepted whose path is not /serviceEndpoint followed by a query")
	} else {
		vCover("invalid-reference")
	}
}

func H19m2_twin() {
	s := hm2Valid[:26] + vString(1) + hm2Valid[26:]
	u, err := ssi.ParseURI(s)
	if err == nil && ValidateServiceReference(*u) != nil {
		vAssert(false, "H19m2_twin.reach: reachable")
	}
}
