//go:build verif

package v2

import (
	"context"
	"errors"
	"time"

	"github.com/nuts-foundation/nuts-node/crypto/hash"
	"github.com/nuts-foundation/nuts-node/network/dag"
	"github.com/nuts-foundation/nuts-node/network/dag/tree"
	"github.com/nuts-foundation/nuts-node/network/transport"
	"github.com/nuts-foundation/nuts-node/network/transport/grpc"
	"github.com/nuts-foundation/nuts-node/network/transport/v2/gossip"
)

// Fakes of the C19 network slice (copies of the value-object fakes of harness/network/transport/v2, reduced to
// what the message handlers use). This directory is loaded on its own (registry key hdir).

// The protobuf runtime registration of the generated message types (reflection, unsafe) is not needed by the
// handlers: the message structs are used as plain Go values.
//verif:stub github.com/nuts-foundation/nuts-node/network/transport/v2.file_transport_v2_protocol_proto_init => noop
//verif:stub github.com/nuts-foundation/nuts-node/network/transport/grpc.file_transport_grpc_testprotocol_proto_init => noop

// Conversation ids: uuid.New() (crypto/rand) is replaced by a counter. Real ids are unique; so are these.
//verif:stub github.com/nuts-foundation/nuts-node/network/transport/v2.newConversationID => hNewCID

var hCIDCount int

func hNewCID() conversationID {
	hCIDCount++
	return conversationID("cid-" + string(rune('0'+hCIDCount)))
}

// The clock stands still (the handlers only stamp an expiry).
func vhNow() time.Time { return time.Unix(1700000000, 0) }

// handleASync starts a goroutine per message and only logs the handler's error. The harness runs the handler
// in place and keeps the error, so that "rejected" is observable; the dispatch in protocol.handle stays real.
//verif:stub github.com/nuts-foundation/nuts-node/network/transport/v2.handleASync => hSync

var hAsyncErr error
var hAsyncCalls int

func hSync(ctx context.Context, connection grpc.Connection, envelope *Envelope, f handleFunc) error {
	hAsyncCalls++
	hAsyncErr = f(ctx, connection, envelope)
	return nil
}

// Received transactions: dag.ParseTransaction (JWS parsing, jwx) is replaced by a decoder of the harness encoding
// {index, tag}: it yields the registered transaction value object or fails. Anything that is not exactly the two
// bytes of a registered transaction is "not a transaction".
//verif:stub github.com/nuts-foundation/nuts-node/network/dag.ParseTransaction => hParseTx

var hParseTable []*hTx

func hParseTx(input []byte) (dag.Transaction, error) {
	if len(input) == 2 && int(input[0]) < len(hParseTable) {
		if t := hParseTable[int(input[0])]; t.data[1] == input[1] {
			return t, nil
		}
	}
	return nil, errors.New("harness: not a transaction")
}

// hTx is a dag.Transaction value object (the handlers only use Ref, PAL, PayloadHash, Data, Clock).
type hTx struct {
	dag.Transaction
	ref         hash.SHA256Hash
	payloadHash hash.SHA256Hash
	clock       uint32
	pal         [][]byte
	data        []byte
}

func (t *hTx) Ref() hash.SHA256Hash         { return t.ref }
func (t *hTx) PayloadHash() hash.SHA256Hash { return t.payloadHash }
func (t *hTx) Clock() uint32                { return t.clock }
func (t *hTx) PAL() [][]byte                { return t.pal }
func (t *hTx) Data() []byte                 { return t.data }

type hPayload struct {
	hash hash.SHA256Hash
	data []byte
}

type hWrite struct {
	tx   dag.Transaction
	hash hash.SHA256Hash
	data []byte
}

type hRangeCall struct{ start, end uint32 }

// hState is a dag.State that answers from value lists and records what the handlers do with it.
type hState struct {
	dag.State
	txs      []*hTx
	payloads []hPayload
	xor      hash.SHA256Hash
	clock    uint32
	iblt     *tree.Iblt
	addErr   func(tx dag.Transaction) error
	// records
	writes      []hWrite
	adds        []dag.Transaction
	addPayloads [][]byte
	ranges      []hRangeCall
	gets        []hash.SHA256Hash
	ibltReqs    []uint32
	correct     int
	incorrect   int
}

func (s *hState) GetTransaction(_ context.Context, ref hash.SHA256Hash) (dag.Transaction, error) {
	s.gets = append(s.gets, ref)
	for _, t := range s.txs {
		if t.ref == ref {
			return t, nil
		}
	}
	return nil, dag.ErrTransactionNotFound
}

func (s *hState) IsPresent(_ context.Context, ref hash.SHA256Hash) (bool, error) {
	for _, t := range s.txs {
		if t.ref == ref {
			return true, nil
		}
	}
	return false, nil
}

func (s *hState) ReadPayload(_ context.Context, h hash.SHA256Hash) ([]byte, error) {
	for _, p := range s.payloads {
		if p.hash == h {
			return p.data, nil
		}
	}
	return nil, dag.ErrPayloadNotFound
}

func (s *hState) WritePayload(_ context.Context, tx dag.Transaction, h hash.SHA256Hash, data []byte) error {
	s.writes = append(s.writes, hWrite{tx: tx, hash: h, data: data})
	return nil
}

func (s *hState) FindBetweenLC(_ context.Context, start, end uint32) ([]dag.Transaction, error) {
	s.ranges = append(s.ranges, hRangeCall{start, end})
	// contract of dag.State.FindBetweenLC: the transactions with start <= clock < end, ordered by clock
	var sel []*hTx
	for _, t := range s.txs {
		if t.clock >= start && t.clock < end {
			i := len(sel)
			sel = append(sel, t)
			for i > 0 && sel[i-1].clock > t.clock {
				sel[i] = sel[i-1]
				i--
			}
			sel[i] = t
		}
	}
	var out []dag.Transaction
	for _, t := range sel {
		out = append(out, t)
	}
	return out, nil
}

func (s *hState) Add(_ context.Context, tx dag.Transaction, payload []byte) error {
	if s.addErr != nil {
		if err := s.addErr(tx); err != nil {
			return err
		}
	}
	s.adds = append(s.adds, tx)
	s.addPayloads = append(s.addPayloads, payload)
	return nil
}

func (s *hState) XOR(_ uint32) (hash.SHA256Hash, uint32) { return s.xor, s.clock }

func (s *hState) IBLT(req uint32) (tree.Iblt, uint32) {
	s.ibltReqs = append(s.ibltReqs, req)
	if s.iblt == nil {
		return *tree.NewIblt(dag.IbltNumBuckets), s.clock
	}
	return *(s.iblt.Clone().(*tree.Iblt)), s.clock
}

func (s *hState) CorrectStateDetected()   { s.correct++ }
func (s *hState) IncorrectStateDetected() { s.incorrect++ }

// hConn is a grpc.Connection (interface with unexported methods: embedded nil interface) that records sends.
type hConn struct {
	grpc.Connection
	peer transport.Peer
	sent []*Envelope
}

func (c *hConn) Peer() transport.Peer { return c.peer }
func (c *hConn) Send(_ grpc.Protocol, envelope interface{}, _ bool) error {
	c.sent = append(c.sent, envelope.(*Envelope))
	return nil
}

// hNotifier is the private payload job queue: only Finished is used by the handlers.
type hNotifier struct {
	dag.Notifier
	finished []hash.SHA256Hash
}

func (n *hNotifier) Finished(ref hash.SHA256Hash) error {
	n.finished = append(n.finished, ref)
	return nil
}

// hGossip is the gossip.Manager: records what the handler reports as received.
type hGossip struct {
	gossip.Manager
	received [][]hash.SHA256Hash
}

func (g *hGossip) GossipReceived(_ transport.Peer, refs ...hash.SHA256Hash) {
	g.received = append(g.received, append([]hash.SHA256Hash(nil), refs...))
}

// hHash: a hash whose first k bytes are symbolic, the rest zero.
func hHash(k int) hash.SHA256Hash {
	var h hash.SHA256Hash
	b := vBytes(k)
	for i := 0; i < k; i++ {
		h[i] = b[i]
	}
	return h
}
