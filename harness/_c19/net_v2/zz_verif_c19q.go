//go:build verif

package v2

import (
	"context"

	"github.com/nuts-foundation/go-did/did"
	"github.com/nuts-foundation/nuts-node/crypto/hash"
	"github.com/nuts-foundation/nuts-node/network/dag"
	"github.com/nuts-foundation/nuts-node/network/dag/tree"
	"github.com/nuts-foundation/nuts-node/network/transport"
)

// C19, protocol v2 message handlers: every harness hands ONE decoded envelope to the real protocol.Handle (real
// dispatch in protocol.handle; handleASync runs the handler in place, see the fakes file; a queued TransactionList
// is taken from the real channel and given to the real list handler function as transactionListHandler.start does).
// The envelope fields range over what protobuf decoding can yield: bytes fields of any length (absent, empty, short,
// exact, long), repeated fields of 0..2 non-nil elements, arbitrary uint32, conversation ids of any length, absent
// oneof. Panic-freedom and termination are the engine's built-in obligations on every path; the assertions state
// the second half of C19: what is rejected or ignored leaves the dag.State without Add/WritePayload and the
// connection without a message that carries transaction or payload data.

type hqEnv struct {
	p    *protocol
	st   *hState
	conn *hConn
	g    *hGossip
	jobs *hNotifier
}

func hqProto(st *hState) *hqEnv {
	ctx := context.Background()
	g, jobs := &hGossip{}, &hNotifier{}
	p := &protocol{state: st, ctx: ctx, cMan: newConversationManager(maxValidity), gManager: g, privatePayloadReceiver: jobs}
	p.sender = p
	p.listHandler = newTransactionListHandler(ctx, p.handleTransactionList)
	p.diagnosticsMan = newPeerDiagnosticsManager(nil, nil)
	hParseTable = nil
	return &hqEnv{p: p, st: st, conn: &hConn{peer: transport.Peer{ID: "peer", Address: "addr"}}, g: g, jobs: jobs}
}

// deliver: what the gRPC layer does with a decoded envelope. ret is what the peer is told; herr is the handler's
// own verdict (only logged by the node).
func (e *hqEnv) deliver(env *Envelope) (ret, herr error, handled bool) {
	hAsyncErr, hAsyncCalls = nil, 0
	ret = e.p.Handle(e.conn, env)
	handled, herr = hAsyncCalls > 0, hAsyncErr
	select {
	case pe := <-e.p.listHandler.ch:
		handled = true
		herr = e.p.listHandler.fn(e.p.listHandler.ctx, pe.connection, pe.envelope)
	default:
	}
	return
}

func hqDID() did.DID { return did.DID{Method: "nuts", ID: "x", DecodedID: "x"} }

// hqRefLens: the lengths that make a difference to a 32 byte field (absent/empty, one byte, one short, exact, one long).
var hqRefLens = []int{0, 1, 31, 32, 33}

// hqBytes draws a bytes field of a message: with every=true any length 0..33, otherwise one of hqRefLens.
// A singular field of length 0 is absent (nil) or present and empty; an element of a repeated field is never nil.
func hqBytes(every, repeated bool) []byte {
	var n int
	if every {
		n = vLen(0, 33)
	} else {
		n = hqRefLens[vChoice(len(hqRefLens))]
	}
	if n == 0 {
		if repeated || vChoice(2) == 1 {
			return []byte{}
		}
		return nil
	}
	return vBytes(n)
}

// hqSparseRef: like hqBytes for a singular field, but only the first two bytes and the last byte are symbolic, the
// others zero (the stored references have this shape; the handler formats the reference into its error text, and
// hex encoding of 32 symbolic bytes makes every later solver query slow).
func hqSparseRef(every bool) []byte {
	var n int
	if every {
		n = vLen(0, 33)
	} else {
		n = hqRefLens[vChoice(len(hqRefLens))]
	}
	if n == 0 {
		if vChoice(2) == 1 {
			return []byte{}
		}
		return nil
	}
	b, s := make([]byte, n), vBytes(3)
	b[0] = s[0]
	if n > 1 {
		b[1] = s[1]
	}
	if n > 2 {
		b[n-1] = s[2]
	}
	return b
}

// hqCid draws a conversation id: absent, or any of the lengths 1..max.
func hqCid(max int) []byte {
	n := vLen(0, max)
	if n == 0 {
		return nil
	}
	return vBytes(n)
}

// hqOnlyQueries: whatever the node sent is a request (State, range query, list query with well-formed references)
// that belongs to a live conversation - never a message carrying transactions or payloads.
func (e *hqEnv) onlyQueries(id string) {
	for _, m := range e.conn.sent {
		var c []byte
		switch q := m.Message.(type) {
		case *Envelope_State:
			c = q.State.ConversationID
			vAssert(len(q.State.XOR) == 32, id+".sent_state_wellformed: State request with an XOR that is not 32 bytes")
		case *Envelope_TransactionRangeQuery:
			c = q.TransactionRangeQuery.ConversationID
		case *Envelope_TransactionListQuery:
			c = q.TransactionListQuery.ConversationID
			for _, r := range q.TransactionListQuery.Refs {
				vAssert(len(r) == 32, id+".sent_refs_wellformed: list query with a reference that is not 32 bytes")
			}
		default:
			vAssert(false, id+".sent_only_requests: a message other than a request was sent")
		}
		vAssert(len(c) > 0 && e.p.cMan.conversations[string(c)] != nil, id+".sent_has_conversation: request without a live conversation")
	}
}

func (e *hqEnv) stateUntouched(id string) {
	vAssert(len(e.st.adds) == 0 && len(e.st.writes) == 0 && len(e.jobs.finished) == 0, id+".state_untouched: the handler changed stored state")
}

// ---------------------------------------------------------------------------------------------
// H19q0 dispatch: absent oneof, and every kind with an all-default (empty) sub message
// ---------------------------------------------------------------------------------------------

func H19q0() {
	st := &hState{xor: hHash(1), clock: vU32()}
	e := hqProto(st)
	env := &Envelope{}
	kind := vChoice(10)
	switch kind {
	case 0:
		vCover("absent-oneof")
	case 1:
		env.Message = &Envelope_Gossip{Gossip: &Gossip{}}
	case 2:
		env.Message = &Envelope_State{State: &State{}}
	case 3:
		env.Message = &Envelope_TransactionSet{TransactionSet: &TransactionSet{}}
	case 4:
		env.Message = &Envelope_TransactionListQuery{TransactionListQuery: &TransactionListQuery{}}
	case 5:
		env.Message = &Envelope_TransactionRangeQuery{TransactionRangeQuery: &TransactionRangeQuery{}}
	case 6:
		env.Message = &Envelope_TransactionPayloadQuery{TransactionPayloadQuery: &TransactionPayloadQuery{}}
	case 7:
		env.Message = &Envelope_TransactionPayload{TransactionPayload: &TransactionPayload{}}
	case 8:
		env.Message = &Envelope_TransactionList{TransactionList: &TransactionList{}}
	case 9:
		env.Message = &Envelope_DiagnosticsBroadcast{DiagnosticsBroadcast: &Diagnostics{}}
	}
	ret, herr, handled := e.deliver(env)
	e.stateUntouched("H19q0")
	if kind == 0 {
		vAssert(ret == errMessageNotSupported && !handled, "H19q0.absent_oneof_rejected: an envelope without message was not rejected as unsupported")
		vAssert(len(e.conn.sent) == 0, "H19q0.absent_oneof_silent: an envelope without message was answered")
		return
	}
	vCover("empty-message")
	vAssert(ret == nil && handled, "H19q0.dispatched: a supported message kind did not reach its handler")
	switch kind {
	case 3, 5, 6, 7, 8:
		// answers to nothing we asked / empty range / no reference (a payload query whose reference field is not
		// 32 bytes is malformed since F-38; it used to be answered with an empty payload): rejected
		vCover("empty-rejected")
		vAssert(herr != nil && len(e.conn.sent) == 0, "H19q0.empty_rejected: an all-default answer or query was not rejected")
	case 9:
		vAssert(len(e.conn.sent) == 0, "H19q0.diagnostics_silent: diagnostics answered")
	case 2:
		// State request with the zero XOR: answered with our filter (our XOR is not zero) or not at all
		for _, m := range e.conn.sent {
			vAssert(m.GetTransactionSet() != nil, "H19q0.empty_state_answer: State request answered with something else than a TransactionSet")
		}
	default:
		e.onlyQueries("H19q0")
	}
}

func H19q0_twin() {
	e := hqProto(&hState{xor: hHash(1), clock: vU32()})
	ret, _, handled := e.deliver(&Envelope{Message: &Envelope_Gossip{Gossip: &Gossip{XOR: make([]byte, 32), LC: vU32()}}})
	if ret == nil && handled && len(e.conn.sent) == 1 && e.conn.sent[0].GetState() != nil {
		vAssert(false, "H19q0_twin.reach: reachable")
	}
}

// ---------------------------------------------------------------------------------------------
// H19qa Gossip
// ---------------------------------------------------------------------------------------------

func hqGossip(every bool) (*hqEnv, *Gossip) {
	st := &hState{xor: hHash(2), clock: vU32()}
	if vChoice(2) == 1 {
		st.txs = []*hTx{{ref: hHash(2)}}
	}
	e := hqProto(st)
	focus := -1
	if every {
		focus = vChoice(3)
	}
	msg := &Gossip{XOR: hqBytes(focus == 0, false), LC: vU32()}
	nr := vLen(0, 2)
	for i := 0; i < nr; i++ {
		msg.Transactions = append(msg.Transactions, hqBytes(focus == 1+i, true))
	}
	return e, msg
}

func H19qa() {
	e, msg := hqGossip(vParam("every", 0) == 1)
	ret, herr, handled := e.deliver(&Envelope{Message: &Envelope_Gossip{Gossip: msg}})
	vAssert(ret == nil && handled, "H19qa.dispatched: Gossip did not reach its handler")
	e.stateUntouched("H19qa")
	vAssert(len(e.conn.sent) <= 1, "H19qa.at_most_one_request: more than one message sent for one Gossip")
	e.onlyQueries("H19qa")
	if herr != nil {
		vAssert(len(e.conn.sent) == 0, "H19qa.rejected_is_silent: Gossip rejected but a message was sent")
	}
	if len(e.conn.sent) == 0 {
		vCover("silent")
	}
	for _, m := range e.conn.sent {
		if q := m.GetTransactionListQuery(); q != nil {
			vCover("list-query")
			// what is asked for was gossiped and is not stored
			for _, r := range q.Refs {
				gossiped := false
				for _, w := range msg.Transactions {
					gossiped = gossiped || hash.FromSlice(w) == hash.FromSlice(r)
				}
				vAssert(gossiped, "H19qa.query_only_gossiped: list query for a reference that was not gossiped")
				for _, t := range e.st.txs {
					vAssert(t.ref != hash.FromSlice(r), "H19qa.query_only_unknown: list query for a stored transaction")
				}
			}
		} else {
			vCover("state")
		}
	}
}

func H19qa_twin() {
	e := hqProto(&hState{xor: hHash(2), clock: vU32()})
	msg := &Gossip{XOR: vBytes(32), LC: vU32(), Transactions: [][]byte{vBytes(32)}}
	_, _, _ = e.deliver(&Envelope{Message: &Envelope_Gossip{Gossip: msg}})
	if len(e.conn.sent) == 1 && e.conn.sent[0].GetTransactionListQuery() != nil && msg.LC == 5 {
		vAssert(false, "H19qa_twin.reach: reachable")
	}
}

// ---------------------------------------------------------------------------------------------
// H19qb State
// ---------------------------------------------------------------------------------------------

func H19qb() {
	st := &hState{xor: hHash(2), clock: vU32()}
	e := hqProto(st)
	msg := &State{ConversationID: hqCid(vParam("cid", 3)), XOR: hqBytes(vParam("every", 0) == 1, false), LC: vU32()}
	ret, herr, handled := e.deliver(&Envelope{Message: &Envelope_State{State: msg}})
	vAssert(ret == nil && handled, "H19qb.dispatched: State did not reach its handler")
	e.stateUntouched("H19qb")
	vAssert(len(e.conn.sent) <= 1, "H19qb.at_most_one_answer: more than one answer to a State request")
	if herr != nil {
		vAssert(len(e.conn.sent) == 0, "H19qb.rejected_is_silent: State rejected but a message was sent")
	}
	for _, m := range e.conn.sent {
		vCover("answered")
		a := m.GetTransactionSet()
		vAssert(a != nil, "H19qb.answer_type: answer to a State request is not a TransactionSet")
		if a != nil {
			vAssert(string(a.ConversationID) == string(msg.ConversationID) && a.LCReq == msg.LC, "H19qb.answer_echo: answer does not echo conversation id and requested clock")
			vAssert(len(a.IBLT) == 44*int(dag.IbltNumBuckets), "H19qb.answer_filter_wellformed: answer carries a filter of the wrong size")
		}
	}
	if len(e.conn.sent) == 0 {
		vCover("silent")
	}
}

func H19qb_twin() {
	e := hqProto(&hState{xor: hHash(2), clock: vU32()})
	msg := &State{ConversationID: hqCid(1), XOR: hqBytes(false, false), LC: vU32()}
	_, _, _ = e.deliver(&Envelope{Message: &Envelope_State{State: msg}})
	if len(e.conn.sent) == 1 && len(msg.XOR) == 32 && msg.LC == 7 {
		vAssert(false, "H19qb_twin.reach: reachable")
	}
}

// ---------------------------------------------------------------------------------------------
// H19qc TransactionSet
// ---------------------------------------------------------------------------------------------

const (
	hqFAbsent = iota
	hqFEmpty
	hqFOneByte
	hqFShortBucket   // 43 bytes
	hqFOneBucket     // 44 arbitrary bytes: one bucket instead of 1024
	hqFTwoBuckets    // 88 arbitrary bytes
	hqFMinusOne      // right size minus one byte
	hqFPlusOneBucket // 1025 buckets
	hqFGood          // the filter of an empty DAG
	hqFKinds
)

func hqFilter(kind int) []byte {
	good, _ := tree.NewIblt(dag.IbltNumBuckets).MarshalBinary()
	switch kind {
	case hqFAbsent:
		return nil
	case hqFEmpty:
		return []byte{}
	case hqFOneByte:
		return vBytes(1)
	case hqFShortBucket:
		return vBytes(43)
	case hqFOneBucket:
		return vBytes(44)
	case hqFTwoBuckets:
		return vBytes(88)
	case hqFMinusOne:
		return good[1:]
	case hqFPlusOneBucket:
		return append(good, make([]byte, 44)...)
	}
	return good
}

func H19qc() {
	st := &hState{xor: hHash(1), clock: vU32()}
	e := hqProto(st)
	reqLC := vU32()
	var askCID []byte
	open := vChoice(2) == 1
	if open {
		vAssert(e.p.sender.sendState(e.conn, st.xor, reqLC) == nil && len(e.conn.sent) == 1, "H19qc.state_sent: State request not sent")
		askCID = e.conn.sent[0].GetState().ConversationID
		e.conn.sent = nil
	}
	cid := hqCid(vParam("cidc", 6)) // the open id has 5 bytes (own parameter name: parameters are shared by the entries of one run)
	kind := vChoice(hqFKinds)
	msg := &TransactionSet{ConversationID: cid, LCReq: vU32(), LC: vU32(), IBLT: hqFilter(kind)}
	ret, herr, handled := e.deliver(&Envelope{Message: &Envelope_TransactionSet{TransactionSet: msg}})
	vAssert(ret == nil && handled, "H19qc.dispatched: TransactionSet did not reach its handler")
	e.stateUntouched("H19qc")
	e.onlyQueries("H19qc")
	solicited := open && string(cid) == string(askCID) && msg.LCReq == reqLC
	if !solicited {
		vCover("unsolicited")
		vAssert(herr != nil && len(e.conn.sent) == 0 && len(st.ibltReqs) == 0, "H19qc.unsolicited_ignored: a TransactionSet that answers no State request was processed")
		if open {
			vAssert(e.p.cMan.conversations[string(askCID)] != nil, "H19qc.unsolicited_keeps_conversation: an unsolicited TransactionSet closed the open conversation")
		}
		return
	}
	if kind != hqFGood {
		vCover("malformed-filter")
		vAssert(herr != nil && len(e.conn.sent) == 0, "H19qc.malformed_filter_rejected: a filter of the wrong size was not rejected")
		return
	}
	vCover("wellformed-filter")
	vAssert(herr == nil && len(e.conn.sent) <= 1, "H19qc.wellformed_filter_accepted: the filter of an empty DAG was rejected or answered more than once")
}

func H19qc_twin() {
	st := &hState{xor: hHash(1), clock: vU32()}
	e := hqProto(st)
	_ = e.p.sender.sendState(e.conn, st.xor, 5)
	cid := e.conn.sent[0].GetState().ConversationID
	msg := &TransactionSet{ConversationID: cid, LCReq: vU32(), LC: vU32(), IBLT: hqFilter(hqFGood)}
	_, herr, _ := e.deliver(&Envelope{Message: &Envelope_TransactionSet{TransactionSet: msg}})
	if herr == nil && len(e.conn.sent) == 2 && e.conn.sent[1].GetTransactionRangeQuery() != nil {
		vAssert(false, "H19qc_twin.reach: reachable")
	}
}

// ---------------------------------------------------------------------------------------------
// H19qd TransactionListQuery
// ---------------------------------------------------------------------------------------------

// hqStored: transaction 0 is public, transaction 1 private; both payloads are in the store.
func hqStored(st *hState) {
	for i := 0; i < 2; i++ {
		tx := &hTx{ref: hHash(2), payloadHash: hash.SHA256Hash{byte(i + 1)}, data: []byte{byte(i), 0}, clock: vU32()}
		if i == 1 {
			tx.pal = [][]byte{{1}}
		}
		st.txs = append(st.txs, tx)
		st.payloads = append(st.payloads, hPayload{hash: tx.payloadHash, data: []byte{byte(0x80 + i)}})
	}
	vAssume(st.txs[0].ref != st.txs[1].ref)
}

// hqCheckList: every answer is a TransactionList of the asked conversation whose elements are stored transactions
// selected by the predicate; a private transaction is listed without payload, a public one with its stored payload.
func (e *hqEnv) checkList(id string, cid []byte, asked func(t *hTx) bool) (listed int) {
	for _, m := range e.conn.sent {
		l := m.GetTransactionList()
		vAssert(l != nil, id+".answer_type: answer is not a TransactionList")
		if l == nil {
			continue
		}
		vAssert(string(l.ConversationID) == string(cid), id+".answer_conversation: answer does not carry the conversation id of the query")
		for _, ntx := range l.Transactions {
			listed++
			vAssert(len(ntx.Data) == 2 && int(ntx.Data[0]) < len(e.st.txs), id+".element_is_stored_tx: list element is not a stored transaction")
			t := e.st.txs[int(ntx.Data[0])]
			vAssert(asked(t), id+".element_was_asked: a transaction was listed that the query does not select")
			if len(t.pal) > 0 {
				vCover("private-element")
				vAssert(len(ntx.Payload) == 0, id+".private_payload_not_listed: a private transaction is listed with a payload")
			} else {
				vCover("public-element")
				vAssert(len(ntx.Payload) == 1 && ntx.Payload[0] == 0x80+ntx.Data[0], id+".public_payload_listed: public transaction listed without its stored payload")
			}
		}
	}
	return
}

func hqListQuery(every bool) (*hqEnv, *TransactionListQuery) {
	st := &hState{}
	hqStored(st)
	e := hqProto(st)
	focus := -1
	if every {
		focus = vChoice(2)
	}
	msg := &TransactionListQuery{ConversationID: hqCid(vParam("cid", 2))}
	n := vLen(0, 2)
	for i := 0; i < n; i++ {
		msg.Refs = append(msg.Refs, hqBytes(focus == i, true))
	}
	return e, msg
}

func H19qd() {
	e, msg := hqListQuery(vParam("every", 0) == 1)
	ret, herr, handled := e.deliver(&Envelope{Message: &Envelope_TransactionListQuery{TransactionListQuery: msg}})
	vAssert(ret == nil && handled, "H19qd.dispatched: TransactionListQuery did not reach its handler")
	e.stateUntouched("H19qd")
	if herr != nil {
		vAssert(len(e.conn.sent) == 0, "H19qd.rejected_is_silent: list query rejected but a message was sent")
	}
	listed := e.checkList("H19qd", msg.ConversationID, func(t *hTx) bool {
		sel := false
		for _, r := range msg.Refs {
			sel = sel || hash.FromSlice(r) == t.ref
		}
		return sel
	})
	vAssert(listed <= len(msg.Refs), "H19qd.no_amplification: more transactions listed than references asked")
	if len(msg.Refs) == 0 {
		vCover("no-refs")
		vAssert(len(e.conn.sent) == 0, "H19qd.no_refs_silent: a query without references was answered")
	}
	if listed == 0 {
		vCover("nothing-listed")
	}
}

func H19qd_twin() {
	e, msg := hqListQuery(false)
	_, _, _ = e.deliver(&Envelope{Message: &Envelope_TransactionListQuery{TransactionListQuery: msg}})
	if len(e.conn.sent) == 1 && len(e.conn.sent[0].GetTransactionList().Transactions) == 2 && len(msg.Refs[0]) == 32 {
		vAssert(false, "H19qd_twin.reach: reachable")
	}
}

// ---------------------------------------------------------------------------------------------
// H19qe TransactionRangeQuery
// ---------------------------------------------------------------------------------------------

func H19qe() {
	st := &hState{}
	hqStored(st)
	e := hqProto(st)
	msg := &TransactionRangeQuery{ConversationID: hqCid(vParam("cid", 2)), Start: vU32(), End: vU32()}
	ret, herr, handled := e.deliver(&Envelope{Message: &Envelope_TransactionRangeQuery{TransactionRangeQuery: msg}})
	vAssert(ret == nil && handled, "H19qe.dispatched: TransactionRangeQuery did not reach its handler")
	e.stateUntouched("H19qe")
	if herr != nil {
		vCover("rejected")
		vAssert(len(e.conn.sent) == 0, "H19qe.rejected_is_silent: range query rejected but a message was sent")
	}
	if msg.Start >= msg.End {
		vCover("empty-range")
		vAssert(herr != nil && len(st.ranges) == 0, "H19qe.empty_range_rejected: empty or reversed range not rejected")
	}
	listed := e.checkList("H19qe", msg.ConversationID, func(t *hTx) bool { return t.clock >= msg.Start && t.clock < msg.End })
	if listed > 0 {
		vCover("answered")
	}
}

func H19qe_twin() {
	st := &hState{}
	hqStored(st)
	e := hqProto(st)
	msg := &TransactionRangeQuery{ConversationID: hqCid(1), Start: vU32(), End: vU32()}
	_, _, _ = e.deliver(&Envelope{Message: &Envelope_TransactionRangeQuery{TransactionRangeQuery: msg}})
	if len(e.conn.sent) == 1 && len(e.conn.sent[0].GetTransactionList().Transactions) == 2 && msg.Start == 4000000000 {
		vAssert(false, "H19qe_twin.reach: reachable")
	}
}

// ---------------------------------------------------------------------------------------------
// H19qf TransactionPayloadQuery
// ---------------------------------------------------------------------------------------------

func hqPayloadQuery(every bool) (*hqEnv, *TransactionPayloadQuery, *hTx) {
	tx := &hTx{ref: hHash(2), payloadHash: hash.SHA256Hash{1}}
	if vChoice(2) == 1 {
		tx.pal = [][]byte{{1}}
	}
	st := &hState{txs: []*hTx{tx}, payloads: []hPayload{{hash: tx.payloadHash, data: []byte{0x80}}}}
	e := hqProto(st)
	// the peer: anonymous, or authenticated as some node; this node has no node DID, so it can never establish that
	// a peer is a participant of a private transaction
	if vChoice(2) == 1 {
		e.conn.peer.NodeDID = hqDID()
		e.conn.peer.Authenticated = true
	}
	msg := &TransactionPayloadQuery{ConversationID: hqCid(vParam("cid", 2)), TransactionRef: hqBytes(every, false)}
	return e, msg, tx
}

func H19qf() {
	e, msg, tx := hqPayloadQuery(vParam("every", 0) == 1)
	ret, herr, handled := e.deliver(&Envelope{Message: &Envelope_TransactionPayloadQuery{TransactionPayloadQuery: msg}})
	vAssert(ret == nil && handled, "H19qf.dispatched: TransactionPayloadQuery did not reach its handler")
	e.stateUntouched("H19qf")
	vAssert(len(e.conn.sent) <= 1, "H19qf.at_most_one_answer: more than one answer to a payload query")
	if herr != nil {
		vAssert(len(e.conn.sent) == 0, "H19qf.rejected_is_silent: payload query rejected but a message was sent")
	}
	for _, m := range e.conn.sent {
		a := m.GetTransactionPayload()
		vAssert(a != nil, "H19qf.answer_type: answer to a payload query is not a TransactionPayload")
		if a == nil {
			continue
		}
		vAssert(string(a.TransactionRef) == string(msg.TransactionRef), "H19qf.answer_echoes_ref: answer does not echo the queried reference bytes")
		if len(a.Data) > 0 {
			vCover("payload-sent")
			vAssert(hash.FromSlice(msg.TransactionRef) == tx.ref, "H19qf.payload_of_queried_tx: payload sent for a reference that does not denote the stored transaction")
			vAssert(len(tx.pal) == 0, "H19qf.private_payload_withheld: private payload sent by a node that cannot decrypt the participant list")
			vAssert(len(a.Data) == 1 && a.Data[0] == 0x80, "H19qf.payload_is_stored_payload: data sent is not the stored payload")
		} else {
			vCover("empty-answer")
		}
	}
}

func H19qf_twin() {
	e, msg, tx := hqPayloadQuery(false)
	_, _, _ = e.deliver(&Envelope{Message: &Envelope_TransactionPayloadQuery{TransactionPayloadQuery: msg}})
	if len(e.conn.sent) == 1 && len(e.conn.sent[0].GetTransactionPayload().Data) == 1 && len(msg.TransactionRef) == 32 && tx.ref[1] == 9 {
		vAssert(false, "H19qf_twin.reach: reachable")
	}
}

// ---------------------------------------------------------------------------------------------
// H19qg TransactionPayload
// ---------------------------------------------------------------------------------------------

// hqPayloads: the data field of the message (concrete, because it is hashed): absent, empty, the payload the
// stored transaction commits to, another payload of the same length, a longer one.
var hqPayloads = [][]byte{nil, {}, {7}, {8}, {7, 0}}

func hqPayloadMsg(every bool) (*hqEnv, *TransactionPayload, *hTx, int) {
	tx := &hTx{ref: hHash(2), payloadHash: hash.SHA256Sum([]byte{7})}
	if vChoice(2) == 1 {
		tx.pal = [][]byte{{1}}
	}
	st := &hState{txs: []*hTx{tx}}
	e := hqProto(st)
	d := vChoice(len(hqPayloads))
	msg := &TransactionPayload{ConversationID: hqCid(vParam("cid", 2)), TransactionRef: hqSparseRef(every), Data: hqPayloads[d]}
	return e, msg, tx, d
}

func H19qg() {
	e, msg, tx, d := hqPayloadMsg(vParam("every", 0) == 1)
	ret, herr, handled := e.deliver(&Envelope{Message: &Envelope_TransactionPayload{TransactionPayload: msg}})
	vAssert(ret == nil && handled, "H19qg.dispatched: TransactionPayload did not reach its handler")
	vAssert(len(e.conn.sent) == 0, "H19qg.no_answer: a received payload was answered with a message")
	vAssert(len(e.st.adds) == 0 && len(e.st.writes) <= 1, "H19qg.at_most_one_write: more than one payload written, or a transaction added")
	// a reference denotes a transaction only if it is a reference: exactly 32 bytes (F-38: shorter and longer fields
	// used to be padded / truncated onto a stored transaction)
	denotes := len(msg.TransactionRef) == hash.SHA256HashSize && hash.FromSlice(msg.TransactionRef) == tx.ref && !tx.ref.Empty()
	if herr != nil {
		vCover("rejected")
		vAssert(len(e.st.writes) == 0 && len(e.jobs.finished) == 0, "H19qg.rejected_leaves_state: payload rejected but stored state changed")
	}
	for _, w := range e.st.writes {
		vCover("written")
		vAssert(denotes && w.tx == dag.Transaction(tx), "H19qg.write_for_denoted_tx: payload stored for a transaction the reference does not denote")
		vAssert(d == 2 && w.hash == tx.payloadHash && len(w.data) == 1 && w.data[0] == 7, "H19qg.write_matches_hash: stored bytes are not the payload the transaction commits to")
	}
	if !denotes || d != 2 {
		vCover("malformed-or-mismatching")
		vAssert(herr != nil, "H19qg.mismatch_rejected: a payload message without reference, without data, for an unknown transaction or with the wrong hash was not rejected")
	} else {
		vAssert(herr == nil && len(e.st.writes) == 1 && len(e.jobs.finished) == 1, "H19qg.matching_stored: the matching payload of a stored transaction was not stored")
	}
}

func H19qg_twin() {
	tx := &hTx{ref: hHash(2), payloadHash: hash.SHA256Sum([]byte{7})}
	e := hqProto(&hState{txs: []*hTx{tx}})
	msg := &TransactionPayload{TransactionRef: hqSparseRef(false), Data: []byte{7}}
	_, herr, _ := e.deliver(&Envelope{Message: &Envelope_TransactionPayload{TransactionPayload: msg}})
	if herr == nil && len(e.st.writes) == 1 && len(msg.TransactionRef) == 32 && len(e.jobs.finished) == 1 {
		vAssert(false, "H19qg_twin.reach: reachable")
	}
}

// ---------------------------------------------------------------------------------------------
// H19qh TransactionList (through the real channel of the list handler)
// ---------------------------------------------------------------------------------------------

func hqListMsg(maxTx, maxData int) (e *hqEnv, msg *TransactionList, open int, askCID []byte) {
	st := &hState{xor: hHash(1), clock: vU32()}
	e = hqProto(st)
	// the transactions a peer can send (what parses): 0 public, 1 private
	for i := 0; i < 2; i++ {
		tx := &hTx{ref: hash.SHA256Hash{byte(i + 1)}, data: []byte{byte(i), 0}, clock: vU32()}
		if i == 1 {
			tx.pal = [][]byte{{1}}
		}
		hParseTable = append(hParseTable, tx)
	}
	// what we asked this peer before: nothing, a range, or transaction 0 by reference
	open = vChoice(3)
	switch open {
	case 1:
		_ = e.p.sender.sendTransactionRangeQuery(e.conn, vU32(), vU32())
	case 2:
		_ = e.p.sender.sendTransactionListQuery(e.conn, []hash.SHA256Hash{{1}})
	}
	var cid []byte
	if open != 0 {
		if q := e.conn.sent[0].GetTransactionRangeQuery(); q != nil {
			askCID = q.ConversationID
		} else {
			askCID = e.conn.sent[0].GetTransactionListQuery().ConversationID
		}
		e.conn.sent = nil
		// absent, the length of the open id (any content), one longer
		switch vChoice(3) {
		case 1:
			cid = vBytes(len(askCID))
		case 2:
			cid = vBytes(len(askCID) + 1)
		}
	} else {
		cid = hqCid(2)
	}
	msg = &TransactionList{ConversationID: cid, TotalMessages: vU32(), MessageNumber: vU32()}
	n := vLen(0, maxTx)
	for i := 0; i < n; i++ {
		t := &Transaction{}
		if dl := vLen(0, maxData); dl > 0 {
			t.Data = vBytes(dl)
		}
		if vChoice(2) == 1 {
			t.Payload = []byte{vU8()}
		}
		msg.Transactions = append(msg.Transactions, t)
	}
	return
}

func H19qh() {
	e, msg, open, askCID := hqListMsg(vParam("ntx", 2), vParam("ndata", 3))
	ret, herr, handled := e.deliver(&Envelope{Message: &Envelope_TransactionList{TransactionList: msg}})
	vAssert(ret == nil && handled, "H19qh.dispatched: TransactionList was not queued for the list handler")
	vAssert(len(e.st.writes) == 0 && len(e.jobs.finished) == 0 && len(e.conn.sent) == 0, "H19qh.no_side_effects: a TransactionList caused a payload write or a message")
	// reference: which elements are transactions at all
	var parsed []*hTx
	allParse := true
	for _, t := range msg.Transactions {
		if len(t.Data) == 2 && t.Data[0] < 2 && t.Data[1] == 0 {
			parsed = append(parsed, hParseTable[int(t.Data[0])])
		} else {
			allParse = false
		}
	}
	// whatever was added is a prefix of the message, in order, with the payload it came with
	vAssert(len(e.st.adds) <= len(msg.Transactions), "H19qh.adds_from_message: more transactions added than received")
	for i, a := range e.st.adds {
		if i < len(parsed) {
			vAssert(a == dag.Transaction(parsed[i]) && string(e.st.addPayloads[i]) == string(msg.Transactions[i].Payload), "H19qh.adds_from_message: an added transaction is not the received one with its received payload")
			vAssert(len(parsed[i].pal) > 0 || len(msg.Transactions[i].Payload) > 0, "H19qh.public_needs_payload: public transaction added without payload")
		}
	}
	solicited := open != 0 && string(msg.ConversationID) == string(askCID)
	if !solicited {
		vCover("unsolicited")
		vAssert(herr != nil && len(e.st.adds) == 0, "H19qh.unsolicited_adds_nothing: an unsolicited transaction list was processed")
		if open != 0 {
			vAssert(e.p.cMan.conversations[string(askCID)] != nil, "H19qh.unsolicited_keeps_conversation: an unsolicited list closed the open conversation")
		}
		return
	}
	if !allParse {
		vCover("unparseable-element")
		vAssert(herr != nil && len(e.st.adds) == 0, "H19qh.malformed_list_adds_nothing: a list with an element that is not a transaction changed the DAG")
		return
	}
	if herr != nil {
		vCover("rejected")
	} else {
		vCover("accepted")
		vAssert(len(e.st.adds) == len(msg.Transactions), "H19qh.accepted_adds_all: list accepted but not every transaction added")
		vAssert((e.p.cMan.conversations[string(askCID)] == nil) == (msg.MessageNumber >= msg.TotalMessages), "H19qh.conversation_closed_on_last_message: conversation not closed exactly on the last message")
	}
	if open == 2 {
		// we asked for transaction 0 only
		for _, t := range parsed {
			if t != hParseTable[0] {
				vCover("not-requested")
				vAssert(herr != nil && len(e.st.adds) == 0, "H19qh.not_requested_adds_nothing: a list with a transaction that was not requested changed the DAG")
			}
		}
	}
}

func H19qh_twin() {
	e, msg, open, _ := hqListMsg(2, 2)
	_, herr, _ := e.deliver(&Envelope{Message: &Envelope_TransactionList{TransactionList: msg}})
	if herr == nil && open == 1 && len(e.st.adds) == 2 && e.st.adds[0] == dag.Transaction(hParseTable[1]) && msg.MessageNumber == 3 {
		vAssert(false, "H19qh_twin.reach: reachable")
	}
}

// ---------------------------------------------------------------------------------------------
// H19qi DiagnosticsBroadcast
// ---------------------------------------------------------------------------------------------

func hqStr(max int) string {
	n := vLen(0, max)
	if n == 0 {
		return ""
	}
	return vString(n)
}

func hqDiag() (*hqEnv, *Diagnostics) {
	e := hqProto(&hState{})
	sl := vParam("strlen", 2)
	msg := &Diagnostics{Uptime: vU32(), PeerID: hqStr(sl), NumberOfTransactions: vU32(), SoftwareVersion: hqStr(sl), SoftwareID: hqStr(sl)}
	n := vLen(0, 2)
	for i := 0; i < n; i++ {
		msg.Peers = append(msg.Peers, hqStr(sl))
	}
	return e, msg
}

func H19qi() {
	e, msg := hqDiag()
	ret, herr, handled := e.deliver(&Envelope{Message: &Envelope_DiagnosticsBroadcast{DiagnosticsBroadcast: msg}})
	vAssert(ret == nil && handled && herr == nil, "H19qi.dispatched: diagnostics did not reach their handler")
	e.stateUntouched("H19qi")
	vAssert(len(e.conn.sent) == 0, "H19qi.silent: diagnostics answered")
	got := e.p.diagnosticsMan.get()
	vAssert(len(got) == 1, "H19qi.recorded_for_sender: diagnostics not recorded for exactly the sending peer")
	d, ok := got[e.conn.peer.ID]
	vAssert(ok && d.NumberOfTransactions == msg.NumberOfTransactions && len(d.Peers) == len(msg.Peers), "H19qi.recorded_for_sender: diagnostics not recorded for exactly the sending peer")
	vAssert(d.Uptime >= 0 && (d.Uptime > 0) == (msg.Uptime > 0), "H19qi.uptime_in_range: uptime of 0..2^32-1 seconds became negative or lost")
	if len(msg.Peers) == 2 {
		vCover("two-peers")
	}
}

func H19qi_twin() {
	e, msg := hqDiag()
	_, _, _ = e.deliver(&Envelope{Message: &Envelope_DiagnosticsBroadcast{DiagnosticsBroadcast: msg}})
	if d := e.p.diagnosticsMan.get()[e.conn.peer.ID]; len(d.Peers) == 2 && d.Peers[1] == "zz" && msg.Uptime == 4294967295 {
		vAssert(false, "H19qi_twin.reach: reachable")
	}
}

// ---------------------------------------------------------------------------------------------
// H19qr references and digests of the wrong length (reported as a finding on the unchanged tree)
// ---------------------------------------------------------------------------------------------

// A transaction reference / XOR digest is a SHA-256 value: 32 bytes (RFC017). A field of any other length is
// malformed input; C19: "malformed input is rejected with an error and leaves stored state unchanged". The
// handlers convert with hash.FromSlice, which pads a short field with zero bytes and cuts a long one: the
// malformed field then denotes a different, valid reference. The harness states the property per handler: a
// message whose reference field is not 32 bytes long is not acted upon (no payload stored, no payload or
// transaction sent, no request derived from it, not taken as proof of being in sync).
func H19qr() {
	vClass("reference field that is not 32 bytes")
	kind := vChoice(4)
	ref := hqSparseRef(false)
	vAssume(len(ref) != 32)
	tx := &hTx{ref: hHash(2), payloadHash: hash.SHA256Sum([]byte{7}), data: []byte{0, 0}}
	vAssume(tx.ref[0] != 0) // a stored transaction does not have the zero reference
	st := &hState{txs: []*hTx{tx}, payloads: []hPayload{{hash: tx.payloadHash, data: []byte{7}}}, xor: tx.ref}
	e := hqProto(st)
	switch kind {
	case 0:
		vCover("payload")
		_, herr, _ := e.deliver(&Envelope{Message: &Envelope_TransactionPayload{TransactionPayload: &TransactionPayload{TransactionRef: ref, Data: []byte{7}}}})
		vAssert(len(st.writes) == 0, "H19qr.payload_ref_length: a payload was stored for a reference field that is not 32 bytes")
		vAssert(herr != nil, "H19qr.payload_ref_rejected: a payload message with a reference field that is not 32 bytes was not rejected")
	case 1:
		vCover("payload-query")
		_, _, _ = e.deliver(&Envelope{Message: &Envelope_TransactionPayloadQuery{TransactionPayloadQuery: &TransactionPayloadQuery{TransactionRef: ref}}})
		for _, m := range e.conn.sent {
			vAssert(len(m.GetTransactionPayload().GetData()) == 0, "H19qr.payload_query_ref_length: a payload was sent for a reference field that is not 32 bytes")
		}
	case 2:
		vCover("list-query")
		_, _, _ = e.deliver(&Envelope{Message: &Envelope_TransactionListQuery{TransactionListQuery: &TransactionListQuery{Refs: [][]byte{ref}}}})
		for _, m := range e.conn.sent {
			vAssert(len(m.GetTransactionList().GetTransactions()) == 0, "H19qr.list_query_ref_length: a transaction was sent for a reference field that is not 32 bytes")
		}
	case 3:
		vCover("gossip")
		// a well-formed reference next to a digest of the wrong length
		_, _, _ = e.deliver(&Envelope{Message: &Envelope_Gossip{Gossip: &Gossip{XOR: ref, LC: vU32(), Transactions: [][]byte{make([]byte, 32)}}}})
		vAssert(st.correct == 0, "H19qr.gossip_xor_length: a digest field that is not 32 bytes was taken as proof of being in sync")
		vAssert(len(e.conn.sent) == 0 && len(e.g.received) == 0, "H19qr.gossip_xor_rejected: a Gossip with a digest field that is not 32 bytes was acted upon")
	}
}

func H19qr_twin() {
	tx := &hTx{ref: hHash(2), payloadHash: hash.SHA256Sum([]byte{7})}
	e := hqProto(&hState{txs: []*hTx{tx}})
	ref := hqSparseRef(false)
	_, herr, _ := e.deliver(&Envelope{Message: &Envelope_TransactionPayload{TransactionPayload: &TransactionPayload{TransactionRef: ref, Data: []byte{7}}}})
	if herr != nil && len(ref) == 33 {
		vAssert(false, "H19qr_twin.reach: reachable")
	}
}
