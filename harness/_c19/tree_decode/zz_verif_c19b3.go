//go:build verif

package tree

import (
	"github.com/nuts-foundation/nuts-node/crypto/hash"
)

//verif:stub (*github.com/nuts-foundation/nuts-node/network/dag/tree.Iblt).bucketIndices => hBucketIndices12

// hBucketIndices12 replaces the murmur3-driven choice of k=6 distinct buckets by a fixed assignment for a
// 12-bucket table: keys whose hash is even use the even buckets, the others the odd buckets (two disjoint
// index sets, as two real keys frequently have). It also counts how often Decode peels a key.
var hPeels int

func hBucketIndices12(i *Iblt, h uint64) []uint32 {
	hPeels++
	vAssert(hPeels <= 64, "H19b3.decode_terminates: Decode keeps peeling keys from a crafted filter (does not terminate)")
	if h%2 == 0 {
		return []uint32{0, 2, 4, 6, 8, 10}
	}
	return []uint32{1, 3, 5, 7, 9, 11}
}

// hKeyWithParity returns a concrete key (real murmur3 hash) whose hash has the requested parity.
func hKeyWithParity(f *Iblt, parity uint64, tag byte) (hash.SHA256Hash, uint64) {
	var k hash.SHA256Hash
	k[1] = tag
	for b := 0; b < 256; b++ {
		k[0] = byte(b)
		if kh := f.hashKey(k); kh%2 == parity {
			return k, kh
		}
	}
	panic("no key with the requested hash parity")
}

// H19b3: Decode of a crafted (inconsistent) filter terminates. The filter is what a hostile peer can send:
// two keys, each inserted into an arbitrary subset of its six buckets (so bucket counts and sums are
// mutually inconsistent), in a 12-bucket table. The keys are concrete (real hashes); the 4096 subsets are
// the symbolic input.
func H19b3() {
	hPeels = 0
	f := NewIblt(12)
	for k := 0; k < 2; k++ {
		key, kh := hKeyWithParity(f, uint64(k), byte(k+1))
		for _, idx := range []uint32{0, 2, 4, 6, 8, 10} {
			if vBool() {
				f.buckets[idx+uint32(k)].insert(key, kh)
			}
		}
	}
	hPeels = 0
	_, _, err := f.Decode()
	if err == nil {
		vCover("decoded")
		vAssert(f.Empty(), "H19b3.decode_ok_means_empty: Decode returned no error but the table is not empty")
	} else {
		vCover("rejected")
	}
}

func H19b3_twin() {
	hPeels = 0
	f := NewIblt(12)
	k, kh := hKeyWithParity(f, 0, 1)
	if vBool() {
		f.buckets[2].insert(k, kh)
	}
	if _, _, err := f.Decode(); err == ErrDecodeLoop {
		vAssert(false, "H19b3_twin.reach: reachable")
	}
}

// H19b4: the other way a hostile peer can make a filter inconsistent: a key sits, pure, in a bucket that is NOT
// one of its own six buckets (so deleting the key never touches that bucket and it stays pure pass after pass),
// while the key's own buckets hold other material. Key A (even hash) is placed in one odd bucket (every choice);
// its own even buckets hold key D everywhere and key C in an arbitrary subset (64 subsets). Decode must end
// (ErrDecodeLoop or ErrDecodeNotPossible or success), never keep peeling.
func H19b4() {
	hPeels = 0
	f := NewIblt(12)
	a, ah := hKeyWithParity(f, 0, 1)
	c, ch := hKeyWithParity(f, 0, 2)
	d, dh := hKeyWithParity(f, 0, 3)
	vTag("foreign_bucket")
	j := uint32(2*vChoice(6) + 1)
	f.buckets[j].insert(a, ah)
	for _, idx := range []uint32{0, 2, 4, 6, 8, 10} {
		f.buckets[idx].insert(d, dh)
		vTag("garbage")
		if vBool() {
			f.buckets[idx].insert(c, ch)
		}
	}
	hPeels = 0
	_, _, err := f.Decode()
	if err == nil {
		vCover("decoded")
		vAssert(f.Empty(), "H19b4.decode_ok_means_empty: Decode returned no error but the table is not empty")
	} else {
		vCover("rejected")
	}
}

func H19b4_twin() {
	hPeels = 0
	f := NewIblt(12)
	a, ah := hKeyWithParity(f, 0, 1)
	d, dh := hKeyWithParity(f, 0, 3)
	f.buckets[uint32(2*vChoice(6)+1)].insert(a, ah)
	for _, idx := range []uint32{0, 2, 4, 6, 8, 10} {
		f.buckets[idx].insert(d, dh)
	}
	if _, _, err := f.Decode(); err == ErrDecodeLoop {
		vAssert(false, "H19b4_twin.reach: reachable")
	}
}
